(* C03 — parse_marker(text).evaluate(env) = packaging's Marker(text).evaluate(env).
   packaging evaluates the parsed tree by `_evaluate_markers`: or-separated groups of
   and-joined items, any(all(group)).  pkg_eval below is that function, verbatim, over the
   tree packaging's parser produced (the tree is passed to the model as it is: ptree).
   C03_parse: whatever rewriting _build_markers performs (operand reflection is done by the
   harness when it builds the tree, as the code does; merging through &, MarkerUnion.of,
   cnf/dnf, union_simplify ...) the resulting marker evaluates, in every environment,
   exactly as pkg_eval evaluates the tree - PROVIDED atoms evaluate alike, which is the
   parameter atom_eval of the model: string variables, extras and reversed operands are
   modelled (MCEval correspondence cases), version-like atoms are a table of the
   environment; both are compared with packaging by the direct oracle of this property.
   Hypotheses as in C02: every fuel, every set order, every sound version-atom merge. *)
From Coq Require Import List Bool NArith Arith String Lia Permutation.
From Verif Require Import PyRes Str Marker MarkerBase MarkerSingle MarkerOf MarkerSound CorrMarker C02.
Import ListNotations.

Local Opaque FUEL.

(* packaging.markers._evaluate_markers *)
Definition push_last (groups : list (list bool)) (b : bool) : list (list bool) :=
  match rev groups with
  | g :: pre => rev pre ++ [g ++ [b]]
  | [] => []                                      (* groups[-1] on an empty list: unreachable, groups starts as [[]] *)
  end.
Definition pkg_groups_ (ev : ptree -> bool) := fix go (items : list pitem) (groups : list (list bool)) : list (list bool) :=
  match items with
  | [] => groups
  | PSub s :: r => go r (push_last groups (ev s))
  | POr :: r => go r (groups ++ [[]])
  | PAnd :: r => go r groups
  end.
Fixpoint pkg_eval (e : menv) (t : ptree) : bool :=
  match t with
  | PAtom a => atom_eval e a
  | PList items => existsb (forallb (fun b => b)) (pkg_groups_ (pkg_eval e) items [[]])
  end.

Lemma forallb_id_app a b : forallb (fun x : bool => x) (a ++ [b]) = forallb (fun x => x) a && b.
Proof. rewrite forallb_app. cbn. rewrite andb_true_r. reflexivity. Qed.

Lemma pkg_groups_pev (ev : ptree -> bool) items : forall pre g,
  existsb (forallb (fun b => b)) (pkg_groups_ ev items (pre ++ [g]))
  = existsb (forallb (fun b => b)) pre || pev_ ev items (forallb (fun b => b) g).
Proof.
  induction items as [|[| |s] r IH]; intros pre g; cbn [pkg_groups_ pev_].
  - rewrite existsb_app. cbn. rewrite orb_false_r. reflexivity.
  - apply IH.
  - rewrite (IH (pre ++ [g]) []), existsb_app. cbn. rewrite orb_false_r, orb_assoc. reflexivity.
  - unfold push_last. rewrite rev_app_distr. cbn [rev app]. rewrite rev_involutive, IH, forallb_id_app. reflexivity.
Qed.

Lemma pkg_eval_peval e t : pkg_eval e t = peval e t.
Proof.
  revert t. fix IH 1. intros [a|items]; [reflexivity|]. cbn [pkg_eval peval].
  pose proof (pkg_groups_pev (pkg_eval e) items [] []) as Hg. cbn [app] in Hg. rewrite Hg. clear Hg. cbn [existsb forallb orb].
  generalize true. induction items as [|[| |s] r IHr]; intros c; cbn [pev_]; try reflexivity.
  - apply IHr.
  - rewrite IHr. reflexivity.
  - rewrite IH. apply IHr.
Qed.

Section C03.
  Variable vmerge : bool -> atom -> atom -> option marker.
  Variable perm : list marker -> list marker.
  Variable good : menv -> Prop.
  Hypothesis vmerge_sound : forall k a b r, vmerge k a b = Some r ->
    wf r = true /\ forall e, good e -> meval e r = bop k (atom_eval e a) (atom_eval e b).
  Hypothesis perm_perm : forall l, Permutation (perm l) l.

  Theorem C03_parse fuel t r :
    build vmerge perm fuel t = Ret r -> pwf t = true ->
    forall e, good e -> meval e r = pkg_eval e t.
  Proof.
    intros H W e G. rewrite pkg_eval_peval.
    exact (proj2 (C02_parse vmerge perm good vmerge_sound perm_perm fuel t r H W) e G).
  Qed.
End C03.

(* non-vacuity: os_name == "a" or (os_name == "b" and sys_platform != "c"): the model builds it and it evaluates as packaging's fold *)
Definition no_vm (k : bool) (a b : atom) : option marker := None.
Definition ex_tree : ptree :=
  PList [PSub (PAtom (mkAtom (of_string "os_name") MEq (of_string "a") false)); POr;
         PSub (PList [PSub (PAtom (mkAtom (of_string "os_name") MEq (of_string "b") false)); PAnd;
                      PSub (PAtom (mkAtom (of_string "sys_platform") MNe (of_string "c") false))])].
Example C03_runs : exists r, build no_vm (fun l => l) 8 ex_tree = Ret r /\ pwf ex_tree = true.
Proof. eexists. split; vm_compute; reflexivity. Qed.

Definition C03_all := (C03_parse, pkg_eval_peval).
Redirect "C03.assumptions" Print Assumptions C03_all.
