(* C14 (specifier part) — the Boolean-algebra laws hold as `==` of the returned objects.
   Each law is an instance of SpecExpr.law: both sides evaluate (generated operators)
   to canonical values, and canonical values with the same members are `==`. *)
From Coq Require Import List Bool NArith ZArith Orders.
From Verif Require Import PyRes Order Cuts Str SpecTypes GenSpec SpecSem SpecOps SpecEq SpecExpr Pep440.
Import ListNotations.

Module C14_Abstract (V : OrderedTypeFull').
  Module X := SpecExpr V.
  Import X.

  Definition A := SVar 0. Definition B := SVar 1. Definition C_ := SVar 2.
  Definition env3 (a b c : spec) (n : nat) : spec := match n with 0 => a | 1 => b | _ => c end.

  Definition holds (lhs rhs : sexpr) : Prop :=
    forall a b c, canon a -> canon b -> canon c ->
      exists x y, eval (env3 a b c) lhs = Ret x /\ eval (env3 a b c) rhs = Ret y
                  /\ canon x /\ canon y /\ spec_eq x y = Ret true.

  Lemma by_bool lhs rhs : (forall benv, bdenote benv lhs = bdenote benv rhs) -> holds lhs rhs.
  Proof.
    intros H a b c Ca Cb Cc. apply law; [|exact H].
    intros [|[|n]]; cbn; assumption.
  Qed.

  Ltac bool_law := apply by_bool; intros benv; cbn;
    destruct (benv 0), (benv 1), (benv 2); reflexivity.

  Theorem C14_and_comm : holds (SAnd A B) (SAnd B A). Proof. bool_law. Qed.
  Theorem C14_or_comm : holds (SOr A B) (SOr B A). Proof. bool_law. Qed.
  Theorem C14_and_assoc : holds (SAnd (SAnd A B) C_) (SAnd A (SAnd B C_)). Proof. bool_law. Qed.
  Theorem C14_or_assoc : holds (SOr (SOr A B) C_) (SOr A (SOr B C_)). Proof. bool_law. Qed.
  Theorem C14_and_idem : holds (SAnd A A) A. Proof. bool_law. Qed.
  Theorem C14_or_idem : holds (SOr A A) A. Proof. bool_law. Qed.
  Theorem C14_absorb_1 : holds (SAnd A (SOr A B)) A. Proof. bool_law. Qed.
  Theorem C14_absorb_2 : holds (SOr A (SAnd A B)) A. Proof. bool_law. Qed.
  Theorem C14_distr_1 : holds (SAnd A (SOr B C_)) (SOr (SAnd A B) (SAnd A C_)). Proof. bool_law. Qed.
  Theorem C14_distr_2 : holds (SOr A (SAnd B C_)) (SAnd (SOr A B) (SOr A C_)). Proof. bool_law. Qed.
  Theorem C14_involution : holds (SNot (SNot A)) A. Proof. bool_law. Qed.
  Theorem C14_demorgan_1 : holds (SNot (SAnd A B)) (SOr (SNot A) (SNot B)). Proof. bool_law. Qed.
  Theorem C14_demorgan_2 : holds (SNot (SOr A B)) (SAnd (SNot A) (SNot B)). Proof. bool_law. Qed.

  Theorem C14_complement a : canon a ->
    (exists n r, spec_invert a = Ret n /\ spec_and a n = Ret r /\ spec_is_empty r = Ret true)
    /\ (exists n r, spec_invert a = Ret n /\ spec_or a n = Ret r /\ spec_is_any r = Ret true).
  Proof.
    intros Ca. destruct (spec_invert_spec a Ca) as (n & En & Cn & Mn). split.
    - destruct (spec_and_spec a n Ca Cn) as (r & Er & Cr & Mr).
      exists n, r. split; [exact En|]. split; [exact Er|].
      destruct (SE.is_empty_spec r Cr) as (e & Ee & He).
      assert (e = true) as -> by (apply He; intros c P; rewrite Mr, (Mn c P); apply andb_negb_r).
      exact Ee.
    - destruct (spec_or_spec a n Ca Cn) as (r & Er & Cr & Mr).
      exists n, r. split; [exact En|]. split; [exact Er|].
      destruct (SE.is_any_spec' r Cr) as (e & Ee & He).
      assert (e = true) as -> by (apply He; intros c P; rewrite Mr, (Mn c P); apply orb_negb_r).
      exact Ee.
  Qed.
End C14_Abstract.

Module C14_Pep440 := C14_Abstract Pep440.
Import C14_Pep440.X.

Definition v_ (l : list N) : version := mkVer 0 l None None None.
Definition rg (m M : option version) (im iM : bool) : range := mkRangeRaw m M im iM None.
Definition ex_a : spec := SRange (rg (Some (v_ [1;0]%N)) (Some (v_ [2;0]%N)) true false).
Definition ex_b : spec := SUnion (mkUnionRaw [rg None (Some (v_ [1;5]%N)) false true; rg (Some (v_ [1;7]%N)) None false false] None).
Definition ex_c : spec := SRange (rg (Some (v_ [1;5]%N)) None false false).

(* distributivity computed on concrete operands with the generated operators *)
Example C14_runs :
  match eval (C14_Pep440.env3 ex_a ex_b ex_c) (SAnd (SVar 0) (SOr (SVar 1) (SVar 2))),
        eval (C14_Pep440.env3 ex_a ex_b ex_c) (SOr (SAnd (SVar 0) (SVar 1)) (SAnd (SVar 0) (SVar 2))) with
  | Ret x, Ret y => spec_eq x y = Ret true /\ spec_is_empty x = Ret false
  | _, _ => False
  end.
Proof. vm_compute. split; reflexivity. Qed.

(* one traversal for all theorems of this file; the check reads the redirected output *)
Definition C14_all := (C14_Pep440.C14_and_comm, C14_Pep440.C14_or_comm, C14_Pep440.C14_and_assoc, C14_Pep440.C14_or_assoc, C14_Pep440.C14_and_idem, C14_Pep440.C14_or_idem, C14_Pep440.C14_absorb_1, C14_Pep440.C14_absorb_2, C14_Pep440.C14_distr_1, C14_Pep440.C14_distr_2, C14_Pep440.C14_involution, C14_Pep440.C14_demorgan_1, C14_Pep440.C14_demorgan_2, C14_Pep440.C14_complement).
Redirect "C14.assumptions" Print Assumptions C14_all.
