(* C13 (specifier part) — the GENERATED `==` is an equivalence on canonical specifier
   values, compatible with the GENERATED hash key, and equal operands are interchangeable.
   hash(x) is modelled as an unknown function of `spec_hkey x` (dataclass unsafe_hash =
   hash of the tuple of hash-flagged fields; Version hashes its comparison key): equal
   keys up to the order's equivalence is what is claimed. *)
From Coq Require Import List Bool NArith ZArith Orders Lia.
From Verif Require Import PyRes Order Cuts Str SpecTypes GenSpec SpecSem RangeBridge UnionBase SpecOps SpecEq SpecExpr Pep440.
Import ListNotations.

Module C13_Abstract (V : OrderedTypeFull').
  Module X := SpecExpr V.
  Import X.

  Definition peq (a b : spec) : Prop := spec_eq a b = Ret true.

  Lemma peq_sem a b : canon a -> canon b -> (peq a b <-> SE.sem_eq a b).
  Proof.
    intros Ca Cb. destruct (spec_eq_spec' a b Ca Cb) as (r & E & H). unfold peq. rewrite E.
    split; [intros [= ->]; apply H; reflexivity | intros S; f_equal; apply H; exact S].
  Qed.

  Theorem C13_refl a : canon a -> peq a a.
  Proof. intros Ca. apply peq_sem; auto. intros c _. reflexivity. Qed.

  Theorem C13_sym a b : canon a -> canon b -> peq a b -> peq b a.
  Proof.
    intros Ca Cb H. apply peq_sem; auto. apply (peq_sem a b Ca Cb) in H.
    intros c P. symmetry. apply H, P.
  Qed.

  Theorem C13_trans a b c : canon a -> canon b -> canon c -> peq a b -> peq b c -> peq a c.
  Proof.
    intros Ca Cb Cc H1 H2. apply peq_sem; auto.
    apply (peq_sem a b Ca Cb) in H1. apply (peq_sem b c Cb Cc) in H2.
    intros x P. rewrite (H1 x P). apply H2, P.
  Qed.

  (* == never raises and is total on canonical values *)
  Theorem C13_total a b : canon a -> canon b -> exists r, spec_eq a b = Ret r.
  Proof. intros Ca Cb. destruct (spec_eq_spec' a b Ca Cb) as (r & E & _). eauto. Qed.

  (* hash keys: equal up to the order's equivalence on versions *)
  Fixpoint hk_equiv (a b : hk) : Prop :=
    match a, b with
    | HNone, HNone => True
    | HBool x, HBool y => x = y
    | HStr x, HStr y => x = y
    | HVer x, HVer y => V.eq x y
    | HOp x, HOp y => x = y
    | HTuple x, HTuple y =>
        (fix go (x y : list hk) : Prop :=
           match x, y with
           | [], [] => True
           | p :: x', q :: y' => hk_equiv p q /\ go x' y'
           | _, _ => False
           end) x y
    | _, _ => False
    end.

  Lemma optver_hk a b : ver_eq_o a b = true -> hk_equiv (hk_optver a) (hk_optver b).
  Proof.
    destruct a, b; cbn; try discriminate; auto. intros H. destruct (veqb_spec t t0); [assumption|discriminate].
  Qed.

  Lemma range_hk a b : range_eqb a b = true -> hk_equiv (range_hkey a) (range_hkey b).
  Proof.
    unfold range_eqb. rewrite !andb_true_iff, !eqb_true_iff. intros [[[H1 H2] H3] H4].
    cbn. repeat split; auto using optver_hk.
  Qed.

  Lemma ranges_hk l1 : forall l2, ranges_eqb l1 l2 = true ->
    hk_equiv (HTuple (map range_hkey l1)) (HTuple (map range_hkey l2)).
  Proof.
    induction l1 as [|r l1 IH]; intros [|r' l2]; cbn [ranges_eqb]; try discriminate; [cbn; auto|].
    rewrite andb_true_iff. intros [H1 H2]. specialize (IH l2 H2).
    cbn [map hk_equiv] in *. split; [apply range_hk, H1 | exact IH].
  Qed.

  Theorem C13_hash a b : canon a -> canon b -> peq a b -> hk_equiv (spec_hkey a) (spec_hkey b).
  Proof.
    intros Ca Cb. unfold peq, spec_eq, spec_eq_m.
    destruct a as [| |ra|ua|?|?]; try contradiction; destruct b as [| |rb|ub|?|?]; try contradiction;
      cbn [empty_eq any_eq range_eq union_eq is_SEmpty spec_is_any any_is_any]; try discriminate;
      try (intros _; cbn; tauto).
    - (* Any == Range: the range is unbounded, and by the record invariant its flags are false *)
      rewrite is_any_spec by apply Cb. intros [= H]. apply andb_prop in H as [H1 H2].
      destruct Cb as [_ [W1 W2]]. destruct rb as [[x|] [y|] im iM s]; cbn in *; try discriminate.
      rewrite (W1 eq_refl), (W2 eq_refl). cbn. tauto.
    - rewrite is_any_spec by apply Ca. intros [= H]. apply andb_prop in H as [H1 H2].
      destruct Ca as [_ [W1 W2]]. destruct ra as [[x|] [y|] im iM s]; cbn in *; try discriminate.
      rewrite (W1 eq_refl), (W2 eq_refl). cbn. tauto.
    - intros [= H]. apply range_hk, H.
    - intros [= H]. unfold union_eqb in H. cbn [spec_hkey union_hkey hk_equiv]. split; [|exact I].
      apply ranges_hk, H.
  Qed.

  (* interchangeability: equal operands give equal results, for every operator and side *)
  Theorem C13_congr a x y : canon a -> canon x -> canon y -> peq x y ->
    (exists r1 r2, spec_and a x = Ret r1 /\ spec_and a y = Ret r2 /\ peq r1 r2)
    /\ (exists r1 r2, spec_or a x = Ret r1 /\ spec_or a y = Ret r2 /\ peq r1 r2)
    /\ (exists r1 r2, spec_and x a = Ret r1 /\ spec_and y a = Ret r2 /\ peq r1 r2)
    /\ (exists r1 r2, spec_or x a = Ret r1 /\ spec_or y a = Ret r2 /\ peq r1 r2)
    /\ (exists r1 r2, spec_invert x = Ret r1 /\ spec_invert y = Ret r2 /\ peq r1 r2).
  Proof.
    intros Ca Cx Cy H0. apply (peq_sem x y Cx Cy) in H0.
    assert (H : forall c, SE.pos c -> mem c x = mem c y) by exact H0. clear H0.
    repeat split.
    - destruct (spec_and_spec a x Ca Cx) as (r1 & E1 & C1 & M1), (spec_and_spec a y Ca Cy) as (r2 & E2 & C2 & M2).
      exists r1, r2. repeat split; auto. apply peq_sem; auto. intros c P. change (mem c r1 = mem c r2). rewrite M1, M2, (H c P). reflexivity.
    - destruct (spec_or_spec a x Ca Cx) as (r1 & E1 & C1 & M1), (spec_or_spec a y Ca Cy) as (r2 & E2 & C2 & M2).
      exists r1, r2. repeat split; auto. apply peq_sem; auto. intros c P. change (mem c r1 = mem c r2). rewrite M1, M2, (H c P). reflexivity.
    - destruct (spec_and_spec x a Cx Ca) as (r1 & E1 & C1 & M1), (spec_and_spec y a Cy Ca) as (r2 & E2 & C2 & M2).
      exists r1, r2. repeat split; auto. apply peq_sem; auto. intros c P. change (mem c r1 = mem c r2). rewrite M1, M2, (H c P). reflexivity.
    - destruct (spec_or_spec x a Cx Ca) as (r1 & E1 & C1 & M1), (spec_or_spec y a Cy Ca) as (r2 & E2 & C2 & M2).
      exists r1, r2. repeat split; auto. apply peq_sem; auto. intros c P. change (mem c r1 = mem c r2). rewrite M1, M2, (H c P). reflexivity.
    - destruct (spec_invert_spec x Cx) as (r1 & E1 & C1 & M1), (spec_invert_spec y Cy) as (r2 & E2 & C2 & M2).
      exists r1, r2. repeat split; auto. apply peq_sem; auto. intros c P. change (mem c r1 = mem c r2). rewrite (M1 c P), (M2 c P), (H c P). reflexivity.
  Qed.
End C13_Abstract.

Module C13_Pep440 := C13_Abstract Pep440.
Import C13_Pep440.X.

Definition v_ (l : list N) : version := mkVer 0 l None None None.
Definition rg (m M : option version) (im iM : bool) : range := mkRangeRaw m M im iM None.
(* the two spellings of the universal set, and 1.0 vs 1.0.0 bounds *)
Example C13_runs :
  spec_eq SAny (SRange (rg None None false false)) = Ret true
  /\ spec_eq (SRange (rg None None false false)) SAny = Ret true
  /\ C13_Pep440.hk_equiv (spec_hkey SAny) (spec_hkey (SRange (rg None None false false)))
  /\ spec_eq (SRange (rg (Some (v_ [1;0]%N)) None true false)) (SRange (rg (Some (v_ [1;0;0]%N)) None true false)) = Ret true
  /\ spec_eq (SRange (rg (Some (v_ [1;0]%N)) None true false)) (SRange (rg (Some (v_ [1;0;1]%N)) None true false)) = Ret false.
Proof. repeat split; vm_compute; try reflexivity; tauto. Qed.

Definition C13_all := (C13_Pep440.C13_refl, C13_Pep440.C13_sym, C13_Pep440.C13_trans, C13_Pep440.C13_total,
                       C13_Pep440.C13_hash, C13_Pep440.C13_congr).
Redirect "C13.assumptions" Print Assumptions C13_all.
