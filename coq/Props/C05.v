(* C05 — results are canonical; ==, is_empty(), is_any() are exact.
   Statements only; the operators, ==, is_empty, is_any are the GENERATED definitions. *)
From Coq Require Import List Bool NArith ZArith Orders.
From Verif Require Import PyRes Order Cuts Str SpecTypes GenSpec SpecSem RangeBridge SpecOps SpecEq SpecExpr Pep440 Pep440Facts.
Import ListNotations.

Module C05_Abstract (V : OrderedTypeFull').
  Module X := SpecExpr V.
  Import X.

  (* positions = every cut below +infinity; a real version v is the position (C v Bef) *)
  Definition pos (c : cut) : Prop := CO.lt c PosInf.

  Theorem C05_closed a b : canon a -> canon b ->
    (exists r, spec_and a b = Ret r /\ canon r) /\ (exists r, spec_or a b = Ret r /\ canon r)
    /\ (exists r, spec_invert a = Ret r /\ canon r).
  Proof.
    intros Ca Cb. split; [|split].
    - destruct (spec_and_spec a b Ca Cb) as (r & E & C & _). eauto.
    - destruct (spec_or_spec a b Ca Cb) as (r & E & C & _). eauto.
    - destruct (spec_invert_spec a Ca) as (r & E & C & _). eauto.
  Qed.

  Theorem C05_unique a b : canon a -> canon b ->
    exists r, spec_eq a b = Ret r /\ (r = true <-> forall c, pos c -> mem c a = mem c b).
  Proof. exact (spec_eq_spec' a b). Qed.

  Theorem C05_empty a b : canon a -> canon b ->
    exists r e, spec_and a b = Ret r /\ spec_is_empty r = Ret e
                /\ (e = true <-> forall c, pos c -> mem c a && mem c b = false).
  Proof.
    intros Ca Cb. destruct (spec_and_spec a b Ca Cb) as (r & E & C & M).
    destruct (SE.is_empty_spec r C) as (e & Ee & He).
    exists r, e. split; [exact E|]. split; [exact Ee|].
    rewrite He. split; intros H c P; specialize (H c P); rewrite M in *; exact H.
  Qed.

  Theorem C05_any a b : canon a -> canon b ->
    exists r e, spec_or a b = Ret r /\ spec_is_any r = Ret e
                /\ (e = true <-> forall c, pos c -> mem c a || mem c b = true).
  Proof.
    intros Ca Cb. destruct (spec_or_spec a b Ca Cb) as (r & E & C & M).
    destruct (SE.is_any_spec' r C) as (e & Ee & He).
    exists r, e. split; [exact E|]. split; [exact Ee|].
    rewrite He. split; intros H c P; specialize (H c P); rewrite M in *; exact H.
  Qed.

  (* Read over VERSIONS (a version v is the position `vcut v` just before it) the three statements keep one direction each:
     equal results contain the same versions, an empty intersection has no common version, a universal union contains every
     version.  The converses hold for positions; for versions they would need the version order to be dense, and the public
     PEP 440 order is not (C05_gap_refuted below). *)
  Theorem C05_versions a b : canon a -> canon b ->
    (spec_eq a b = Ret true -> forall v, mem (vcut v) a = mem (vcut v) b)
    /\ (forall r, spec_and a b = Ret r -> spec_is_empty r = Ret true -> forall v, mem (vcut v) a && mem (vcut v) b = false)
    /\ (forall r, spec_or a b = Ret r -> spec_is_any r = Ret true -> forall v, mem (vcut v) a || mem (vcut v) b = true).
  Proof.
    intros Ca Cb. assert (P : forall v, pos (vcut v)) by (intros v; constructor; reflexivity).
    split; [|split].
    - intros E v. destruct (C05_unique a b Ca Cb) as (r & Er & Hr). rewrite E in Er. injection Er as <-. exact (proj1 Hr eq_refl _ (P v)).
    - intros r E Ee v. destruct (C05_empty a b Ca Cb) as (r' & e & Er & Ee' & He). rewrite E in Er. injection Er as <-.
      rewrite Ee in Ee'. injection Ee' as <-. exact (proj1 He eq_refl _ (P v)).
    - intros r E Ee v. destruct (C05_any a b Ca Cb) as (r' & e & Er & Ee' & He). rewrite E in Er. injection Er as <-.
      rewrite Ee in Ee'. injection Ee' as <-. exact (proj1 He eq_refl _ (P v)).
  Qed.

  (* the constructor guard: accepted exactly when no include flag sits on an unbounded side;
     every range inside a canonical value satisfies it (wfr is part of canon) *)
  Theorem C05_post_init m M im iM s :
    (exists r, mk_range m M im iM s = Ret r) <-> mk_ok m M im iM.
  Proof.
    split.
    - intros [r E]. unfold mk_range, bind, is_none in E. cbn in E.
      destruct m, M, im, iM; cbn in E; try discriminate; split; intros; congruence.
    - intros H. eexists. apply mk_range_ok. exact H.
  Qed.
End C05_Abstract.

Module C05_Pep440 := C05_Abstract Pep440.
Import C05_Pep440.X.

Definition v_ (l : list N) : version := mkVer 0 l None None None.
Definition rg (m M : option version) (im iM : bool) : range := mkRangeRaw m M im iM None.
(* <1.0 || >=2.0   and  >=1.0,<2.0 : disjoint, union is everything *)
Definition ex_a : spec := SUnion (mkUnionRaw [rg None (Some (v_ [1;0]%N)) false false; rg (Some (v_ [2;0]%N)) None true false] None).
Definition ex_b : spec := SRange (rg (Some (v_ [1;0;0]%N)) (Some (v_ [2]%N)) true false).

Example C05_runs :
  (exists r, spec_and ex_a ex_b = Ret r /\ spec_is_empty r = Ret true)
  /\ (exists r, spec_or ex_a ex_b = Ret r /\ spec_is_any r = Ret true /\ spec_eq r SAny = Ret true)
  /\ spec_eq ex_b (SRange (rg (Some (v_ [1]%N)) (Some (v_ [2;0;0]%N)) true false)) = Ret true.
Proof. split; [|split]; [eexists; split; vm_compute; reflexivity | eexists; repeat split; vm_compute; reflexivity | vm_compute; reflexivity]. Qed.

(* The recorded finding "adjacent-gap", machine-checked on the model: no public version lies strictly between 1.0 and
   1.0.post0.dev0, so no version satisfies both >1.0 and <1.0.post0.dev0 - yet their intersection is the non-empty range
   (1.0, 1.0.post0.dev0) and is_empty() answers False.  (== and is_any() fail on the same gap: >1.0 vs >=1.0.post0.dev0,
   <=1.0 | >=1.0.post0.dev0.) *)
Definition gap_lo : version := mkVer 0 [1;0]%N None None None.
Definition gap_hi : version := mkVer 0 [1;0]%N None (Some 0%N) (Some 0%N).
Definition gap_a : spec := SRange (rg (Some gap_lo) None false false).     (* >1.0 *)
Definition gap_b : spec := SRange (rg None (Some gap_hi) false false).     (* <1.0.post0.dev0 *)
Lemma gap_no_version_between : forall v : version, ~ (Pep440.lt gap_lo v /\ Pep440.lt v gap_hi).
Proof.
  intros v [H1 H2]. unfold Pep440.lt in H1, H2. change (lex (vkey gap_lo) (vkey v)) with (Pep440.compare gap_lo v) in H1.
  change (lex (vkey v) (vkey gap_hi)) with (Pep440.compare v gap_hi) in H2.
  rewrite vcompare_decomp in H1, H2. cbn [epoch release gap_lo gap_hi] in H1, H2.
  rewrite (N.compare_antisym (epoch v) 0%N) in H1.
  destruct (N.compare (epoch v) 0%N) eqn:Ee; cbn [CompOpp] in H1; try discriminate.
  rewrite (cmp_pad_antisym (release v) [1;0]%N) in H1.
  destruct (cmp_pad (release v) [1;0]%N) eqn:Er; cbn [CompOpp] in H1; try discriminate.
  destruct v as [e rel [[k n]|] [q|] [d|]]; unfold suffix, pre_rank, pre_n, post_rank, post_n, dev_rank, dev_n in H1, H2;
    cbn [pre post dev] in H1, H2; try (destruct k); cbn in H1, H2; try discriminate;
    try (destruct q; cbn in H1, H2; try discriminate); try (destruct d; cbn in H1, H2; discriminate).
Qed.

Lemma C05_gap_proof :
  (forall v : version, ~ (Pep440.lt gap_lo v /\ Pep440.lt v gap_hi))
  /\ (forall v : version, mem (vcut v) gap_a && mem (vcut v) gap_b = false)
  /\ exists r, spec_and gap_a gap_b = Ret r /\ spec_is_empty r = Ret false.
Proof.
  split; [exact gap_no_version_between|]. split.
  - intros v. pose proof (gap_no_version_between v) as N.
    unfold mem, gap_a, gap_b, memr, lb, ub, rg, vcut. cbn [rmin rmax imin imax].
    unfold CB.vleb, CB.vltb. cbn [CO.compare CO.side_cmp].
    destruct (lex (vkey gap_lo) (vkey v)) eqn:E1; destruct (lex (vkey v) (vkey gap_hi)) eqn:E2; cbn; try reflexivity.
    exfalso. apply N. split; [exact E1 | exact E2].
  - eexists. split; vm_compute; reflexivity.
Qed.

Theorem C05_gap_refuted :
  (forall v : version, ~ (Pep440.lt gap_lo v /\ Pep440.lt v gap_hi))
  /\ (forall v : version, mem (vcut v) gap_a && mem (vcut v) gap_b = false)
  /\ exists r, spec_and gap_a gap_b = Ret r /\ spec_is_empty r = Ret false.
Proof. exact C05_gap_proof. Qed.

(* one traversal for all theorems of this file; the check reads the redirected output *)
Definition C05_all := (C05_Pep440.C05_closed, C05_Pep440.C05_unique, C05_Pep440.C05_empty, C05_Pep440.C05_any, C05_Pep440.C05_post_init,
                       C05_Pep440.C05_versions, C05_gap_refuted).
Redirect "C05.assumptions" Print Assumptions C05_all.
