(* C05 — results are canonical; ==, is_empty(), is_any() are exact.
   Statements only; the operators, ==, is_empty, is_any are the GENERATED definitions. *)
From Coq Require Import List Bool NArith ZArith Orders.
From Verif Require Import PyRes Order Cuts Str SpecTypes GenSpec SpecSem RangeBridge SpecOps SpecEq SpecExpr Pep440.
Import ListNotations.

Module C05_Abstract (V : OrderedTypeFull').
  Module X := SpecExpr V.
  Import X.

  (* positions = every cut below +infinity; a real version v is the position (C v Bef) *)
  Definition pos (c : cut) : Prop := CO.lt c PosInf.

  Theorem C05_closed a b : canon a -> canon b ->
    (exists r, spec_and a b = Ret r /\ canon r) /\ (exists r, spec_or a b = Ret r /\ canon r)
    /\ (exists r, spec_invert a = Ret r /\ canon r).
  Proof.
    intros Ca Cb. split; [|split].
    - destruct (spec_and_spec a b Ca Cb) as (r & E & C & _). eauto.
    - destruct (spec_or_spec a b Ca Cb) as (r & E & C & _). eauto.
    - destruct (spec_invert_spec a Ca) as (r & E & C & _). eauto.
  Qed.

  Theorem C05_unique a b : canon a -> canon b ->
    exists r, spec_eq a b = Ret r /\ (r = true <-> forall c, pos c -> mem c a = mem c b).
  Proof. exact (spec_eq_spec' a b). Qed.

  Theorem C05_empty a b : canon a -> canon b ->
    exists r e, spec_and a b = Ret r /\ spec_is_empty r = Ret e
                /\ (e = true <-> forall c, pos c -> mem c a && mem c b = false).
  Proof.
    intros Ca Cb. destruct (spec_and_spec a b Ca Cb) as (r & E & C & M).
    destruct (SE.is_empty_spec r C) as (e & Ee & He).
    exists r, e. split; [exact E|]. split; [exact Ee|].
    rewrite He. split; intros H c P; specialize (H c P); rewrite M in *; exact H.
  Qed.

  Theorem C05_any a b : canon a -> canon b ->
    exists r e, spec_or a b = Ret r /\ spec_is_any r = Ret e
                /\ (e = true <-> forall c, pos c -> mem c a || mem c b = true).
  Proof.
    intros Ca Cb. destruct (spec_or_spec a b Ca Cb) as (r & E & C & M).
    destruct (SE.is_any_spec' r C) as (e & Ee & He).
    exists r, e. split; [exact E|]. split; [exact Ee|].
    rewrite He. split; intros H c P; specialize (H c P); rewrite M in *; exact H.
  Qed.

  (* the constructor guard: accepted exactly when no include flag sits on an unbounded side;
     every range inside a canonical value satisfies it (wfr is part of canon) *)
  Theorem C05_post_init m M im iM s :
    (exists r, mk_range m M im iM s = Ret r) <-> mk_ok m M im iM.
  Proof.
    split.
    - intros [r E]. unfold mk_range, bind, is_none in E. cbn in E.
      destruct m, M, im, iM; cbn in E; try discriminate; split; intros; congruence.
    - intros H. eexists. apply mk_range_ok. exact H.
  Qed.
End C05_Abstract.

Module C05_Pep440 := C05_Abstract Pep440.
Import C05_Pep440.X.

Definition v_ (l : list N) : version := mkVer 0 l None None None.
Definition rg (m M : option version) (im iM : bool) : range := mkRangeRaw m M im iM None.
(* <1.0 || >=2.0   and  >=1.0,<2.0 : disjoint, union is everything *)
Definition ex_a : spec := SUnion (mkUnionRaw [rg None (Some (v_ [1;0]%N)) false false; rg (Some (v_ [2;0]%N)) None true false] None).
Definition ex_b : spec := SRange (rg (Some (v_ [1;0;0]%N)) (Some (v_ [2]%N)) true false).

Example C05_runs :
  (exists r, spec_and ex_a ex_b = Ret r /\ spec_is_empty r = Ret true)
  /\ (exists r, spec_or ex_a ex_b = Ret r /\ spec_is_any r = Ret true /\ spec_eq r SAny = Ret true)
  /\ spec_eq ex_b (SRange (rg (Some (v_ [1]%N)) (Some (v_ [2;0;0]%N)) true false)) = Ret true.
Proof. split; [|split]; [eexists; split; vm_compute; reflexivity | eexists; repeat split; vm_compute; reflexivity | vm_compute; reflexivity]. Qed.

(* one traversal for all theorems of this file; the check reads the redirected output *)
Definition C05_all := (C05_Pep440.C05_closed, C05_Pep440.C05_unique, C05_Pep440.C05_empty, C05_Pep440.C05_any, C05_Pep440.C05_post_init).
Redirect "C05.assumptions" Print Assumptions C05_all.
