(* C14, marker part — every expression over markers built with & and | evaluates, in every
   environment, as the Boolean combination of its leaves; hence both sides of any lattice
   law (commutativity, associativity, idempotence, absorption, distributivity) - indeed of
   any Boolean identity - yield markers with the same meaning, whenever they are returned.
   (Structural equality of the two sides is NOT claimed: the normaliser's output depends on
   operand order; the property asks for equivalence.)  Same hypotheses as C02. *)
From Coq Require Import List Bool NArith Arith String Lia Permutation.
From Verif Require Import PyRes Str Marker MarkerBase MarkerSingle MarkerOf MarkerSound.
Import ListNotations.

Inductive mexpr := MV (n : nat) | MA (a b : mexpr) | MO (a b : mexpr).
Fixpoint bden (env : nat -> bool) (x : mexpr) : bool :=
  match x with MV n => env n | MA a b => bden env a && bden env b | MO a b => bden env a || bden env b end.

Section C14m.
  Variable vmerge : bool -> atom -> atom -> option marker.
  Variable vcontains : atom -> str -> bool.
  Variable perm : list marker -> list marker.
  Variable good : menv -> Prop.
  Hypothesis vmerge_sound : forall k a b r, vmerge k a b = Some r ->
    wf r = true /\ forall e, good e -> meval e r = bop k (atom_eval e a) (atom_eval e b).
  Hypothesis perm_perm : forall l, Permutation (perm l) l.
  Variable fuel : nat.

  Fixpoint mev (env : nat -> marker) (x : mexpr) : pyres marker :=
    match x with
    | MV n => Ret (env n)
    | MA a b => p <- mev env a ;; q <- mev env b ;; mand vmerge vcontains perm fuel p q
    | MO a b => p <- mev env a ;; q <- mev env b ;; mor vmerge vcontains perm fuel p q
    end.

  Theorem C14m_closure env x r : (forall n, wf (env n) = true) -> mev env x = Ret r ->
    wf r = true /\ forall e, good e -> meval e r = bden (fun n => meval e (env n)) x.
  Proof.
    intros Wenv. destruct (all_sound vmerge vcontains perm good vmerge_sound perm_perm fuel) as (Hand & Hor & _).
    revert r. induction x as [n|a IHa b IHb|a IHa b IHb]; intros r H; cbn [mev] in H.
    - injection H as <-. split; [apply Wenv | reflexivity].
    - destruct (mev env a) as [p| |]; try discriminate. destruct (mev env b) as [q| |]; try discriminate. cbn [bind] in H.
      destruct (IHa p eq_refl) as [Wp Mp], (IHb q eq_refl) as [Wq Mq]. destruct (Hand p q r H Wp Wq) as [Wr Mr].
      split; [exact Wr|]. intros e G. rewrite (Mr e G), (Mp e G), (Mq e G). reflexivity.
    - destruct (mev env a) as [p| |]; try discriminate. destruct (mev env b) as [q| |]; try discriminate. cbn [bind] in H.
      destruct (IHa p eq_refl) as [Wp Mp], (IHb q eq_refl) as [Wq Mq]. destruct (Hor p q r H Wp Wq) as [Wr Mr].
      split; [exact Wr|]. intros e G. rewrite (Mr e G), (Mp e G), (Mq e G). reflexivity.
  Qed.

  (* a Boolean identity between two expressions: both sides mean the same *)
  Theorem C14m_law env lhs rhs x y : (forall n, wf (env n) = true) ->
    (forall b, bden b lhs = bden b rhs) -> mev env lhs = Ret x -> mev env rhs = Ret y ->
    forall e, good e -> meval e x = meval e y.
  Proof.
    intros W Hb Hx Hy e G. rewrite (proj2 (C14m_closure env lhs x W Hx) e G), (proj2 (C14m_closure env rhs y W Hy) e G). apply Hb.
  Qed.
End C14m.

(* the laws the property names, as instances of C14m_law's Boolean side condition *)
Example laws_are_boolean_identities :
  (forall b, bden b (MA (MV 0) (MV 1)) = bden b (MA (MV 1) (MV 0)))
  /\ (forall b, bden b (MO (MV 0) (MV 1)) = bden b (MO (MV 1) (MV 0)))
  /\ (forall b, bden b (MA (MA (MV 0) (MV 1)) (MV 2)) = bden b (MA (MV 0) (MA (MV 1) (MV 2))))
  /\ (forall b, bden b (MO (MO (MV 0) (MV 1)) (MV 2)) = bden b (MO (MV 0) (MO (MV 1) (MV 2))))
  /\ (forall b, bden b (MA (MV 0) (MV 0)) = bden b (MV 0)) /\ (forall b, bden b (MO (MV 0) (MV 0)) = bden b (MV 0))
  /\ (forall b, bden b (MA (MV 0) (MO (MV 0) (MV 1))) = bden b (MV 0)) /\ (forall b, bden b (MO (MV 0) (MA (MV 0) (MV 1))) = bden b (MV 0))
  /\ (forall b, bden b (MA (MV 0) (MO (MV 1) (MV 2))) = bden b (MO (MA (MV 0) (MV 1)) (MA (MV 0) (MV 2))))
  /\ (forall b, bden b (MO (MV 0) (MA (MV 1) (MV 2))) = bden b (MA (MO (MV 0) (MV 1)) (MO (MV 0) (MV 2)))).
Proof. repeat split; intros b; cbn; destruct (b 0%nat), (b 1%nat); try destruct (b 2%nat); reflexivity. Qed.

Definition C14m_all := (C14m_closure, C14m_law).
Redirect "C14m.assumptions" Print Assumptions C14m_all.
