(* C18 (wheel file names) — parse_wheel_tags returns exactly the dotted tag sets of the
   last three dash-separated fields, for ALL names: any components without '-' and any
   tags without '.', with or without a build tag; a wrong extension or part count raises
   InvalidWheelFilename.  Model: parse_wheel_tags in Model/Tags.v (S-wheel stream). *)
From Coq Require Import String List Bool NArith Arith Lia.
From Verif Require Import PyRes Str Platform Tags.
Import ListNotations.
Local Open Scope N_scope.

Lemma starts_with_app p s : starts_with p (p ++ s) = true.
Proof. induction p as [|x p IH]; cbn; [reflexivity|]. rewrite N.eqb_refl, IH. reflexivity. Qed.

Lemma ends_with_app p x : ends_with p (x ++ p) = true.
Proof. unfold ends_with. rewrite rev_app_distr. apply starts_with_app. Qed.

Lemma firstn_strip (x p : str) : firstn (List.length (x ++ p) - List.length p) (x ++ p) = x.
Proof.
  rewrite app_length. replace (List.length x + List.length p - List.length p)%nat with (List.length x) by lia.
  rewrite firstn_app, Nat.sub_diag, firstn_all. cbn. apply app_nil_r.
Qed.

Definition no (c : N) (s : str) : Prop := ~ In c s.

Lemma split_aux_nil c cur : split_on_aux c [] cur = [rev cur].
Proof. reflexivity. Qed.

Lemma split_aux_app c x : no c x -> forall s cur, split_on_aux c (x ++ s) cur = split_on_aux c s (rev x ++ cur).
Proof.
  induction x as [|y x IH]; intros Hx s cur; [reflexivity|].
  cbn [app split_on_aux]. destruct (N.eqb_spec y c) as [->|Hne]; [exfalso; apply Hx; left; reflexivity|].
  rewrite IH by (intros H; apply Hx; right; exact H). cbn [rev]. rewrite <- app_assoc. reflexivity.
Qed.

Lemma split_aux_sep c s cur : split_on_aux c (c :: s) cur = rev cur :: split_on_aux c s [].
Proof. cbn. rewrite N.eqb_refl. reflexivity. Qed.

Lemma split_join c (l : list str) : l <> [] -> Forall (no c) l -> split_on c (join_with [c] l) = l.
Proof.
  intros Hne Hall. unfold split_on.
  induction l as [|x l IH]; [congruence|].
  inversion Hall as [|? ? Hx Hl]; subst.
  destruct l as [|y l'].
  - cbn [join_with]. rewrite <- (app_nil_r x) at 1. rewrite split_aux_app by exact Hx.
    cbn. rewrite app_nil_r, rev_involutive. reflexivity.
  - change (join_with [c] (x :: y :: l')) with (x ++ [c] ++ join_with [c] (y :: l')).
    rewrite split_aux_app by exact Hx. cbn [app]. rewrite split_aux_sep.
    rewrite app_nil_r, rev_involutive. f_equal. apply IH; [congruence | exact Hl].
Qed.

Lemma count_app c a b : count_occ_N c (a ++ b) = (count_occ_N c a + count_occ_N c b)%nat.
Proof. induction a as [|x a IH]; cbn; [reflexivity|]. rewrite IH. lia. Qed.

Lemma count_no c x : no c x -> count_occ_N c x = 0%nat.
Proof.
  induction x as [|y x IH]; intros H; [reflexivity|]. cbn.
  destruct (N.eqb_spec y c) as [->|]; [exfalso; apply H; left; reflexivity|].
  rewrite IH; [reflexivity | intros H'; apply H; right; exact H'].
Qed.

Lemma count_join c (l : list str) : l <> [] -> Forall (no c) l -> count_occ_N c (join_with [c] l) = (List.length l - 1)%nat.
Proof.
  intros Hne Hall. induction l as [|x l IH]; [congruence|].
  inversion Hall as [|? ? Hx Hl]; subst. destruct l as [|y l'].
  - cbn. apply count_no, Hx.
  - change (join_with [c] (x :: y :: l')) with (x ++ [c] ++ join_with [c] (y :: l')).
    rewrite !count_app, (count_no c x Hx). cbn [count_occ_N]. rewrite N.eqb_refl.
    rewrite IH by (congruence || exact Hl). cbn [List.length]. lia.
Qed.

Lemma no_join c d (l : list str) : c <> d -> Forall (no c) l -> no c (join_with [d] l).
Proof.
  intros Hcd Hall. induction l as [|x l IH]; [intros []|].
  inversion Hall as [|? ? Hx Hl]; subst. destruct l as [|y l'].
  - exact Hx.
  - change (join_with [d] (x :: y :: l')) with (x ++ [d] ++ join_with [d] (y :: l')). intros H. apply in_app_or in H as [H|H]; [exact (Hx H)|].
    cbn in H. destruct H as [H|H]; [congruence | exact (IH Hl H)].
Qed.

Definition whl : str := S_ ".whl".
Definition fields (name ver : str) (build : option str) (pys abis plats : list str) : list str :=
  [name; ver] ++ (match build with Some b => [b] | None => [] end)
  ++ [join_with [dot] pys; join_with [dot] abis; join_with [dot] plats].

Theorem C18_wheel name ver build pys abis plats :
  no dash name -> no dash ver -> (forall b, build = Some b -> no dash b) ->
  pys <> [] -> abis <> [] -> plats <> [] ->
  Forall (fun t => no dash t /\ no dot t) (pys ++ abis ++ plats) ->
  parse_wheel_tags (join_with [dash] (fields name ver build pys abis plats) ++ whl) = Ret (pys, abis, plats).
Proof.
  intros Hn Hv Hb Hp Ha Hl Hall. unfold parse_wheel_tags.
  assert (Hd : Forall (no dash) (pys ++ abis ++ plats)) by (eapply Forall_impl; [|exact Hall]; cbn; tauto).
  assert (Ho : Forall (no dot) (pys ++ abis ++ plats)) by (eapply Forall_impl; [|exact Hall]; cbn; tauto).
  apply Forall_app in Hd as [Hd1 Hd2]. apply Forall_app in Hd2 as [Hd2 Hd3].
  apply Forall_app in Ho as [Ho1 Ho2]. apply Forall_app in Ho2 as [Ho2 Ho3].
  assert (Dne : dash <> dot) by (unfold dash, dot; lia).
  assert (HF : Forall (no dash) (fields name ver build pys abis plats)).
  { unfold fields. repeat (apply Forall_app; split); repeat constructor; auto using no_join.
    destruct build as [b|]; constructor; [apply Hb; reflexivity | constructor]. }
  assert (HNE : fields name ver build pys abis plats <> []) by (unfold fields; cbn; congruence).
  fold whl. rewrite ends_with_app. cbn [negb].
  change 4%nat with (List.length whl). rewrite firstn_strip.
  rewrite (count_join dash _ HNE HF).
  assert (Hlen : List.length (fields name ver build pys abis plats) = match build with Some _ => 6%nat | None => 5%nat end).
  { unfold fields. destruct build; reflexivity. }
  rewrite Hlen.
  rewrite (split_join dash _ HNE HF).
  destruct build as [b|]; cbn [Nat.sub Nat.eqb orb negb fields app rev];
    rewrite !(split_join dot) by assumption; reflexivity.
Qed.

Theorem C18_ext f : ends_with whl f = false -> parse_wheel_tags f = Raise InvalidWheelFilename.
Proof. intros H. unfold parse_wheel_tags. fold whl. rewrite H. reflexivity. Qed.

Theorem C18_parts f :
  ends_with whl f = true ->
  (let n := count_occ_N dash (firstn (List.length f - 4) f) in n <> 4%nat /\ n <> 5%nat) ->
  parse_wheel_tags f = Raise InvalidWheelFilename.
Proof.
  intros H [H4 H5]. unfold parse_wheel_tags. fold whl. rewrite H. cbn [negb].
  destruct (Nat.eqb_spec (count_occ_N dash (firstn (List.length f - 4) f)) 4); [contradiction|].
  destruct (Nat.eqb_spec (count_occ_N dash (firstn (List.length f - 4) f)) 5); [contradiction|].
  reflexivity.
Qed.

Example C18_runs :
  parse_wheel_tags (S_ "foo_bar-1.0-1-cp39.cp310-abi3-manylinux_2_17_x86_64.manylinux2014_x86_64.whl")
  = Ret ([S_ "cp39"; S_ "cp310"], [S_ "abi3"], [S_ "manylinux_2_17_x86_64"; S_ "manylinux2014_x86_64"])
  /\ parse_wheel_tags (S_ "protobuf-5.27.2-py3-none-manylinux_2_31_armv7l.whl") = Ret ([S_ "py3"], [S_ "none"], [S_ "manylinux_2_31_armv7l"])
  /\ parse_wheel_tags (S_ "foo-1.0-py3-none-any.zip") = Raise InvalidWheelFilename
  /\ parse_wheel_tags (S_ "foo-1.0-py3-none.whl") = Raise InvalidWheelFilename.
Proof. repeat split; vm_compute; reflexivity. Qed.


(* ------------------------------------------------------------------------------------------
   platform names: Platform.parse (str p) = p for every platform of the documented families,
   with ANY X_Y version; the nine fixed names/aliases resolve to their documented targets.
   Model: Model/PlatParse.v (S-platparse stream). *)
From Coq Require Import DecimalString DecimalN DecimalPos Decimal.
From Verif Require Import PlatParse.

Lemma to_string_of_string s : to_string (of_string s) = s.
Proof. induction s as [|c s IH]; cbn; [reflexivity|]. rewrite Ascii.ascii_N_embedding, IH. reflexivity. Qed.

Lemma digits_of_uint d : forallb is_digit (of_string (NilEmpty.string_of_uint d)) = true.
Proof. induction d; cbn; auto. Qed.

Lemma to_uint_nonnil n : N.to_uint n <> Nil.
Proof. destruct n; cbn; [discriminate|]. apply Unsigned.to_uint_nonnil. Qed.

Lemma dec_shape n : exists c r, dec n = c :: r /\ is_digit c = true /\ forallb is_digit r = true.
Proof.
  unfold dec, NilZero.string_of_uint. pose proof (to_uint_nonnil n) as H. pose proof (digits_of_uint (N.to_uint n)) as D.
  destruct (N.to_uint n) eqn:E; try congruence; cbn in *; eexists _, _; (split; [reflexivity|]); split; (reflexivity || exact D).
Qed.

Lemma dec_all_digits n : all_digits (dec n) = true.
Proof. destruct (dec_shape n) as (c & r & -> & H1 & H2). unfold all_digits. cbn. rewrite H1, H2. reflexivity. Qed.

Lemma parse_dec_dec n : parse_dec (dec n) = Some n.
Proof.
  unfold parse_dec. rewrite dec_all_digits. unfold dec. rewrite to_string_of_string.
  rewrite NilZero.usu by apply to_uint_nonnil. cbn. rewrite DecimalN.Unsigned.of_to. reflexivity.
Qed.

Lemma digit_not_us c : is_digit c = true -> (c =? 95) = false.
Proof. unfold is_digit. intros H. apply andb_prop in H as [H1 H2]. apply N.leb_le in H1, H2. apply N.eqb_neq. lia. Qed.

Lemma split_first_digits (d rest : str) : forallb is_digit d = true -> split_first 95 (d ++ 95 :: rest) = Some (d, rest).
Proof.
  induction d as [|c d IH]; intros H; cbn; [reflexivity|].
  cbn in H. apply andb_prop in H as [H1 H2]. rewrite (digit_not_us c H1), (IH H2). reflexivity.
Qed.

Lemma split_first_dec n rest : split_first 95 (dec n ++ 95 :: rest) = Some (dec n, rest).
Proof.
  apply split_first_digits. destruct (dec_shape n) as (c & r & -> & H1 & H2). cbn. rewrite H1, H2. reflexivity.
Qed.

Lemma arch_tail_ok a : (match arch_str a with [] => true | _ => false end) = false /\ forallb arch_char (arch_str a) = true.
Proof. destruct a; split; reflexivity. Qed.
Lemma arch_parse_str a : arch_parse (arch_str a) = Ret a.
Proof. destruct a; vm_compute; reflexivity. Qed.

Definition versioned (o : os) : Prop := match o with Windows => False | _ => True end.

(* the versioned families, any architecture spelled by Arch.__str__ *)
Lemma rt_versioned k (M m : N) (a : arch) (name : string) :
  (k = KManylinux /\ name = "manylinux"%string) \/ (k = KMacos /\ name = "macos"%string) \/ (k = KMusllinux /\ name = "musllinux"%string) ->
  forall tail, (tail = arch_str a \/ (tail = S_ "arm64" /\ a = Aarch64)) ->
  match_versioned (S_ name ++ [95] ++ dec M ++ [95] ++ dec m ++ [95] ++ tail) = Some (k, dec M, dec m, tail)
  /\ arch_parse tail = Ret a.
Proof.
  intros Hk tail Ht.
  assert (Htail : (match tail with [] => true | _ => false end) = false /\ forallb arch_char tail = true /\ arch_parse tail = Ret a).
  { destruct Ht as [-> | [-> ->]]; [destruct (arch_tail_ok a); auto using arch_parse_str | repeat split; reflexivity]. }
  destruct Htail as (T1 & T2 & T3). split; [|exact T3].
  unfold match_versioned.
  destruct Hk as [[-> ->] | [[-> ->] | [-> ->]]]; cbn [S_ of_string app starts_with N.eqb Pos.eqb andb List.length Nat.add skipn Ascii.N_of_ascii Ascii.N_of_digits];
    cbn -[dec split_first all_digits forallb arch_char];
    rewrite !split_first_dec, !dec_all_digits, T1, T2; reflexivity.
Qed.

Theorem C18_plat_rt_versioned (M m : N) (a : arch) (o : os) :
  o = Manylinux M m \/ o = Musllinux M m \/ o = Macos M m ->
  platform_parse (platform_str (mkPlatform o a)) = Ret (mkPlatform o a).
Proof.
  intros Ho.
  destruct (dec_shape M) as (c & r & EM & Hc & Hr).
  assert (Hc97 : (c =? 97) = false /\ (c =? 120) = false).
  { unfold is_digit in Hc. apply andb_prop in Hc as [H1 H2]. apply N.leb_le in H1, H2. split; apply N.eqb_neq; lia. }
  destruct Hc97 as [Hc97 Hc120].
  destruct Ho as [-> | [-> | ->]].
  - (* manylinux *)
    destruct (rt_versioned KManylinux M m a "manylinux" (or_introl (conj eq_refl eq_refl)) (arch_str a) (or_introl eq_refl)) as [H1 H2].
    unfold platform_parse, platform_str, os_str. cbn [p_os p_arch].
    replace ((S_ "manylinux_" ++ dec M ++ [95] ++ dec m) ++ [95] ++ arch_str a)
      with (S_ "manylinux" ++ [95] ++ dec M ++ [95] ++ dec m ++ [95] ++ arch_str a) by (cbn; rewrite <- !app_assoc; reflexivity).
    rewrite H1. cbn -[dec parse_dec arch_parse match_versioned arch_str]. rewrite !parse_dec_dec, H2. reflexivity.
  - destruct (rt_versioned KMusllinux M m a "musllinux" (or_intror (or_intror (conj eq_refl eq_refl))) (arch_str a) (or_introl eq_refl)) as [H1 H2].
    unfold platform_parse, platform_str, os_str. cbn [p_os p_arch].
    replace ((S_ "musllinux_" ++ dec M ++ [95] ++ dec m) ++ [95] ++ arch_str a)
      with (S_ "musllinux" ++ [95] ++ dec M ++ [95] ++ dec m ++ [95] ++ arch_str a) by (cbn; rewrite <- !app_assoc; reflexivity).
    rewrite H1. cbn -[dec parse_dec arch_parse match_versioned arch_str]. rewrite !parse_dec_dec, H2. reflexivity.
  - (* macos: arm64 is spelled "arm64" *)
    unfold platform_parse, platform_str, os_str. cbn [p_os p_arch].
    destruct a;
      try (match goal with |- context [arch_str ?a0] =>
             destruct (rt_versioned KMacos M m a0 "macos" (or_intror (or_introl (conj eq_refl eq_refl))) (arch_str a0) (or_introl eq_refl)) as [H1 H2];
             replace ((S_ "macos_" ++ dec M ++ [95] ++ dec m) ++ [95] ++ arch_str a0)
               with (S_ "macos" ++ [95] ++ dec M ++ [95] ++ dec m ++ [95] ++ arch_str a0) by (cbn; rewrite <- !app_assoc; reflexivity)
           end;
           rewrite H1; rewrite EM in *; cbn -[dec parse_dec arch_parse match_versioned]; rewrite ?Hc97, ?Hc120; cbn -[dec parse_dec arch_parse match_versioned];
           rewrite <- ?EM, !parse_dec_dec; reflexivity).
    destruct (rt_versioned KMacos M m Aarch64 "macos" (or_intror (or_introl (conj eq_refl eq_refl))) (S_ "arm64") (or_intror (conj eq_refl eq_refl))) as [H1 H2].
    replace ((S_ "macos_" ++ dec M ++ [95] ++ dec m) ++ S_ "_arm64")
      with (S_ "macos" ++ [95] ++ dec M ++ [95] ++ dec m ++ [95] ++ S_ "arm64") by (cbn; rewrite <- !app_assoc; reflexivity).
    rewrite H1. rewrite EM in *. cbn -[dec parse_dec arch_parse match_versioned]. rewrite ?Hc97, ?Hc120. cbn -[dec parse_dec arch_parse match_versioned].
    rewrite <- ?EM, !parse_dec_dec. reflexivity.
Qed.

Theorem C18_plat_rt_windows a : a = X86 \/ a = X86_64 \/ a = Aarch64 ->
  platform_parse (platform_str (mkPlatform Windows a)) = Ret (mkPlatform Windows a).
Proof. intros [-> | [-> | ->]]; vm_compute; reflexivity. Qed.

Theorem C18_alias :
  platform_parse (S_ "linux") = Ret (mkPlatform (Manylinux 2 17) X86_64)
  /\ platform_parse (S_ "windows") = Ret (mkPlatform Windows X86_64)
  /\ platform_parse (S_ "macos") = Ret (mkPlatform (Macos 14 0) Aarch64)
  /\ platform_parse (S_ "alpine") = Ret (mkPlatform (Musllinux 1 2) X86_64)
  /\ platform_parse (S_ "windows_amd64") = Ret (mkPlatform Windows X86_64)
  /\ platform_parse (S_ "windows_x86") = Ret (mkPlatform Windows X86)
  /\ platform_parse (S_ "windows_arm64") = Ret (mkPlatform Windows Aarch64)
  /\ platform_parse (S_ "macos_arm64") = Ret (mkPlatform (Macos 14 0) Aarch64)
  /\ platform_parse (S_ "macos_x86_64") = Ret (mkPlatform (Macos 14 0) X86_64).
Proof. repeat split; vm_compute; reflexivity. Qed.

Example C18_plat_runs :
  platform_parse (S_ "manylinux_2_123_aarch64") = Ret (mkPlatform (Manylinux 2 123) Aarch64)
  /\ platform_str (mkPlatform (Macos 12 10) Aarch64) = S_ "macos_12_10_arm64"
  /\ platform_parse (S_ "macos_10_9_x86_64") = Ret (mkPlatform (Macos 10 9) X86_64)
  /\ platform_parse (S_ "manylinux_2_17_sparc") = Raise ValueError.
Proof. repeat split; vm_compute; reflexivity. Qed.

Definition C18_all := (C18_wheel, C18_ext, C18_parts, C18_plat_rt_versioned, C18_plat_rt_windows, C18_alias).
Redirect "C18.assumptions" Print Assumptions C18_all.
