(* C04 — membership agrees with PEP 440 (packaging) through the whole algebra, for final
   releases.  contains() in the code is packaging applied to the RENDERED text of the
   value, so the statement needs, and uses: the translation of every operator into
   ranges (from_pkg_spec), exactness of the generated &,|,~ (C01), provenance of the
   remembered `simplified` texts (SpecProv), and soundness of the rendering heuristics
   (RenderSound).
   clause_sem / set_sem / text_sem: packaging's Specifier.contains on a final release
   (modelled; the S-parse stream compares it with the installed packaging).
   The one exclusion, tilde_safe, is the recorded defect (known finding tilde-max-post):
   a range rendered `~=X.Y` although its upper bound is a post-release; C04_tilde_refuted
   is the machine-checked witness that the statement fails there. *)
From Coq Require Import List Bool NArith.
From Verif Require Import PyRes Order Cuts Str SpecTypes GenSpec SpecSem SpecExpr Pep440 Corr SpecParse
  ParseSound RenderSound ParseReach.
Import ListNotations.
Import X.

(* every operator's translation into ranges is PEP 440 on final releases *)
Theorem C04_clause c : wf_clause c ->
  exists s, from_pkg c = Ret s /\ forall v, final v -> mem (vcut v) s = clause_sem c v.
Proof. intros W. destruct (from_pkg_spec c W) as (s & E & _ & _ & M). exists s. split; assumption. Qed.

(* a parsed text *)
Theorem C04_leaf t s : wf_text t -> parse t = Ret s -> Forall tilde_safe (ranges_of s) ->
  forall v, final v -> spec_contains s v = Ret (text_sem t v).
Proof. exact (leaf_contains t s). Qed.

(* every &,|,~ expression over parsed texts *)
Theorem C04_closure txt env e :
  (forall n, wf_text (txt n)) -> (forall n, parse (txt n) = Ret (env n)) ->
  exists r, eval env e = Ret r
    /\ (Forall tilde_safe (ranges_of r) ->
        forall v, final v -> spec_contains r v = Ret (bdenote (fun n => text_sem (txt n) v) e)).
Proof.
  intros Wt Ep. destruct (expr_reach txt env Wt Ep e) as (r & E & _). exists r. split; [exact E|].
  intros Ht. exact (expr_contains txt env Wt Ep e r E Ht).
Qed.

Theorem C04_empty_any v : spec_contains SEmpty v = Ret false /\ spec_contains SAny v = Ret true.
Proof. split; reflexivity. Qed.

(* the recorded defect: [1.2, 2.post1) is rendered ~=1.2, so 2.0 (a member: 2.0 < 2.post1) is reported absent *)
Definition r_tilde : range :=
  mkRangeRaw (Some (relver 0 [1; 2]%N)) (Some (mkVer 0 [2]%N None (Some 1%N) None)) true false None.
Theorem C04_tilde_refuted :
  canon (SRange r_tilde) /\ simp_ok (SRange r_tilde) /\ final (relver 0 [2; 0]%N)
  /\ mem (vcut (relver 0 [2; 0]%N)) (SRange r_tilde) = true
  /\ spec_contains (SRange r_tilde) (relver 0 [2; 0]%N) = Ret false.
Proof.
  split; [|split; [exact I|split; [repeat split|split; vm_compute; reflexivity]]].
  split; [apply CO.lt_iff; vm_compute; reflexivity | split; cbn; congruence].
Qed.

(* non-vacuity: the expression (A or B) and not C, with A = [>=1.0, <2], B = [==3.X], C = [!=1.5], evaluates and contains 1.5 but not 1.6 *)
Definition tx (n : nat) : stext :=
  match n with
  | 0%nat => TAlts [[mkClause OpGe (relver 0 [1; 0]%N); mkClause OpLt (relver 0 [2]%N)]; [mkClause OpEqStar (relver 0 [3]%N)]]
  | _ => TAlts [[mkClause OpNe (relver 0 [1; 5]%N)]]
  end.
Example C04_runs :
  exists e0 e1 r, parse (tx 0) = Ret e0 /\ parse (tx 1) = Ret e1
    /\ eval (fun n => match n with 0%nat => e0 | _ => e1 end) (SAnd (SVar 0) (SNot (SVar 1))) = Ret r
    /\ spec_contains r (relver 0 [1; 5]%N) = Ret true /\ spec_contains r (relver 0 [1; 6]%N) = Ret false.
Proof. do 3 eexists. repeat split; vm_compute; reflexivity. Qed.

Definition C04_all := (C04_clause, C04_leaf, C04_closure, C04_empty_any, C04_tilde_refuted).
Redirect "C04.assumptions" Print Assumptions C04_all.
