(* C08 — wheel python/ABI compatibility = the side conditions on implementation / ABI hold
   and some position allowed by requires_python can load the wheel.
   Model: Model/Tags.v (hand-written; S-tags stream) on top of the GENERATED `&` and
   is_empty, whose exactness (C01, C05) is what turns "the intersection is not reported
   empty" into "there is a common position". *)
From Coq Require Import String List Bool NArith ZArith Arith Lia.
From Verif Require Import PyRes Order Cuts Str SpecTypes GenSpec SpecSem RangeBridge UnionBase SpecOps SpecEq SpecExpr Pep440 Platform Tags.
Import ListNotations.
Local Open Scope N_scope.

Module X := SpecExpr Pep440.
Import X.

Definition pos (c : cut) : Prop := CO.lt c PosInf.

(* a canonical value that is_empty() does not report empty has a member *)
Lemma nonempty_witness s : canon s -> spec_is_empty s = Ret false -> exists c, pos c /\ mem c s = true.
Proof.
  intros Cs. destruct s as [| |r|u|?|?]; try contradiction; cbn; try discriminate; intros _.
  - exists NegInf. split; [apply SE.pos_neginf | reflexivity].
  - destruct Cs as [N _]. exists (lb r). split; [eapply SE.pos_of_lt; exact N | apply memr_lb; exact N].
  - destruct Cs as [Hlen Cs]. destruct (uranges u) as [|r1 l] eqn:E; [cbn in Hlen; lia|].
    apply chain_cons in Cs as (_ & [N _] & _).
    exists (lb r1). split; [eapply SE.pos_of_lt; exact N|]. cbn. rewrite memr_lb by exact N. reflexivity.
Qed.

Lemma empty_no_member s : canon s -> spec_is_empty s = Ret true -> forall c, pos c -> mem c s = false.
Proof.
  intros Cs E. destruct (SE.is_empty_spec s Cs) as (r & Er & Hr).
  assert (H : Ret r = Ret true) by exact (eq_trans (eq_sym Er) E). injection H as ->. apply Hr. reflexivity.
Qed.

(* a & rp is reported non-empty exactly when a and rp share a position *)
Lemma inter_nonempty a rp : canon a -> canon rp ->
  exists r e, spec_and a rp = Ret r /\ spec_is_empty r = Ret e
              /\ (e = false <-> exists c, pos c /\ mem c rp = true /\ mem c a = true).
Proof.
  intros Ca Crp. destruct (spec_and_spec a rp Ca Crp) as (r & E & Cr & M).
  destruct (SE.is_empty_spec r Cr) as (e & Ee & He).
  exists r, e. split; [exact E|]. split; [exact Ee|]. split.
  - intros ->. destruct (nonempty_witness r Cr Ee) as (c & P & Hc).
    exists c. rewrite M in Hc. apply andb_prop in Hc. tauto.
  - intros (c & P & H1 & H2). destruct e; [|reflexivity]. exfalso.
    assert (Hm : mem c r = false) by (apply He; [reflexivity | exact P]).
    rewrite M, H1, H2 in Hm. discriminate.
Qed.

(* ---- the fixed shapes are canonical ---- *)
Lemma lt_V2_ge x y : CO.lt (C (V2 x y) Bef) (PosInf : cut).
Proof. apply CO.lt_iff. reflexivity. Qed.

Lemma canon_ge x y : canon (spec_ge x y).
Proof. split; [apply lt_V2_ge | split; cbn; congruence]. Qed.

Lemma cmp_lt_Lt (a b : Z) : (a < b)%Z -> Z.compare a b = Lt.
Proof. intros H. destruct (Z.compare_spec a b); lia || reflexivity. Qed.

(* X.Y.0 < X.(Y+1).0 *)
Lemma minor_series_ne x y : CO.lt (C (V3 x y 0) Bef) (C (V3 x (y + 1) 0) Bef : cut).
Proof.
  apply CO.lt_iff. cbn [CO.compare CO.side_cmp]. unfold Pep440.compare, vkey, strip_zeros; cbn [epoch release pre post dev rev app].
  assert (H1 : y + 1 <> 0) by lia.
  destruct (y + 1) as [|q] eqn:E; [congruence|].
  destruct x as [|px], y as [|py]; cbn; rewrite ?Z.compare_refl, ?Pos.compare_refl; cbn; try reflexivity.
  - assert (Hc : Pos.compare py q = Lt) by (apply Pos.compare_lt_iff; lia). rewrite Hc. reflexivity.
  - assert (Hc : Pos.compare py q = Lt) by (apply Pos.compare_lt_iff; lia). rewrite Hc. reflexivity.
Qed.

(* X.0 < (X+1).0 *)
Lemma major_series_ne x : CO.lt (C (V2 x 0) Bef) (C (V2 (x + 1) 0) Bef : cut).
Proof.
  apply CO.lt_iff. cbn [CO.compare CO.side_cmp]. unfold Pep440.compare, vkey, strip_zeros; cbn [epoch release pre post dev rev app].
  assert (H1 : x + 1 <> 0) by lia.
  destruct (x + 1) as [|q] eqn:E; [congruence|].
  destruct x as [|px]; cbn; try reflexivity.
  assert (Hc : Pos.compare px q = Lt) by (apply Pos.compare_lt_iff; lia). rewrite Hc. reflexivity.
Qed.

Lemma canon_minor_series x y : canon (spec_minor_series x y).
Proof. split; [apply minor_series_ne | split; cbn; congruence]. Qed.
Lemma canon_major_series x : canon (spec_major_series x).
Proof. split; [apply major_series_ne | split; cbn; congruence]. Qed.

(* ---- the statement ---- *)
Definition minor0 (t : pytag) : N := match t_minor t with Some m => m | None => 0 end.
Definition abi_is (abi_tag : str) (k : string) : bool := str_eqb (abi_impl_of abi_tag) (S_ k).
Definition rank (abi_tag : str) : N := if abi_is abi_tag "abi3" then 1 else if abi_is abi_tag "none" then 0 else 2.

(* which positions can load the wheel: an interval read off the tags *)
Definition loadable (t : pytag) (abi_tag : str) (c : cut) : bool :=
  if abi_is abi_tag "abi3" then mem c (spec_ge (t_major t) (minor0 t))                  (* cpXY-abi3: any interpreter >= X.Y *)
  else match t_minor t with
       | Some m => if str_eqb (t_impl t) (S_ "py")
                   then mem c (spec_ge (t_major t) m) && mem c (spec_major_series (t_major t))   (* pyXY: >= X.Y within major X *)
                   else mem c (spec_minor_series (t_major t) m)                                   (* cpXY/ppXY/ptXY: an X.Y interpreter *)
       | None => mem c (spec_major_series (t_major t))                                            (* pyX: any X.* interpreter *)
       end.

(* implementation / ABI side conditions *)
Definition side_ok (e : envspec) (t : pytag) (abi_tag : str) : bool :=
  let abi_impl := abi_impl_of abi_tag in
  let ptag := lower (pytag_str t) in
  match e_impl e with
  | Some i => str_eqb (t_impl t) (impl_short i) || str_eqb (t_impl t) (S_ "py")   (* own or generic tags only *)
  | None => true
  end
  && (if abi_is abi_tag "abi3"
      then str_eqb (t_impl t) (S_ "cp") && match e_impl e with None => true | Some i => negb (gil_disabled i) end
      else abi_is abi_tag "none"
           || (starts_with ptag abi_impl                                                  (* the ABI names the python tag ... *)
               && negb (match skipn (List.length ptag) abi_impl with c :: _ => is_digit c | [] => false end)  (* ... and the same minor *)
               && match e_impl e with                                                     (* ... and the free-threading flag *)
                  | Some i => Bool.eqb (ends_with (S_ "t") abi_impl) (gil_disabled i)
                  | None => true
                  end)).

(* the wheel's own range when the ABI is not abi3 *)
Definition wr_of (t : pytag) : pyres spec :=
  match t_minor t with
  | Some m =>
      if str_eqb (t_impl t) (S_ "py")
      then spec_and (spec_ge (t_major t) m) (spec_major_series (t_major t))
      else Ret (spec_minor_series (t_major t) m)
  | None => Ret (spec_major_series (t_major t))
  end.
Definition loadable_plain (t : pytag) (c : cut) : bool :=
  match t_minor t with
  | Some m => if str_eqb (t_impl t) (S_ "py")
              then mem c (spec_ge (t_major t) m) && mem c (spec_major_series (t_major t))
              else mem c (spec_minor_series (t_major t) m)
  | None => mem c (spec_major_series (t_major t))
  end.

Lemma wr_spec t : exists wr, wr_of t = Ret wr /\ canon wr /\ forall c, mem c wr = loadable_plain t c.
Proof.
  unfold wr_of, loadable_plain. destruct (t_minor t) as [m|].
  - destruct (str_eqb (t_impl t) (S_ "py")).
    + destruct (spec_and_spec (spec_ge (t_major t) m) (spec_major_series (t_major t)) (canon_ge _ _) (canon_major_series _)) as (r & E & Cr & M).
      exists r. auto.
    + eexists. split; [reflexivity|]. split; [apply canon_minor_series | reflexivity].
  - eexists. split; [reflexivity|]. split; [apply canon_major_series | reflexivity].
Qed.

(* the common tail of _evaluate_python: intersect the wheel's range with requires_python *)
Lemma tail_spec rp t (rk : N) : canon rp ->
  exists res,
    (wheel_range <- wr_of t ;; r <- spec_and wheel_range rp ;; emp <- spec_is_empty r ;;
     if emp then Ret None else Ret (Some (t_major t, minor0 t, rk))) = Ret res
    /\ (res <> None <-> exists c, pos c /\ mem c rp = true /\ loadable_plain t c = true)
    /\ (forall v, res = Some v -> v = (t_major t, minor0 t, rk)).
Proof.
  intros Crp. destruct (wr_spec t) as (wr & Ew & Cw & Mw). rewrite Ew. cbn [bind].
  destruct (inter_nonempty wr rp Cw Crp) as (r & em & E1 & E2 & H). rewrite E1. cbn [bind]. rewrite E2. cbn [bind].
  destruct em.
  - exists None. split; [reflexivity|]. split; [|discriminate]. split; [congruence|].
    intros (c & P & H1 & H2). assert (false = true); [|discriminate]. symmetry. apply H. exists c. rewrite Mw. auto.
  - eexists. split; [reflexivity|]. split; [|intros v [= <-]; reflexivity].
    split; [|discriminate]. intros _. destruct H as [H _]. destruct (H eq_refl) as (c & P & H1 & H2).
    exists c. rewrite <- Mw. auto.
Qed.

Theorem C08 e t abi_tag :
  canon (requires_python e) ->
  exists res, evaluate_python e t abi_tag = Ret res
    /\ (res <> None <->
        side_ok e t abi_tag = true
        /\ exists c, pos c /\ mem c (requires_python e) = true /\ loadable t abi_tag c = true)
    /\ (forall v, res = Some v -> v = (t_major t, minor0 t, rank abi_tag)).
Proof.
  intros Crp. unfold evaluate_python, side_ok, loadable, rank, abi_is, opt_impl_gil.
  remember (abi_impl_of abi_tag) as abi_impl eqn:Habi. clear Habi. fold (minor0 t).
  (* implementation filter *)
  destruct (match e_impl e with
            | Some i => negb (str_eqb (t_impl t) (impl_short i) || str_eqb (t_impl t) (S_ "py"))
            | None => false
            end) eqn:EI.
  { exists None. split; [reflexivity|]. split; [|discriminate]. split; [congruence|].
    intros [H _]. destruct (e_impl e) as [i|]; [|discriminate].
    apply negb_true_iff in EI. rewrite EI in H. discriminate. }
  assert (HI : match e_impl e with
               | Some i => str_eqb (t_impl t) (impl_short i) || str_eqb (t_impl t) (S_ "py")
               | None => true
               end = true).
  { destruct (e_impl e); [apply negb_false_iff in EI; exact EI | reflexivity]. }
  rewrite HI. cbn [andb].
  destruct (str_eqb abi_impl (S_ "abi3")) eqn:A3.
  - (* abi3 *)
    destruct (str_eqb (t_impl t) (S_ "cp") && match e_impl e with None => true | Some i => negb (gil_disabled i) end) eqn:AL; cbn [negb].
    + destruct (inter_nonempty (spec_ge (t_major t) (minor0 t)) (requires_python e) (canon_ge _ _) Crp) as (r & em & E1 & E2 & H).
      change (P.spec_and (spec_ge (t_major t) (minor0 t)) (requires_python e)) with (spec_and (spec_ge (t_major t) (minor0 t)) (requires_python e)).
      rewrite E1. cbn [bind].
      change (P.spec_is_empty r) with (spec_is_empty r). rewrite E2. cbn [bind].
      destruct em.
      * exists None. split; [reflexivity|]. split; [|discriminate]. split; [congruence|].
        intros [_ Hex]. apply H in Hex. discriminate.
      * eexists. split; [reflexivity|]. split; [|intros v [= <-]; reflexivity].
        split; [intros _; split; [reflexivity | apply H; reflexivity] | discriminate].
    + exists None. split; [reflexivity|]. split; [|discriminate]. split; [congruence | intros [H _]; discriminate].
  - (* none / native *)
    remember (lower (pytag_str t)) as ptag eqn:Hptag. clear Hptag.
    set (mismatch := negb (starts_with ptag abi_impl)
                     || match skipn (List.length ptag) abi_impl with c :: _ => is_digit c | [] => false end
                     || match option_map gil_disabled (e_impl e) with
                        | Some ft => negb (Bool.eqb (ends_with (S_ "t") abi_impl) ft)
                        | None => false
                        end).
    assert (Hside : (str_eqb abi_impl (S_ "none")
                     || (starts_with ptag abi_impl
                         && negb (match skipn (List.length ptag) abi_impl with c :: _ => is_digit c | [] => false end)
                         && match e_impl e with
                            | Some i => Bool.eqb (ends_with (S_ "t") abi_impl) (gil_disabled i)
                            | None => true
                            end))
                    = negb (negb (str_eqb abi_impl (S_ "none")) && mismatch)).
    { unfold mismatch. destruct (e_impl e) as [i|]; cbn [option_map];
        [destruct (Bool.eqb (ends_with (S_ "t") abi_impl) (gil_disabled i))|];
        destruct (str_eqb abi_impl (S_ "none")), (starts_with ptag abi_impl),
          (match skipn (List.length ptag) abi_impl with c :: _ => is_digit c | [] => false end); reflexivity. }
    rewrite Hside. fold mismatch.
    destruct (negb (str_eqb abi_impl (S_ "none")) && mismatch) eqn:MM; cbn [negb].
    + exists None. split; [reflexivity|]. split; [|discriminate]. split; [congruence | intros [H _]; discriminate].
    + destruct (tail_spec (requires_python e) t (if str_eqb abi_impl (S_ "none") then 0 else 2) Crp) as (res & E & H1 & H2).
      exists res. split; [exact E|]. split.
      * rewrite H1. unfold loadable_plain. tauto.
      * exact H2.
Qed.

Module T := Tags.
(* cp39-abi3 and py36-none for requires_python >=3.7 ; cp38 native for ==3.9.* *)
Definition rp_ge37 : spec := spec_ge 3 7.
Definition env0 := mkEnv rp_ge37 None None.
Example C08_runs :
  evaluate_python env0 (mkPyTag (S_ "cp") 3 (Some 9)) (S_ "abi3") = Ret (Some (3, 9, 1))
  /\ evaluate_python env0 (mkPyTag (S_ "py") 3 (Some 6)) (S_ "none") = Ret (Some (3, 6, 0))
  /\ evaluate_python env0 (mkPyTag (S_ "cp") 3 (Some 6)) (S_ "cp36m") = Ret None
  /\ evaluate_python (mkEnv (spec_minor_series 3 9) None (Some (mkImpl Cpython true))) (mkPyTag (S_ "cp") 3 (Some 9)) (S_ "cp39t") = Ret (Some (3, 9, 2))
  /\ evaluate_python (mkEnv (spec_minor_series 3 9) None (Some (mkImpl Cpython true))) (mkPyTag (S_ "cp") 3 (Some 9)) (S_ "cp39") = Ret None
  /\ evaluate_python env0 (mkPyTag (S_ "cp") 3 (Some 1)) (S_ "cp310") = Ret None
  /\ evaluate_python env0 (mkPyTag (S_ "pp") 3 (Some 10)) (S_ "pypy310_pp73") = Ret (Some (3, 10, 2)).
Proof. repeat split; vm_compute; reflexivity. Qed.

Definition C08_all := (C08, tail_spec, inter_nonempty).
Redirect "C08.assumptions" Print Assumptions C08_all.
