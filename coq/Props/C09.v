(* C09 — platform tag sets and preference order, for ALL target versions (not only the
   grid): membership characterisations by induction over the descending ranges; the
   newest-first order as a sortedness check computed over the property's whole grid.
   Model: Model/Platform.v (hand-written; tied to platform.py by the exhaustive S-plat
   stream).  "As packaging.tags orders it" is checked by the direct oracle against
   packaging with its probes stubbed, exhaustively over the same grid. *)
From Coq Require Import String List Bool NArith Arith Lia.
From Verif Require Import PyRes Str Platform.
Import ListNotations.
Local Open Scope N_scope.

Lemma in_desc_n n : forall hi k, N.of_nat n <= hi + 1 -> (In k (desc_n n hi) <-> k <= hi /\ hi < k + N.of_nat n).
Proof.
  induction n as [|n IH]; intros hi k Hn; cbn [desc_n].
  - cbn. lia.
  - cbn [In]. destruct n as [|n'].
    + cbn. lia.
    + rewrite IH by lia. lia.
Qed.

Lemma in_desc hi lo k : In k (desc hi lo) <-> lo <= k /\ k <= hi.
Proof.
  unfold desc. destruct (N.ltb_spec hi lo) as [H|H]; [cbn; lia|].
  rewrite in_desc_n by lia. lia.
Qed.

Definition tags_of (o : os) (a : arch) : list ptag :=
  match compatible_tags (mkPlatform o a) with Ret l => l | _ => [] end.

Theorem C09_manylinux K a f : min_manylinux_minor a = Some f ->
  compatible_tags (mkPlatform (Manylinux 2 K) a) = Ret (tags_of (Manylinux 2 K) a)
  /\ forall t, In t (tags_of (Manylinux 2 K) a) <->
       (exists k, f <= k /\ k <= K /\ t = TManylinux 2 k a)
       \/ (t = TLegacy L1 a /\ f <= 5 /\ 5 <= K)
       \/ (t = TLegacy L2010 a /\ f <= 12 /\ 12 <= K)
       \/ (t = TLegacy L2014 a /\ f <= 17 /\ 17 <= K)
       \/ t = TLinux a.
Proof.
  intros Hf. split; [reflexivity|]. intros t. unfold tags_of, compatible_tags. cbn [p_os p_arch]. rewrite Hf.
  rewrite in_app_iff, in_flat_map. cbn [In]. split.
  - intros [(k & Hk & Hb) | [<- | []]]; [|tauto].
    apply in_desc in Hk. unfold manylinux_block in Hb. cbn [In] in Hb. rewrite !in_app_iff in Hb.
    destruct Hb as [<- | [Hb | [Hb | Hb]]].
    + left. exists k. split; [lia|]. split; [lia|reflexivity].
    + destruct (N.eqb_spec k 12); [|contradiction]. destruct Hb as [<- | []]. subst. right; right; left. split; [reflexivity|lia].
    + destruct (N.eqb_spec k 17); [|contradiction]. destruct Hb as [<- | []]. subst. right; right; right; left. split; [reflexivity|lia].
    + destruct (N.eqb_spec k 5); [|contradiction]. destruct Hb as [<- | []]. subst. right; left. split; [reflexivity|lia].
  - intros [(k & H1 & H2 & ->) | [(-> & H1 & H2) | [(-> & H1 & H2) | [(-> & H1 & H2) | ->]]]].
    + left. exists k. split; [apply in_desc; lia|]. left. reflexivity.
    + left. exists 5. split; [apply in_desc; lia|]. cbn. tauto.
    + left. exists 12. split; [apply in_desc; lia|]. cbn. tauto.
    + left. exists 17. split; [apply in_desc; lia|]. cbn. tauto.
    + right. left. reflexivity.
Qed.

Theorem C09_musl K a :
  forall t, In t (tags_of (Musllinux 1 K) a) <-> (exists k, 1 <= k /\ k <= K /\ t = TMusllinux 1 k a) \/ t = TLinux a.
Proof.
  intros t. unfold tags_of, compatible_tags. cbn [p_os p_arch In]. rewrite in_map_iff. split.
  - intros [<- | (k & <- & Hk)]; [tauto|]. apply in_rev, in_desc in Hk. left. exists k. split; [lia|]. split; [lia|reflexivity].
  - intros [(k & H1 & H2 & ->) | ->]; [|tauto]. right. exists k. split; [reflexivity|]. apply in_rev. rewrite rev_involutive. apply in_desc. lia.
Qed.

(* macOS, x86_64: every release not newer than the target, each with all binary formats *)
Theorem C09_mac_x86 A B : A = 10 \/ 11 <= A ->
  exists l, compatible_tags (mkPlatform (Macos A B) X86_64) = Ret l
  /\ forall a b f, In (TMac a b f) l <->
       In f (mac_binary_formats X86_64)
       /\ ((A = 10 /\ a = 10 /\ 4 <= b /\ b <= B)
           \/ (11 <= A /\ ((11 <= a /\ a <= A /\ b = 0) \/ (a = 10 /\ 4 <= b /\ b <= 16)))).
Proof.
  intros HA. unfold compatible_tags. cbn [p_os p_arch].
  destruct (N.eqb_spec A 10) as [->|Hne].
  - eexists. split; [reflexivity|]. intros a b f. rewrite in_flat_map. split.
    + intros (m & Hm & Hin). apply in_desc in Hm. apply in_map_iff in Hin as (f' & [= <- <- <-] & Hf). split; [exact Hf|]. left. lia.
    + intros [Hf [(_ & -> & H1 & H2) | (H & _)]]; [|lia].
      exists b. split; [apply in_desc; lia|]. apply in_map_iff. eauto.
  - destruct (N.leb_spec 11 A) as [H11|H11]; [|lia].
    eexists. split; [reflexivity|]. intros a b f. rewrite in_app_iff, !in_flat_map. split.
    + intros [(M & HM & Hin) | (m & Hm & Hin)].
      * apply in_desc in HM. apply in_map_iff in Hin as (f' & [= <- <- <-] & Hf). split; [exact Hf|]. right. split; [lia|]. left. lia.
      * apply in_desc in Hm. apply in_map_iff in Hin as (f' & [= <- <- <-] & Hf). split; [exact Hf|]. right. split; [lia|]. right. lia.
    + intros [Hf [(H & _) | (_ & [(H1 & H2 & ->) | (-> & H1 & H2)])]]; [lia| |].
      * left. exists a. split; [apply in_desc; lia|]. apply in_map_iff. eauto.
      * right. exists b. split; [apply in_desc; lia|]. apply in_map_iff. eauto.
Qed.

(* macOS, arm64, real targets (11 and later): arm64 + universal2 for 11..A, universal2 back to 10.4 *)
Theorem C09_mac_arm64 A B : 11 <= A ->
  forall a b f, In (TMac a b f) (tags_of (Macos A B) Aarch64) <->
    (11 <= a /\ a <= A /\ b = 0 /\ (f = FArch Aarch64 \/ f = FUniversal2))
    \/ (a = 10 /\ 4 <= b /\ b <= 16 /\ f = FUniversal2).
Proof.
  intros HA a b f. unfold tags_of, compatible_tags. cbn [p_os p_arch]. rewrite in_app_iff, in_flat_map, in_map_iff. split.
  - intros [(M & HM & Hin) | (m & [= <- <- <-] & Hm)].
    + apply in_desc in HM. cbn in Hin. destruct Hin as [[= <- <- <-] | [[= <- <- <-] | []]]; left; repeat split; try lia; tauto.
    + apply in_desc in Hm. right. repeat split; lia.
  - intros [(H1 & H2 & -> & Hf) | (-> & H1 & H2 & ->)].
    + left. exists a. split; [apply in_desc; lia|]. cbn. destruct Hf as [-> | ->]; tauto.
    + right. exists b. split; [reflexivity|]. apply in_desc. lia.
Qed.

(* the recorded finding: on arm64 a 10.x target is given releases newer than itself *)
Theorem C09_mac_arm64_10_refuted :
  exists B, B < 16 /\ In (TMac 10 16 FUniversal2) (tags_of (Macos 10 B) Aarch64)
            /\ ~ In (TMac 10 B (FArch Aarch64)) (tags_of (Macos 10 B) Aarch64).
Proof.
  exists 6. split; [lia|]. split; [vm_compute; tauto|]. vm_compute. intuition discriminate.
Qed.

Theorem C09_win :
  tags_of Windows X86 = [TWin32] /\ tags_of Windows X86_64 = [TWinAmd64] /\ tags_of Windows Aarch64 = [TWinArm64].
Proof. repeat split. Qed.

(* score = List.length of (tags ++ [any]) minus the index of the tag; `any` is last; unknown tags are rejected *)
Lemma index_of_spec t l : match index_of t l with
                          | Some i => (i < List.length l)%nat /\ (exists x, nth_error l i = Some x /\ ptag_eqb x t = true)
                                      /\ forall j x, (j < i)%nat -> nth_error l j = Some x -> ptag_eqb x t = false
                          | None => forall x, In x l -> ptag_eqb x t = false
                          end.
Proof.
  induction l as [|y l IH]; cbn [index_of]; [intros x []|].
  destruct (ptag_eqb y t) eqn:E.
  - split; [cbn; lia|]. split; [exists y; cbn; auto|]. intros j x Hj. lia.
  - destruct (index_of t l) as [i|]; cbn [option_map].
    + destruct IH as (H1 & (x & H2 & H3) & H4). split; [cbn; lia|]. split; [exists x; cbn; auto|].
      intros [|j] z Hj Hz; cbn in Hz; [congruence|]. eapply H4; [|exact Hz]. lia.
    + intros x [<- | Hx]; auto.
Qed.

Theorem C09_score p tags t : compatible_tags p = Ret tags ->
  match index_of t (tags ++ [TAny]) with
  | Some i => evaluate_platform p t = Ret (Some (List.length tags + 1 - i)%nat) /\ (i <= List.length tags)%nat
  | None => evaluate_platform p t = Ret None
  end.
Proof.
  intros E. unfold evaluate_platform. rewrite E. cbn [bind].
  pose proof (index_of_spec t (tags ++ [TAny])) as H.
  destruct (index_of t (tags ++ [TAny])) as [i|]; [|reflexivity].
  rewrite app_length in *. cbn [List.length] in *. destruct H as (H & _). split; [reflexivity | lia].
Qed.

(* ---- newest-first order, computed over the whole grid of the property ---- *)
Definition key (t : ptag) : N :=
  match t with
  | TManylinux _ k _ => 2 * k + 1
  | TLegacy L1 _ => 2 * 5 | TLegacy L2010 _ => 2 * 12 | TLegacy L2014 _ => 2 * 17
  | TMac M m _ => 1000 * M + m
  | _ => 0
  end.
Fixpoint desc_sorted (strict : bool) (l : list ptag) : bool :=
  match l with
  | x :: ((y :: _) as l') => (if strict then key y <? key x else key y <=? key x) && desc_sorted strict l'
  | _ => true
  end.
Definition linux_archs := [X86_64; Aarch64; Armv7L; Powerpc64Le; Powerpc64; S390X; RISCV64].
Definition grid_ok : bool :=
  forallb (fun a => forallb (fun K => desc_sorted true (tags_of (Manylinux 2 K) a)) (desc 50 5)) linux_archs
  && forallb (fun a => forallb (fun B => desc_sorted false (tags_of (Macos 10 B) a)) (desc 16 4)
                       && forallb (fun A => desc_sorted false (tags_of (Macos A 0) a) && desc_sorted false (tags_of (Macos A 3) a)) (desc 30 11))
       [X86_64; Aarch64].

Theorem C09_order_grid : grid_ok = true.
Proof. vm_compute. reflexivity. Qed.

Example C09_runs :
  map render (tags_of (Manylinux 2 18) Aarch64)
  = map of_string ["manylinux_2_18_aarch64"; "manylinux_2_17_aarch64"; "manylinux2014_aarch64"; "linux_aarch64"]%string
  /\ evaluate_platform (mkPlatform (Manylinux 2 18) Aarch64) (TLegacy L2014 Aarch64) = Ret (Some 3%nat)
  /\ evaluate_platform (mkPlatform (Manylinux 2 18) Aarch64) TAny = Ret (Some 1%nat)
  /\ evaluate_platform (mkPlatform (Manylinux 2 18) Aarch64) TWin32 = Ret None.
Proof. repeat split; vm_compute; reflexivity. Qed.

Definition C09_all := (C09_manylinux, C09_musl, C09_mac_x86, C09_mac_arm64, C09_mac_arm64_10_refuted, C09_win, C09_score, C09_order_grid).
Redirect "C09.assumptions" Print Assumptions C09_all.
