(* C06 — text round trip: for every value reachable from the parser through &, |, ~,
   str() succeeds and parse_version_specifier(str(s)) == s (the generated `==`), including
   the shortened renderings ~=X.Y, ==V, !=V, !=X.*, the || syntax and <empty>.
   The text layer (str(Version), packaging's tokeniser) is observed by the S-parse stream;
   the model renders to, and parses from, tokenised clauses.
   Exclusion: tilde_safe (the recorded defect tilde-max-post); C06_tilde_refuted is its
   machine-checked witness. *)
From Coq Require Import List Bool NArith.
From Verif Require Import PyRes Order Cuts Str SpecTypes GenSpec SpecSem SpecExpr Pep440 Corr SpecParse
  ParseSound RenderSound ParseReach.
Import ListNotations.
Import X.

(* any canonical value whose remembered clauses are genuine *)
Theorem C06_value s : canon s -> simp_ok s -> Forall tilde_safe (ranges_of s) ->
  exists t s', render s = Ret t /\ parse t = Ret s' /\ canon s' /\ spec_eq s s' = Ret true.
Proof. intros C S T. exact (render_parse_roundtrip s C (conj S T)). Qed.

(* reachable values: expressions over parsed texts *)
Theorem C06_reachable txt env e :
  (forall n, wf_text (txt n)) -> (forall n, parse (txt n) = Ret (env n)) ->
  exists r, eval env e = Ret r
    /\ (Forall tilde_safe (ranges_of r) ->
        exists t s', render r = Ret t /\ parse t = Ret s' /\ canon s' /\ spec_eq r s' = Ret true).
Proof.
  intros Wt Ep. destruct (expr_reach txt env Wt Ep e) as (r & E & _). exists r. split; [exact E|].
  intros Ht. exact (expr_roundtrip txt env Wt Ep e r E Ht).
Qed.

(* the two heuristics, separately: when `~=` / `!=X.*` is chosen the bounds are exactly the ones the clause denotes *)
Theorem C06_tilde m M : tilde_ok m M = true -> post M = None ->
  exists mm x, release m = mm ++ [x] /\ mm <> [] /\ vcmp (relver (epoch m) (ParseArith.incl mm ++ [0%N])) M = Eq.
Proof. exact (tilde_ok_sound m M). Qed.
Theorem C06_nestar lM rm p : nestar_prefix lM rm = Ret (Some p) ->
  release p <> [] /\ vcmp (relver (epoch p) (release p ++ [0%N])) lM = Eq
  /\ vcmp (relver (epoch p) (ParseArith.incl (release p) ++ [0%N])) rm = Eq.
Proof. exact (nestar_prefix_sound lM rm p). Qed.

(* the recorded defect: >=1.2,<2.post1 renders as ~=1.2, which parses back to >=1.2,<2.0 *)
Definition r_tilde : range :=
  mkRangeRaw (Some (relver 0 [1; 2]%N)) (Some (mkVer 0 [2]%N None (Some 1%N) None)) true false None.
Theorem C06_tilde_refuted :
  exists s', render (SRange r_tilde) = Ret (TAlts [[mkClause OpCompat (relver 0 [1; 2]%N)]])
             /\ parse (TAlts [[mkClause OpCompat (relver 0 [1; 2]%N)]]) = Ret s'
             /\ spec_eq (SRange r_tilde) s' = Ret false.
Proof. eexists. split; [vm_compute; reflexivity|]. split; vm_compute; reflexivity. Qed.

(* non-vacuity: >=1.2,<2.0 renders as ~=1.2; <1.5.0||>=1.6.0 as !=1.5.* *)
Example C06_runs :
  render (SRange (mkRangeRaw (Some (relver 0 [1; 2]%N)) (Some (relver 0 [2; 0]%N)) true false None))
    = Ret (TAlts [[mkClause OpCompat (relver 0 [1; 2]%N)]])
  /\ render (SUnion (mkUnionRaw [mkRangeRaw None (Some (relver 0 [1; 5; 0]%N)) false false None;
                                 mkRangeRaw (Some (relver 0 [1; 6; 0]%N)) None true false None] None))
    = Ret (TAlts [[mkClause OpNeStar (relver 0 [1; 5]%N)]]).
Proof. split; vm_compute; reflexivity. Qed.

Definition C06_all := (C06_value, C06_reachable, C06_tilde, C06_nestar, C06_tilde_refuted).
Redirect "C06.assumptions" Print Assumptions C06_all.
