(* C17 — after packaging has accepted and tokenised a specifier text, the library's own
   translation never fails: _from_pkg_specifier, from_specifierset and
   parse_version_specifier return a (canonical) value for EVERY clause / comma set /
   ||-alternatives / <empty>, whatever the shape of the versions (epoch, any number of
   release segments, pre/post/dev).  The text layer itself (which strings packaging
   accepts, the translation of its InvalidSpecifier) is packaging's and is decided by the
   direct oracle against SpecifierSet.
   Model: Model/SpecParse.v (hand-written over tokenised clauses; S-parse stream); `&` and
   `|` are the GENERATED operators.  wf_clause is what packaging's grammar guarantees:
   `~=` has at least two release segments, a wildcard has at least one. *)
From Coq Require Import List Bool NArith.
From Verif Require Import PyRes Order Cuts Str SpecTypes GenSpec SpecSem SpecExpr Pep440 Corr SpecParse ParseSound.
Import ListNotations.
Import X.

Theorem C17_clause c : wf_clause c -> exists s, from_pkg c = Ret s /\ canon s.
Proof. intros W. destruct (from_pkg_spec c W) as (s & E & C & _). exists s. split; assumption. Qed.

Theorem C17_set cs : Forall wf_clause cs -> exists s, from_specifierset cs = Ret s /\ canon s.
Proof. intros W. destruct (from_specifierset_spec cs W) as (s & E & C & _). exists s. split; assumption. Qed.

Theorem C17_parse t : wf_text t -> exists s, parse t = Ret s /\ canon s.
Proof. intros W. destruct (parse_spec t W) as (s & E & C & _). exists s. split; assumption. Qed.

(* what the guard excludes really fails in the model as in the code: `~=1` would index an empty list *)
Example C17_guard_needed : from_pkg (mkClause OpCompat (relver 0 [1%N])) = Raise IndexError.
Proof. reflexivity. Qed.

(* non-vacuity: an epoch, five release segments, a post-release operand of ~=, a dev operand of <, a wildcard *)
Example C17_runs :
  wf_text (TAlts [[mkClause OpCompat (mkVer 1 [1; 2; 3; 4; 5]%N None (Some 1%N) None); mkClause OpLt (mkVer 1 [2]%N None None (Some 0%N))];
                  [mkClause OpNeStar (relver 0 [3; 0]%N)]])
  /\ is_ret (parse (TAlts [[mkClause OpCompat (mkVer 1 [1; 2; 3; 4; 5]%N None (Some 1%N) None); mkClause OpLt (mkVer 1 [2]%N None None (Some 0%N))];
                           [mkClause OpNeStar (relver 0 [3; 0]%N)]])) = true.
Proof.
  split; [|vm_compute; reflexivity]. split; [discriminate|].
  repeat constructor; cbn; try discriminate; auto with arith.
Qed.

Definition C17_all := (C17_clause, C17_set, C17_parse).
Redirect "C17.assumptions" Print Assumptions C17_all.
