(* C12 — only() / exclude() / without_extras() eliminate variables soundly.
   Model: Model/Marker.v `monly`, `mexclude` (S-mark stream, MCOnly / MCExclude cases); every
   fuel, every set order, every version-atom merge oracle.
   C12_only_vars / C12_exclude_vars: the result of only(names) mentions no variable outside
   names; the result of exclude(name) (without_extras() = exclude("extra")) never mentions
   name - at any nesting depth, whatever the input (hypothesis vmerge_names: a merged version
   atom mentions only the variables of the two atoms it merges; checked on every row the
   implementation produces).  The invariant is carried through all nine mutually recursive
   functions of the normaliser (Proofs/MarkerVars.v: step_vars over the open-recursion bodies).
   C12_only_implied / C12_only_identity: only() is implied by the marker and equivalent to it
   when the marker mentions only the kept names (hypothesis vmerge_sound as in C02).
   C12_exclude_identity: exclude(name) leaves the meaning unchanged when the marker does not
   mention name - for markers that are `alive`: every child of a conjunction, at any depth, is
   satisfied by some environment, and no disjunction is empty (what the normal form gives).
   MultiMarker.exclude drops a conjunct whose exclusion is <empty>, so WITHOUT that side
   condition the statement is false in the model as in the code (a conjunction with a
   contradictory, not yet collapsed child); the direct oracle checks the identity on every
   generated marker. *)
From Coq Require Import List Bool NArith Arith String Lia Permutation.
From Verif Require Import PyRes Str Marker MarkerBase MarkerSingle MarkerOf MarkerSound MarkerOnly MarkerVars CorrMarker.
Import ListNotations.

Section C12.
  Variable vmerge : bool -> atom -> atom -> option marker.
  Variable vcontains : atom -> str -> bool.
  Variable perm : list marker -> list marker.
  Variable good : menv -> Prop.
  Hypothesis vmerge_sound : forall k a b r, vmerge k a b = Some r ->
    wf r = true /\ forall e, good e -> meval e r = bop k (atom_eval e a) (atom_eval e b).
  Hypothesis perm_perm : forall l, Permutation (perm l) l.

  Theorem C12_only_implied fuel names m r :
    monly vmerge vcontains perm fuel names m = Ret r -> wf m = true ->
    forall e, good e -> meval e m = true -> meval e r = true.
  Proof. intros H W. exact (proj1 (proj2 (monly_sound vmerge vcontains perm good vmerge_sound perm_perm fuel names m r H W))). Qed.

  Theorem C12_only_identity fuel names m r :
    monly vmerge vcontains perm fuel names m = Ret r -> wf m = true -> only_names names m = true ->
    forall e, good e -> meval e r = meval e m.
  Proof. intros H W. exact (proj2 (proj2 (monly_sound vmerge vcontains perm good vmerge_sound perm_perm fuel names m r H W))). Qed.

  Theorem C12_exclude_identity fuel name m r :
    mexclude vmerge vcontains perm fuel name m = Ret r -> wf m = true -> mentions name m = false -> alive good m ->
    wf r = true /\ forall e, good e -> meval e r = meval e m.
  Proof. exact (mexclude_identity vmerge vcontains perm good vmerge_sound perm_perm fuel name m r). Qed.

  Theorem C12_only_wf fuel names m r :
    monly vmerge vcontains perm fuel names m = Ret r -> wf m = true -> wf r = true.
  Proof. intros H W. exact (proj1 (monly_sound vmerge vcontains perm good vmerge_sound perm_perm fuel names m r H W)). Qed.
End C12.

Section C12vars.
  Variable vmerge : bool -> atom -> atom -> option marker.
  Variable vcontains : atom -> str -> bool.
  Variable perm : list marker -> list marker.
  Hypothesis vmerge_names : forall k a b r, vmerge k a b = Some r ->
    forall qn, qn (a_name a) = true -> qn (a_name b) = true -> Q qn r = true.
  Hypothesis perm_perm : forall l, Permutation (perm l) l.

  (* Q qn r: every variable mentioned anywhere in r satisfies qn *)
  Theorem C12_only_vars names fuel m r :
    monly vmerge vcontains perm fuel names m = Ret r -> Q (fun n => mem_str n names) r = true.
  Proof. exact (monly_vars vmerge vcontains perm vmerge_names perm_perm names fuel m r). Qed.

  Theorem C12_exclude_vars name fuel m r :
    mexclude vmerge vcontains perm fuel name m = Ret r -> Q (fun n => negb (str_eqb n name)) r = true.
  Proof. exact (mexclude_vars vmerge vcontains perm vmerge_names perm_perm name fuel m r). Qed.
End C12vars.

(* non-vacuity: (os_name == "a" and sys_platform == "b").only("os_name") = os_name == "a" *)
Definition no_vm (k : bool) (a b : atom) : option marker := None.
Example C12_runs :
  monly no_vm (fun _ _ => false) (fun l => l) 8 [of_string "os_name"]
        (MMulti [MAtom (mkAtom (of_string "os_name") MEq (of_string "a") false); MAtom (mkAtom (of_string "sys_platform") MEq (of_string "b") false)])
  = Ret (MAtom (mkAtom (of_string "os_name") MEq (of_string "a") false)).
Proof. vm_compute. reflexivity. Qed.

Definition C12_all := (C12_only_implied, C12_only_identity, C12_only_wf, C12_only_vars, C12_exclude_vars, C12_exclude_identity).
Redirect "C12.assumptions" Print Assumptions C12_all.
