(* C12 (partial) — only(): the result is implied by the marker, and is equivalent to it when
   the marker mentions only the kept names; for every fuel, set order and sound version-atom
   merge (as C02).  Model: Model/Marker.v `monly` (S-mark stream, MCOnly cases).
   NOT proved here (decided by the direct oracle of this property): that no variable outside
   `names` is mentioned by the result (a syntactic invariant through the whole normaliser),
   and the two statements about exclude()/without_extras() (MultiMarker.exclude drops a
   conjunct whose exclusion is <empty>, so the identity needs a normal-form argument). *)
From Coq Require Import List Bool NArith Arith String Lia Permutation.
From Verif Require Import PyRes Str Marker MarkerBase MarkerSingle MarkerOf MarkerSound MarkerOnly CorrMarker.
Import ListNotations.

Section C12.
  Variable vmerge : bool -> atom -> atom -> option marker.
  Variable vcontains : atom -> str -> bool.
  Variable perm : list marker -> list marker.
  Variable good : menv -> Prop.
  Hypothesis vmerge_sound : forall k a b r, vmerge k a b = Some r ->
    wf r = true /\ forall e, good e -> meval e r = bop k (atom_eval e a) (atom_eval e b).
  Hypothesis perm_perm : forall l, Permutation (perm l) l.

  Theorem C12_only_implied fuel names m r :
    monly vmerge vcontains perm fuel names m = Ret r -> wf m = true ->
    forall e, good e -> meval e m = true -> meval e r = true.
  Proof. intros H W. exact (proj1 (proj2 (monly_sound vmerge vcontains perm good vmerge_sound perm_perm fuel names m r H W))). Qed.

  Theorem C12_only_identity fuel names m r :
    monly vmerge vcontains perm fuel names m = Ret r -> wf m = true -> only_names names m = true ->
    forall e, good e -> meval e r = meval e m.
  Proof. intros H W. exact (proj2 (proj2 (monly_sound vmerge vcontains perm good vmerge_sound perm_perm fuel names m r H W))). Qed.

  Theorem C12_only_wf fuel names m r :
    monly vmerge vcontains perm fuel names m = Ret r -> wf m = true -> wf r = true.
  Proof. intros H W. exact (proj1 (monly_sound vmerge vcontains perm good vmerge_sound perm_perm fuel names m r H W)). Qed.
End C12.

(* non-vacuity: (os_name == "a" and sys_platform == "b").only("os_name") = os_name == "a" *)
Definition no_vm (k : bool) (a b : atom) : option marker := None.
Example C12_runs :
  monly no_vm (fun _ _ => false) (fun l => l) 8 [of_string "os_name"]
        (MMulti [MAtom (mkAtom (of_string "os_name") MEq (of_string "a") false); MAtom (mkAtom (of_string "sys_platform") MEq (of_string "b") false)])
  = Ret (MAtom (mkAtom (of_string "os_name") MEq (of_string "a") false)).
Proof. vm_compute. reflexivity. Qed.

Definition C12_all := (C12_only_implied, C12_only_identity, C12_only_wf).
Redirect "C12.assumptions" Print Assumptions C12_all.
