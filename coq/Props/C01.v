(* C01 — `&`, `|`, `~` on version specifiers are exact (interval reading over cuts).
   Only statements, `exact`, Print Assumptions and non-vacuity examples live here.
   The operators are the GENERATED definitions (Gen/GenSpec.v) of the current source. *)
From Coq Require Import List Bool NArith ZArith Orders.
From Verif Require Import PyRes Order Cuts Str SpecTypes GenSpec SpecSem SpecOps SpecExpr Pep440.
Import ListNotations.

(* over an abstract total order: "whatever the shape of the versions used as bounds" *)
Module C01_Abstract (V : OrderedTypeFull').
  Module X := SpecExpr V.
  Import X.

  Theorem C01_and a b : canon a -> canon b ->
    exists r, spec_and a b = Ret r /\ canon r /\ forall c, mem c r = mem c a && mem c b.
  Proof. exact (spec_and_spec a b). Qed.

  Theorem C01_or a b : canon a -> canon b ->
    exists r, spec_or a b = Ret r /\ canon r /\ forall c, mem c r = mem c a || mem c b.
  Proof. exact (spec_or_spec a b). Qed.

  Theorem C01_inv a : canon a ->
    exists r, spec_invert a = Ret r /\ canon r /\ forall c, CO.lt c PosInf -> mem c r = negb (mem c a).
  Proof. exact (spec_invert_spec a). Qed.

  (* every expression over previous results: closure of the three statements *)
  Theorem C01_closure env e : (forall n, canon (env n)) ->
    exists r, eval env e = Ret r /\ canon r
              /\ forall c, CO.lt c PosInf -> mem c r = bdenote (fun n => mem c (env n)) e.
  Proof. exact (eval_spec env e). Qed.

  (* real versions: a version v is the cut (C v Bef) *)
  Corollary C01_versions a b : canon a -> canon b ->
    (exists r, spec_and a b = Ret r /\ forall v, mem (vcut v) r = mem (vcut v) a && mem (vcut v) b)
    /\ (exists r, spec_or a b = Ret r /\ forall v, mem (vcut v) r = mem (vcut v) a || mem (vcut v) b)
    /\ (exists r, spec_invert a = Ret r /\ forall v, mem (vcut v) r = negb (mem (vcut v) a)).
  Proof.
    intros Ca Cb. split; [|split].
    - destruct (spec_and_spec a b Ca Cb) as (r & E & _ & M). exists r. split; [exact E|]. intros v. apply M.
    - destruct (spec_or_spec a b Ca Cb) as (r & E & _ & M). exists r. split; [exact E|]. intros v. apply M.
    - destruct (spec_invert_spec a Ca) as (r & E & _ & M). exists r. split; [exact E|]. intros v. apply M.
      apply CO.lt_iff. reflexivity.
  Qed.
End C01_Abstract.

(* instantiated with the PEP 440 order of packaging *)
Module C01_Pep440 := C01_Abstract Pep440.
Import C01_Pep440.X.

Definition v_ (l : list N) : version := mkVer 0 l None None None.
Definition rg (m M : option version) (im iM : bool) : range := mkRangeRaw m M im iM None.
(* >=1.0,<2.0   and   <1.5 || >1.7 *)
Definition ex_a : spec := SRange (rg (Some (v_ [1;0]%N)) (Some (v_ [2;0]%N)) true false).
Definition ex_b : spec :=
  SUnion (mkUnionRaw [rg None (Some (v_ [1;5]%N)) false false; rg (Some (v_ [1;7]%N)) None false false] None).

Ltac canon_tac :=
  repeat match goal with
         | |- _ /\ _ => split
         | |- True => exact I
         | |- okr _ => split
         | |- ne _ => unfold ne
         | |- wfr _ => split; cbn; congruence
         | |- CO.lt _ _ => apply CO.lt_iff; vm_compute; reflexivity
         | |- (_ <= _)%nat => cbn; repeat constructor
         end.

Example C01_premises_hold : canon ex_a /\ canon ex_b.
Proof. split; cbn; unfold canon_list; cbn; canon_tac. Qed.

(* the generated operators really compute: (>=1.0,<2.0) & (<1.5 || >1.7) has two ranges,
   1.6 is excluded, 1.8 is included *)
Example C01_runs :
  match spec_and ex_a ex_b with
  | Ret (SUnion u) =>
      length (uranges u) = 2%nat /\
      mem (vcut (v_ [1;6]%N)) (SUnion u) = false /\ mem (vcut (v_ [1;8]%N)) (SUnion u) = true
  | _ => False
  end.
Proof. vm_compute. repeat split. Qed.

(* one traversal for all theorems of this file; the check reads the redirected output *)
Definition C01_all := (C01_Pep440.C01_and, C01_Pep440.C01_or, C01_Pep440.C01_inv, C01_Pep440.C01_closure, C01_Pep440.C01_versions).
Redirect "C01.assumptions" Print Assumptions C01_all.
