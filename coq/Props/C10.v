(* C10 (partial: meaning, not text) — memoisation is transparent for the MEANING of results.
   The caches of the library (cnf / dnf keyed by the marker's ==, _merge_single_markers keyed
   by structurally equal atoms, parse_marker keyed by the text) return, on a hit, what the
   same code computed earlier for a KEY-EQUAL argument.  Model: a callee family (Model/
   MarkerOpen.v) is REACHABLE when it is a cold computation at some fuel (level n - by
   level_S exactly Model/Marker.v), one more step of the normaliser over a reachable
   family (its recursive calls answered by that family), or a reachable family whose cnf /
   dnf answer, for some arguments, with what another reachable family returned for a marker
   that compares == (marker_eqb).  Any history of calls, cache fills and cache hits is such a
   family.
   C10_reach_sound: every reachable family is meaning preserving (step_sound: one step of
   the normaliser is sound for ANY sound callees; a hit is sound because == is a congruence
   for evaluation and for well-formedness).
   C10_meaning: hence a & b / a | b computed under ANY history means the conjunction /
   disjunction of its operands - the same as when run first in a fresh interpreter; two
   runs of the same operation under different histories agree in every environment.
   NOT claimed (and false on the unchanged tree: known finding value-order-text-only): that
   the rendered TEXT is history independent; the direct oracle compares text and truth
   tables of warm vs cold runs in a fresh interpreter.  The per-object lazy caches
   (_specifier, _simplified_form) hold functions of the object itself and are not modelled. *)
From Coq Require Import List Bool NArith Arith Lia Permutation.
From Verif Require Import PyRes Str Marker MarkerBase MarkerSingle MarkerOf MarkerSound MarkerOpen MarkerOpenSound.
Import ListNotations.

(* == is a congruence for well-formedness *)
Lemma marker_eqb_wf : forall a b, marker_eqb a b = true -> wf a = wf b.
Proof.
  fix IH 1. intros a b. destruct a as [| |x|n v|n v|l|l], b as [| |y|n' v'|n' v'|l'|l']; cbn [marker_eqb]; try discriminate; try reflexivity.
  - intros H. apply atom_eqb_eq in H. subst. reflexivity.
  - rewrite andb_true_iff. intros [H1 _]. destruct (str_eqb_spec n n'); [subst; reflexivity | discriminate].
  - rewrite andb_true_iff. intros [H1 _]. destruct (str_eqb_spec n n'); [subst; reflexivity | discriminate].
  - rewrite !wf_multi. revert l'. induction l as [|x t IHt]; intros [|y t']; try discriminate; [reflexivity|].
    rewrite andb_true_iff. intros [H1 H2]. cbn [forallb]. rewrite (IH x y H1). f_equal. apply IHt, H2.
  - rewrite !wf_union. revert l'. induction l as [|x t IHt]; intros [|y t']; try discriminate; [reflexivity|].
    rewrite andb_true_iff. intros [H1 H2]. cbn [forallb]. rewrite (IH x y H1). f_equal. apply IHt, H2.
Qed.

Section C10.
  Variable vmerge : bool -> atom -> atom -> option marker.
  Variable vcontains : atom -> str -> bool.
  Variable perm : list marker -> list marker.
  Variable good : menv -> Prop.
  Hypothesis vmerge_sound : forall k a b r, vmerge k a b = Some r ->
    wf r = true /\ forall e, good e -> meval e r = bop k (atom_eval e a) (atom_eval e b).
  Hypothesis perm_perm : forall l, Permutation (perm l) l.

  (* a memoised unary function: on a hit (hit m = Some m', m' key-equal to m) it returns what `old` returned for m' *)
  Definition memo1 (hit : marker -> option marker) (old cur : marker -> pyres marker) (m : marker) : pyres marker :=
    match hit m with Some m' => old m' | None => cur m end.
  Definition hit_ok (hit : marker -> option marker) : Prop := forall m m', hit m = Some m' -> marker_eqb m m' = true.

  Definition with_memo (c c0 c1 : callees) (hc hd : marker -> option marker) : callees :=
    mkCallees (c_fuel c) (c_and c) (c_or c) (c_multi_of c) (c_union_of c) (c_usimp c) (c_isimp c)
              (memo1 hc (c_cnf c0) (c_cnf c)) (memo1 hd (c_dnf c1) (c_dnf c)) (c_munion c).

  Inductive reach : callees -> Prop :=
  | reach_cold n : reach (level vmerge vcontains perm n)
  | reach_step c : reach c -> reach (step vmerge vcontains perm c)
  | reach_memo c c0 c1 hc hd : reach c -> reach c0 -> reach c1 -> hit_ok hc -> hit_ok hd -> reach (with_memo c c0 c1 hc hd).

  Lemma memo1_sound hit old cur : hit_ok hit -> sound1 good old -> sound1 good cur -> sound1 good (memo1 hit old cur).
  Proof.
    intros Hh So Sc m r H W. unfold memo1 in H. destruct (hit m) as [m'|] eqn:E; [|exact (Sc m r H W)].
    pose proof (Hh m m' E) as Q. assert (W' : wf m' = true) by (rewrite <- (marker_eqb_wf m m' Q); exact W).
    destruct (So m' r H W') as [Wr Mr]. split; [exact Wr|]. intros e G. rewrite (Mr e G). symmetry. exact (marker_eqb_meval e m m' Q).
  Qed.

  Theorem C10_reach_sound c : reach c -> sound_callees good c.
  Proof.
    induction 1 as [n|c _ IH|c c0 c1 hc hd _ IH _ IH0 _ IH1 Hc Hd].
    - exact (level_sound vmerge vcontains perm good vmerge_sound perm_perm n).
    - exact (step_sound vmerge vcontains perm good vmerge_sound perm_perm c IH).
    - destruct IH as (Ha & Ho & Hm & Hu & Hus & His & Hcnf & Hdnf & Hmun).
      destruct IH0 as (_ & _ & _ & _ & _ & _ & Hcnf0 & _). destruct IH1 as (_ & _ & _ & _ & _ & _ & _ & Hdnf1 & _).
      unfold sound_callees, with_memo. cbn [c_and c_or c_multi_of c_union_of c_usimp c_isimp c_cnf c_dnf c_munion].
      repeat (split; [assumption|]). split; [exact (memo1_sound hc _ _ Hc Hcnf0 Hcnf)|]. split; [exact (memo1_sound hd _ _ Hd Hdnf1 Hdnf) | exact Hmun].
  Qed.

  (* under any history, & and | mean the conjunction / disjunction of their operands ... *)
  Theorem C10_meaning c a b r : reach c -> wf a = true -> wf b = true ->
    (c_and c a b = Ret r -> forall e, good e -> meval e r = meval e a && meval e b)
    /\ (c_or c a b = Ret r -> forall e, good e -> meval e r = meval e a || meval e b).
  Proof.
    intros R Wa Wb. destruct (C10_reach_sound c R) as (Ha & Ho & _). split; intros H.
    - exact (proj2 (Ha a b r H Wa Wb)).
    - exact (proj2 (Ho a b r H Wa Wb)).
  Qed.

  (* ... so a warm run and a cold run of the same operation agree in every environment *)
  Theorem C10_history_independent c n a b r_warm r_cold : reach c -> wf a = true -> wf b = true ->
    c_and c a b = Ret r_warm -> mand vmerge vcontains perm n a b = Ret r_cold ->
    forall e, good e -> meval e r_warm = meval e r_cold.
  Proof.
    intros R Wa Wb Hw Hc e G.
    rewrite (proj1 (C10_meaning c a b r_warm R Wa Wb) Hw e G).
    rewrite (proj1 (C10_meaning _ a b r_cold (reach_cold n) Wa Wb) Hc e G). reflexivity.
  Qed.
  Theorem C10_history_independent_or c n a b r_warm r_cold : reach c -> wf a = true -> wf b = true ->
    c_or c a b = Ret r_warm -> mor vmerge vcontains perm n a b = Ret r_cold ->
    forall e, good e -> meval e r_warm = meval e r_cold.
  Proof.
    intros R Wa Wb Hw Hc e G.
    rewrite (proj2 (C10_meaning c a b r_warm R Wa Wb) Hw e G).
    rewrite (proj2 (C10_meaning _ a b r_cold (reach_cold n) Wa Wb) Hc e G). reflexivity.
  Qed.
End C10.

(* non-vacuity: a family whose cnf answers a two-valued ==-group from the entry of the group spelled in the other order (the
   situation of the recorded finding value-order-text-only) is reachable; so the theorems apply to it *)
Definition swap_hit (m : marker) : option marker :=
  match m with MEqU n [a; b] => Some (MEqU n [b; a]) | _ => None end.
Lemma swap_hit_ok : hit_ok swap_hit.
Proof.
  intros m m' H. destruct m as [| |?|n [|a [|b [|? ?]]]|?|?|?]; try discriminate H. injection H as <-.
  cbn [marker_eqb]. rewrite str_eqb_refl. unfold set_eqb. cbn. rewrite !str_eqb_refl, !orb_true_r. reflexivity.
Qed.
Example C10_runs vmerge vcontains perm :
  reach vmerge vcontains perm (with_memo (level vmerge vcontains perm 12) (level vmerge vcontains perm 9) (level vmerge vcontains perm 9) swap_hit (fun _ => None)).
Proof. apply reach_memo; try apply reach_cold; [exact swap_hit_ok | discriminate]. Qed.

Definition C10_all := (C10_reach_sound, C10_meaning, C10_history_independent, C10_history_independent_or, step_sound, level_S).
Redirect "C10.assumptions" Print Assumptions C10_all.
