(* C02 — marker & and | are sound: the result evaluates as the conjunction / disjunction
   of the operands in every environment; a result reporting is_empty() / is_any() is
   satisfied by no / every environment; parsing (_build_markers) preserves the Boolean
   structure of the text.
   Model: Model/Marker.v (hand-written, function for function; S-mark stream).  The
   theorems hold for EVERY fuel (partial correctness: results `Raise Unfueled` are
   excluded by the hypothesis `= Ret r`), EVERY iteration order of Python sets
   (any permutation), and EVERY sound oracle for the merge of two version-like atoms
   (python_version / python_full_version / platform_release), whose soundness on the
   implementation is what C11 and the direct oracle check. *)
From Coq Require Import List Bool NArith Arith String Lia Permutation.
From Verif Require Import PyRes Str Marker MarkerBase MarkerSingle MarkerOf MarkerSound CorrMarker.
Import ListNotations.

(* the inner operators of `build` run with the constant fuel FUEL; keep it folded in proofs *)
Local Opaque FUEL.

Section C02.
  Variable vmerge : bool -> atom -> atom -> option marker.
  Variable vcontains : atom -> str -> bool.
  Variable perm : list marker -> list marker.
  Variable good : menv -> Prop.
  Hypothesis vmerge_sound : forall k a b r, vmerge k a b = Some r ->
    wf r = true /\ forall e, good e -> meval e r = bop k (atom_eval e a) (atom_eval e b).
  Hypothesis perm_perm : forall l, Permutation (perm l) l.

  Theorem C02_and fuel a b r :
    mand vmerge vcontains perm fuel a b = Ret r -> wf a = true -> wf b = true ->
    wf r = true /\ forall e, good e -> meval e r = meval e a && meval e b.
  Proof. exact (proj1 (all_sound vmerge vcontains perm good vmerge_sound perm_perm fuel) a b r). Qed.

  Theorem C02_or fuel a b r :
    mor vmerge vcontains perm fuel a b = Ret r -> wf a = true -> wf b = true ->
    wf r = true /\ forall e, good e -> meval e r = meval e a || meval e b.
  Proof. exact (proj1 (proj2 (all_sound vmerge vcontains perm good vmerge_sound perm_perm fuel)) a b r). Qed.

  Theorem C02_empty_any r :
    (is_empty r = true -> forall e, meval e r = false) /\ (is_any r = true -> forall e, meval e r = true).
  Proof. destruct r; cbn; split; intros H; try discriminate H; reflexivity. Qed.

  (* the whole normaliser *)
  Theorem C02_normaliser fuel : P vmerge vcontains perm good fuel.
  Proof. exact (all_sound vmerge vcontains perm good vmerge_sound perm_perm fuel). Qed.

  (* parsing: _build_markers folds `&` over the and-groups and MarkerUnion.of over the or-groups *)
  Definition pwfl_ (psub : ptree -> bool) := fix go (l : list pitem) : bool :=
    match l with [] => true | PSub s :: r => psub s && go r | _ :: r => go r end.
  Fixpoint pwf (t : ptree) : bool :=
    match t with
    | PAtom a => ok_atom a
    | PList items => pwfl_ pwf items
    end.
  Definition pwfl := pwfl_ pwf.
  (* value of the items after the current position, given the value `cur` of the current and-group *)
  Definition pev_ (psub : ptree -> bool) := fix go (l : list pitem) (cur : bool) : bool :=
    match l with
    | [] => cur
    | POr :: r => cur || go r true
    | PAnd :: r => go r cur
    | PSub s :: r => go r (cur && psub s)
    end.
  Fixpoint peval (e : menv) (t : ptree) : bool :=
    match t with
    | PAtom a => atom_eval e a
    | PList items => pev_ (peval e) items true
    end.
  Definition pev (e : menv) (psub : ptree -> bool) := pev_ psub.
  Lemma pwf_list items : pwf (PList items) = pwfl items.
  Proof. reflexivity. Qed.
  Lemma peval_list e items : peval e (PList items) = pev e (peval e) items true.
  Proof. reflexivity. Qed.

  Section Go.
    Variable f : nat.
    Hypothesis IHb : forall t r, build vmerge perm f t = Ret r -> pwf t = true -> wf r = true /\ forall e, good e -> meval e r = peval e t.
    Let Hand := proj1 (all_sound vmerge (fun _ _ => false) perm good vmerge_sound perm_perm FUEL).

    Definition go := (fix go (items : list pitem) (groups : list marker) {struct items} : pyres (list marker) :=
                         match items with
                         | [] => Ret groups
                         | POr :: rest => go rest (groups ++ [MAny])
                         | PAnd :: rest => go rest groups
                         | PSub s :: rest =>
                             m <- build vmerge perm f s ;;
                             match rev groups with
                             | last :: pre => r <- And vmerge perm last m ;; go rest (rev pre ++ [r])
                             | [] => Raise IndexError
                             end
                         end).

    Lemma go_sound : forall items pre lastg gs,
      go items (pre ++ [lastg]) = Ret gs -> pwfl items = true -> forallb wf pre = true -> wf lastg = true ->
      forallb wf gs = true /\ forall e, good e ->
        existsb (meval e) gs = existsb (meval e) pre || pev e (peval e) items (meval e lastg).
    Proof.
      induction items as [|it rest IHr]; intros pre lastg gs Hg Wi Wp Wl.
      - cbn in Hg. injection Hg as <-. split; [rewrite forallb_app, Wp; cbn; rewrite Wl; reflexivity|].
        intros e _. rewrite existsb_app. cbn. rewrite orb_false_r. reflexivity.
      - destruct it as [| |s]; cbn [go] in Hg; cbn [pwfl pev] in *.
        + fold go in Hg. exact (IHr pre lastg gs Hg Wi Wp Wl).
        + fold go in Hg.
          destruct (IHr (pre ++ [lastg]) MAny gs Hg Wi) as [Wgs Mgs]; [rewrite forallb_app, Wp; cbn; rewrite Wl; reflexivity | reflexivity|].
          split; [exact Wgs|]. intros e G. rewrite (Mgs e G), existsb_app. cbn. rewrite orb_false_r, orb_assoc. reflexivity.
        + fold go in Hg. apply andb_prop in Wi as [Ws Wrest].
          destruct (build vmerge perm f s) as [m| |] eqn:Em; try discriminate. cbn [bind] in Hg.
          destruct (IHb s m Em Ws) as [Wm Mm].
          rewrite rev_app_distr in Hg. cbn [rev app] in Hg.
          destruct (And vmerge perm lastg m) as [r1| |] eqn:Ea; try discriminate. cbn [bind] in Hg.
          destruct (Hand _ _ _ Ea Wl Wm) as [Wr1 Mr1].
          rewrite rev_involutive in Hg.
          destruct (IHr pre r1 gs Hg Wrest Wp Wr1) as [Wgs Mgs].
          split; [exact Wgs|]. intros e G. rewrite (Mgs e G), (Mr1 e G), (Mm e G). reflexivity.
    Qed.
  End Go.

  Theorem C02_parse fuel' : forall t r,
    build vmerge perm fuel' t = Ret r -> pwf t = true ->
    wf r = true /\ forall e, good e -> meval e r = peval e t.
  Proof.
    induction fuel' as [|f IH]; intros t r H W; [discriminate|].
    destruct t as [a|items]; cbn [build] in H.
    - injection H as <-. split; [exact W|]. reflexivity.
    - destruct (all_sound vmerge (fun _ _ => false) perm good vmerge_sound perm_perm FUEL) as (_ & _ & _ & Huni & _).
      fold (go f) in H.
      destruct (go f items [MAny]) as [gs| |] eqn:Eg; try discriminate. cbn [bind] in H.
      rewrite pwf_list in W.
      destruct (go_sound f IH items [] MAny gs Eg W eq_refl eq_refl) as [Wgs Mgs].
      destruct (Huni _ _ H Wgs) as [Wr Mr]. split; [exact Wr|]. intros e G. rewrite (Mr e G). cbn [semk].
      rewrite (Mgs e G), peval_list. reflexivity.
  Qed.
End C02.

(* ---- non-vacuity: with the trivial (never merging, hence sound) oracle and identity set order ---- *)
Definition no_vmerge (k : bool) (a b : atom) : option marker := None.
Definition S_ (x : string) : str := of_string x.
Definition osn (op : mop) (v : string) : marker := MAtom (mkAtom (S_ "os_name") op (S_ v) false).
Example C02_runs :
  (* (os_name == "a" or os_name == "b") | os_name != "a"  is universal *)
  (exists u, mor no_vmerge (fun _ _ => false) (fun l => l) 20 (osn MEq "a") (osn MEq "b") = Ret u
             /\ mor no_vmerge (fun _ _ => false) (fun l => l) 20 u (osn MNe "a") = Ret MAny)
  (* os_name != "a" and os_name != "b" and os_name == "a"  is empty *)
  /\ (exists u, mand no_vmerge (fun _ _ => false) (fun l => l) 20 (osn MNe "a") (osn MNe "b") = Ret u
                /\ mand no_vmerge (fun _ _ => false) (fun l => l) 20 u (osn MEq "a") = Ret MEmpty)
  /\ wf (osn MEq "a") = true.
Proof. split; [|split]; [eexists; split; [vm_compute; reflexivity | vm_compute; reflexivity] | eexists; split; [vm_compute; reflexivity | vm_compute; reflexivity] | reflexivity]. Qed.

Lemma no_vmerge_sound good : forall k a b r, no_vmerge k a b = Some r ->
  wf r = true /\ forall e, good e -> meval e r = bop k (atom_eval e a) (atom_eval e b).
Proof. discriminate. Qed.

Definition C02_all := (C02_and, C02_or, C02_empty_any, C02_normaliser, C02_parse).
Redirect "C02.assumptions" Print Assumptions C02_all.
