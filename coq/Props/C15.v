(* C15 — normal form of results.
   PROVED FOR EVERY REACHABLE MARKER (C15_reachable, C15_and / or / only / exclude / multi_of / union_of; Proofs/MarkerInv.v):
   every marker obtained from atoms, the universal and the empty marker through &, |, MultiMarker.of, MarkerUnion.of
   (what parse_marker folds with), only() and exclude() / without_extras() - with any fuel, set order and merge oracle
   that returns atoms - is well shaped at EVERY depth: the children of each conjunction / disjunction are pairwise
   distinct and none of them is a compound of the same kind (C15_shaped_multi / C15_shaped_union unfold the predicate).
   PROVED FOR of() (partial) — the shape of what MultiMarker.of / MarkerUnion.of return.
   For every fuel, set order, merge oracle and every list of markers, the result of
   multi_of / union_of (Model/Marker.v: the of() loops with their fixpoint iteration) is
     - the absorbing marker (<empty> for a conjunction, universal for a disjunction), or
     - the neutral marker (all operands dropped), or
     - the single marker that is left (singleton unwrapped), or
     - a compound built from at least two processed markers, pairwise distinct and none of
       them absorbing, whose children are pairwise distinct as well.
   NOT proved (decided by the normal-form checker of the direct oracle and by the
   structural S-mark correspondence): that no child is the universal / empty marker, and that
   compounds have at least two children on the paths that do not end in of(): union() returning
   its raw candidate, and union_simplify / intersect_simplify building a compound directly - where
   the property is in fact violated on the unchanged tree (known finding "one-child compound"). *)
From Coq Require Import List Bool NArith Arith String Lia Permutation.
From Verif Require Import PyRes Str Marker MarkerBase MarkerInv.
Import ListNotations.

Section Of.
  Variable absorbing neutral : marker -> bool.
  Variable absorb_m neutral_m : marker.
  Variable sub : marker -> option (list marker).
  Variable mk : list marker -> marker.
  Variable other_cls : marker -> bool.
  Variable op : marker -> marker -> pyres marker.
  Variable simp : marker -> marker -> pyres (option marker).
  Notation Pass := (of_pass absorbing neutral sub other_cls op simp).
  Notation Loop := (of_loop absorbing neutral sub other_cls op simp).

  Lemma of_pass_dist old : forall new out, dist new -> Pass old new = Ret (Some out) -> dist out.
  Proof.
    induction old as [|cur rest IH]; intros new out D H; cbn [of_pass] in H.
    - injection H as <-. exact D.
    - destruct (mem_marker cur new) eqn:Em; [exact (IH new out D H)|].
      destruct (neutral cur); [exact (IH new out D H)|].
      destruct (of_scan absorbing other_cls op simp cur [] new) as [[[new'|]|]| |]; cbn [bind] in H; try discriminate H.
      + exact (IH _ out (flatten_dist sub new' [] dist_nil) H).
      + exact (IH _ out (dist_snoc new cur D Em) H).
  Qed.

  Lemma of_loop_dist k : forall old new out, dist new -> Loop k old new = Ret (Some out) -> dist out.
  Proof.
    induction k as [|k IH]; intros old new out D H; [discriminate H|]. cbn [of_loop] in H.
    destruct (markers_eqb old new); [injection H as <-; exact D|].
    destruct (Pass new []) as [[new'|]| |] eqn:Ep; cbn [bind] in H; try discriminate H.
    exact (IH new new' out (of_pass_dist new [] new' dist_nil Ep) H).
  Qed.

  Theorem of_body_shape k markers r :
    of_body absorbing neutral absorb_m neutral_m sub mk other_cls op simp k markers = Ret r ->
    r = absorb_m \/ r = neutral_m
    \/ exists new, dist new /\ existsb absorbing new = false /\ (new = [r] \/ ((2 <= List.length new)%nat /\ r = mk new)).
  Proof.
    unfold of_body. intros H.
    destruct (Loop k [] (flatten sub markers [])) as [[new|]| |] eqn:El; cbn [bind] in H; try discriminate H.
    - pose proof (of_loop_dist k [] _ new (flatten_dist sub markers [] dist_nil) El) as D.
      destruct (existsb absorbing new) eqn:Ea; [left; congruence|].
      destruct new as [|x [|y rest]]; injection H as <-.
      + right. left. reflexivity.
      + right. right. exists [x]. auto.
      + right. right. exists (x :: y :: rest). split; [exact D|]. split; [exact Ea|]. right. split; [cbn; lia | reflexivity].
    - left. congruence.
  Qed.
End Of.

Section C15.
  Variable vmerge : bool -> atom -> atom -> option marker.
  Variable vcontains : atom -> str -> bool.
  Variable perm : list marker -> list marker.

  Theorem C15_multi_of fuel ms r : multi_of vmerge vcontains perm fuel ms = Ret r ->
    r = MEmpty \/ r = MAny
    \/ exists new, dist new /\ existsb is_empty new = false
                   /\ (new = [r] \/ ((2 <= List.length new)%nat /\ exists l, r = MMulti l /\ l = flatten sub_multi new [] /\ dist l)).
  Proof.
    destruct fuel as [|f]; [discriminate|]. cbn [multi_of]. intros H.
    destruct (of_body_shape _ _ _ _ _ _ _ _ _ _ _ _ H) as [E|[E|(new & D & A & [E|[L E]])]]; auto.
    - right. right. exists new. split; [exact D|]. split; [exact A|]. left. exact E.
    - right. right. exists new. split; [exact D|]. split; [exact A|]. right. split; [exact L|].
      eexists. split; [exact E|]. split; [reflexivity|]. apply flatten_dist. constructor.
  Qed.

  Theorem C15_union_of fuel ms r : union_of vmerge vcontains perm fuel ms = Ret r ->
    r = MAny \/ r = MEmpty
    \/ exists new, dist new /\ existsb is_any new = false
                   /\ (new = [r] \/ ((2 <= List.length new)%nat /\ exists l, r = MUnion l /\ l = flatten sub_union new [] /\ dist l)).
  Proof.
    destruct fuel as [|f]; [discriminate|]. cbn [union_of]. intros H.
    destruct (of_body_shape _ _ _ _ _ _ _ _ _ _ _ _ H) as [E|[E|(new & D & A & [E|[L E]])]]; auto.
    - right. right. exists new. split; [exact D|]. split; [exact A|]. left. exact E.
    - right. right. exists new. split; [exact D|]. split; [exact A|]. right. split; [exact L|].
      eexists. split; [exact E|]. split; [reflexivity|]. apply flatten_dist. constructor.
  Qed.
End C15.

(* the recorded finding, machine-checked on the model: MarkerUnion.of(p == "a" and o == "a", p == "a" and o != "a") - what parse_marker builds
   for the text '(p == "a" and o == "a") or (p == "a" and o != "a")' - is the one-child conjunction [p == "a"] *)
Definition no_vm (k : bool) (a b : atom) : option marker := None.
Definition aP := MAtom (mkAtom (of_string "sys_platform") MEq (of_string "a") false).
Definition aO := MAtom (mkAtom (of_string "os_name") MEq (of_string "a") false).
Definition aN := MAtom (mkAtom (of_string "os_name") MNe (of_string "a") false).
Theorem C15_one_child_refuted :
  union_of no_vm (fun _ _ => false) (fun l => l) 30 [MMulti [aP; aO]; MMulti [aP; aN]] = Ret (MMulti [aP]).
Proof. vm_compute. reflexivity. Qed.


(* ---- the unconditional part: every reachable marker is well shaped at every depth ---- *)
Section C15shape.
  Variable vmerge : bool -> atom -> atom -> option marker.
  Variable vcontains : atom -> str -> bool.
  Variable perm : list marker -> list marker.
  (* _merge_single_markers returns an atom, the universal or the empty marker (checked on every row the code produces) *)
  Hypothesis vmerge_leaf : forall k a b r, vmerge k a b = Some r -> is_multi r = false /\ is_union r = false.
  Hypothesis perm_perm : forall l, Permutation (perm l) l.

  Theorem C15_and fuel a b r : mand vmerge vcontains perm fuel a b = Ret r -> shaped a = true -> shaped b = true -> shaped r = true.
  Proof. exact (mand_shaped vmerge vcontains perm vmerge_leaf perm_perm fuel a b r). Qed.
  Theorem C15_or fuel a b r : mor vmerge vcontains perm fuel a b = Ret r -> shaped a = true -> shaped b = true -> shaped r = true.
  Proof. exact (mor_shaped vmerge vcontains perm vmerge_leaf perm_perm fuel a b r). Qed.
  Theorem C15_multi_of_shaped fuel l r : multi_of vmerge vcontains perm fuel l = Ret r -> forallb shaped l = true -> shaped r = true.
  Proof. exact (multi_of_shaped vmerge vcontains perm vmerge_leaf perm_perm fuel l r). Qed.
  Theorem C15_union_of_shaped fuel l r : union_of vmerge vcontains perm fuel l = Ret r -> forallb shaped l = true -> shaped r = true.
  Proof. exact (union_of_shaped vmerge vcontains perm vmerge_leaf perm_perm fuel l r). Qed.
  (* only() / exclude() rebuild the marker from its atoms: the result is well shaped whatever the input *)
  Theorem C15_only names fuel m r : monly vmerge vcontains perm fuel names m = Ret r -> shaped r = true.
  Proof. exact (monly_shaped vmerge vcontains perm vmerge_leaf perm_perm names fuel m r). Qed.
  Theorem C15_exclude name fuel m r : mexclude vmerge vcontains perm fuel name m = Ret r -> shaped r = true.
  Proof. exact (mexclude_shaped vmerge vcontains perm vmerge_leaf perm_perm name fuel m r). Qed.
  Theorem C15_reachable m : reachable vmerge vcontains perm m -> shaped m = true.
  Proof. exact (reachable_shaped vmerge vcontains perm vmerge_leaf perm_perm m). Qed.
End C15shape.

Theorem C15_shaped_multi l : shaped (MMulti l) = true -> dist l /\ forallb (fun x => negb (is_multi x)) l = true /\ forallb shaped l = true.
Proof. exact (shaped_multi l). Qed.
Theorem C15_shaped_union l : shaped (MUnion l) = true -> dist l /\ forallb (fun x => negb (is_union x)) l = true /\ forallb shaped l = true.
Proof. exact (shaped_union l). Qed.

(* non-vacuity: a reachable nested compound, and an ill-shaped marker that shaped rejects *)
Example C15_reachable_example :
  exists r, mor no_vm (fun _ _ => false) (fun l => l) 30 (MMulti [aP; aO]) aN = Ret r /\ is_single r = false /\ shaped r = true.
Proof. eexists. split; [vm_compute; reflexivity|]. split; vm_compute; reflexivity. Qed.
Example C15_shaped_rejects : shaped (MMulti [aP; MMulti [aO; aN]]) = false /\ shaped (MUnion [aP; aP]) = false.
Proof. split; vm_compute; reflexivity. Qed.

Definition C15_all := (C15_multi_of, C15_union_of, of_body_shape, C15_one_child_refuted, C15_and, C15_or, C15_multi_of_shaped, C15_union_of_shaped, C15_only, C15_exclude, C15_reachable, C15_shaped_multi, C15_shaped_union).
Redirect "C15.assumptions" Print Assumptions C15_all.
