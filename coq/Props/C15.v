(* C15 (partial) — the shape of what MultiMarker.of / MarkerUnion.of return.
   For every fuel, set order, merge oracle and every list of markers, the result of
   multi_of / union_of (Model/Marker.v: the of() loops with their fixpoint iteration) is
     - the absorbing marker (<empty> for a conjunction, universal for a disjunction), or
     - the neutral marker (all operands dropped), or
     - the single marker that is left (singleton unwrapped), or
     - a compound built from at least two processed markers, pairwise distinct and none of
       them absorbing, whose children are pairwise distinct as well.
   NOT proved (decided by the normal-form checker of the direct oracle and by the
   structural S-mark correspondence): that no child is neutral or a compound of the same
   kind for arbitrary inputs, and the statements for the paths that do not end in of():
   union() returning its raw candidate, and union_simplify / intersect_simplify building a
   compound directly - where the property is in fact violated on the unchanged tree (known
   finding "one-child compound"). *)
From Coq Require Import List Bool NArith Arith String Lia.
From Verif Require Import PyRes Str Marker MarkerBase.
Import ListNotations.

(* pairwise distinct, in the order the code builds lists: every element differs (==) from all earlier ones *)
Inductive dist : list marker -> Prop :=
| dist_nil : dist []
| dist_snoc l x : dist l -> mem_marker x l = false -> dist (l ++ [x]).

Lemma dedup_fold_dist sub : forall acc, dist acc ->
  dist (fold_left (fun ac s => if mem_marker s ac then ac else ac ++ [s]) sub acc).
Proof.
  induction sub as [|s sub IH]; intros acc D; [exact D|]. cbn [fold_left].
  destruct (mem_marker s acc) eqn:E; apply IH; [exact D | constructor; assumption].
Qed.
Lemma flatten_dist same items : forall acc, dist acc -> dist (flatten same items acc).
Proof.
  induction items as [|it rest IH]; intros acc D; [exact D|]. cbn [flatten].
  destruct (same it) as [sub|].
  - apply IH, dedup_fold_dist, D.
  - destruct (mem_marker it acc) eqn:E; apply IH; [exact D | constructor; assumption].
Qed.

Section Of.
  Variable absorbing neutral : marker -> bool.
  Variable absorb_m neutral_m : marker.
  Variable sub : marker -> option (list marker).
  Variable mk : list marker -> marker.
  Variable other_cls : marker -> bool.
  Variable op : marker -> marker -> pyres marker.
  Variable simp : marker -> marker -> pyres (option marker).
  Notation Pass := (of_pass absorbing neutral sub other_cls op simp).
  Notation Loop := (of_loop absorbing neutral sub other_cls op simp).

  Lemma of_pass_dist old : forall new out, dist new -> Pass old new = Ret (Some out) -> dist out.
  Proof.
    induction old as [|cur rest IH]; intros new out D H; cbn [of_pass] in H.
    - injection H as <-. exact D.
    - destruct (mem_marker cur new) eqn:Em; [exact (IH new out D H)|].
      destruct (neutral cur); [exact (IH new out D H)|].
      destruct (of_scan absorbing other_cls op simp cur [] new) as [[[new'|]|]| |]; cbn [bind] in H; try discriminate H.
      + exact (IH _ out (flatten_dist sub new' [] dist_nil) H).
      + exact (IH _ out (dist_snoc new cur D Em) H).
  Qed.

  Lemma of_loop_dist k : forall old new out, dist new -> Loop k old new = Ret (Some out) -> dist out.
  Proof.
    induction k as [|k IH]; intros old new out D H; [discriminate H|]. cbn [of_loop] in H.
    destruct (markers_eqb old new); [injection H as <-; exact D|].
    destruct (Pass new []) as [[new'|]| |] eqn:Ep; cbn [bind] in H; try discriminate H.
    exact (IH new new' out (of_pass_dist new [] new' dist_nil Ep) H).
  Qed.

  Theorem of_body_shape k markers r :
    of_body absorbing neutral absorb_m neutral_m sub mk other_cls op simp k markers = Ret r ->
    r = absorb_m \/ r = neutral_m
    \/ exists new, dist new /\ existsb absorbing new = false /\ (new = [r] \/ ((2 <= List.length new)%nat /\ r = mk new)).
  Proof.
    unfold of_body. intros H.
    destruct (Loop k [] (flatten sub markers [])) as [[new|]| |] eqn:El; cbn [bind] in H; try discriminate H.
    - pose proof (of_loop_dist k [] _ new (flatten_dist sub markers [] dist_nil) El) as D.
      destruct (existsb absorbing new) eqn:Ea; [left; congruence|].
      destruct new as [|x [|y rest]]; injection H as <-.
      + right. left. reflexivity.
      + right. right. exists [x]. auto.
      + right. right. exists (x :: y :: rest). split; [exact D|]. split; [exact Ea|]. right. split; [cbn; lia | reflexivity].
    - left. congruence.
  Qed.
End Of.

Section C15.
  Variable vmerge : bool -> atom -> atom -> option marker.
  Variable vcontains : atom -> str -> bool.
  Variable perm : list marker -> list marker.

  Theorem C15_multi_of fuel ms r : multi_of vmerge vcontains perm fuel ms = Ret r ->
    r = MEmpty \/ r = MAny
    \/ exists new, dist new /\ existsb is_empty new = false
                   /\ (new = [r] \/ ((2 <= List.length new)%nat /\ exists l, r = MMulti l /\ l = flatten sub_multi new [] /\ dist l)).
  Proof.
    destruct fuel as [|f]; [discriminate|]. cbn [multi_of]. intros H.
    destruct (of_body_shape _ _ _ _ _ _ _ _ _ _ _ _ H) as [E|[E|(new & D & A & [E|[L E]])]]; auto.
    - right. right. exists new. split; [exact D|]. split; [exact A|]. left. exact E.
    - right. right. exists new. split; [exact D|]. split; [exact A|]. right. split; [exact L|].
      eexists. split; [exact E|]. split; [reflexivity|]. apply flatten_dist. constructor.
  Qed.

  Theorem C15_union_of fuel ms r : union_of vmerge vcontains perm fuel ms = Ret r ->
    r = MAny \/ r = MEmpty
    \/ exists new, dist new /\ existsb is_any new = false
                   /\ (new = [r] \/ ((2 <= List.length new)%nat /\ exists l, r = MUnion l /\ l = flatten sub_union new [] /\ dist l)).
  Proof.
    destruct fuel as [|f]; [discriminate|]. cbn [union_of]. intros H.
    destruct (of_body_shape _ _ _ _ _ _ _ _ _ _ _ _ H) as [E|[E|(new & D & A & [E|[L E]])]]; auto.
    - right. right. exists new. split; [exact D|]. split; [exact A|]. left. exact E.
    - right. right. exists new. split; [exact D|]. split; [exact A|]. right. split; [exact L|].
      eexists. split; [exact E|]. split; [reflexivity|]. apply flatten_dist. constructor.
  Qed.
End C15.

(* the recorded finding, machine-checked on the model: MarkerUnion.of(p == "a" and o == "a", p == "a" and o != "a") - what parse_marker builds
   for the text '(p == "a" and o == "a") or (p == "a" and o != "a")' - is the one-child conjunction [p == "a"] *)
Definition no_vm (k : bool) (a b : atom) : option marker := None.
Definition aP := MAtom (mkAtom (of_string "sys_platform") MEq (of_string "a") false).
Definition aO := MAtom (mkAtom (of_string "os_name") MEq (of_string "a") false).
Definition aN := MAtom (mkAtom (of_string "os_name") MNe (of_string "a") false).
Theorem C15_one_child_refuted :
  union_of no_vm (fun _ _ => false) (fun l => l) 30 [MMulti [aP; aO]; MMulti [aP; aN]] = Ret (MMulti [aP]).
Proof. vm_compute. reflexivity. Qed.

Definition C15_all := (C15_multi_of, C15_union_of, of_body_shape, C15_one_child_refuted).
Redirect "C15.assumptions" Print Assumptions C15_all.
