(* C16 — widening a target never loses wheels; compare() is consistent with tag inclusion.
   Corollaries of C08 (python/ABI), C09 (platform tag sets) and C05/C13 (exact emptiness,
   == an equivalence) over Model/Tags.v + Model/Platform.v. *)
From Coq Require Import String List Bool NArith ZArith Arith Lia ZifyBool.
From Verif Require Import PyRes Order Cuts Str SpecTypes GenSpec SpecSem RangeBridge UnionBase SpecOps SpecEq SpecExpr Pep440 Platform Tags C08 C09.
Import ListNotations.
Local Open Scope N_scope.
Import C08.X.

(* widening requires_python (other fields equal): every python/ABI pair accepted by A is accepted by B *)
Theorem C16_python rpA rpB pl im t abi :
  canon rpA -> canon rpB ->
  (forall c, C08.pos c -> mem c rpA = true -> mem c rpB = true) ->
  forall v, evaluate_python (mkEnv rpA pl im) t abi = Ret (Some v) ->
            evaluate_python (mkEnv rpB pl im) t abi = Ret (Some v).
Proof.
  intros CA CB Hincl v EA.
  destruct (C08.C08 (mkEnv rpA pl im) t abi CA) as (ra & Ea & Ha & Va).
  destruct (C08.C08 (mkEnv rpB pl im) t abi CB) as (rb & Eb & Hb & Vb).
  rewrite Ea in EA. injection EA as ->.
  assert (Hn : Some v <> None) by discriminate.
  apply Ha in Hn as [Hs (c & P & H1 & H2)].
  assert (Hb' : rb <> None).
  { apply Hb. split; [exact Hs|]. exists c. split; [exact P|]. split; [apply Hincl; assumption | exact H2]. }
  destruct rb as [w|]; [|congruence]. rewrite Eb. f_equal. f_equal.
  rewrite (Va v eq_refl), (Vb w eq_refl). reflexivity.
Qed.

(* a newer release of the same OS and architecture accepts every platform tag the older one accepts *)
Definition supported (o : os) (a : arch) : Prop :=
  match o with
  | Manylinux M _ => M = 2
  | Musllinux M _ => M = 1
  | Macos A B => (a = X86_64 /\ (A = 10 /\ B <= 16 \/ 11 <= A)) \/ a = Aarch64
  | Windows => True
  end.

Lemma tags_incl_manylinux K K' a : K <= K' -> incl (C09.tags_of (Manylinux 2 K) a) (C09.tags_of (Manylinux 2 K') a).
Proof.
  intros HK t Ht. destruct (min_manylinux_minor a) as [f|] eqn:Ef.
  - destruct (C09.C09_manylinux K a f Ef) as [_ H1]. destruct (C09.C09_manylinux K' a f Ef) as [_ H2].
    apply H2. apply H1 in Ht.
    destruct Ht as [(k & ? & ? & ->) | [(-> & ? & ?) | [(-> & ? & ?) | [(-> & ? & ?) | ->]]]].
    + left. exists k. repeat split; lia.
    + right; left. repeat split; lia.
    + right; right; left. repeat split; lia.
    + right; right; right; left. repeat split; lia.
    + tauto.
  - unfold C09.tags_of, compatible_tags in *. cbn [p_os p_arch] in *. rewrite Ef in *. exact Ht.
Qed.

Lemma tags_incl_musl K K' a : K <= K' -> incl (C09.tags_of (Musllinux 1 K) a) (C09.tags_of (Musllinux 1 K') a).
Proof.
  intros HK t Ht. apply C09.C09_musl. apply C09.C09_musl in Ht.
  destruct Ht as [(k & ? & ? & ->) | ->]; [left; exists k; repeat split; lia | tauto].
Qed.

Lemma tags_only_mac A B a t : In t (C09.tags_of (Macos A B) a) -> exists x y f, t = TMac x y f.
Proof.
  unfold C09.tags_of, compatible_tags. cbn [p_os p_arch].
  destruct a; try (intros []);
    [ rewrite in_app_iff, in_flat_map, in_map_iff;
      intros [(M & _ & H) | (m & <- & _)]; [apply in_map_iff in H as (f & <- & _)|]; eauto
    | destruct (A =? 10); [|destruct (11 <=? A); [|intros []]];
      rewrite ?in_app_iff, ?in_flat_map;
      [intros (m & _ & H) | intros [(m & _ & H) | (m & _ & H)]]; apply in_map_iff in H as (f & <- & _); eauto ].
Qed.

Lemma tags_incl_mac_x86 A B A' B' :
  (A = 10 /\ B <= 16 \/ 11 <= A) -> (A < A' \/ (A = A' /\ B <= B')) ->
  incl (C09.tags_of (Macos A B) X86_64) (C09.tags_of (Macos A' B') X86_64).
Proof.
  intros HA Hle t Ht.
  destruct (tags_only_mac _ _ _ _ Ht) as (x & y & f & ->).
  assert (HA1 : A = 10 \/ 11 <= A) by lia.
  assert (HA2 : A' = 10 \/ 11 <= A') by lia.
  destruct (C09.C09_mac_x86 A B HA1) as (l & El & Hl). destruct (C09.C09_mac_x86 A' B' HA2) as (l' & El' & Hl').
  unfold C09.tags_of in *. rewrite El in Ht. rewrite El'.
  apply Hl'. apply Hl in Ht as [Hf Hc]. split; [exact Hf|].
  destruct Hc as [(-> & -> & H1 & H2) | (H0 & [(H1 & H2 & ->) | (-> & H1 & H2)])];
    destruct HA2 as [-> | HA2]; try (left; repeat split; lia); try (right; split; [lia|]; (left; repeat split; lia) || (right; repeat split; lia)).
Qed.

Lemma tags_incl_mac_arm64 A B A' B' :
  (A < A' \/ (A = A' /\ B <= B')) ->
  incl (C09.tags_of (Macos A B) Aarch64) (C09.tags_of (Macos A' B') Aarch64).
Proof.
  intros Hle t. unfold C09.tags_of, compatible_tags. cbn [p_os p_arch].
  rewrite !in_app_iff, !in_flat_map. intros [(M & HM & Hin) | H]; [|tauto].
  left. exists M. split; [|exact Hin]. apply C09.in_desc. apply C09.in_desc in HM. lia.
Qed.

Theorem C16_plat o o' a :
  same_os_class o o' = true -> supported o a -> supported o' a ->
  match os_version o, os_version o' with
  | Some v, Some v' => pair_leb v v' = true
  | _, _ => True
  end ->
  incl (C09.tags_of o a) (C09.tags_of o' a).
Proof.
  intros Hc So So' Hv.
  destruct o as [M K|M K|A B|], o' as [M' K'|M' K'|A' B'|]; try discriminate; cbn in So, So', Hv; subst.
  - apply tags_incl_manylinux. unfold pair_leb in Hv. cbn in Hv. lia.
  - apply tags_incl_musl. unfold pair_leb in Hv. cbn in Hv. lia.
  - unfold pair_leb in Hv. cbn [fst snd] in Hv.
    assert (Hle : A < A' \/ (A = A' /\ B <= B')) by lia.
    destruct So as [[-> HA] | ->].
    + apply tags_incl_mac_x86; assumption.
    + apply tags_incl_mac_arm64; assumption.
  - apply incl_refl.
Qed.

(* ---- compare ---- *)
Lemma os_eqb_refl o : os_eqb o o = true.
Proof. destruct o; cbn; rewrite ?N.eqb_refl; reflexivity. Qed.
Lemma arch_eqb_refl a : arch_eqb a a = true.
Proof. destruct a; reflexivity. Qed.
Lemma arch_eqb_eq a b : arch_eqb a b = true -> a = b.
Proof. destruct a, b; cbn; congruence. Qed.
Lemma arch_eqb_sym a b : arch_eqb a b = arch_eqb b a.
Proof. destruct a, b; reflexivity. Qed.
Lemma platform_eqb_refl p : platform_eqb p p = true.
Proof. unfold platform_eqb. rewrite os_eqb_refl, arch_eqb_refl. reflexivity. Qed.
Lemma impl_eqb_refl i : impl_eqb i i = true.
Proof. unfold impl_eqb. destruct (i_name i), (gil_disabled i); reflexivity. Qed.
Lemma impl_eqb_sym a b : impl_eqb a b = impl_eqb b a.
Proof. unfold impl_eqb. destruct (i_name a), (i_name b), (gil_disabled a), (gil_disabled b); reflexivity. Qed.
Lemma same_os_class_sym a b : same_os_class a b = same_os_class b a.
Proof. destruct a, b; reflexivity. Qed.

Theorem C16_cmp_refl e : canon (requires_python e) -> compare e e = Ret LOWER_OR_EQUAL.
Proof.
  intros C. unfold compare.
  destruct (spec_eq_spec' (requires_python e) (requires_python e) C C) as (r & E & H).
  assert (r = true) as -> by (apply H; intros c _; reflexivity).
  change (P.spec_eq (requires_python e) (requires_python e)) with (spec_eq (requires_python e) (requires_python e)).
  rewrite E. cbn [bind andb].
  destruct (e_platform e) as [p|], (e_impl e) as [i|]; cbn [opt_eqb]; rewrite ?platform_eqb_refl, ?impl_eqb_refl; reflexivity.
Qed.

(* the verdict, given that the two specs are not the same object *)
Definition inter_empty (a b : spec) : Prop := forall c, C08.pos c -> mem c a && mem c b = false.

Lemma compare_total a b : canon (requires_python a) -> canon (requires_python b) -> exists r, compare a b = Ret r.
Proof.
  intros Ca Cb. unfold compare.
  destruct (spec_eq_spec' _ _ Ca Cb) as (s & Es & _).
  change (P.spec_eq (requires_python a) (requires_python b)) with (spec_eq (requires_python a) (requires_python b)). rewrite Es. cbn [bind].
  destruct (s && _ && _); [eauto|].
  destruct (C08.inter_nonempty _ _ Ca Cb) as (r & em & E1 & E2 & _).
  change (P.spec_and (requires_python a) (requires_python b)) with (spec_and (requires_python a) (requires_python b)). rewrite E1. cbn [bind].
  change (P.spec_is_empty r) with (spec_is_empty r). rewrite E2. cbn [bind].
  destruct em; [eauto|].
  destruct (match e_impl a, e_impl b with Some x, Some y => negb (impl_eqb x y) | _, _ => false end); [eauto|].
  destruct (e_platform a) as [pa|], (e_platform b) as [pb|]; eauto.
  destruct (negb (arch_eqb _ _)); [eauto|]. destruct (negb (same_os_class _ _)); [eauto|].
  destruct (os_version (p_os pa)), (os_version (p_os pb)); eauto. destruct (pair_leb _ _); eauto.
Qed.

(* HIGHER / LOWER_OR_EQUAL between two specs with platforms means: same arch, same OS class, versions ordered *)
Lemma compare_higher a b : compare a b = Ret HIGHER ->
  exists pa pb va vb, e_platform a = Some pa /\ e_platform b = Some pb /\ p_arch pa = p_arch pb
    /\ same_os_class (p_os pa) (p_os pb) = true /\ os_version (p_os pa) = Some va /\ os_version (p_os pb) = Some vb
    /\ pair_leb va vb = false.
Proof.
  unfold compare, bind.
  destruct (P.spec_eq _ _) as [s| |]; try discriminate.
  destruct (s && _ && _); [discriminate|].
  destruct (P.spec_and _ _) as [r| |]; try discriminate.
  destruct (P.spec_is_empty r) as [em| |]; try discriminate.
  destruct em; [discriminate|].
  destruct (match e_impl a, e_impl b with Some x, Some y => negb (impl_eqb x y) | _, _ => false end); [discriminate|].
  destruct (e_platform a) as [pa|], (e_platform b) as [pb|]; try discriminate.
  destruct (arch_eqb (p_arch pa) (p_arch pb)) eqn:EA; [|discriminate]. cbn [negb].
  destruct (same_os_class (p_os pa) (p_os pb)) eqn:EO; [|discriminate]. cbn [negb].
  destruct (os_version (p_os pa)) as [va|] eqn:Va, (os_version (p_os pb)) as [vb|] eqn:Vb; try discriminate.
  destruct (pair_leb va vb) eqn:EL; [discriminate|]. intros _.
  exists pa, pb, va, vb. repeat split; auto. apply arch_eqb_eq, EA.
Qed.

Theorem C16_cmp_not_both_higher a b : ~ (compare a b = Ret HIGHER /\ compare b a = Ret HIGHER).
Proof.
  intros [H1 H2].
  apply compare_higher in H1 as (pa & pb & va & vb & Ea & Eb & _ & _ & Va & Vb & L1).
  apply compare_higher in H2 as (pb' & pa' & vb' & va' & Eb' & Ea' & _ & _ & Vb' & Va' & L2).
  rewrite Ea in Ea'. rewrite Eb in Eb'. injection Ea' as <-. injection Eb' as <-.
  rewrite Va in Va'. rewrite Vb in Vb'. injection Va' as <-. injection Vb' as <-.
  unfold pair_leb in *. destruct va, vb. cbn in *. lia.
Qed.

(* when compare answers HIGHER, the target's platform tags are nested in self's *)
Theorem C16_cmp_higher_nested a b pa pb :
  compare a b = Ret HIGHER -> e_platform a = Some pa -> e_platform b = Some pb ->
  supported (p_os pa) (p_arch pa) -> supported (p_os pb) (p_arch pb) ->
  incl (C09.tags_of (p_os pb) (p_arch pb)) (C09.tags_of (p_os pa) (p_arch pa)).
Proof.
  intros H Ea Eb Sa Sb.
  apply compare_higher in H as (pa' & pb' & va & vb & Ea' & Eb' & Harch & Hos & Va & Vb & L).
  rewrite Ea in Ea'. rewrite Eb in Eb'. injection Ea' as <-. injection Eb' as <-.
  rewrite <- Harch in *.
  apply C16_plat; [rewrite same_os_class_sym; exact Hos | exact Sb | exact Sa |].
  rewrite Va, Vb. unfold pair_leb in *. destruct va, vb. cbn in *. lia.
Qed.

(* when compare answers LOWER_OR_EQUAL through the version test, self's tags are nested in the target's *)
Theorem C16_cmp_loe_nested a b pa pb va vb :
  e_platform a = Some pa -> e_platform b = Some pb -> p_arch pa = p_arch pb ->
  same_os_class (p_os pa) (p_os pb) = true -> os_version (p_os pa) = Some va -> os_version (p_os pb) = Some vb ->
  pair_leb va vb = true ->
  supported (p_os pa) (p_arch pa) -> supported (p_os pb) (p_arch pb) ->
  incl (C09.tags_of (p_os pa) (p_arch pa)) (C09.tags_of (p_os pb) (p_arch pb)).
Proof.
  intros Ea Eb Harch Hos Va Vb L Sa Sb. rewrite <- Harch in *.
  apply C16_plat; auto. rewrite Va, Vb. exact L.
Qed.

(* ... and whenever compare answers LOWER_OR_EQUAL for two specs with platforms - through the "same spec" test, the version test
   or the version-less OS class (Windows) - self's platform tags are nested in the target's *)
Lemma os_eqb_eq o o' : os_eqb o o' = true -> o = o'.
Proof.
  destruct o, o'; cbn; try discriminate; try reflexivity; intros H; apply andb_prop in H as [H1 H2];
    apply N.eqb_eq in H1; apply N.eqb_eq in H2; subst; reflexivity.
Qed.
Theorem C16_cmp_loe a b pa pb :
  compare a b = Ret LOWER_OR_EQUAL -> e_platform a = Some pa -> e_platform b = Some pb ->
  supported (p_os pa) (p_arch pa) -> supported (p_os pb) (p_arch pb) ->
  incl (C09.tags_of (p_os pa) (p_arch pa)) (C09.tags_of (p_os pb) (p_arch pb)).
Proof.
  intros H Ea Eb Sa Sb. unfold compare, bind in H. rewrite Ea, Eb in H.
  destruct (P.spec_eq _ _) as [s| |]; try discriminate.
  destruct (s && opt_eqb platform_eqb (Some pa) (Some pb) && _) eqn:Same.
  - apply andb_prop in Same as [Same _]. apply andb_prop in Same as [_ Pe]. cbn [opt_eqb] in Pe. unfold platform_eqb in Pe.
    apply andb_prop in Pe as [Po Pa]. apply os_eqb_eq in Po. apply arch_eqb_eq in Pa. rewrite Po, Pa. apply incl_refl.
  - destruct (P.spec_and _ _) as [r| |]; try discriminate.
    destruct (P.spec_is_empty r) as [em| |]; try discriminate.
    destruct em; [discriminate|].
    destruct (match e_impl a, e_impl b with Some x, Some y => negb (impl_eqb x y) | _, _ => false end); [discriminate|].
    destruct (arch_eqb (p_arch pa) (p_arch pb)) eqn:EA; [|discriminate]. cbn [negb] in H.
    destruct (same_os_class (p_os pa) (p_os pb)) eqn:EO; [|discriminate]. cbn [negb] in H.
    apply arch_eqb_eq in EA. rewrite <- EA in *.
    apply C16_plat; [exact EO | exact Sa | exact Sb |].
    destruct (os_version (p_os pa)) as [va|], (os_version (p_os pb)) as [vb|]; try exact I.
    destruct (pair_leb va vb); [reflexivity | discriminate].
Qed.

(* INCOMPATIBLE is symmetric *)
Theorem C16_cmp_incompatible_sym a b :
  canon (requires_python a) -> canon (requires_python b) ->
  compare a b = Ret INCOMPATIBLE -> compare b a = Ret INCOMPATIBLE.
Proof.
  intros Ca Cb. unfold compare.
  destruct (spec_eq_spec' _ _ Ca Cb) as (s & Es & Hs). destruct (spec_eq_spec' _ _ Cb Ca) as (s' & Es' & Hs').
  assert (Hss : s = s').
  { destruct s, s'; try reflexivity.
    - assert (true = true) as _ by reflexivity. symmetry. apply Hs'. intros c P. symmetry. apply Hs; [reflexivity | exact P].
    - apply Hs. intros c P. symmetry. apply Hs'; [reflexivity | exact P]. }
  subst s'.
  change (P.spec_eq (requires_python a) (requires_python b)) with (spec_eq (requires_python a) (requires_python b)).
  change (P.spec_eq (requires_python b) (requires_python a)) with (spec_eq (requires_python b) (requires_python a)).
  rewrite Es, Es'. cbn [bind].
  assert (Hp : opt_eqb platform_eqb (e_platform a) (e_platform b) = opt_eqb platform_eqb (e_platform b) (e_platform a)).
  { destruct (e_platform a) as [pa|], (e_platform b) as [pb|]; cbn; try reflexivity.
    unfold platform_eqb. rewrite (arch_eqb_sym (p_arch pa)). f_equal.
    destruct (p_os pa), (p_os pb); cbn; try reflexivity; rewrite (N.eqb_sym major), (N.eqb_sym minor); reflexivity. }
  assert (Hi : opt_eqb impl_eqb (e_impl a) (e_impl b) = opt_eqb impl_eqb (e_impl b) (e_impl a)).
  { destruct (e_impl a), (e_impl b); cbn; try reflexivity. apply impl_eqb_sym. }
  rewrite Hp, Hi. destruct (s && _ && _); [discriminate|].
  destruct (C08.inter_nonempty _ _ Ca Cb) as (r & em & E1 & E2 & H). destruct (C08.inter_nonempty _ _ Cb Ca) as (r' & em' & E1' & E2' & H').
  assert (Hem : em = em').
  { destruct em, em'; try reflexivity.
    - destruct H' as [H' _]. destruct (H' eq_refl) as (c & P & M1 & M2). assert (X : true = false) by (apply H; exists c; auto). discriminate X.
    - destruct H as [H _]. destruct (H eq_refl) as (c & P & M1 & M2). assert (X : true = false) by (apply H'; exists c; auto). discriminate X. }
  subst em'.
  change (P.spec_and (requires_python a) (requires_python b)) with (spec_and (requires_python a) (requires_python b)).
  change (P.spec_and (requires_python b) (requires_python a)) with (spec_and (requires_python b) (requires_python a)).
  rewrite E1, E1'. cbn [bind].
  change (P.spec_is_empty r) with (spec_is_empty r). change (P.spec_is_empty r') with (spec_is_empty r'). rewrite E2, E2'. cbn [bind].
  destruct em; [reflexivity|].
  destruct (e_impl a) as [ia|], (e_impl b) as [ib|]; try rewrite (impl_eqb_sym ib ia);
    try destruct (negb (impl_eqb ia ib)); try reflexivity;
    (destruct (e_platform a) as [pa|], (e_platform b) as [pb|]; try discriminate;
     rewrite (arch_eqb_sym (p_arch pb)), (same_os_class_sym (p_os pb));
     destruct (negb (arch_eqb (p_arch pa) (p_arch pb))); [reflexivity|];
     destruct (negb (same_os_class (p_os pa) (p_os pb))); [reflexivity|];
     destruct (os_version (p_os pa)), (os_version (p_os pb)); try discriminate;
     destruct (pair_leb _ _); discriminate).
Qed.

Definition C16_all := (C16_python, C16_plat, C16_cmp_refl, C16_cmp_not_both_higher, C16_cmp_higher_nested, C16_cmp_loe_nested, C16_cmp_loe,
                       C16_cmp_incompatible_sym, compare_total).
Redirect "C16.assumptions" Print Assumptions C16_all.
