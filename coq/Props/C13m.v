(* C13, marker part — marker `==` (dataclass equality; the grouped ==/!= atoms compare their
   value lists as sets) is an equivalence relation, and ==-equal operands are
   interchangeable: the results of & and | on them have the same meaning in every
   environment (structural equality of the results is not claimed: see the recorded
   finding value-order-text-only).  Model: marker_eqb of Model/Marker.v (S-mark compares
   results up to it; the direct oracle checks reflexivity / symmetry / transitivity / hash
   agreement / interchangeability on objects built in different ways).
   Hash agreement for markers is NOT proved (the hash of an OrderedSet is CPython's
   Set._hash, not modelled): direct oracle only. *)
From Coq Require Import List Bool NArith Arith Lia Permutation.
From Verif Require Import PyRes Str Marker MarkerBase MarkerSingle MarkerOf MarkerSound C10.
Import ListNotations.

Theorem C13m_refl a : marker_eqb a a = true.
Proof. exact (marker_eqb_refl a). Qed.

Theorem C13m_sym a b : marker_eqb a b = marker_eqb b a.
Proof. exact (marker_eqb_sym a b). Qed.

Lemma set_eqb_trans a b c : set_eqb a b = true -> set_eqb b c = true -> set_eqb a c = true.
Proof.
  unfold set_eqb. intros H1 H2.
  apply andb_prop in H1 as [H1 H1c]. apply andb_prop in H1 as [L1 H1a].
  apply andb_prop in H2 as [H2 H2c]. apply andb_prop in H2 as [L2 H2a].
  apply Nat.eqb_eq in L1, L2. rewrite forallb_forall in H1a, H1c, H2a, H2c.
  assert (L : Nat.eqb (List.length a) (List.length c) = true) by (apply Nat.eqb_eq; congruence). rewrite L. cbn [andb].
  apply andb_true_intro. split; apply forallb_forall; intros x Hx.
  - apply H2a. apply mem_str_In. apply H1a. exact Hx.
  - apply H1c. apply mem_str_In. apply H2c. exact Hx.
Qed.

Theorem C13m_trans : forall a b c, marker_eqb a b = true -> marker_eqb b c = true -> marker_eqb a c = true.
Proof.
  fix IH 1. intros a b c. destruct a as [| |x|n v|n v|l|l], b as [| |y|n' v'|n' v'|l'|l']; cbn [marker_eqb]; try discriminate;
    destruct c as [| |z|n'' v''|n'' v''|l''|l'']; cbn [marker_eqb]; try discriminate; try reflexivity.
  - intros H1 H2. apply atom_eqb_eq in H1, H2. subst. apply atom_eqb_refl.
  - rewrite !andb_true_iff. intros [N1 S1] [N2 S2]. destruct (str_eqb_spec n n'), (str_eqb_spec n' n''); try discriminate. subst.
    rewrite str_eqb_refl. split; [reflexivity | exact (set_eqb_trans _ _ _ S1 S2)].
  - rewrite !andb_true_iff. intros [N1 S1] [N2 S2]. destruct (str_eqb_spec n n'), (str_eqb_spec n' n''); try discriminate. subst.
    rewrite str_eqb_refl. split; [reflexivity | exact (set_eqb_trans _ _ _ S1 S2)].
  - revert l' l''. induction l as [|x t IHt]; intros [|y t'] [|z t'']; try discriminate; [reflexivity|].
    rewrite !andb_true_iff. intros [H1 H1'] [H2 H2']. split; [exact (IH x y z H1 H2) | exact (IHt t' t'' H1' H2')].
  - revert l' l''. induction l as [|x t IHt]; intros [|y t'] [|z t'']; try discriminate; [reflexivity|].
    rewrite !andb_true_iff. intros [H1 H1'] [H2 H2']. split; [exact (IH x y z H1 H2) | exact (IHt t' t'' H1' H2')].
Qed.

Section C13m.
  Variable vmerge : bool -> atom -> atom -> option marker.
  Variable vcontains : atom -> str -> bool.
  Variable perm : list marker -> list marker.
  Variable good : menv -> Prop.
  Hypothesis vmerge_sound : forall k a b r, vmerge k a b = Some r ->
    wf r = true /\ forall e, good e -> meval e r = bop k (atom_eval e a) (atom_eval e b).
  Hypothesis perm_perm : forall l, Permutation (perm l) l.

  (* ==-equal markers mean the same and are well formed together *)
  Theorem C13m_same_meaning x y : marker_eqb x y = true -> (forall e, meval e x = meval e y) /\ wf x = wf y.
  Proof. intros H. split; [intros e; exact (marker_eqb_meval e x y H) | exact (marker_eqb_wf x y H)]. Qed.

  (* interchangeable as operands of & and |, on either side *)
  Theorem C13m_interchangeable (k : bool) fuel fuel' a x y r1 r2 : marker_eqb x y = true -> wf a = true -> wf x = true ->
    (if k then mand else mor) vmerge vcontains perm fuel a x = Ret r1 ->
    (if k then mand else mor) vmerge vcontains perm fuel' a y = Ret r2 ->
    forall e, good e -> meval e r1 = meval e r2.
  Proof.
    intros Q Wa Wx H1 H2 e G. assert (Wy : wf y = true) by (rewrite <- (marker_eqb_wf x y Q); exact Wx).
    destruct (all_sound vmerge vcontains perm good vmerge_sound perm_perm fuel) as (A1 & O1 & _).
    destruct (all_sound vmerge vcontains perm good vmerge_sound perm_perm fuel') as (A2 & O2 & _).
    destruct k.
    - rewrite (proj2 (A1 a x r1 H1 Wa Wx) e G), (proj2 (A2 a y r2 H2 Wa Wy) e G), (marker_eqb_meval e x y Q). reflexivity.
    - rewrite (proj2 (O1 a x r1 H1 Wa Wx) e G), (proj2 (O2 a y r2 H2 Wa Wy) e G), (marker_eqb_meval e x y Q). reflexivity.
  Qed.
  Theorem C13m_interchangeable_l (k : bool) fuel fuel' a x y r1 r2 : marker_eqb x y = true -> wf a = true -> wf x = true ->
    (if k then mand else mor) vmerge vcontains perm fuel x a = Ret r1 ->
    (if k then mand else mor) vmerge vcontains perm fuel' y a = Ret r2 ->
    forall e, good e -> meval e r1 = meval e r2.
  Proof.
    intros Q Wa Wx H1 H2 e G. assert (Wy : wf y = true) by (rewrite <- (marker_eqb_wf x y Q); exact Wx).
    destruct (all_sound vmerge vcontains perm good vmerge_sound perm_perm fuel) as (A1 & O1 & _).
    destruct (all_sound vmerge vcontains perm good vmerge_sound perm_perm fuel') as (A2 & O2 & _).
    destruct k.
    - rewrite (proj2 (A1 x a r1 H1 Wx Wa) e G), (proj2 (A2 y a r2 H2 Wy Wa) e G), (marker_eqb_meval e x y Q). reflexivity.
    - rewrite (proj2 (O1 x a r1 H1 Wx Wa) e G), (proj2 (O2 y a r2 H2 Wy Wa) e G), (marker_eqb_meval e x y Q). reflexivity.
  Qed.
End C13m.

(* non-vacuity: two structurally different markers that compare == *)
Example C13m_runs n a b : marker_eqb (MEqU n [a; b]) (MEqU n [b; a]) = true.
Proof. cbn [marker_eqb]. rewrite str_eqb_refl. unfold set_eqb. cbn. rewrite !str_eqb_refl, !orb_true_r. reflexivity. Qed.

Definition C13m_all := (C13m_refl, C13m_sym, C13m_trans, C13m_same_meaning, C13m_interchangeable, C13m_interchangeable_l).
Redirect "C13m.assumptions" Print Assumptions C13m_all.
