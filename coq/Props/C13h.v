(* C13, hash agreement of markers — `x == y implies hash(x) == hash(y)` for marker objects.
   Model: Model/MarkerHash.v, CPython 3.12's hash of every marker class written out (tuple hash of the dataclass fields,
   collections.abc.Set._hash of the OrderedSet of a grouped ==/!= atom, hash("any") / hash("empty")), for EVERY string hash
   function hstr (SipHash under any PYTHONHASHSEED) and every hash of the operator strings hop.  Tied to the code by the
   stream S-mhash (mhash under the observed string hashes = hash(m); marker_eqb = ==).
   Side condition nodup_vals: the value list of a grouped atom holds no value twice — what OrderedSet's constructor
   establishes; S-mhash checks it on every marker the code returns.  Without it the statement is false of the model
   (C13h_dup_refuted: on value lists with repetitions equality as sets cannot tell [a; a; b] from [a; b; b]; set_eqb checks
   both inclusions, Python's Set.__eq__ the lengths and one inclusion -- the two agree on duplicate-free lists, the only
   ones an OrderedSet can hold without mutating its private list). *)
From Coq Require Import List Bool ZArith NArith Permutation.
From Verif Require Import PyRes Str Marker MarkerHash MarkerBase MarkerHashSound MarkerNodup.
Import ListNotations.

Theorem C13h_hash (hstr : str -> Z) (hop : mop -> Z) a b :
  nodup_vals a = true -> nodup_vals b = true -> marker_eqb a b = true -> mhash hstr hop a = mhash hstr hop b.
Proof. exact (marker_eqb_mhash hstr hop a b). Qed.

(* Set._hash does not depend on the iteration order *)
Theorem C13h_set_order (l l' : list Z) : Permutation l l' -> set_hash l = set_hash l'.
Proof. exact (set_hash_perm l l'). Qed.

(* non-vacuity: two different objects that compare == and satisfy the side condition; the hashes are computed *)
Example C13h_runs :
  let a := MUnion [MEqU [111;115]%N [[110;116]%N; [112]%N]; MAtom (mkAtom [120]%N MIn [121]%N true)] in
  let b := MUnion [MEqU [111;115]%N [[112]%N; [110;116]%N]; MAtom (mkAtom [120]%N MIn [121]%N true)] in
  let hstr := fun s : str => (fold_left (fun h c => h * 31 + Z.of_N c) s 7 - 4000)%Z in
  let hop := fun _ : mop => (-5)%Z in
  a <> b /\ nodup_vals a = true /\ nodup_vals b = true /\ marker_eqb a b = true /\
  mhash hstr hop a = (-5402264905171963708)%Z /\ mhash hstr hop b = (-5402264905171963708)%Z.
Proof. cbv zeta. split; [discriminate|]. vm_compute. repeat split. Qed.

(* the side condition is needed: with a repeated value, == (Set.__eq__) holds and the hashes differ *)
Theorem C13h_dup_refuted : exists hstr hop a b, marker_eqb a b = true /\ mhash hstr hop a <> mhash hstr hop b.
Proof.
  exists (fun s : str => (fold_left (fun h c => h * 31 + Z.of_N c) s 7)%Z), (fun _ => 0%Z),
         (MEqU [111]%N [[97]%N; [97]%N; [98]%N]), (MEqU [111]%N [[97]%N; [98]%N; [98]%N]).
  split; [vm_compute; reflexivity | vm_compute; discriminate].
Qed.

(* the side condition holds of every marker built from atoms, the universal and the empty marker by &, |, MultiMarker.of and
   MarkerUnion.of (what parse_marker folds with), only() and exclude() / without_extras() — for every fuel, set order and merge
   oracle whose results satisfy it (hypothesis vmerge_nodup: a merged version atom is an atom, Any or Empty in the code; the
   S-mark stream checks that on every row, and S-mhash checks nodup_vals itself on every marker it observes) and every set
   iteration order (hypothesis perm_perm) — so ==-equal results of these operations hash alike.  The helpers that can also be
   called directly (union_simplify, intersect_simplify, cnf, dnf, ...) are covered inside the induction (level_nodup) but
   are not constructors of hreach; the raw class constructors are outside (MultiMarker(...) flattens and copies). *)
Section Reach.
  Variable vmerge : bool -> atom -> atom -> option marker.
  Variable vcontains : atom -> str -> bool.
  Variable perm : list marker -> list marker.
  Hypothesis vmerge_nodup : forall k a b r, vmerge k a b = Some r -> nodup_vals r = true.
  Hypothesis perm_perm : forall l, Permutation (perm l) l.

  Inductive hreach : marker -> Prop :=
  | HR_any : hreach MAny
  | HR_empty : hreach MEmpty
  | HR_atom a : hreach (MAtom a)
  | HR_and fuel a b r : hreach a -> hreach b -> mand vmerge vcontains perm fuel a b = Ret r -> hreach r
  | HR_or fuel a b r : hreach a -> hreach b -> mor vmerge vcontains perm fuel a b = Ret r -> hreach r
  | HR_multi_of fuel l r : (forall x, In x l -> hreach x) -> multi_of vmerge vcontains perm fuel l = Ret r -> hreach r
  | HR_union_of fuel l r : (forall x, In x l -> hreach x) -> union_of vmerge vcontains perm fuel l = Ret r -> hreach r
  | HR_only fuel names m r : hreach m -> monly vmerge vcontains perm fuel names m = Ret r -> hreach r
  | HR_exclude fuel name m r : hreach m -> mexclude vmerge vcontains perm fuel name m = Ret r -> hreach r.

  Theorem C13h_reach_nodup : forall m, hreach m -> nodup_vals m = true.
  Proof.
    fix IH 2. intros m [| |a|fuel a b r Ha Hb E|fuel a b r Ha Hb E|fuel l r Hl E|fuel l r Hl E|fuel names m0 r Hm E|fuel name m0 r Hm E]; try reflexivity.
    - exact (mand_nodup vmerge vcontains perm vmerge_nodup perm_perm fuel a b r E (IH a Ha) (IH b Hb)).
    - exact (mor_nodup vmerge vcontains perm vmerge_nodup perm_perm fuel a b r E (IH a Ha) (IH b Hb)).
    - apply (multi_of_nodup vmerge vcontains perm vmerge_nodup perm_perm fuel l r E). apply forallb_forall. intros x Hx. exact (IH x (Hl x Hx)).
    - apply (union_of_nodup vmerge vcontains perm vmerge_nodup perm_perm fuel l r E). apply forallb_forall. intros x Hx. exact (IH x (Hl x Hx)).
    - exact (monly_nodup vmerge vcontains perm vmerge_nodup perm_perm names fuel m0 r E (IH m0 Hm)).
    - exact (mexclude_nodup vmerge vcontains perm vmerge_nodup perm_perm name fuel m0 r E (IH m0 Hm)).
  Qed.

  Theorem C13h_hash_reachable (hstr : str -> Z) (hop : mop -> Z) a b :
    hreach a -> hreach b -> marker_eqb a b = true -> mhash hstr hop a = mhash hstr hop b.
  Proof. intros Ha Hb. exact (marker_eqb_mhash hstr hop a b (C13h_reach_nodup a Ha) (C13h_reach_nodup b Hb)). Qed.
End Reach.

Definition C13h_all := (C13h_hash, C13h_set_order, C13h_runs, C13h_dup_refuted, C13h_reach_nodup, C13h_hash_reachable).
Redirect "C13h.assumptions" Print Assumptions C13h_all.
