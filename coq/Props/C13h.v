(* C13, hash agreement of markers — `x == y implies hash(x) == hash(y)` for marker objects.
   Model: Model/MarkerHash.v, CPython 3.12's hash of every marker class written out (tuple hash of the dataclass fields,
   collections.abc.Set._hash of the OrderedSet of a grouped ==/!= atom, hash("any") / hash("empty")), for EVERY string hash
   function hstr (SipHash under any PYTHONHASHSEED) and every hash of the operator strings hop.  Tied to the code by the
   stream S-mhash (mhash under the observed string hashes = hash(m); marker_eqb = ==).
   Side condition nodup_vals: the value list of a grouped atom holds no value twice — what OrderedSet's constructor
   establishes; S-mhash checks it on every marker the code returns.  Without it the statement is false of the model
   (C13h_dup_refuted: set_eqb is Set.__eq__, which cannot tell [a; a; b] from [a; b; b]). *)
From Coq Require Import List Bool ZArith NArith Permutation.
From Verif Require Import Str Marker MarkerHash MarkerBase MarkerHashSound.
Import ListNotations.

Theorem C13h_hash (hstr : str -> Z) (hop : mop -> Z) a b :
  nodup_vals a = true -> nodup_vals b = true -> marker_eqb a b = true -> mhash hstr hop a = mhash hstr hop b.
Proof. exact (marker_eqb_mhash hstr hop a b). Qed.

(* Set._hash does not depend on the iteration order *)
Theorem C13h_set_order (l l' : list Z) : Permutation l l' -> set_hash l = set_hash l'.
Proof. exact (set_hash_perm l l'). Qed.

(* non-vacuity: two different objects that compare == and satisfy the side condition; the hashes are computed *)
Example C13h_runs :
  let a := MUnion [MEqU [111;115]%N [[110;116]%N; [112]%N]; MAtom (mkAtom [120]%N MIn [121]%N true)] in
  let b := MUnion [MEqU [111;115]%N [[112]%N; [110;116]%N]; MAtom (mkAtom [120]%N MIn [121]%N true)] in
  let hstr := fun s : str => (fold_left (fun h c => h * 31 + Z.of_N c) s 7 - 4000)%Z in
  let hop := fun _ : mop => (-5)%Z in
  a <> b /\ nodup_vals a = true /\ nodup_vals b = true /\ marker_eqb a b = true /\
  mhash hstr hop a = (-5402264905171963708)%Z /\ mhash hstr hop b = (-5402264905171963708)%Z.
Proof. cbv zeta. split; [discriminate|]. vm_compute. repeat split. Qed.

(* the side condition is needed: with a repeated value, == (Set.__eq__) holds and the hashes differ *)
Theorem C13h_dup_refuted : exists hstr hop a b, marker_eqb a b = true /\ mhash hstr hop a <> mhash hstr hop b.
Proof.
  exists (fun s : str => (fold_left (fun h c => h * 31 + Z.of_N c) s 7)%Z), (fun _ => 0%Z),
         (MEqU [111]%N [[97]%N; [97]%N; [98]%N]), (MEqU [111]%N [[97]%N; [98]%N; [98]%N]).
  split; [vm_compute; reflexivity | vm_compute; discriminate].
Qed.

Definition C13h_all := (C13h_hash, C13h_set_order, C13h_runs, C13h_dup_refuted).
Redirect "C13h.assumptions" Print Assumptions C13h_all.
