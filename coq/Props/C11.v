(* C11 — the marker <-> specifier bridge preserves meaning for version atoms, on final
   interpreter versions (X.Y for python_version, X.Y.Z for python_full_version: both are
   final releases).
   C11_view: for every comparison / compatible-release / wildcard atom, `value in
   marker.specifier` is exactly the atom's evaluation (packaging's
   Specifier(op operand).contains(value), modelled by clause_sem; compared with the code's
   evaluate() and with packaging by the S-bridge / S-parse streams).
   C11_back: MarkerExpression.from_specifier(name, s), for every canonical s whose
   remembered clauses are genuine, returns AnyMarker only for the universal set,
   EmptyMarker only for the empty one, and otherwise None or an atom that evaluates true
   exactly on the final versions s admits - including the python_full_version zero
   padding (C11_padding: padding the release segment never changes a comparison).
   Outside: `in` / `not in` lists (string containment, known finding pv-in-substring) and
   the exclusion tilde_safe (known finding tilde-max-post), both decided by the oracle. *)
From Coq Require Import List Bool NArith.
From Verif Require Import PyRes Order Cuts Str SpecTypes GenSpec SpecSem SpecExpr Pep440 Corr SpecParse
  ParseSound RenderSound ParseReach Bridge BridgeSound.
Import ListNotations.
Import X.

Theorem C11_view c : wf_clause c ->
  exists s, get_specifier c = Ret s /\ forall v, final v -> spec_contains s v = Ret (atom_sem c v).
Proof. exact (view_sound c). Qed.

Theorem C11_back name s : canon s -> simp_ok s -> Forall tilde_safe (ranges_of s) ->
  forall res, from_specifier name s = Ret res ->
  match res with
  | FAny => forall v, final v -> mem (vcut v) s = true
  | FEmpty => forall v, final v -> mem (vcut v) s = false
  | FNone => True
  | FAtom k => forall v, final v -> atom_sem k v = mem (vcut v) s
  end.
Proof. exact (back_sound name s). Qed.

Theorem C11_padding k v : clause_sem (pad_pfv k) v = clause_sem k v.
Proof. exact (pad_pfv_sem k v). Qed.

(* non-vacuity: python_full_version >= "3.9a1" : view, and back from the parsed [3.9a1, inf) with the release padded to 3.9.0a1 *)
Definition k39a1 : clause := mkClause OpGe (mkVer 0 [3; 9]%N (Some (PA, 1%N)) None None).
Example C11_runs :
  exists s, get_specifier k39a1 = Ret s
            /\ from_specifier PFV s = Ret (FAtom (mkClause OpGe (mkVer 0 [3; 9; 0]%N (Some (PA, 1%N)) None None)))
            /\ spec_contains s (relver 0 [3; 9; 0]%N) = Ret true /\ spec_contains s (relver 0 [3; 8; 5]%N) = Ret false.
Proof. eexists. repeat split; vm_compute; reflexivity. Qed.

Definition C11_all := (C11_view, C11_back, C11_padding).
Redirect "C11.assumptions" Print Assumptions C11_all.
