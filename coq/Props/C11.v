(* C11 — the marker <-> specifier bridge preserves meaning for version atoms, on final
   interpreter versions (X.Y for python_version, X.Y.Z for python_full_version: both are
   final releases).
   C11_view: for every comparison / compatible-release / wildcard atom, `value in
   marker.specifier` is exactly the atom's evaluation (packaging's
   Specifier(op operand).contains(value), modelled by clause_sem; compared with the code's
   evaluate() and with packaging by the S-bridge / S-parse streams).
   C11_back: MarkerExpression.from_specifier(name, s), for every canonical s whose
   remembered clauses are genuine, returns AnyMarker only for the universal set,
   EmptyMarker only for the empty one, and otherwise None or an atom that evaluates true
   exactly on the final versions s accepts - including the python_full_version zero
   padding (C11_padding: padding the release segment never changes a comparison).
   C11_in_view / C11_in_view_pv: the specifier view of `in` / `not in` lists (their EVALUATION is string containment,
   known finding pv-in-substring, decided by the oracle).
   Outside: the exclusion tilde_safe (known finding tilde-max-post), decided by the oracle.
   C11_link / C11_linked_ops: the bridge model as a merging oracle of the marker theorems (Proofs/MergeLink.v). *)
From Coq Require Import List Bool NArith.
From Verif Require Import PyRes Order Cuts Str SpecTypes GenSpec SpecSem SpecExpr Pep440 Corr SpecParse
  ParseSound RenderSound ParseReach Bridge BridgeSound InViewSound MergeLink.
From Verif Require Marker MarkerSingle MarkerSound.
Import ListNotations.
Import X.

Theorem C11_view c : wf_clause c ->
  exists s, get_specifier c = Ret s /\ forall v, final v -> spec_contains s v = Ret (atom_sem c v).
Proof. exact (view_sound c). Qed.

Theorem C11_back name s : canon s -> simp_ok s -> Forall tilde_safe (ranges_of s) ->
  forall res, from_specifier name s = Ret res ->
  match res with
  | FAny => forall v, final v -> mem (vcut v) s = true
  | FEmpty => forall v, final v -> mem (vcut v) s = false
  | FNone => True
  | FAtom k => forall v, final v -> atom_sem k v = mem (vcut v) s
  end.
Proof. exact (back_sound name s). Qed.

(* _merge_single_markers on two atoms of ONE version-like variable (the specifier view of both, & or |, == tests, from_specifier):
   whatever it returns - the first atom, the second, a new atom, the universal / empty marker - evaluates on every final version as
   the conjunction / disjunction of the two atoms.  This discharges, in the tokenised world, the hypothesis vmerge_sound of the marker
   theorems (C02 ...) for same-variable merges; the python_version / python_full_version pair branch is not modelled. *)
Theorem C11_merge kind name c1 c2 res : wf_clause c1 -> wf_clause c2 ->
  vmerge_same kind name c1 c2 = Ret res ->
  (forall s1 s2 rs, get_specifier c1 = Ret s1 -> get_specifier c2 = Ret s2 ->
     (if kind then spec_and s1 s2 else spec_or s1 s2) = Ret rs -> Forall tilde_safe (ranges_of rs)) ->
  forall v, final v ->
  match res with
  | VMFirst => clause_sem c1 v = bopb kind (clause_sem c1 v) (clause_sem c2 v)
  | VMSecond => clause_sem c2 v = bopb kind (clause_sem c1 v) (clause_sem c2 v)
  | VMAny => bopb kind (clause_sem c1 v) (clause_sem c2 v) = true
  | VMEmpty => bopb kind (clause_sem c1 v) (clause_sem c2 v) = false
  | VMAtom k => atom_sem k v = bopb kind (clause_sem c1 v) (clause_sem c2 v)
  | VMNone => True
  end.
Proof. exact (vmerge_same_sound kind name c1 c2 res). Qed.

(* the python_version / python_full_version pair: _normalize_python_version_specifier and _merge_python_version_single_markers.
   pv_operand_ok: the python_version operand is a plain release whose meaningful part has one or two segments (anything else is the
   recorded finding pv-long-operand).  On every consistent interpreter (python_version = X.Y, python_full_version = X.Y.Z) the
   normalised specifier accepts X.Y.Z exactly when the python_version atom holds, and whatever the merge returns evaluates as the
   conjunction / disjunction of the two atoms. *)
Theorem C11_normalize c : pv_operand_ok c ->
  exists ns, normalize_pv c = Ret ns /\ canon ns /\ forall X Y Z, clause_sem c (pvv X Y) = mem (vcut (pfv X Y Z)) ns.
Proof. intros H. destruct (normalize_pv_sound c H) as (ns & E & C & _ & M). exists ns. repeat split; assumption. Qed.

Theorem C11_merge_pv kind c_pv c_full res : pv_operand_ok c_pv -> wf_clause c_full ->
  vmerge_pv kind c_pv c_full = Ret res ->
  (forall ns sf rs, normalize_pv c_pv = Ret ns -> get_specifier c_full = Ret sf ->
     (if kind then spec_and ns sf else spec_or ns sf) = Ret rs -> Forall tilde_safe (ranges_of rs)) ->
  forall X Y Z,
  let want := bopb kind (clause_sem c_pv (pvv X Y)) (clause_sem c_full (pfv X Y Z)) in
  match res with
  | VMFirst => clause_sem c_pv (pvv X Y) = want
  | VMSecond => True
  | VMAny => want = true
  | VMEmpty => want = false
  | VMAtom k => atom_sem k (pfv X Y Z) = want
  | VMNone => True
  end.
Proof. exact (vmerge_pv_sound kind c_pv c_full res). Qed.

(* literal-on-the-left atoms: evaluated as Specifier(op-as-written, env value).contains(literal); with the operator stored reflected,
   that is the evaluation of the mirrored atom, whose specifier view C11_view covers (final literal; a pre/post-release literal is
   excluded as a candidate by PEP 440 and such atoms are never merged since fix 004ebf8) *)
Theorem C11_reversed c v : (c_op c = OpLt \/ c_op c = OpLe \/ c_op c = OpGt \/ c_op c = OpGe \/ c_op c = OpEq \/ c_op c = OpNe) ->
  atom_sem_rev c v = atom_sem c v.
Proof. exact (reversed_sem c v). Qed.

Theorem C11_padding k v : clause_sem (pad_pfv k) v = clause_sem k v.
Proof. exact (pad_pfv_sem k v). Qed.

(* The link to the marker theorems (Proofs/MergeLink.v).  For ANY tokeniser tok / printer untok with tok (untok n c) = Some c, the merging
   oracle vmerge_link - _merge_single_markers as modelled by vmerge_same, declining where the merged specifier is not tilde_safe - satisfies
   the hypothesis vmerge_sound of C02 / C03 / C07 / C10 / C12 / C14m on the class good_env (environments that decide every tokenisable
   version atom as packaging's Specifier.contains does, on a final interpreter version); hence & and | computed with it mean the
   conjunction / disjunction of their operands (link_runs / env0_good in MergeLink.v: the oracle does merge, the class is inhabited). *)
Section C11link.
  Variable tok : Marker.atom -> option clause.
  Variable untok : str -> clause -> Marker.atom.
  Variable vn : str -> vname.
  Variable ver : Marker.menv -> str -> version.
  Hypothesis untok_name : forall n c, Marker.a_name (untok n c) = n.
  Hypothesis tok_untok : forall n c, tok (untok n c) = Some c.

  Theorem C11_link k a b r : vmerge_link tok untok vn k a b = Some r ->
    MarkerSingle.wf r = true
    /\ forall e, good_env tok ver e -> Marker.meval e r = MarkerSingle.bop k (Marker.atom_eval e a) (Marker.atom_eval e b).
  Proof. exact (vmerge_link_sound tok untok vn ver untok_name tok_untok k a b r). Qed.

  Theorem C11_linked_ops vcontains perm (perm_perm : forall l, Permutation.Permutation (perm l) l) fuel a b r :
    MarkerSingle.wf a = true -> MarkerSingle.wf b = true ->
    (Marker.mand (vmerge_link tok untok vn) vcontains perm fuel a b = Ret r ->
       MarkerSingle.wf r = true /\ forall e, good_env tok ver e -> Marker.meval e r = Marker.meval e a && Marker.meval e b)
    /\ (Marker.mor (vmerge_link tok untok vn) vcontains perm fuel a b = Ret r ->
       MarkerSingle.wf r = true /\ forall e, good_env tok ver e -> Marker.meval e r = Marker.meval e a || Marker.meval e b).
  Proof.
    intros Wa Wb. split; intros H.
    - exact (linked_and tok untok vn ver untok_name tok_untok vcontains perm perm_perm fuel a b r H Wa Wb).
    - exact (linked_or tok untok vn ver untok_name tok_untok vcontains perm perm_perm fuel a b r H Wa Wb).
  Qed.

  (* with the python_version / python_full_version pair (vmerge_pv), on environments whose two interpreter variables are consistent *)
  Theorem C11_link_pv k a b r : vmerge_link2 tok untok vn k a b = Some r ->
    MarkerSingle.wf r = true
    /\ forall e, good_env_pv tok ver e -> Marker.meval e r = MarkerSingle.bop k (Marker.atom_eval e a) (Marker.atom_eval e b).
  Proof. exact (vmerge_link2_sound tok untok vn ver untok_name tok_untok k a b r). Qed.
  Theorem C11_linked_normaliser vcontains perm (perm_perm : forall l, Permutation.Permutation (perm l) l) fuel :
    MarkerSound.P (vmerge_link2 tok untok vn) vcontains perm (good_env_pv tok ver) fuel.
  Proof. exact (linked2_sound tok untok vn ver untok_name tok_untok vcontains perm perm_perm fuel). Qed.
End C11link.

(* non-vacuity: python_full_version >= "3.9a1" : view, and back from the parsed [3.9a1, inf) with the release padded to 3.9.0a1 *)
Definition k39a1 : clause := mkClause OpGe (mkVer 0 [3; 9]%N (Some (PA, 1%N)) None None).
Example C11_runs :
  exists s, get_specifier k39a1 = Ret s
            /\ from_specifier PFV s = Ret (FAtom (mkClause OpGe (mkVer 0 [3; 9; 0]%N (Some (PA, 1%N)) None None)))
            /\ spec_contains s (relver 0 [3; 9; 0]%N) = Ret true /\ spec_contains s (relver 0 [3; 8; 5]%N) = Ret false.
Proof. eexists. repeat split; vm_compute; reflexivity. Qed.

(* non-vacuity: python_version > "3.7" and python_full_version >= "3.8.5"  merges to  python_full_version >= "3.8.5" *)
Example C11_pv_runs :
  pv_operand_ok (mkClause OpGt (relver 0 [3; 7]%N))
  /\ vmerge_pv true (mkClause OpGt (relver 0 [3; 7]%N)) (mkClause OpGe (relver 0 [3; 8; 5]%N)) = Ret (VMAtom (mkClause OpGe (relver 0 [3; 8; 5]%N))).
Proof. split; [split; [reflexivity | cbn; auto] | vm_compute; reflexivity]. Qed.

(* the specifier view of `name in "<list>"` / `name not in "<list>"` (session 4): it accepts exactly the final versions that satisfy
   one of (in) / every one of (not in) the member clauses, for each of the three modelled variables (python_version,
   python_full_version, platform_release; the code treats implementation_version like the latter), any number of members, members
   of any length.  Members are dotted releases (tokenised as their segments); an empty member (`"3.8,"`), which the code rejects
   with InvalidSpecifier, and members that are not plain releases (`3.8.*`, `3.8a1`) are outside the model: guard r <> [].
   Stated on mem (vcut v) s, the denotation of the returned range object (what &, | and from_specifier work with when the atom is
   merged); that `v in s` (contains(), which goes through the rendered text) agrees is C04_leaf under tilde_safe, compared on the
   code by the view part of the direct oracle, and not re-proved for these results. *)
Theorem C11_in_view name neg items : items <> [] -> Forall (fun r => r <> []) items ->
  exists s, in_view name neg items = Ret s /\ canon s /\
    forall v, final v -> mem (vcut v) s = if neg then forallb (fun r => clause_sem (in_item name true r) v) items
                                          else existsb (fun r => clause_sem (in_item name false r) v) items.
Proof. exact (in_view_sound name neg items). Qed.

(* ... and for python_version with X.Y members: exactly the interpreters X.Y[.Z...] whose X.Y is (in) / is not (not in) a member of the
   list -- on python_version values and, which is what merging with python_full_version atoms relies on, on full versions alike.
   (Evaluation of such an atom is string containment, as in PEP 508 / packaging: recorded finding pv-in-substring.) *)
Theorem C11_in_view_pv neg items : items <> [] -> Forall (fun r => List.length r = 2%nat) items ->
  exists s, in_view PV neg items = Ret s /\ canon s /\
    forall x y rest, mem (vcut (relver 0 (x :: y :: rest))) s = xorb neg (existsb (list_N_eqb [x; y]) items).
Proof. exact (in_view_pv neg items). Qed.

(* non-vacuity: python_version in "3.6, 3.10" is viewed as [3.6, 3.7) || [3.10, 3.11); it accepts 3.10.4 and rejects 3.1 and 3.7.0 *)
Example C11_in_view_runs :
  exists s, in_view PV false [[3; 6]; [3; 10]]%N = Ret s
    /\ mem (vcut (relver 0 [3; 10; 4]%N)) s = true /\ mem (vcut (relver 0 [3; 1]%N)) s = false /\ mem (vcut (relver 0 [3; 7; 0]%N)) s = false.
Proof. eexists. split; [vm_compute; reflexivity|]. repeat split; vm_compute; reflexivity. Qed.

Definition C11_all := (C11_in_view, C11_in_view_pv, C11_in_view_runs, C11_view, C11_back, C11_padding, C11_merge, C11_normalize, C11_merge_pv, C11_reversed, C11_link, C11_linked_ops, C11_link_pv, C11_linked_normaliser, link_runs, env0_good, link2_runs, env0_good_pv).
Redirect "C11.assumptions" Print Assumptions C11_all.
