(* C19 — the string-atom specifier algebra is exact wherever it is defined, for ALL
   strings (no literal pool).  Model: Model/Generic.v (hand-written, tied to generic.py
   by the exhaustive S-generic stream); Empty/Any membership is the GENERATED special.py. *)
From Coq Require Import List Bool NArith Orders String.
From Verif Require Import PyRes Order Str SpecTypes GenSpec Generic Pep440.
Import ListNotations.

Module C19_Abstract (V : OrderedTypeFull').
  Module M := GenericModel V.
  Import M.

  Definition str_op (o : gop) : Prop := o = GEq \/ o = GNe \/ o = GIn \/ o = GNotIn.

  Ltac split_ifs :=
    repeat match goal with
    | |- context [if ?c then _ else _] =>
        match c with
        | str_eqb ?x ?y => destruct (str_eqb_spec x y); subst
        | _ => let S := fresh "S" in destruct c eqn:S
        end
    end.

  Ltac bool_goal :=
    cbn;
    repeat match goal with
    | |- context [str_eqb ?x ?y] => destruct (str_eqb_spec x y); subst
    end;
    cbn;
    repeat match goal with
    | H : substr ?x ?y = _ |- context [substr ?x ?y] => rewrite H
    end;
    cbn;
    repeat match goal with
    | |- context [substr ?x ?y] => destruct (substr x y)
    end;
    cbn; try reflexivity; try congruence.

  Ltac exact_case :=
    first
      [ left; reflexivity
      | right; eexists; split; [reflexivity|]; intros s; do 3 eexists;
        split; [reflexivity|]; split; [reflexivity|]; split; [reflexivity|]; bool_goal ].

  Theorem C19_and a b :
    str_op (g_op a) -> str_op (g_op b) ->
    generic_and a (SGeneric b) = Raise NotImplementedError
    \/ exists r, generic_and a (SGeneric b) = Ret r
         /\ forall s, exists x y z, contains_str r s = Ret z /\ generic_contains a s = Ret x
                                    /\ generic_contains b s = Ret y /\ z = x && y.
  Proof.
    destruct a as [oa va], b as [ob vb]. unfold str_op; cbn [g_op].
    intros [->|[->|[->| ->]]] [->|[->|[->| ->]]];
      unfold generic_and, generic_eqb, sorted2, contains_str, generic_contains; cbn;
      split_ifs; cbn; exact_case.
  Qed.

  Theorem C19_or a b :
    str_op (g_op a) -> str_op (g_op b) ->
    generic_or a (SGeneric b) = Raise NotImplementedError
    \/ exists r, generic_or a (SGeneric b) = Ret r
         /\ forall s, exists x y z, contains_str r s = Ret z /\ generic_contains a s = Ret x
                                    /\ generic_contains b s = Ret y /\ z = x || y.
  Proof.
    destruct a as [oa va], b as [ob vb]. unfold str_op; cbn [g_op].
    intros [->|[->|[->| ->]]] [->|[->|[->| ->]]];
      unfold generic_or, generic_eqb, sorted2, contains_str, generic_contains; cbn;
      split_ifs; cbn; exact_case.
  Qed.

  Theorem C19_inv a :
    str_op (g_op a) ->
    exists r, generic_invert a = Ret r
      /\ forall s, exists x z, contains_str r s = Ret z /\ generic_contains a s = Ret x /\ z = negb x.
  Proof.
    destruct a as [oa va]. unfold str_op; cbn [g_op].
    intros [->|[->|[->| ->]]]; eexists; (split; [reflexivity|]); intros s; do 2 eexists;
      (split; [reflexivity|]); (split; [reflexivity|]); cbn; rewrite ?negb_involutive; reflexivity.
  Qed.

  (* through the operator dispatch, including results that are Empty/Any *)
  Theorem C19_dispatch a b :
    str_op (g_op a) -> str_op (g_op b) ->
    gspec_and (SGeneric a) (SGeneric b) = generic_and a (SGeneric b)
    /\ gspec_or (SGeneric a) (SGeneric b) = generic_or a (SGeneric b).
  Proof.
    intros _ _. unfold gspec_and, gspec_or, dispatch. cbn [same_class].
    split.
    - destruct (generic_and a (SGeneric b)) eqn:E; try reflexivity.
      unfold generic_and in E. destruct (generic_eqb a b); [discriminate|].
      destruct (sorted2 a b) as [x y]. destruct (g_op x), (g_op y); try discriminate;
        repeat match type of E with context [if ?c then _ else _] => destruct c end; discriminate.
    - destruct (generic_or a (SGeneric b)) eqn:E; try reflexivity.
      unfold generic_or in E. destruct (generic_eqb a b); [discriminate|].
      destruct (sorted2 a b) as [x y]. destruct (g_op x), (g_op y); try discriminate;
        repeat match type of E with context [if ?c then _ else _] => destruct c end; discriminate.
  Qed.
End C19_Abstract.

Module C19_Pep440 := C19_Abstract Pep440.
Local Open Scope string_scope.
Import C19_Pep440.M.

(* os_name == "nt"  &  os_name in "nt posix"  -> the equality atom; candidates "nt", "posix" *)
Definition g_eq_nt := mkGenericRaw GEq (of_string "nt").
Definition g_in := mkGenericRaw GIn (of_string "nt posix").
Example C19_runs :
  generic_and g_eq_nt (SGeneric g_in) = Ret (SGeneric g_eq_nt)
  /\ generic_and g_eq_nt (SGeneric (mkGenericRaw GEq (of_string "posix"))) = Ret SEmpty
  /\ contains_str SEmpty (of_string "nt") = Ret false
  /\ generic_or (mkGenericRaw GNe (of_string "nt")) (SGeneric g_eq_nt) = Ret SAny
  /\ contains_str SAny (of_string "posix") = Ret true
  /\ generic_and g_in (SGeneric (mkGenericRaw GNotIn (of_string "nt"))) = Raise NotImplementedError.
Proof. repeat split; vm_compute; reflexivity. Qed.

Definition C19_all := (C19_Pep440.C19_and, C19_Pep440.C19_or, C19_Pep440.C19_inv, C19_Pep440.C19_dispatch).
Redirect "C19.assumptions" Print Assumptions C19_all.
