(* C07 — marker text round trip, at the level of lexemes.
   Model: Model/MarkerStr.v (hand-written: __str__ of every marker class as a lexeme list;
   the PEP 508 marker grammar as packaging parses it; S-mstr stream: lexed str(m) vs the
   model's rendering, the model's parse vs packaging's Marker(text)._markers).
   For every RENDERABLE marker m (rnd: compounds and ==/!= groups are non-empty and no
   compound has an <empty>/universal child - which is what C15 says of every result):
   C07_parses     str(m) is accepted by the grammar and parses to the item tree to_items m
                  (so the parenthesisation is adequate for every tree shape);
   C07_meaning    that tree, evaluated as packaging evaluates it, means exactly m;
   C07_reparse    hence the marker parse_marker builds from str(m) evaluates identically to
                  m in every environment (with C03_parse; same hypotheses as C02);
   C07_specials   <empty> and the empty string are what the empty / universal marker render
                  to, parse_marker special-cases exactly those, and <empty> never occurs
                  inside the rendering of a larger marker.
   Lexing (quotes, spaces) is packaging's tokeniser and is observed, not modelled. *)
From Coq Require Import List Bool NArith Arith String Lia Permutation.
From Verif Require Import PyRes Str Marker MarkerBase MarkerSingle MarkerOf MarkerSound CorrMarker MarkerStr C02 C03 MarkerStrSound.
Import ListNotations.

Local Opaque FUEL.

Theorem C07_parses m fuel : rnd m = true -> not_const m = true -> (size_items (to_items m) < fuel)%nat ->
  parse_text fuel (mstr m) = PTree (PList (to_items m)).
Proof.
  intros R NC Sz. assert (NE : m <> MEmpty) by (intros ->; discriminate NC).
  pose proof (to_items_wf m R NC) as W.
  pose proof (proj1 (parse_unparse fuel) (to_items m) [] W Sz (or_introl eq_refl)) as P. rewrite app_nil_r, <- (mstr_unparse m R NE) in P.
  unfold parse_text. rewrite P.
  destruct (mstr m) as [|x [|y r]] eqn:E; [| |destruct x; reflexivity].
  - (* an empty rendering cannot parse *) destruct fuel; cbn in P; [discriminate|]. destruct fuel; discriminate P.
  - destruct x; try reflexivity. exfalso. apply (no_empty_inside m R NE). rewrite E. left. reflexivity.
Qed.

Theorem C07_meaning e m : rnd m = true -> not_const m = true -> wf m = true -> pkg_eval e (PList (to_items m)) = meval e m.
Proof. intros R NC W. rewrite pkg_eval_peval, peval_list. exact (items_meaning e m R NC W). Qed.

Section C07.
  Variable vmerge : bool -> atom -> atom -> option marker.
  Variable perm : list marker -> list marker.
  Variable good : menv -> Prop.
  Hypothesis vmerge_sound : forall k a b r, vmerge k a b = Some r ->
    wf r = true /\ forall e, good e -> meval e r = bop k (atom_eval e a) (atom_eval e b).
  Hypothesis perm_perm : forall l, Permutation (perm l) l.

  Theorem C07_reparse fuel m r : rnd m = true -> not_const m = true -> wf m = true ->
    build vmerge perm fuel (PList (to_items m)) = Ret r ->
    forall e, good e -> meval e r = meval e m.
  Proof.
    intros R NC W B e G.
    assert (PW : pwf (PList (to_items m)) = true) by (rewrite pwf_list; exact (to_items_pwf m R W)).
    rewrite (C03_parse vmerge perm good vmerge_sound perm_perm fuel _ r B PW e G). exact (C07_meaning e m R NC W).
  Qed.
End C07.

Theorem C07_specials :
  mstr MEmpty = [LEmptyTok] /\ mstr MAny = []
  /\ (forall fuel, parse_text fuel [LEmptyTok] = PEmptyMarker) /\ (forall fuel, parse_text fuel [] = PAnyMarker)
  /\ (forall m, rnd m = true -> m <> MEmpty -> ~ In LEmptyTok (mstr m)).
Proof. repeat split; try reflexivity. exact no_empty_inside. Qed.

(* non-vacuity: os_name == "a" and (sys_platform == "b" or sys_platform == "c") and "3.8" <= python_version *)
Definition ex_m : marker :=
  MMulti [MAtom (mkAtom (of_string "os_name") MEq (of_string "a") false);
          MEqU (of_string "sys_platform") [of_string "b"; of_string "c"];
          MAtom (mkAtom (of_string "python_version") MGe (of_string "3.8") true)].
Example C07_runs :
  rnd ex_m = true /\ not_const ex_m = true /\ wf ex_m = true
  /\ parse_text 50 (mstr ex_m) = PTree (PList (to_items ex_m))
  /\ nth 14 (mstr ex_m) LEmptyTok = LLit (of_string "3.8") /\ nth 15 (mstr ex_m) LEmptyTok = LOp MLe.
Proof. repeat split; vm_compute; reflexivity. Qed.

Definition C07_all := (C07_parses, C07_meaning, C07_reparse, C07_specials).
Redirect "C07.assumptions" Print Assumptions C07_all.
