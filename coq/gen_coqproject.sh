#!/bin/sh
# writes _CoqProject listing every .v file of the development (Gen/ included)
cd "$(dirname "$0")"
{ echo "-Q . Verif"; echo "-arg -w -arg -cast-in-pattern"; find Base Gen Model Proofs Props -name '*.v' 2>/dev/null | sort; } > _CoqProject
coq_makefile -f _CoqProject -o Makefile >/dev/null 2>&1
