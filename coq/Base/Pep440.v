(* Pep440.v — public PEP 440 versions and their total order, as packaging 26.x
   computes it (`_cmpkey`): (epoch, release without trailing zeros,
   (pre_rank, pre_n, post_rank, post_n, dev_rank, dev_n)), compared lexicographically.
   The key is flattened into one list of integers:
     epoch :: release' ++ [-1] ++ [pre_rank; pre_n; post_rank; post_n; dev_rank; dev_n]
   (-1 terminates the release so that a shorter release tuple sorts first).
   `packaging.Version` itself is modelled, not verified: stream S-ver compares this
   order, and key equality against hash/==, with the installed packaging. *)
From Coq Require Import List Bool ZArith NArith Orders OrdersFacts Lia.
Import ListNotations.
Local Open Scope Z_scope.

Inductive prekind := PA | PB | PRC.
Record version := mkVer {
  epoch : N; release : list N; pre : option (prekind * N); post : option N; dev : option N }.

Fixpoint drop_zeros (l : list N) : list N :=
  match l with
  | 0%N :: l' => drop_zeros l'
  | _ => l
  end.
Definition strip_zeros (l : list N) : list N := rev (drop_zeros (rev l)).
Definition all_zero (l : list N) : bool := forallb (N.eqb 0%N) l.

Definition pre_rank (v : version) : Z :=
  match pre v, post v, dev v with
  | None, None, Some _ => -1            (* dev-only sorts before every pre-release *)
  | None, _, _ => 3
  | Some (PA, _), _, _ => 0
  | Some (PB, _), _, _ => 1
  | Some (PRC, _), _, _ => 2
  end.
Definition pre_n (v : version) : Z := match pre v with Some (_, n) => Z.of_N n | None => 0 end.
Definition post_rank (v : version) : Z := match post v with Some _ => 1 | None => 0 end.
Definition post_n (v : version) : Z := match post v with Some n => Z.of_N n | None => 0 end.
Definition dev_rank (v : version) : Z := match dev v with Some _ => 0 | None => 1 end.
Definition dev_n (v : version) : Z := match dev v with Some n => Z.of_N n | None => 0 end.

Definition vkey (v : version) : list Z :=
  Z.of_N (epoch v) :: map Z.of_N (strip_zeros (release v))
    ++ [-1; pre_rank v; pre_n v; post_rank v; post_n v; dev_rank v; dev_n v].

Fixpoint lex (a b : list Z) : comparison :=
  match a, b with
  | [], [] => Eq
  | [], _ :: _ => Lt
  | _ :: _, [] => Gt
  | x :: a', y :: b' => match Z.compare x y with Eq => lex a' b' | c => c end
  end.

Lemma lex_eq a : forall b, lex a b = Eq <-> a = b.
Proof.
  induction a as [|x a IH]; intros [|y b]; cbn; try (split; congruence).
  destruct (Z.compare_spec x y) as [E|E|E].
  - subst. rewrite IH. split; congruence.
  - split; [discriminate|]. intros [= -> _]. lia.
  - split; [discriminate|]. intros [= -> _]. lia.
Qed.

Lemma lex_antisym a : forall b, lex b a = CompOpp (lex a b).
Proof.
  induction a as [|x a IH]; intros [|y b]; cbn; try reflexivity.
  rewrite (Z.compare_antisym x y). destruct (Z.compare x y); cbn; auto.
Qed.

Lemma lex_trans_lt a : forall b c, lex a b = Lt -> lex b c = Lt -> lex a c = Lt.
Proof.
  induction a as [|x a IH]; intros [|y b] [|z c]; cbn; try congruence.
  destruct (Z.compare_spec x y) as [E1|E1|E1]; try discriminate;
    destruct (Z.compare_spec y z) as [E2|E2|E2]; try discriminate; intros H1 H2; subst.
  - rewrite Z.compare_refl. eapply IH; eauto.
  - destruct (Z.compare_spec y z); try lia. reflexivity.
  - destruct (Z.compare_spec x z); try lia. reflexivity.
  - destruct (Z.compare_spec x z); try lia. reflexivity.
Qed.

Module Pep440Order <: OrderedTypeFull.
  Definition t := version.
  Definition eq (a b : t) : Prop := vkey a = vkey b.
  Definition lt (a b : t) : Prop := lex (vkey a) (vkey b) = Lt.
  Definition le (a b : t) : Prop := lex (vkey a) (vkey b) <> Gt.
  Definition compare (a b : t) : comparison := lex (vkey a) (vkey b).

  #[global] Instance eq_equiv : Equivalence eq.
  Proof. unfold eq. split; red; intros; congruence. Qed.

  #[global] Instance lt_strorder : StrictOrder lt.
  Proof.
    split.
    - intros a H. unfold lt in H. assert (lex (vkey a) (vkey a) = Eq) by (apply lex_eq; reflexivity). congruence.
    - intros a b c. unfold lt. apply lex_trans_lt.
  Qed.

  #[global] Instance lt_compat : Proper (eq ==> eq ==> iff) lt.
  Proof. intros a a' Ha b b' Hb. unfold lt, eq in *. rewrite Ha, Hb. reflexivity. Qed.

  Lemma compare_spec a b : CompareSpec (eq a b) (lt a b) (lt b a) (compare a b).
  Proof.
    unfold compare, eq, lt. destruct (lex (vkey a) (vkey b)) eqn:E; constructor.
    - apply lex_eq. exact E.
    - reflexivity.
    - rewrite lex_antisym, E. reflexivity.
  Qed.

  Lemma eq_dec a b : {eq a b} + {~ eq a b}.
  Proof.
    unfold eq. destruct (lex (vkey a) (vkey b)) eqn:E.
    - left. apply lex_eq. exact E.
    - right. intros H. apply lex_eq in H. congruence.
    - right. intros H. apply lex_eq in H. congruence.
  Qed.

  Lemma le_lteq a b : le a b <-> lt a b \/ eq a b.
  Proof.
    unfold le, lt, eq. rewrite <- lex_eq. destruct (lex (vkey a) (vkey b)); intuition congruence.
  Qed.
End Pep440Order.

Module Pep440 := Pep440Order <+ EqLtLeNotation <+ CmpNotation.
