(* SpecTypes.v — the Python value types of dep_logic.specifiers as Gallina types,
   plus the primitive operations the translator maps Python expressions to.
   Hand-written; part of the translator's semantics (trusted, validated by S-gen). *)
From Coq Require Import List Bool NArith Orders.
From Verif Require Import PyRes Order Str.
Import ListNotations.

(* All inductive types live OUTSIDE the functor (polymorphic in the carrier of the
   order) so that two instantiations of a proof functor talk about convertible types. *)
Inductive sop := OpGe | OpGt | OpLe | OpLt | OpEq | OpNe | OpCompat | OpEqStar | OpNeStar.
Inductive gop := GEq | GNe | GIn | GNotIn | GGt | GGe | GLt | GLe | GOther.

Section Data.
  Variable A : Type.
  (* the text kept in `simplified`: one packaging clause (operator + operand) *)
  Record pclause := mkClause { c_op : sop; c_ver : A }.
  Record prange := mkRangeRaw {
    rmin : option A; rmax : option A; imin : bool; imax : bool;
    rsimp : option pclause }.
  Record punion := mkUnionRaw { uranges : list prange; usimp : option pclause }.
  Record generic := mkGenericRaw { g_op : gop; g_value : str }.
  Inductive pspec :=
  | SEmpty | SAny
  | SRange (r : prange)
  | SUnion (u : punion)
  | SArb (target : str)
  | SGeneric (g : generic).
  (* what hash() of a specifier object is a function of *)
  Inductive phk := HNone | HBool (b : bool) | HStr (s : str) | HVer (v : A) | HOp (o : gop) | HTuple (l : list phk).
End Data.
Arguments mkClause {A}. Arguments c_op {A}. Arguments c_ver {A}.
Arguments mkRangeRaw {A}. Arguments rmin {A}. Arguments rmax {A}. Arguments imin {A}. Arguments imax {A}. Arguments rsimp {A}.
Arguments mkUnionRaw {A}. Arguments uranges {A}. Arguments usimp {A}.
Arguments SEmpty {A}. Arguments SAny {A}. Arguments SRange {A}. Arguments SUnion {A}. Arguments SArb {A}. Arguments SGeneric {A}.
Arguments HNone {A}. Arguments HBool {A}. Arguments HStr {A}. Arguments HVer {A}. Arguments HOp {A}. Arguments HTuple {A}.

Module SpecTypes (V : OrderedTypeFull').
  Module VB := OrdBool V.
  Export VB.

  Definition clause := pclause V.t.
  Definition range := prange V.t.
  Definition union := punion V.t.
  Definition spec := pspec V.t.
  Definition hk := phk V.t.

  (* ---- primitives for Python expressions ---- *)
  Definition is_none {A} (o : option A) : bool := match o with None => true | Some _ => false end.

  (* `a < b` on `Version | None`: TypeError when an operand is None *)
  Definition ver_lt_o (a b : option V.t) : pyres bool :=
    match a, b with
    | Some x, Some y => Ret (vltb x y)
    | _, _ => Raise TypeError
    end.
  Definition ver_gt_o (a b : option V.t) : pyres bool := ver_lt_o b a.
  (* `a == b` on `Version | None`: never raises *)
  Definition ver_eq_o (a b : option V.t) : bool :=
    match a, b with
    | Some x, Some y => veqb x y
    | None, None => true
    | _, _ => false
    end.

  Definition same_class (a b : spec) : bool :=
    match a, b with
    | SEmpty, SEmpty | SAny, SAny | SRange _, SRange _ | SUnion _, SUnion _
    | SArb _, SArb _ | SGeneric _, SGeneric _ => true
    | _, _ => false
    end.

  Definition is_SEmpty (s : spec) : bool := match s with SEmpty => true | _ => false end.
  Definition is_SAny (s : spec) : bool := match s with SAny => true | _ => false end.
  Definition is_SRange (s : spec) : bool := match s with SRange _ => true | _ => false end.
  Definition is_SUnion (s : spec) : bool := match s with SUnion _ => true | _ => false end.

  (* static-type coercions the translator inserts; a failing coercion is an error
     the Python code would hit later as AttributeError *)
  Definition as_range (s : spec) : pyres range :=
    match s with SRange r => Ret r | _ => Raise AttributeError end.

  Definition nth_range (l : list range) (i : nat) : pyres range :=
    match nth_error l i with Some r => Ret r | None => Raise IndexError end.
  Definition last_range (l : list range) : pyres range :=
    match rev l with r :: _ => Ret r | [] => Raise IndexError end.

  Definition hk_optver (o : option V.t) : hk := match o with None => HNone | Some v => HVer v end.

  (* [f(x) for x in l if ...] with a fallible, filtering body *)
  Fixpoint filter_mapM {A B} (f : A -> pyres (option B)) (l : list A) : pyres (list B) :=
    match l with
    | [] => Ret []
    | x :: xs =>
        y <- f x ;;
        ys <- filter_mapM f xs ;;
        Ret (match y with Some b => b :: ys | None => ys end)
    end.
End SpecTypes.
