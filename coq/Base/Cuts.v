(* Cuts.v — the semantic domain of the "interval reading" of version specifiers.
   A cut is a position in the order: before/after a value, or one of the two
   infinities.  A lower bound ">= m" is the cut (C m Bef), "> m" is (C m Aft);
   an upper bound "<= M" is (C M Aft), "< M" is (C M Bef).  A range denotes the
   half-open set of cuts {c | lb <= c < ub}; a real version v is the cut C v Bef. *)
From Coq Require Import Bool Orders OrdersFacts OrdersTac.
From Verif Require Import Order.

Inductive side := Bef | Aft.
Inductive pcut (A : Type) := NegInf | C (v : A) (s : side) | PosInf.
Arguments NegInf {A}. Arguments C {A}. Arguments PosInf {A}.

(* relations are wrapped so that tactics never see through them by accident; the
   wrapper lives outside the functor so that all instantiations share it *)
Inductive peq {A} (cmp : A -> A -> comparison) (a b : A) : Prop := peq_intro : cmp a b = Eq -> peq cmp a b.
Inductive plt {A} (cmp : A -> A -> comparison) (a b : A) : Prop := plt_intro : cmp a b = Lt -> plt cmp a b.
Inductive ple {A} (cmp : A -> A -> comparison) (a b : A) : Prop := ple_intro : cmp a b <> Gt -> ple cmp a b.

Module CutOrder (V : OrderedTypeFull') <: OrderedTypeFull.
  Module VB := OrdBool V.
  Import VB.

  Definition cut := pcut V.t.
  Definition t := cut.

  Definition side_cmp (a b : side) : comparison :=
    match a, b with
    | Bef, Bef | Aft, Aft => Eq
    | Bef, Aft => Lt
    | Aft, Bef => Gt
    end.

  Definition compare (a b : cut) : comparison :=
    match a, b with
    | NegInf, NegInf => Eq
    | NegInf, _ => Lt
    | _, NegInf => Gt
    | PosInf, PosInf => Eq
    | PosInf, _ => Gt
    | _, PosInf => Lt
    | C x s, C y s' =>
        match V.compare x y with
        | Eq => side_cmp s s'
        | r => r
        end
    end.

  (* wrapped in inductives so that tactics never see through them by accident *)
  Definition eq : cut -> cut -> Prop := peq compare.
  Definition lt : cut -> cut -> Prop := plt compare.
  Definition le : cut -> cut -> Prop := ple compare.
  #[global] Arguments eq : simpl never.
  #[global] Arguments lt : simpl never.
  #[global] Arguments le : simpl never.
  Lemma eq_iff a b : eq a b <-> compare a b = Eq.
  Proof. split; [intros [H]; exact H | intros H; constructor; exact H]. Qed.
  Lemma lt_iff a b : lt a b <-> compare a b = Lt.
  Proof. split; [intros [H]; exact H | intros H; constructor; exact H]. Qed.
  Lemma le_iff a b : le a b <-> compare a b <> Gt.
  Proof. split; [intros [H]; exact H | intros H; constructor; exact H]. Qed.

  Lemma compare_antisym a b : compare b a = CompOpp (compare a b).
  Proof.
    destruct a as [|x s|], b as [|y s'|]; simpl; try reflexivity.
    rewrite (cmp_antisym x y). destruct (V.compare x y); simpl; try reflexivity.
    destruct s, s'; reflexivity.
  Qed.

  Lemma compare_refl a : compare a a = Eq.
  Proof. destruct a as [|x s|]; simpl; try reflexivity. rewrite cmp_refl. destruct s; reflexivity. Qed.

  Ltac vcases :=
    repeat match goal with
    | H : context [V.compare ?x ?y] |- _ =>
        let E := fresh "E" in
        destruct (V.compare_spec x y) as [E|E|E]
    | |- context [V.compare ?x ?y] =>
        let E := fresh "E" in
        destruct (V.compare_spec x y) as [E|E|E]
    end.

  Lemma compare_trans c a b d : compare a b = c -> compare b d = c -> compare a d = c.
  Proof.
    destruct a as [|x s|], b as [|y s'|], d as [|z s''|]; simpl; intros; subst; try congruence;
      vcases; try congruence; try (exfalso; vorder);
      destruct s, s', s''; simpl in *; congruence.
  Qed.

  Lemma compare_eq_l a b d : compare a b = Eq -> compare a d = compare b d.
  Proof.
    destruct a as [|x s|], b as [|y s'|], d as [|z s''|]; simpl; intros; try congruence;
      vcases; try congruence; try (exfalso; vorder);
      destruct s, s', s''; simpl in *; congruence.
  Qed.

  Lemma compare_eq_r a b d : compare a b = Eq -> compare d a = compare d b.
  Proof.
    intros H. rewrite (compare_antisym a d), (compare_antisym b d).
    f_equal. apply compare_eq_l; exact H.
  Qed.

  #[global] Instance eq_equiv : Equivalence eq.
  Proof.
    split.
    - intros a. apply eq_iff, compare_refl.
    - intros a b H. apply eq_iff in H. apply eq_iff. rewrite compare_antisym, H. reflexivity.
    - intros a b d H1 H2. apply eq_iff in H1, H2. apply eq_iff. eapply compare_trans; eauto.
  Qed.

  #[global] Instance lt_strorder : StrictOrder lt.
  Proof.
    split.
    - intros a H. apply lt_iff in H. rewrite compare_refl in H. discriminate.
    - intros a b d H1 H2. apply lt_iff in H1, H2. apply lt_iff. eapply compare_trans; eauto.
  Qed.

  #[global] Instance lt_compat : Proper (eq ==> eq ==> iff) lt.
  Proof.
    intros a a' Ha b b' Hb. apply eq_iff in Ha, Hb. rewrite !lt_iff.
    rewrite (compare_eq_l _ _ b Ha), (compare_eq_r _ _ a' Hb). reflexivity.
  Qed.

  Lemma compare_spec a b : CompareSpec (eq a b) (lt a b) (lt b a) (compare a b).
  Proof.
    destruct (compare a b) eqn:E; constructor.
    - apply eq_iff; exact E.
    - apply lt_iff; exact E.
    - apply lt_iff. rewrite compare_antisym, E. reflexivity.
  Qed.

  Lemma eq_dec a b : {eq a b} + {~ eq a b}.
  Proof. destruct (compare a b) eqn:E; [left|right|right]; rewrite eq_iff; congruence. Qed.

  Lemma le_lteq a b : le a b <-> lt a b \/ eq a b.
  Proof. rewrite le_iff, lt_iff, eq_iff. destruct (compare a b); intuition congruence. Qed.
End CutOrder.
