(* PyRes.v — the result monad every Python-shaped model function lives in.
   Ret a     : the call returned the value a
   NotImpl   : the method returned the NotImplemented singleton
   Raise e   : the call raised an exception of class e
   No theorem treats NotImpl/Raise as a normal result: statements say "= Ret r". *)
From Coq Require Import List Bool.
Import ListNotations.

Inductive exn :=
| TypeError | ValueError | InvalidSpecifier | NotImplementedError | AttributeError
| IndexError | KeyError | InvalidVersion | UndefinedComparison | InvalidWheelFilename
| PlatformError | UnsupportedImplementation | AssertionError | InvalidMarker
| Unfueled.

Inductive pyres (A : Type) :=
| Ret (a : A)
| NotImpl
| Raise (e : exn).
Arguments Ret {A} a.
Arguments NotImpl {A}.
Arguments Raise {A} e.

Definition bind {A B} (m : pyres A) (k : A -> pyres B) : pyres B :=
  match m with
  | Ret a => k a
  | NotImpl => NotImpl
  | Raise e => Raise e
  end.

Notation "x <- m ;; k" := (bind m (fun x => k))
  (at level 61, m at next level, right associativity).

Definition exn_eqb (a b : exn) : bool :=
  match a, b with
  | TypeError, TypeError | ValueError, ValueError | InvalidSpecifier, InvalidSpecifier
  | NotImplementedError, NotImplementedError | AttributeError, AttributeError
  | IndexError, IndexError | KeyError, KeyError | InvalidVersion, InvalidVersion
  | UndefinedComparison, UndefinedComparison | InvalidWheelFilename, InvalidWheelFilename
  | PlatformError, PlatformError | UnsupportedImplementation, UnsupportedImplementation
  | AssertionError, AssertionError | InvalidMarker, InvalidMarker | Unfueled, Unfueled => true
  | _, _ => false
  end.

(* Python's short-circuit `and` / `or` on values that may raise *)
Definition pand (a : pyres bool) (b : pyres bool) : pyres bool :=
  x <- a ;; if x then b else Ret false.
Definition por (a : pyres bool) (b : pyres bool) : pyres bool :=
  x <- a ;; if x then Ret true else b.
Definition pnot (a : pyres bool) : pyres bool := x <- a ;; Ret (negb x).
Definition pif {A} (c : pyres bool) (t e : pyres A) : pyres A :=
  x <- c ;; if x then t else e.

(* CPython binary operator dispatch for operands whose classes are unrelated by
   subclassing: left method first; on NotImplemented the right operand's reflected
   method, unless both operands have the same class (then it is not tried);
   if both decline, TypeError. *)
Definition dispatch {A C} (same_class : A -> A -> bool)
           (lm : A -> A -> pyres C) (rm : A -> A -> pyres C) (a b : A) : pyres C :=
  match lm a b with
  | NotImpl =>
      if same_class a b then Raise TypeError
      else match rm b a with
           | NotImpl => Raise TypeError
           | r => r
           end
  | r => r
  end.

(* monadic list helpers used by generated code *)
Fixpoint mapM {A B} (f : A -> pyres B) (l : list A) : pyres (list B) :=
  match l with
  | [] => Ret []
  | x :: xs => y <- f x ;; ys <- mapM f xs ;; Ret (y :: ys)
  end.

Fixpoint foldM {A S} (f : S -> A -> pyres S) (l : list A) (s : S) : pyres S :=
  match l with
  | [] => Ret s
  | x :: xs => s' <- f s x ;; foldM f xs s'
  end.

Definition is_ret {A} (m : pyres A) : bool := match m with Ret _ => true | _ => false end.

Lemma bind_ret {A B} (a : A) (k : A -> pyres B) : bind (Ret a) k = k a.
Proof. reflexivity. Qed.
