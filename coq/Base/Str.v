(* Str.v — Python str values as lists of code points, with the handful of str
   operations the modelled code uses. *)
From Coq Require Import List Bool NArith Ascii String.
Import ListNotations.
Local Open Scope N_scope.

Definition str := list N.

Fixpoint str_eqb (a b : str) : bool :=
  match a, b with
  | [], [] => true
  | x :: a', y :: b' => N.eqb x y && str_eqb a' b'
  | _, _ => false
  end.

Lemma str_eqb_spec a b : reflect (a = b) (str_eqb a b).
Proof.
  revert b; induction a as [|x a IH]; intros [|y b]; simpl; try (constructor; congruence).
  destruct (N.eqb_spec x y); simpl.
  - destruct (IH b); constructor; congruence.
  - constructor; congruence.
Qed.

Lemma str_eqb_refl a : str_eqb a a = true.
Proof. destruct (str_eqb_spec a a); congruence. Qed.

Fixpoint starts_with (p s : str) : bool :=
  match p, s with
  | [], _ => true
  | x :: p', y :: s' => N.eqb x y && starts_with p' s'
  | _ :: _, [] => false
  end.

(* Python `a in b` for str: a is a contiguous substring of b *)
Fixpoint substr (a b : str) : bool :=
  starts_with a b ||
  match b with
  | [] => false
  | _ :: b' => substr a b'
  end.

Definition ends_with (p s : str) : bool := starts_with (rev p) (rev s).

(* lexicographic code-point order: Python's str < *)
Fixpoint str_ltb (a b : str) : bool :=
  match a, b with
  | [], [] => false
  | [], _ :: _ => true
  | _ :: _, [] => false
  | x :: a', y :: b' => N.ltb x y || (N.eqb x y && str_ltb a' b')
  end.

(* ASCII literals written as Coq strings *)
Fixpoint of_string (s : string) : str :=
  match s with
  | EmptyString => []
  | String c s' => N_of_ascii c :: of_string s'
  end.
Notation "'s!' x" := (of_string x) (at level 0, x at level 0).

Fixpoint str_eqb_list (a : str) (l : list str) : bool :=
  match l with [] => false | x :: xs => str_eqb a x || str_eqb_list a xs end.

(* split on a single code point: Python's s.split(c) *)
Fixpoint split_on_aux (c : N) (s : str) (cur : str) : list str :=
  match s with
  | [] => [rev cur]
  | x :: s' => if N.eqb x c then rev cur :: split_on_aux c s' [] else split_on_aux c s' (x :: cur)
  end.
Definition split_on (c : N) (s : str) : list str := split_on_aux c s [].

Fixpoint join_with (c : str) (l : list str) : str :=
  match l with
  | [] => []
  | [x] => x
  | x :: xs => x ++ c ++ join_with c xs
  end.

Fixpoint count_occ_N (c : N) (s : str) : nat :=
  match s with [] => 0%nat | x :: s' => ((if N.eqb x c then 1 else 0) + count_occ_N c s')%nat end.
