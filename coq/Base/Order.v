(* Order.v — boolean comparison helpers over an abstract OrderedTypeFull, and the
   `order` decision tactic; everything in the specifier theory is proved over this
   abstract order and only afterwards instantiated with the PEP 440 key order. *)
From Coq Require Import Bool Orders OrdersFacts OrdersTac.

Module OrdBool (V : OrderedTypeFull').
  Module VF := OrderedTypeFullFacts V.
  Ltac vorder := VF.order.

  Definition vltb (x y : V.t) : bool := match V.compare x y with Lt => true | _ => false end.
  Definition veqb (x y : V.t) : bool := match V.compare x y with Eq => true | _ => false end.
  Definition vleb (x y : V.t) : bool := match V.compare x y with Gt => false | _ => true end.

  Lemma vltb_spec x y : reflect (V.lt x y) (vltb x y).
  Proof.
    unfold vltb. pose proof (V.compare_spec x y) as H.
    destruct (V.compare x y); constructor; inversion H; vorder.
  Qed.
  Lemma veqb_spec x y : reflect (V.eq x y) (veqb x y).
  Proof.
    unfold veqb. pose proof (V.compare_spec x y) as H.
    destruct (V.compare x y); constructor; inversion H; vorder.
  Qed.
  Lemma vleb_spec x y : reflect (V.le x y) (vleb x y).
  Proof.
    unfold vleb. pose proof (V.compare_spec x y) as H.
    destruct (V.compare x y); constructor; inversion H; vorder.
  Qed.
  Lemma cmp_antisym x y : V.compare y x = CompOpp (V.compare x y).
  Proof. apply VF.compare_antisym. Qed.
  Lemma cmp_refl x : V.compare x x = Eq.
  Proof. apply VF.compare_refl. Qed.
End OrdBool.
