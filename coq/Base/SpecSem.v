(* SpecSem.v — denotation of version specifiers over cuts, and canonical shape.
   `mem c s` is "membership read structurally from the bounds" (C01): a range
   denotes {c | lb <= c < ub}; a real version v is the cut (C v Bef). *)
From Coq Require Import List Bool Orders OrdersFacts.
From Verif Require Import PyRes Order Cuts Str SpecTypes GenSpec.
Import ListNotations.

Module SpecSem (V : OrderedTypeFull').
  Module G := GenSpec V.
  Export G.
  Module CO := CutOrder V <+ EqLtLeNotation <+ CmpNotation.
  Module CB := OrdBool CO.
  Ltac corder := CB.vorder.
  Notation cut := CO.t.
  Notation cltb := CB.vltb.
  Notation cleb := CB.vleb.
  Notation ceqb := CB.veqb.

  Definition lb (r : range) : cut :=
    match rmin r with None => NegInf | Some v => C v (if imin r then Bef else Aft) end.
  Definition ub (r : range) : cut :=
    match rmax r with None => PosInf | Some v => C v (if imax r then Aft else Bef) end.

  Definition memr (c : cut) (r : range) : bool := cleb (lb r) c && cltb c (ub r).
  Definition mems (c : cut) (l : list range) : bool := existsb (memr c) l.
  Definition mem (c : cut) (s : spec) : bool :=
    match s with
    | SEmpty => false
    | SAny => true
    | SRange r => memr c r
    | SUnion u => mems c (uranges u)
    | SArb _ | SGeneric _ => false
    end.
  (* a real version is the cut just before it *)
  Definition vcut (v : V.t) : cut := C v Bef.

  (* non-degenerate: lb < ub *)
  Definition ne (r : range) : Prop := CO.lt (lb r) (ub r).
  (* the record invariant __post_init__ enforces *)
  Definition wfr (r : range) : Prop :=
    (rmin r = None -> imin r = false) /\ (rmax r = None -> imax r = false).
  Definition okr (r : range) : Prop := ne r /\ wfr r.

  (* every range ok, strictly above lo (when given), strict gap between neighbours:
     ascending, disjoint and non-touching *)
  Fixpoint chain (lo : option cut) (l : list range) : Prop :=
    match l with
    | [] => True
    | r :: rest =>
        match lo with None => True | Some c => CO.lt c (lb r) end /\ okr r /\ chain (Some (ub r)) rest
    end.
  Definition canon_list (l : list range) : Prop := chain None l.
  Definition canon (s : spec) : Prop :=
    match s with
    | SEmpty | SAny => True
    | SRange r => okr r
    | SUnion u => 2 <= length (uranges u) /\ canon_list (uranges u)
    | SArb _ | SGeneric _ => False
    end.

  Definition mk_ok (m M : option V.t) (im iM : bool) : Prop :=
    (m = None -> im = false) /\ (M = None -> iM = false).
End SpecSem.
