(* ParseReach.v — every value reachable from the parser through &, |, ~ is canonical and
   remembers only genuine clauses (simp_ok); with that, contains() and the text round trip
   are decided for whole expressions. *)
From Coq Require Import List Bool ZArith NArith Arith Lia.
From Verif Require Import PyRes Order Cuts Str SpecTypes GenSpec SpecSem RangeBridge UnionBase SpecOps SpecEq SpecExpr
  Pep440 Pep440Facts ParseArith RenderArith Corr SpecParse ParseSound RenderSound SpecProv.
Import ListNotations.
Import X.

Definition GU (u : union) : Prop := match usimp u with None => True | Some c => wf_clause c /\ from_pkg c = Ret (SUnion u) end.
Definition SInv := Inv simp_ok_range GU.

Lemma fresh_simp_ok r : rsimp r = None -> simp_ok_range r.
Proof. intros H. unfold simp_ok_range. rewrite H. exact I. Qed.

Lemma simp_ok_iff s : simp_ok s <-> SInv s.
Proof.
  destruct s as [| |r|u|?|?]; cbn; try tauto. unfold GU. split.
  - intros [H1 H2]. split; [exact H2|]. destruct (usimp u); [right; exact H1 | left; reflexivity].
  - intros [H2 [H1|H1]]; (split; [|exact H2]); [rewrite H1; exact I | exact H1].
Qed.

Lemma and_fold_simp_ok cs : forall acc s, Forall wf_clause cs -> simp_ok acc -> and_fold acc cs = Ret s -> simp_ok s.
Proof.
  induction cs as [|k cs IH]; intros acc s W Ha H; cbn [and_fold] in H.
  - injection H as <-. exact Ha.
  - inversion W as [|? ? Wk Wcs]; subst. destruct (from_pkg_spec k Wk) as (s1 & E1 & _ & S1 & _).
    rewrite E1 in H. cbn [bind] in H. apply bind_inv in H as (a1 & Ha1 & H).
    apply (IH a1 s Wcs); [|exact H]. apply simp_ok_iff.
    apply (spec_and_inv simp_ok_range GU fresh_simp_ok acc s1 a1); [apply simp_ok_iff; exact Ha | apply simp_ok_iff; exact S1 | exact Ha1].
Qed.

Lemma from_specifierset_simp_ok cs s : Forall wf_clause cs -> from_specifierset cs = Ret s -> simp_ok s.
Proof. intros W H. apply (and_fold_simp_ok cs (SRange any_range) s W); [exact I | exact H]. Qed.

Lemma or_fold_simp_ok alts : forall acc s, Forall (Forall wf_clause) alts -> simp_ok acc -> or_fold acc alts = Ret s -> simp_ok s.
Proof.
  induction alts as [|a alts IH]; intros acc s W Ha H; cbn [or_fold] in H.
  - injection H as <-. exact Ha.
  - inversion W as [|? ? Wa Walts]; subst. apply bind_inv in H as (s1 & E1 & H). apply bind_inv in H as (a1 & Ha1 & H).
    apply (IH a1 s Walts); [|exact H]. apply simp_ok_iff.
    apply (spec_or_inv simp_ok_range GU fresh_simp_ok acc s1 a1); [apply simp_ok_iff; exact Ha | apply simp_ok_iff; exact (from_specifierset_simp_ok a s1 Wa E1) | exact Ha1].
Qed.

Theorem parse_simp_ok t s : wf_text t -> parse t = Ret s -> simp_ok s.
Proof.
  destruct t as [|alts]; intros W H.
  - injection H as <-. exact I.
  - destruct W as [Hne W]. destruct alts as [|a alts]; [congruence|]. inversion W as [|? ? Wa Walts]; subst.
    cbn [parse] in H. apply bind_inv in H as (s1 & E1 & H).
    exact (or_fold_simp_ok alts s1 s Walts (from_specifierset_simp_ok a s1 Wa E1) H).
Qed.

Theorem eval_simp_ok env e : (forall n, simp_ok (env n)) -> forall r, eval env e = Ret r -> simp_ok r.
Proof.
  intros Henv. induction e as [n|a IHa b IHb|a IHa b IHb|a IHa]; intros r H; cbn [eval] in H.
  - injection H as <-. apply Henv.
  - apply bind_inv in H as (x & Hx & H). apply bind_inv in H as (y & Hy & H). apply simp_ok_iff.
    apply (spec_and_inv simp_ok_range GU fresh_simp_ok x y r); [apply simp_ok_iff, IHa, Hx | apply simp_ok_iff, IHb, Hy | exact H].
  - apply bind_inv in H as (x & Hx & H). apply bind_inv in H as (y & Hy & H). apply simp_ok_iff.
    apply (spec_or_inv simp_ok_range GU fresh_simp_ok x y r); [apply simp_ok_iff, IHa, Hx | apply simp_ok_iff, IHb, Hy | exact H].
  - apply bind_inv in H as (x & Hx & H). apply simp_ok_iff.
    exact (spec_invert_inv simp_ok_range GU fresh_simp_ok x r H).
Qed.

Theorem leaf_contains t s : wf_text t -> parse t = Ret s -> Forall tilde_safe (ranges_of s) ->
  forall v, final v -> spec_contains s v = Ret (text_sem t v).
Proof.
  intros W E Ht v Fv. destruct (parse_spec t W) as (s' & E' & C & M & _). rewrite E in E'. injection E' as <-.
  rewrite (contains_spec s v C (conj (parse_simp_ok t s W E) Ht) Fv), (M v Fv). reflexivity.
Qed.

(* expressions over parsed leaves *)
Section Leaves.
  Variable txt : nat -> stext.
  Variable env : nat -> spec.
  Hypothesis txt_wf : forall n, wf_text (txt n).
  Hypothesis env_parse : forall n, parse (txt n) = Ret (env n).

  Lemma env_canon n : canon (env n).
  Proof. destruct (parse_spec (txt n) (txt_wf n)) as (s & E & C & _). rewrite env_parse in E. injection E as ->. exact C. Qed.
  Lemma env_simp_ok n : simp_ok (env n).
  Proof. exact (parse_simp_ok (txt n) (env n) (txt_wf n) (env_parse n)). Qed.
  Lemma env_mem n v : final v -> mem (vcut v) (env n) = text_sem (txt n) v.
  Proof. intros Fv. destruct (parse_spec (txt n) (txt_wf n)) as (s & E & _ & M & _). rewrite env_parse in E. injection E as ->. exact (M v Fv). Qed.

  (* every expression evaluates, to a canonical value with genuine remembered clauses *)
  Theorem expr_reach e : exists r, eval env e = Ret r /\ canon r /\ simp_ok r
    /\ forall v, final v -> mem (vcut v) r = bdenote (fun n => text_sem (txt n) v) e.
  Proof.
    destruct (eval_spec env e env_canon) as (r & E & C & M). exists r. split; [exact E|]. split; [exact C|].
    split; [exact (eval_simp_ok env e env_simp_ok r E)|].
    intros v Fv. rewrite (M (vcut v) (lt_posinf _ _)).
    clear E M. induction e as [n|a IHa b IHb|a IHa b IHb|a IHa]; cbn [bdenote].
    - exact (env_mem n v Fv).
    - rewrite IHa, IHb. reflexivity.
    - rewrite IHa, IHb. reflexivity.
    - rewrite IHa. reflexivity.
  Qed.

  (* C04: membership of a final release in the value of an expression, as the implementation computes it
     (packaging on the rendered text), is the Boolean combination of packaging's answers on the leaves *)
  Theorem expr_contains e r : eval env e = Ret r -> Forall tilde_safe (ranges_of r) ->
    forall v, final v -> spec_contains r v = Ret (bdenote (fun n => text_sem (txt n) v) e).
  Proof.
    intros E Ht v Fv. destruct (expr_reach e) as (r' & E' & C & S & M). rewrite E in E'. injection E' as <-.
    rewrite (contains_spec r v C (conj S Ht) Fv), (M v Fv). reflexivity.
  Qed.

  (* C06: the value of an expression renders to a text that parses back to an equal value *)
  Theorem expr_roundtrip e r : eval env e = Ret r -> Forall tilde_safe (ranges_of r) ->
    exists t s', render r = Ret t /\ parse t = Ret s' /\ canon s' /\ spec_eq r s' = Ret true.
  Proof.
    intros E Ht. destruct (expr_reach e) as (r' & E' & C & S & _). rewrite E in E'. injection E' as <-.
    exact (render_parse_roundtrip r C (conj S Ht)).
  Qed.
End Leaves.
