(* InViewSound.v — the specifier view of `name in "<list>"` / `name not in "<list>"` (Model/Bridge.v: in_view) accepts exactly
   the final versions that satisfy one of (resp. all of) the member clauses; for python_version, whose members X.Y become
   wildcard clauses, that is: exactly the interpreters whose X.Y is (resp. is not) a member of the list. *)
From Coq Require Import List Bool ZArith NArith Arith Lia.
From Verif Require Import PyRes Order Cuts Str SpecTypes GenSpec SpecSem RangeBridge UnionBase SpecOps SpecEq SpecExpr
  Pep440 Pep440Facts ParseArith RenderArith Corr SpecParse ParseSound RenderSound ParseReach Bridge.
Import ListNotations.
Local Open Scope N_scope.
Import X.

Lemma in_item_wf name neg r : r <> [] -> wf_clause (in_item name neg r).
Proof.
  intros Hr. unfold in_item. destruct (Nat.ltb (List.length r) 3); [destruct name|]; destruct neg; cbn; try exact I; exact Hr.
Qed.

Lemma in_text_wf name neg items : items <> [] -> Forall (fun r => r <> []) items -> wf_text (in_text name neg items).
Proof.
  intros Hne Hi. unfold in_text. destruct neg; cbn [wf_text]; split.
  - discriminate.
  - constructor; [|constructor]. clear Hne. induction Hi as [|r t Hr _ IH]; cbn [map]; constructor; [exact (in_item_wf name true r Hr) | exact IH].
  - destruct items; [congruence | discriminate].
  - clear Hne. induction Hi as [|r t Hr _ IH]; cbn [map]; constructor; [|exact IH]. constructor; [exact (in_item_wf name false r Hr) | constructor].
Qed.

Lemma forallb_map_c {A B} (f : A -> B) (g : B -> bool) l : forallb g (map f l) = forallb (fun x => g (f x)) l.
Proof. induction l as [|x l IH]; [reflexivity|]. cbn. rewrite IH. reflexivity. Qed.
Lemma existsb_map_c {A B} (f : A -> B) (g : B -> bool) l : existsb g (map f l) = existsb (fun x => g (f x)) l.
Proof. induction l as [|x l IH]; [reflexivity|]. cbn. rewrite IH. reflexivity. Qed.
Lemma existsb_ext_in' {A} (f g : A -> bool) l : (forall x, In x l -> f x = g x) -> existsb f l = existsb g l.
Proof. induction l as [|x l IH]; intros H; [reflexivity|]. cbn. rewrite (H x (or_introl eq_refl)), IH; [reflexivity|]. intros z Hz. apply H. right. exact Hz. Qed.
Lemma forallb_ext_in' {A} (f g : A -> bool) l : (forall x, In x l -> f x = g x) -> forallb f l = forallb g l.
Proof. induction l as [|x l IH]; intros H; [reflexivity|]. cbn. rewrite (H x (or_introl eq_refl)), IH; [reflexivity|]. intros z Hz. apply H. right. exact Hz. Qed.
Lemma forallb_negb_existsb {A} (p : A -> bool) l : forallb (fun x => negb (p x)) l = negb (existsb p l).
Proof. induction l as [|x l IH]; [reflexivity|]. cbn. rewrite IH, negb_orb. reflexivity. Qed.

Theorem in_view_sound name neg items : items <> [] -> Forall (fun r => r <> []) items ->
  exists s, in_view name neg items = Ret s /\ canon s /\
    forall v, final v -> mem (vcut v) s = if neg then forallb (fun r => clause_sem (in_item name true r) v) items
                                          else existsb (fun r => clause_sem (in_item name false r) v) items.
Proof.
  intros Hne Hi. destruct (parse_spec (in_text name neg items) (in_text_wf name neg items Hne Hi)) as (s & E & C & M & _).
  exists s. split; [exact E|]. split; [exact C|]. intros v Fv. rewrite (M v Fv). unfold in_text. destruct neg; cbn [text_sem existsb].
  - rewrite orb_false_r. unfold set_sem. apply forallb_map_c.
  - rewrite existsb_map_c. apply existsb_ext_in'. intros r _. cbn [set_sem forallb]. apply andb_true_r.
Qed.

(* a member X.Y of a python_version list, as a wildcard clause, matches exactly the versions whose release starts with X.Y *)
Lemma pv_item_sem a b x y rest :
  prefix_match (relver 0 [a; b]) (relver 0 (x :: y :: rest)) = list_N_eqb [x; y] [a; b].
Proof. unfold prefix_match. cbn. reflexivity. Qed.

Theorem in_view_pv neg items : items <> [] -> Forall (fun r => List.length r = 2%nat) items ->
  exists s, in_view PV neg items = Ret s /\ canon s /\
    forall x y rest, mem (vcut (relver 0 (x :: y :: rest))) s = xorb neg (existsb (list_N_eqb [x; y]) items).
Proof.
  intros Hne Hl.
  assert (Hi : Forall (fun r : list N => r <> []) items).
  { eapply Forall_impl; [|exact Hl]. intros r Hr E. subst. discriminate. }
  destruct (in_view_sound PV neg items Hne Hi) as (s & E & C & M). exists s. split; [exact E|]. split; [exact C|].
  intros x y rest. rewrite (M (relver 0 (x :: y :: rest))) by (repeat split).
  assert (K : forall ng r, In r items -> clause_sem (in_item PV ng r) (relver 0 (x :: y :: rest)) = xorb ng (list_N_eqb [x; y] r)).
  { intros ng r Hr. rewrite Forall_forall in Hl. specialize (Hl r Hr). destruct r as [|a [|b [|c t]]]; try discriminate.
    unfold in_item. cbn [List.length Nat.ltb Nat.leb]. destruct ng; cbn [clause_sem c_op c_ver xorb]; rewrite pv_item_sem; destruct (list_N_eqb [x; y] [a; b]); reflexivity. }
  destruct neg; cbn [xorb].
  - rewrite (forallb_ext_in' _ (fun r => negb (list_N_eqb [x; y] r)) items) by (intros r Hr; rewrite (K true r Hr); destruct (list_N_eqb [x; y] r); reflexivity).
    rewrite forallb_negb_existsb. destruct (existsb (list_N_eqb [x; y]) items); reflexivity.
  - rewrite (existsb_ext_in' _ (list_N_eqb [x; y]) items) by (intros r Hr; rewrite (K false r Hr); destruct (list_N_eqb [x; y] r); reflexivity).
    destruct (existsb (list_N_eqb [x; y]) items); reflexivity.
Qed.
