(* UnionAnd.v — UnionSpecifier.__and__ (generated: itertools.product comprehension
   with walrus filter, then _from_ranges) is exact on cuts and canonical. *)
From Coq Require Import List Bool Orders OrdersFacts Lia.
From Verif Require Import PyRes Order Cuts Str SpecTypes GenSpec SpecSem RangeBridge RangeAnd UnionBase.
Import ListNotations.

Module UnionAnd (V : OrderedTypeFull').
  Module UB := UnionBase V.
  Export UB.
  Module RA := RangeAnd V.

  Lemma range_and_spec' a b :
    okr a -> okr b ->
    (range_and a (SRange b) = Ret SEmpty /\ forall c, memr c a && memr c b = false)
    \/ (exists r, range_and a (SRange b) = Ret (SRange r) /\ okr r
                  /\ CO.le (lb a) (lb r) /\ CO.le (lb b) (lb r)
                  /\ CO.le (ub r) (ub a) /\ CO.le (ub r) (ub b)
                  /\ forall c, memr c r = memr c a && memr c b).
  Proof. exact (RA.range_and_spec a b). Qed.

  (* the body of the comprehension *)
  Definition body : range * range -> pyres (option spec) :=
    fun '(a, b) => bind (range_and a (SRange b))
                     (fun range_ => Ret (if negb (is_SEmpty range_) then Some range_ else None)).

  Definition within (a r : range) : Prop := CO.le (lb a) (lb r) /\ CO.le (ub r) (ub a).

  Lemma filter_mapM_app {A B} (f : A -> pyres (option B)) l1 l2 r1 r2 :
    filter_mapM f l1 = Ret r1 -> filter_mapM f l2 = Ret r2 -> filter_mapM f (l1 ++ l2) = Ret (r1 ++ r2).
  Proof.
    revert r1; induction l1 as [|x l1 IH]; intros r1; cbn.
    - intros [= <-] H. exact H.
    - destruct (f x) as [y| |]; cbn; try discriminate.
      destruct (filter_mapM f l1) as [ys| |]; cbn; try discriminate.
      intros [= <-] H2. rewrite (IH ys eq_refl H2). cbn. destruct y; reflexivity.
  Qed.

  Lemma mapM_as_range_map l : mapM as_range (map SRange l) = Ret l.
  Proof. induction l as [|r l IH]; cbn; [reflexivity|]. rewrite IH. reflexivity. Qed.

  (* one row of the product: a fixed range a against a chain l2 *)
  Lemma row_spec a : okr a -> forall l2 lo,
    chain lo l2 ->
    exists l, filter_mapM body (map (fun y => (a, y)) l2) = Ret (map SRange l)
              /\ chain lo l /\ Forall (within a) l
              /\ forall c, mems c l = memr c a && mems c l2.
  Proof.
    intros Ha. induction l2 as [|b l2 IH]; intros lo Hc.
    - exists []. cbn. repeat split; auto. intros c. rewrite andb_false_r. reflexivity.
    - apply chain_cons in Hc as (Hab & Hb & Hrest).
      cbn [map filter_mapM body].
      destruct (range_and_spec' a b Ha Hb) as [[E M] | (r & E & Or & L1 & L2 & U1 & U2 & M)]; rewrite E; cbn [bind is_SEmpty negb].
      + destruct (IH (Some (ub b)) Hrest) as (l & El & Cl & Wl & Ml). rewrite El. cbn [bind].
        exists l. split; [reflexivity|]. split.
        { eapply chain_weaken; [|exact Cl]. pose proof Hb as [Nb _]. unfold ne in Nb.
          destruct lo; cbn [lo_le above] in *; [corder|exact I]. }
        split; [exact Wl|].
        intros c. rewrite Ml, mems_cons, andb_orb_distrib_r, M. reflexivity.
      + destruct (IH (Some (ub b)) Hrest) as (l & El & Cl & Wl & Ml). rewrite El. cbn [bind].
        exists (r :: l). split; [reflexivity|]. split.
        { apply chain_cons. split; [destruct lo; cbn [above] in *; [corder|exact I]|]. split; [exact Or|].
          eapply chain_weaken; [|exact Cl]. cbn [lo_le]. exact U2. }
        split; [constructor; [split; assumption | exact Wl]|].
        intros c. rewrite !mems_cons, Ml, M, andb_orb_distrib_r. reflexivity.
  Qed.

  Lemma hi_within a lo l : Forall (within a) l -> hi lo l = lo \/ exists x, hi lo l = Some x /\ CO.le x (ub a).
  Proof.
    revert lo; induction l as [|r l IH]; intros lo H; cbn [hi]; [left; reflexivity|].
    inversion H as [|? ? [_ Hr] Hl]; subst.
    destruct (IH (Some (ub r)) Hl) as [E | (x & E & Hx)].
    - right. exists (ub r). split; [exact E | exact Hr].
    - right. exists x. split; assumption.
  Qed.

  Lemma prod_spec l2 : chain None l2 -> forall l1 lo,
    chain lo l1 ->
    exists l, filter_mapM body (list_prod l1 l2) = Ret (map SRange l)
              /\ chain lo l /\ forall c, mems c l = mems c l1 && mems c l2.
  Proof.
    intros H2. induction l1 as [|a l1 IH]; intros lo Hc.
    - exists []. cbn. repeat split; auto.
    - apply chain_cons in Hc as (Haa & Ha & Hrest).
      cbn [list_prod].
      destruct (row_spec a Ha l2 None H2) as (row & Er & Cr & Wr & Mr).
      destruct (IH (Some (ub a)) Hrest) as (l & El & Cl & Ml).
      exists (row ++ l). split; [rewrite map_app; apply filter_mapM_app; assumption|]. split.
      + apply chain_app. split.
        * (* every row element starts at or above lb a *)
          destruct row as [|r0 row]; [exact I|].
          apply chain_cons in Cr as (_ & Or0 & Cr). apply chain_cons.
          inversion Wr as [|? ? [W0 _] _]; subst.
          split; [destruct lo; cbn [above] in *; [corder|exact I]|]. split; assumption.
        * destruct (hi_within a lo row Wr) as [E | (x & E & Hx)]; rewrite E.
          -- eapply chain_weaken; [|exact Cl]. pose proof Ha as [Na _]. unfold ne in Na.
             destruct lo; cbn [lo_le above] in *; [corder|exact I].
          -- eapply chain_weaken; [|exact Cl]. cbn [lo_le]. exact Hx.
      + intros c. rewrite mems_app, Mr, Ml, mems_cons, andb_orb_distrib_l. reflexivity.
  Qed.

  Theorem union_and_spec u b :
    canon (SUnion u) -> canon b -> (exists r, b = SRange r) \/ (exists u', b = SUnion u') ->
    exists s, union_and u b = Ret s /\ canon s /\ forall c, mem c s = mems c (uranges u) && mem c b.
  Proof.
    intros [Hlen Hc] Cb [[r ->] | [u' ->]]; unfold union_and.
    - cbn in Cb. rewrite is_any_spec by apply Cb. unfold pif. cbn [bind].
      destruct (ceqb (lb r) NegInf && ceqb (ub r) PosInf) eqn:E.
      + exists (SUnion u). split; [reflexivity|]. split; [split; assumption|].
        intros c. cbn [mem].
        destruct (mems c (uranges u)) eqn:M; [|reflexivity]. cbn. symmetry.
        assert (CO.lt c PosInf).
        { clear -M. induction (uranges u) as [|x l IH]; [discriminate|].
          rewrite mems_cons, orb_true_iff in M. destruct M as [M|M]; [|auto].
          apply memr_true in M as [_ M]. pose proof (le_posinf (ub x)). corder. }
        apply andb_prop in E as [E1 E2]. apply ceqb_iff in E1, E2.
        apply memr_true. pose proof (neginf_le c). split; corder.
      + destruct (prod_spec [r]) with (l1 := uranges u) (lo := @None cut) as (l & El & Cl & Ml).
        { apply chain_cons. split; [exact I|]. split; [exact Cb | exact I]. }
        { exact Hc. }
        change (filter_mapM body (list_prod (uranges u) [r]) = Ret (map SRange l)) in El.
        unfold body in El.
        destruct (from_ranges_spec l Cl) as (s & Es & Cs & Ms).
        exists s. split; [match goal with |- bind ?m _ = _ => replace m with (Ret (A:=list spec) (map SRange l)) by (symmetry; exact El) end; cbn [bind]; rewrite mapM_as_range_map; cbn [bind]; exact Es|]. split; [exact Cs|].
        intros c. rewrite Ms, Ml. cbn. rewrite orb_false_r. reflexivity.
    - destruct Cb as [_ Cb].
      destruct (prod_spec (uranges u') Cb (uranges u) None Hc) as (l & El & Cl & Ml).
      unfold body in El.
      destruct (from_ranges_spec l Cl) as (s & Es & Cs & Ms).
      exists s. split; [match goal with |- bind ?m _ = _ => replace m with (Ret (A:=list spec) (map SRange l)) by (symmetry; exact El) end; cbn [bind]; rewrite mapM_as_range_map; cbn [bind]; exact Es|]. split; [exact Cs|].
      intros c. rewrite Ms, Ml. reflexivity.
  Qed.
End UnionAnd.
