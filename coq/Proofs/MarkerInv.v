(* MarkerInv.v — hereditary shape invariants of markers carried through the whole normaliser.
   The same induction as Proofs/MarkerVars.v (open-recursion bodies, hence every fuel level of
   Model/Marker.v, the of() loops, only() and exclude()), for a predicate that additionally
   constrains the CHILD LIST of every conjunction (cm) and of every disjunction (cu), at any
   depth.  The only facts needed about cm / cu are that the constructors mk_multi / mk_union
   (flatten_items) establish them.  Instantiated with "pairwise distinct and no child is a
   compound of the same kind" this gives the unconditional part of C15. *)
From Coq Require Import List Bool NArith Arith String Lia Permutation.
From Verif Require Import PyRes Str Marker MarkerBase MarkerSingle MarkerOf MarkerSound MarkerOpen MarkerOpenSound.
Import ListNotations.

Section Vars.
  Variable qn : str -> bool.                      (* the names that may be mentioned *)
  Variable cm cu : list marker -> bool.           (* what the child list of a conjunction / disjunction must satisfy *)
  Variable gv : list str -> bool.                 (* what the value list of a grouped ==/!= atom must satisfy *)

  Fixpoint W (m : marker) : bool :=
    match m with
    | MAny | MEmpty => true
    | MAtom a => qn (a_name a)
    | MEqU n vs | MNeM n vs => qn n && gv vs
    | MMulti l => cm l && (fix go (l : list marker) : bool := match l with [] => true | x :: t => W x && go t end) l
    | MUnion l => cu l && (fix go (l : list marker) : bool := match l with [] => true | x :: t => W x && go t end) l
    end.
  Lemma W_list l : (fix go (l : list marker) : bool := match l with [] => true | x :: t => W x && go t end) l = forallb W l.
  Proof. induction l as [|x l IH]; [reflexivity|]. cbn. rewrite IH. reflexivity. Qed.
  Lemma W_multi l : W (MMulti l) = cm l && forallb W l. Proof. cbn [W]. rewrite W_list. reflexivity. Qed.
  Lemma W_union l : W (MUnion l) = cu l && forallb W l. Proof. cbn [W]. rewrite W_list. reflexivity. Qed.
  Lemma W_multi_ch l : W (MMulti l) = true -> forallb W l = true.
  Proof. rewrite W_multi. intros H. apply andb_prop in H as [_ H]. exact H. Qed.
  Lemma W_union_ch l : W (MUnion l) = true -> forallb W l = true.
  Proof. rewrite W_union. intros H. apply andb_prop in H as [_ H]. exact H. Qed.

  (* the constructors establish the child-list conditions *)
  Hypothesis cm_mk : forall l, forallb W l = true -> cm (flatten sub_multi l []) = true.
  Hypothesis cu_mk : forall l, forallb W l = true -> cu (flatten sub_union l []) = true.
  (* every value list the single-marker operations build goes through OrderedSet's constructor *)
  Hypothesis gv_oset : forall l, gv (oset l) = true.
  Lemma W_equ n vs : W (MEqU n vs) = qn n && gv vs. Proof. reflexivity. Qed.
  Lemma W_nem n vs : W (MNeM n vs) = qn n && gv vs. Proof. reflexivity. Qed.

  (* ---- flatten / constructors ---- *)
  Lemma dedup_fold_W sub : forall acc, forallb W sub = true -> forallb W acc = true ->
    forallb W (fold_left (fun ac s => if mem_marker s ac then ac else ac ++ [s]) sub acc) = true.
  Proof.
    induction sub as [|s sub IH]; intros acc Hs Ha; [exact Ha|]. cbn [fold_left]. cbn in Hs. apply andb_prop in Hs as [H1 H2].
    destruct (mem_marker s acc); apply IH; try assumption. rewrite forallb_app, Ha. cbn. rewrite H1. reflexivity.
  Qed.
  Lemma flatten_W same items : (forall it sub, same it = Some sub -> W it = true -> forallb W sub = true) ->
    forall acc, forallb W items = true -> forallb W acc = true -> forallb W (flatten same items acc) = true.
  Proof.
    intros Hsame. induction items as [|it rest IH]; intros acc Hi Ha; [exact Ha|]. cbn [flatten]. cbn in Hi. apply andb_prop in Hi as [H1 H2].
    destruct (same it) as [sub|] eqn:E.
    - apply IH; [exact H2|]. apply dedup_fold_W; [exact (Hsame it sub E H1) | exact Ha].
    - destruct (mem_marker it acc); apply IH; try assumption. rewrite forallb_app, Ha. cbn. rewrite H1. reflexivity.
  Qed.
  Lemma sub_multi_W it sub : sub_multi it = Some sub -> W it = true -> forallb W sub = true.
  Proof. destruct it; try discriminate. intros [= <-]. apply W_multi_ch. Qed.
  Lemma sub_union_W it sub : sub_union it = Some sub -> W it = true -> forallb W sub = true.
  Proof. destruct it; try discriminate. intros [= <-]. apply W_union_ch. Qed.
  Lemma mk_multi_W l : forallb W l = true -> W (mk_multi l) = true.
  Proof. intros H. unfold mk_multi. rewrite W_multi, (cm_mk l H). apply flatten_W; [exact sub_multi_W | exact H | reflexivity]. Qed.
  Lemma mk_union_W l : forallb W l = true -> W (mk_union l) = true.
  Proof. intros H. unfold mk_union. rewrite W_union, (cu_mk l H). apply flatten_W; [exact sub_union_W | exact H | reflexivity]. Qed.
  Lemma set_of_W l : forallb W l = true -> forallb W (set_of l) = true.
  Proof. intros H. unfold set_of. apply flatten_W; [discriminate | exact H | reflexivity]. Qed.
  Lemma filter_W (P : marker -> bool) l : forallb W l = true -> forallb W (filter P l) = true.
  Proof. induction l as [|x l IH]; [reflexivity|]. cbn. intros H. apply andb_prop in H as [H1 H2]. destruct (P x); cbn; rewrite ?H1; auto. Qed.
  Lemma perm_W l l' : Permutation l l' -> forallb W l = true -> forallb W l' = true.
  Proof. intros P H. apply forallb_forall. intros x Hx. rewrite forallb_forall in H. apply H. eapply Permutation_in; [apply Permutation_sym; exact P | exact Hx]. Qed.

  Lemma equ_replace_W n vs : qn n = true -> gv vs = true -> W (equ_replace n vs) = true.
  Proof. intros H G. destruct vs as [|v [|w t]]; cbn [equ_replace W a_name]; auto. rewrite H, G. reflexivity. Qed.
  Lemma nem_replace_W n vs : qn n = true -> gv vs = true -> W (nem_replace n vs) = true.
  Proof. intros H G. destruct vs as [|v [|w t]]; cbn [nem_replace W a_name]; auto. rewrite H, G. reflexivity. Qed.

  Section Ops.
    Variable vmerge : bool -> atom -> atom -> option marker.
    Variable vcontains : atom -> str -> bool.
    Hypothesis vmerge_inv : forall k a b r, vmerge k a b = Some r -> qn (a_name a) = true -> qn (a_name b) = true -> W r = true.

    Lemma merge_single_W k a b r : merge_single vmerge k a b = Some r -> qn (a_name a) = true -> qn (a_name b) = true -> W r = true.
    Proof.
      unfold merge_single. intros H Ha Hb.
      destruct (atom_eqb a b); [injection H as <-; exact Ha|].
      destruct (rev_in a || rev_in b); [discriminate|].
      destruct (pyver_pair (a_name a) (a_name b)); [eapply vmerge_inv; eauto|].
      destruct (negb (str_eqb (a_name a) (a_name b))); [discriminate|].
      destruct (version_like (a_name a)); [eapply vmerge_inv; eauto|].
      destruct (str_eqb (a_name a) (of_string "extra") && negb (str_eqb (a_value a) (a_value b))); [discriminate|].
      destruct ((if k then gen_and else gen_or) (a_op a) (a_value a) (a_op b) (a_value b)) as [o v| | |].
      - destruct (mop_eqb o (a_op a) && str_eqb v (a_value a)); [injection H as <-; exact Ha|].
        destruct (mop_eqb o (a_op b) && str_eqb v (a_value b)); [injection H as <-; exact Hb|]. injection H as <-. exact Ha.
      - injection H as <-. reflexivity.
      - injection H as <-. reflexivity.
      - destruct (mop_eqb (a_op a) MEq && mop_eqb (a_op b) MEq && negb k); [injection H as <-; rewrite W_equ, Ha, gv_oset; reflexivity|].
        destruct (mop_eqb (a_op a) MNe && mop_eqb (a_op b) MNe && k); [injection H as <-; rewrite W_nem, Ha, gv_oset; reflexivity | discriminate].
    Qed.

    Lemma single_ops_W a b r : W a = true -> W b = true ->
      (single_and_l vmerge vcontains a b = Some r \/ single_or_l vmerge vcontains a b = Some r
       \/ single_and_r vcontains a b = Some r \/ single_or_r vcontains a b = Some r) -> W r = true.
    Proof.
      intros Ha Hb H.
      assert (Two : forall x y, W x = true -> W y = true -> W (mk_multi [x; y]) = true /\ W (mk_union [x; y]) = true).
      { intros x y Hx Hy. split; [apply mk_multi_W | apply mk_union_W]; cbn; rewrite Hx, Hy; reflexivity. }
      assert (G : forall n vs, W (MEqU n vs) = true -> qn n = true /\ gv vs = true).
      { intros n vs Hg. rewrite W_equ in Hg. apply andb_prop in Hg. exact Hg. }
      assert (Gr : forall n vs, qn n = true -> gv vs = true -> W (MEqU n vs) = true /\ W (MNeM n vs) = true).
      { intros n vs Hn Hg. rewrite W_equ, W_nem, Hn, Hg. split; reflexivity. }
      assert (EqA : forall n vs o r0, equ_and vcontains n vs o = Some r0 -> W (MEqU n vs) = true -> W o = true -> W r0 = true).
      { intros n vs o r0 E Hs Ho. destruct (G n vs Hs) as [Hn Hg]. unfold equ_and in E. destruct (negb (is_single o)); [discriminate|].
        destruct (negb (str_eqb n (single_name o)) || rev_in_m o); [injection E as <-; apply (Two (MEqU n vs) o); auto|].
        destruct o; try discriminate; injection E as <-; apply equ_replace_W; try exact Hn; apply gv_oset. }
      assert (EqO : forall n vs o r0, equ_or vcontains n vs o = Some r0 -> W (MEqU n vs) = true -> W o = true -> W r0 = true).
      { intros n vs o r0 E Hs Ho. destruct (G n vs Hs) as [Hn Hg]. unfold equ_or in E. destruct (negb (is_single o)); [discriminate|].
        destruct (negb (str_eqb n (single_name o)) || rev_in_m o); [injection E as <-; apply (Two (MEqU n vs) o); auto|].
        destruct o as [| |x|n' vs'|n' vs'|l|l]; try discriminate.
        - destruct (a_op x); try (destruct (forallb (atom_contains vcontains x) vs); injection E as <-; [exact Ho | apply (Two (MEqU n vs) (MAtom x)); auto]).
          + destruct (mem_str (a_value x) vs); injection E as <-; [exact Hs | exact (proj1 (Gr n _ Hn (gv_oset _)))].
          + destruct (mem_str (a_value x) vs); injection E as <-; [reflexivity | exact Ho].
        - injection E as <-. exact (proj1 (Gr n _ Hn (gv_oset _))). }
      assert (NeA : forall n vs o r0, nem_and vcontains n vs o = Some r0 -> W (MNeM n vs) = true -> W o = true -> W r0 = true).
      { intros n vs o r0 E Hs Ho. destruct (G n vs Hs) as [Hn Hg]. unfold nem_and in E. destruct (negb (is_single o)); [discriminate|].
        destruct (negb (str_eqb n (single_name o)) || rev_in_m o); [injection E as <-; apply (Two (MNeM n vs) o); auto|].
        destruct o as [| |x|n' vs'|n' vs'|l|l]; try discriminate.
        - destruct (a_op x); try (destruct (negb (existsb (atom_contains vcontains x) vs)); injection E as <-; [exact Ho | apply (Two (MNeM n vs) (MAtom x)); auto]).
          + destruct (mem_str (a_value x) vs); injection E as <-; [reflexivity | exact Ho].
          + destruct (mem_str (a_value x) vs); injection E as <-; [exact Hs | exact (proj2 (Gr n _ Hn (gv_oset _)))].
        - injection E as <-. apply equ_replace_W; [exact (proj1 (G _ _ Ho)) | apply gv_oset].
        - injection E as <-. exact (proj2 (Gr n _ Hn (gv_oset _))). }
      assert (NeO : forall n vs o r0, nem_or vcontains n vs o = Some r0 -> W (MNeM n vs) = true -> W o = true -> W r0 = true).
      { intros n vs o r0 E Hs Ho. destruct (G n vs Hs) as [Hn Hg]. unfold nem_or in E. destruct (negb (is_single o)); [discriminate|].
        destruct (negb (str_eqb n (single_name o)) || rev_in_m o); [injection E as <-; apply (Two (MNeM n vs) o); auto|].
        destruct o; try discriminate; injection E as <-; apply nem_replace_W; try exact Hn; apply gv_oset. }
      destruct H as [H|[H|[H|H]]].
      - destruct a as [| |x|n vs|n vs|l|l]; try discriminate H; cbn [single_and_l] in H.
        + destruct b as [| |y|?|?|?|?]; try discriminate H. injection H as <-. unfold atom_and.
          destruct (merge_single vmerge true x y) as [m|] eqn:E; [exact (merge_single_W _ _ _ _ E Ha Hb) | apply (Two (MAtom x) (MAtom y)); auto].
        + exact (EqA _ _ _ _ H Ha Hb).
        + exact (NeA _ _ _ _ H Ha Hb).
      - destruct a as [| |x|n vs|n vs|l|l]; try discriminate H; cbn [single_or_l] in H.
        + destruct b as [| |y|?|?|?|?]; try discriminate H. injection H as <-. unfold atom_or.
          destruct (merge_single vmerge false x y) as [m|] eqn:E; [exact (merge_single_W _ _ _ _ E Ha Hb) | apply (Two (MAtom x) (MAtom y)); auto].
        + exact (EqO _ _ _ _ H Ha Hb).
        + exact (NeO _ _ _ _ H Ha Hb).
      - destruct a as [| |x|n vs|n vs|l|l]; try discriminate H; cbn [single_and_r] in H; [exact (EqA _ _ _ _ H Ha Hb) | exact (NeA _ _ _ _ H Ha Hb)].
      - destruct a as [| |x|n vs|n vs|l|l]; try discriminate H; cbn [single_or_r] in H; [exact (EqO _ _ _ _ H Ha Hb) | exact (NeO _ _ _ _ H Ha Hb)].
    Qed.
  End Ops.

  (* ---- the of() loops ---- *)
  Section Of.
    Variable absorbing neutral : marker -> bool.
    Variable absorb_m neutral_m : marker.
    Variable sub : marker -> option (list marker).
    Variable mk : list marker -> marker.
    Variable other_cls : marker -> bool.
    Variable op : marker -> marker -> pyres marker.
    Variable simp : marker -> marker -> pyres (option marker).
    Hypothesis H_op : forall a b r, op a b = Ret r -> W a = true -> W b = true -> W r = true.
    Hypothesis H_simp : forall s o r, simp s o = Ret (Some r) -> W s = true -> W o = true -> W r = true.
    Hypothesis H_sub : forall it sub', sub it = Some sub' -> W it = true -> forallb W sub' = true.
    Hypothesis H_mk : forall l, forallb W l = true -> W (mk l) = true.
    Hypothesis H_abs : W absorb_m = true.
    Hypothesis H_neu : W neutral_m = true.

    Lemma scan_W cur : forall post pre l, of_scan absorbing other_cls op simp cur pre post = Ret (Some (Some l)) ->
      W cur = true -> forallb W pre = true -> forallb W post = true -> forallb W l = true.
    Proof.
      induction post as [|mark post IH]; intros pre l H Qc Qpre Qpost; cbn [of_scan] in H; [discriminate|].
      cbn in Qpost. apply andb_prop in Qpost as [Qm Qpost].
      assert (Qpre' : forallb W (pre ++ [mark]) = true) by (rewrite forallb_app, Qpre; cbn; rewrite Qm; reflexivity).
      destruct (is_single mark).
      - destruct (op mark cur) as [nm| |] eqn:Eop; try discriminate. cbn [bind] in H.
        destruct (absorbing nm); [discriminate|]. destruct (is_single nm).
        + injection H as <-. rewrite forallb_app, Qpre. cbn. rewrite (H_op _ _ _ Eop Qm Qc), Qpost. reflexivity.
        + exact (IH _ _ H Qc Qpre' Qpost).
      - destruct (other_cls mark).
        + destruct (simp mark cur) as [[x|]| |] eqn:Es; try discriminate; cbn [bind] in H.
          * injection H as <-. rewrite forallb_app, Qpre. cbn. rewrite (H_simp _ _ _ Es Qm Qc), Qpost. reflexivity.
          * exact (IH _ _ H Qc Qpre' Qpost).
        + exact (IH _ _ H Qc Qpre' Qpost).
    Qed.

    Lemma pass_W : forall old new out, of_pass absorbing neutral sub other_cls op simp old new = Ret (Some out) ->
      forallb W old = true -> forallb W new = true -> forallb W out = true.
    Proof.
      induction old as [|cur rest IH]; intros new out H Qo Qn; cbn [of_pass] in H.
      - injection H as <-. exact Qn.
      - cbn in Qo. apply andb_prop in Qo as [Qc Qr].
        destruct (mem_marker cur new); [exact (IH _ _ H Qr Qn)|]. destruct (neutral cur); [exact (IH _ _ H Qr Qn)|].
        destruct (of_scan absorbing other_cls op simp cur [] new) as [[[new'|]|]| |] eqn:Es; cbn [bind] in H; try discriminate.
        + apply (IH _ _ H Qr). apply flatten_W; [exact H_sub | exact (scan_W cur new [] new' Es Qc eq_refl Qn) | reflexivity].
        + apply (IH _ _ H Qr). rewrite forallb_app, Qn. cbn. rewrite Qc. reflexivity.
    Qed.

    Lemma loop_W : forall k old new out, of_loop absorbing neutral sub other_cls op simp k old new = Ret (Some out) ->
      forallb W new = true -> forallb W out = true.
    Proof.
      induction k as [|k IH]; intros old new out H Qn; [discriminate|]. cbn [of_loop] in H.
      destruct (markers_eqb old new); [injection H as <-; exact Qn|].
      destruct (of_pass absorbing neutral sub other_cls op simp new []) as [[new'|]| |] eqn:Ep; cbn [bind] in H; try discriminate.
      exact (IH _ _ _ H (pass_W new [] new' Ep Qn eq_refl)).
    Qed.

    Lemma of_body_W k markers r : of_body absorbing neutral absorb_m neutral_m sub mk other_cls op simp k markers = Ret r ->
      forallb W markers = true -> W r = true.
    Proof.
      unfold of_body. intros H Qm.
      destruct (of_loop absorbing neutral sub other_cls op simp k [] (flatten sub markers [])) as [[new|]| |] eqn:El; cbn [bind] in H; try discriminate.
      - pose proof (loop_W k [] _ new El (flatten_W sub markers H_sub [] Qm eq_refl)) as Qnew.
        destruct (existsb absorbing new); [injection H as <-; exact H_abs|].
        destruct new as [|x [|y t]]; injection H as <-; [exact H_neu | cbn in Qnew; apply andb_prop in Qnew as [Qx _]; exact Qx | apply H_mk; exact Qnew].
      - injection H as <-. exact H_abs.
    Qed.
  End Of.

  (* ---- one step of the normaliser over callees that preserve W ---- *)
  Section Step.
    Variable vmerge : bool -> atom -> atom -> option marker.
    Variable vcontains : atom -> str -> bool.
    Variable perm : list marker -> list marker.
    Hypothesis vmerge_inv : forall k a b r, vmerge k a b = Some r -> qn (a_name a) = true -> qn (a_name b) = true -> W r = true.
    Hypothesis perm_perm : forall l, Permutation (perm l) l.

    Definition wpres2 (f : marker -> marker -> pyres marker) : Prop := forall a b r, f a b = Ret r -> W a = true -> W b = true -> W r = true.
    Definition wpresL (f : list marker -> pyres marker) : Prop := forall l r, f l = Ret r -> forallb W l = true -> W r = true.
    Definition wpresS (f : marker -> marker -> pyres (option marker)) : Prop := forall s o r, f s o = Ret (Some r) -> W s = true -> W o = true -> W r = true.
    Definition wpres1 (f : marker -> pyres marker) : Prop := forall m r, f m = Ret r -> W m = true -> W r = true.
    Definition inv_callees (c : callees) : Prop :=
      wpres2 (c_and c) /\ wpres2 (c_or c) /\ wpresL (c_multi_of c) /\ wpresL (c_union_of c) /\ wpresS (c_usimp c) /\ wpresS (c_isimp c)
      /\ wpres1 (c_cnf c) /\ wpres1 (c_dnf c) /\ wpresL (c_munion c).

    Lemma mapM_wpres1 f l : wpres1 f -> forall rs, mapM f l = Ret rs -> forallb W l = true -> forallb W rs = true.
    Proof.
      intros Hf. induction l as [|x l IH]; intros rs H Ql; cbn [mapM] in H; [injection H as <-; reflexivity|].
      cbn in Ql. apply andb_prop in Ql as [Qx Ql]. destruct (f x) as [y| |] eqn:E; try discriminate. cbn [bind] in H.
      destruct (mapM f l) as [ys| |] eqn:Es; try discriminate. cbn [bind] in H. injection H as <-. cbn. rewrite (Hf _ _ E Qx), (IH ys eq_refl Ql). reflexivity.
    Qed.
    Lemma mapM_wpresL f (ls : list (list marker)) : wpresL f -> forall rs, mapM f ls = Ret rs -> forallb (forallb W) ls = true -> forallb W rs = true.
    Proof.
      intros Hf. induction ls as [|x l IH]; intros rs H Ql; cbn [mapM] in H; [injection H as <-; reflexivity|].
      cbn in Ql. apply andb_prop in Ql as [Qx Ql]. destruct (f x) as [y| |] eqn:E; try discriminate. cbn [bind] in H.
      destruct (mapM f l) as [ys| |] eqn:Es; try discriminate. cbn [bind] in H. injection H as <-. cbn. rewrite (Hf _ _ E Qx), (IH ys eq_refl Ql). reflexivity.
    Qed.
    Lemma nprod_W ls : forallb (forallb W) ls = true -> forallb (forallb W) (nprod ls) = true.
    Proof.
      induction ls as [|l ls IH]; intros H; [reflexivity|]. cbn in H. apply andb_prop in H as [Hl Hls]. cbn [nprod].
      apply forallb_forall. intros c Hc. apply in_flat_map in Hc as (x & Hx & Hc). apply in_map_iff in Hc as (t & <- & Ht).
      cbn. rewrite forallb_forall in Hl. rewrite (Hl x Hx). specialize (IH Hls). rewrite forallb_forall in IH. exact (IH t Ht).
    Qed.

    Theorem step_inv c : inv_callees c -> inv_callees (step vmerge vcontains perm c).
    Proof.
      intros (Hand & Hor & Hmul & Huni & Hus & His & Hcnf & Hdnf & Hmun).
      assert (Two : forall x y, W x = true -> W y = true -> W (mk_multi [x; y]) = true /\ forallb W [x; y] = true).
      { intros x y Hx Hy. split; [apply mk_multi_W|]; cbn; rewrite Hx, Hy; reflexivity. }
      assert (SO := single_ops_W vmerge vcontains vmerge_inv).
      unfold inv_callees, step. cbn [c_and c_or c_multi_of c_union_of c_usimp c_isimp c_cnf c_dnf c_munion c_fuel].
      assert (Hand' : wpres2 (mand_body vmerge vcontains c)).
      { intros a b r H Qa Qb. unfold mand_body in H.
        destruct a as [| |x|n vs|n vs|l|l]; try (injection H as <-; assumption || reflexivity);
          try (exact (Hdnf _ _ H (proj1 (Two _ _ Qa Qb))));
          (destruct (single_and_l vmerge vcontains _ b) as [r'|] eqn:E; [injection H as <-; exact (SO _ _ _ Qa Qb (or_introl E))|];
           destruct (same_cls _ b); [discriminate|];
           destruct b as [| |y|n' vs'|n' vs'|l'|l']; try discriminate; try (injection H as <-; assumption || reflexivity);
           try (exact (Hdnf _ _ H (proj1 (Two _ _ Qb Qa))));
           (destruct (single_and_r vcontains _ _) as [r'|] eqn:E'; [|discriminate]; injection H as <-; exact (SO _ _ _ Qb Qa (or_intror (or_intror (or_introl E')))))). }
      assert (Hor' : wpres2 (mor_body vmerge vcontains c)).
      { intros a b r H Qa Qb. unfold mor_body in H.
        destruct a as [| |x|n vs|n vs|l|l]; try (injection H as <-; assumption || reflexivity);
          try (exact (Hmun _ _ H (proj2 (Two _ _ Qa Qb))));
          (destruct (single_or_l vmerge vcontains _ b) as [r'|] eqn:E; [injection H as <-; exact (SO _ _ _ Qa Qb (or_intror (or_introl E)))|];
           destruct (same_cls _ b); [discriminate|];
           destruct b as [| |y|n' vs'|n' vs'|l'|l']; try discriminate; try (injection H as <-; assumption || reflexivity);
           try (exact (Hmun _ _ H (proj2 (Two _ _ Qb Qa))));
           (destruct (single_or_r vcontains _ _) as [r'|] eqn:E'; [|discriminate]; injection H as <-; exact (SO _ _ _ Qb Qa (or_intror (or_intror (or_intror E')))))). }
      assert (Hmul' : wpresL (multi_of_body c)).
      { intros l r H Ql. unfold multi_of_body in H.
        exact (of_body_W is_empty is_any MEmpty MAny sub_multi mk_multi is_union (c_and c) (c_isimp c) Hand His sub_multi_W mk_multi_W eq_refl eq_refl _ l r H Ql). }
      assert (Huni' : wpresL (union_of_body c)).
      { intros l r H Ql. unfold union_of_body in H.
        exact (of_body_W is_any is_empty MAny MEmpty sub_union mk_union is_multi (c_or c) (c_usimp c) Hor Hus sub_union_W mk_union_W eq_refl eq_refl _ l r H Ql). }
      assert (Hus' : wpresS (union_simplify_body perm c)).
      { intros s o r H Qs Qo. unfold union_simplify_body in H. destruct s as [| |?|?|?|ours|?]; try discriminate H.
        destruct (mem_marker o ours); [injection H as <-; exact Qo|]. destruct o as [| |?|?|?|theirs|?]; try discriminate H.
        cbv zeta in H.
        destruct (subset (set_of ours) (set_of theirs)); [injection H as <-; exact Qs|].
        destruct (subset (set_of theirs) (set_of ours)); [injection H as <-; exact Qo|].
        apply W_multi_ch in Qs, Qo.
        destruct (filter (fun x => mem_marker x (set_of theirs)) (set_of ours)) as [|sh shared] eqn:Esh; [discriminate|].
        set (unique := filter (fun x => negb (mem_marker x (set_of theirs))) (set_of ours)) in *.
        set (other_unique := filter (fun x => negb (mem_marker x (set_of ours))) (set_of theirs)) in *.
        destruct (c_or c (mk_multi (perm unique)) (mk_multi (perm other_unique))) as [uu| |] eqn:Euu; try discriminate. cbn [bind] in H.
        assert (Quu : W uu = true).
        { apply (Hor _ _ _ Euu); apply mk_multi_W; (eapply perm_W; [apply Permutation_sym, perm_perm|]); apply filter_W, set_of_W; assumption. }
        destruct (is_single uu || is_any uu); [|discriminate].
        destruct (c_and c uu (mk_multi (filter (fun m => mem_marker m (sh :: shared)) ours))) as [r'| |] eqn:Er; try discriminate. cbn [bind] in H. injection H as <-.
        apply (Hand _ _ _ Er Quu). apply mk_multi_W, filter_W, Qs. }
      assert (His' : wpresS (intersect_simplify_body perm c)).
      { intros s o r H Qs Qo. unfold intersect_simplify_body in H. destruct s as [| |?|?|?|?|ours]; try discriminate H.
        destruct (mem_marker o ours); [injection H as <-; exact Qo|]. destruct o as [| |?|?|?|?|theirs]; try discriminate H.
        cbv zeta in H.
        destruct (subset (set_of ours) (set_of theirs)); [injection H as <-; exact Qs|].
        destruct (subset (set_of theirs) (set_of ours)); [injection H as <-; exact Qo|].
        apply W_union_ch in Qs, Qo.
        destruct (filter (fun x => mem_marker x (set_of theirs)) (set_of ours)) as [|sh shared] eqn:Esh; [discriminate|].
        set (unique := filter (fun x => negb (mem_marker x (set_of theirs))) (set_of ours)) in *.
        set (other_unique := filter (fun x => negb (mem_marker x (set_of ours))) (set_of theirs)) in *.
        destruct (c_and c (mk_union (perm unique)) (mk_union (perm other_unique))) as [ui| |] eqn:Eui; try discriminate. cbn [bind] in H.
        assert (Qui : W ui = true).
        { apply (Hand _ _ _ Eui); apply mk_union_W; (eapply perm_W; [apply Permutation_sym, perm_perm|]); apply filter_W, set_of_W; assumption. }
        destruct (is_single ui || is_empty ui); [|discriminate].
        destruct (c_or c ui (mk_union (filter (fun m => mem_marker m (sh :: shared)) ours))) as [r'| |] eqn:Er; try discriminate. cbn [bind] in H. injection H as <-.
        apply (Hor _ _ _ Er Qui). apply mk_union_W, filter_W, Qs. }
      assert (Clauses : forall (k : bool) cs, forallb W cs = true ->
                forallb (forallb W) (map (fun c0 => match c0, k with MMulti x, true => x | MUnion x, false => x | _, _ => [c0] end) cs) = true).
      { intros k cs H. induction cs as [|c0 cs IH]; [reflexivity|]. cbn in H. apply andb_prop in H as [H0 H1]. cbn [map forallb]. rewrite (IH H1), andb_true_r.
        destruct k; destruct c0; cbn [forallb]; try (rewrite H0; reflexivity); first [exact (W_multi_ch _ H0) | exact (W_union_ch _ H0)]. }
      assert (Hcnf' : wpres1 (cnf_body c)).
      { intros m r H Qm. unfold cnf_body in H. destruct m as [| |?|?|?|l|l]; try (injection H as <-; exact Qm).
        - apply W_multi_ch in Qm. destruct (mapM (c_cnf c) l) as [cs| |] eqn:Ecs; try discriminate. cbn [bind] in H.
          exact (Hmul _ _ H (mapM_wpres1 _ _ Hcnf cs Ecs Qm)).
        - apply W_union_ch in Qm. destruct (mapM (c_cnf c) l) as [cs| |] eqn:Ecs; try discriminate. cbn [bind] in H. cbv zeta in H.
          pose proof (mapM_wpres1 _ _ Hcnf cs Ecs Qm) as Qcs.
          destruct (mapM (c_union_of c) (nprod (map (fun c0 => match c0 with MMulti x => x | _ => [c0] end) cs))) as [us| |] eqn:Eus; try discriminate. cbn [bind] in H.
          apply (Hmul _ _ H). apply (mapM_wpresL _ _ Huni us Eus). apply nprod_W.
          pose proof (Clauses true cs Qcs) as Hc. erewrite map_ext; [exact Hc|]. intros c0. destruct c0; reflexivity. }
      assert (Hdnf' : wpres1 (dnf_body c)).
      { intros m r H Qm. unfold dnf_body in H. destruct m as [| |?|?|?|l|l]; try (injection H as <-; exact Qm).
        - apply W_multi_ch in Qm. destruct (mapM (c_dnf c) l) as [ds| |] eqn:Eds; try discriminate. cbn [bind] in H. cbv zeta in H.
          pose proof (mapM_wpres1 _ _ Hdnf ds Eds Qm) as Qds.
          destruct (mapM (c_multi_of c) (nprod (map (fun d => match d with MUnion x => x | _ => [d] end) ds))) as [ms| |] eqn:Ems; try discriminate. cbn [bind] in H.
          apply (Huni _ _ H). apply (mapM_wpresL _ _ Hmul ms Ems). apply nprod_W.
          pose proof (Clauses false ds Qds) as Hc. erewrite map_ext; [exact Hc|]. intros c0. destruct c0; reflexivity.
        - apply W_union_ch in Qm. destruct (mapM (c_dnf c) l) as [ds| |] eqn:Eds; try discriminate. cbn [bind] in H.
          exact (Huni _ _ H (mapM_wpres1 _ _ Hdnf ds Eds Qm)). }
      assert (Hmun' : wpresL (munion_body c)).
      { intros l r H Ql. rewrite munion_body_unfold in H. cbv zeta in H.
        set (un := unwrap1 (S (c_fuel c)) (mk_union (filter (fun m => negb (is_empty m)) l))) in *.
        assert (Qun : W un = true).
        { unfold un. generalize (S (c_fuel c)). intros k.
          assert (Qraw : W (mk_union (filter (fun m => negb (is_empty m)) l)) = true) by (apply mk_union_W, filter_W, Ql).
          revert Qraw. generalize (mk_union (filter (fun m => negb (is_empty m)) l)). clear.
          induction k as [|k IHk]; intros m Qm; cbn [unwrap1]; [exact Qm|].
          destruct m as [| |?|?|?|[|x [|y t]]|[|x [|y t]]]; try exact Qm; apply IHk;
            [apply W_multi_ch in Qm | apply W_union_ch in Qm]; cbn in Qm; apply andb_prop in Qm as [Qx _]; exact Qx. }
        destruct (c_cnf c un) as [conj| |] eqn:Ec; try discriminate. cbn [bind] in H.
        pose proof (Hcnf _ _ Ec Qun) as Qc.
        destruct (negb (is_multi conj)); [injection H as <-; exact Qc|].
        destruct (c_dnf c conj) as [disj| |] eqn:Ed; try discriminate. cbn [bind] in H.
        pose proof (Hdnf _ _ Ed Qc) as Qd.
        destruct (negb (is_union disj)); [injection H as <-; exact Qd|]. injection H as <-.
        destruct (pair_ltb _ _); [exact Qun|]. destruct (pair_ltb _ _); assumption. }
      exact (conj Hand' (conj Hor' (conj Hmul' (conj Huni' (conj Hus' (conj His' (conj Hcnf' (conj Hdnf' Hmun')))))))).
    Qed.

    Theorem level_inv n : inv_callees (level vmerge vcontains perm n).
    Proof.
      induction n as [|n IH]; [|rewrite level_S; exact (step_inv _ IH)].
      unfold inv_callees, level, wpres2, wpresL, wpresS, wpres1. cbn [c_and c_or c_multi_of c_union_of c_usimp c_isimp c_cnf c_dnf c_munion].
      repeat split; intros; match goal with H0 : _ = Ret _ |- _ => cbn in H0; discriminate H0 end.
    Qed.
  End Step.
End Vars.

(* the value lists of grouped atoms are unconstrained in the instances below (gv := gvT); Proofs/MarkerHashSound-style
   instances that constrain them use level_inv directly *)
Definition gvT (_ : list str) : bool := true.
Lemma gvT_oset l : gvT (oset l) = true. Proof. reflexivity. Qed.


(* ---- only() / exclude() ---- *)
Section OnlyExclude.
  Variable vmerge : bool -> atom -> atom -> option marker.
  Variable vcontains : atom -> str -> bool.
  Variable perm : list marker -> list marker.
  Variable cm cu : list marker -> bool.
  Variable qn : str -> bool.
  Hypothesis cm_mk : forall l, forallb (W qn cm cu gvT) l = true -> cm (flatten sub_multi l []) = true.
  Hypothesis cu_mk : forall l, forallb (W qn cm cu gvT) l = true -> cu (flatten sub_union l []) = true.
  Hypothesis vmerge_winv : forall k a b r, vmerge k a b = Some r ->
    qn (a_name a) = true -> qn (a_name b) = true -> W qn cm cu gvT r = true.
  Hypothesis perm_perm : forall l, Permutation (perm l) l.

  Lemma W_single m : is_single m = true -> W qn cm cu gvT m = qn (single_name m).
  Proof. destruct m; try discriminate; cbn [W single_name gvT]; rewrite ?andb_true_r; reflexivity. Qed.

  Lemma mapM_all_w {A} (g : A -> pyres marker) l : (forall x r, g x = Ret r -> W qn cm cu gvT r = true) ->
    forall rs, mapM g l = Ret rs -> forallb (W qn cm cu gvT) rs = true.
  Proof.
    intros Hg. induction l as [|x l IH]; intros rs H; cbn [mapM] in H; [injection H as <-; reflexivity|].
    destruct (g x) as [y| |] eqn:E; try discriminate. cbn [bind] in H. destruct (mapM g l) as [ys| |] eqn:Es; try discriminate. cbn [bind] in H.
    injection H as <-. cbn. rewrite (Hg _ _ E), (IH ys eq_refl). reflexivity.
  Qed.

  Theorem monly_inv names fuel : (forall n, mem_str n names = true -> qn n = true) ->
    forall m r, monly vmerge vcontains perm fuel names m = Ret r -> W qn cm cu gvT r = true.
  Proof.
    intros Hq.
    induction fuel as [|f IH]; intros m r H; [discriminate|]. cbn [monly] in H.
    destruct (level_inv qn cm cu gvT cm_mk cu_mk gvT_oset vmerge vcontains perm vmerge_winv perm_perm f) as (_ & _ & Hmul & Huni & _).
    assert (Leaf : forall s, is_single s = true -> (if mem_str (single_name s) names then Ret s else Ret MAny) = Ret r -> W qn cm cu gvT r = true).
    { intros s Hs E. destruct (mem_str (single_name s) names) eqn:Em; injection E as <-; [rewrite (W_single s Hs); exact (Hq _ Em) | reflexivity]. }
    destruct m as [| |a|n vs|n vs|l|l].
    - injection H as <-. reflexivity.
    - injection H as <-. reflexivity.
    - exact (Leaf (MAtom a) eq_refl H).
    - exact (Leaf (MEqU n vs) eq_refl H).
    - exact (Leaf (MNeM n vs) eq_refl H).
    - destruct (mapM (monly vmerge vcontains perm f names) l) as [ms| |] eqn:Em; try discriminate. cbn [bind] in H.
      exact (Hmul _ _ H (mapM_all_w _ l IH ms Em)).
    - destruct (mapM (monly vmerge vcontains perm f names) l) as [ms| |] eqn:Em; try discriminate. cbn [bind] in H.
      exact (Huni _ _ H (mapM_all_w _ l IH ms Em)).
  Qed.

  Lemma flat_some_W (new : list (option marker)) : (forall x, In (Some x) new -> W qn cm cu gvT x = true) ->
    forallb (W qn cm cu gvT) (flat_map (fun o => match o with Some x => [x] | None => [] end) new) = true.
  Proof.
    induction new as [|[x|] new IH]; intros H; cbn [flat_map app]; [reflexivity | |].
    - cbn. rewrite (H x (or_introl eq_refl)), IH; [reflexivity|]. intros y Hy. apply H. right. exact Hy.
    - apply IH. intros y Hy. apply H. right. exact Hy.
  Qed.
  Lemma mapM_opt_In_w {A} (g : A -> pyres (option marker)) l : forall rs, mapM g l = Ret rs ->
    forall y, In (Some y) rs -> exists x, In x l /\ g x = Ret (Some y).
  Proof.
    induction l as [|x l IH]; intros rs H y Hy; cbn [mapM] in H; [injection H as <-; destruct Hy|].
    destruct (g x) as [o| |] eqn:E; try discriminate. cbn [bind] in H. destruct (mapM g l) as [ys| |] eqn:Es; try discriminate. cbn [bind] in H.
    injection H as <-. destruct Hy as [->|Hy]; [exists x; split; [left; reflexivity | exact E]|].
    destruct (IH ys eq_refl y Hy) as (x' & Hx' & E'). exists x'. split; [right; exact Hx' | exact E'].
  Qed.

  Theorem mexclude_inv name fuel : (forall n, str_eqb n name = false -> qn n = true) ->
    forall m r, mexclude vmerge vcontains perm fuel name m = Ret r -> W qn cm cu gvT r = true.
  Proof.
    intros Hq.
    induction fuel as [|f IH]; intros m r H; [discriminate|]. cbn [mexclude] in H.
    destruct (level_inv qn cm cu gvT cm_mk cu_mk gvT_oset vmerge vcontains perm vmerge_winv perm_perm f) as (_ & _ & Hmul & Huni & _).
    assert (Leaf : forall s, is_single s = true -> (if str_eqb (single_name s) name then Ret MAny else Ret s) = Ret r -> W qn cm cu gvT r = true).
    { intros s Hs E. destruct (str_eqb (single_name s) name) eqn:Em; injection E as <-; [reflexivity | rewrite (W_single s Hs); exact (Hq _ Em)]. }
    destruct m as [| |a|n vs|n vs|l|l].
    - injection H as <-. reflexivity.
    - injection H as <-. reflexivity.
    - exact (Leaf (MAtom a) eq_refl H).
    - exact (Leaf (MEqU n vs) eq_refl H).
    - exact (Leaf (MNeM n vs) eq_refl H).
    - match type of H with (bind (mapM ?g l) _ = _) => destruct (mapM g l) as [new| |] eqn:Em; try discriminate H; cbn [bind] in H;
        apply (Hmul _ _ H); apply flat_some_W; intros y Hy; destruct (mapM_opt_In_w g l new Em y Hy) as (x & _ & Ex) end.
      cbv beta in Ex. destruct (is_single x && str_eqb (single_name x) name); [discriminate Ex|].
      destruct (mexclude vmerge vcontains perm f name x) as [rx| |] eqn:Er; try discriminate Ex. cbn [bind] in Ex.
      destruct (is_empty rx); [discriminate Ex|]. injection Ex as <-. exact (IH _ _ Er).
    - match type of H with (bind (mapM ?g l) _ = _) => destruct (mapM g l) as [new| |] eqn:Em; try discriminate H; cbn [bind] in H;
        assert (Qnew : forallb (W qn cm cu gvT) (flat_map (fun o => match o with Some x => [x] | None => [] end) new) = true) end.
      { apply flat_some_W. intros y Hy.
        match type of Em with mapM ?g l = _ => destruct (mapM_opt_In_w g l new Em y Hy) as (x & _ & Ex) end.
        cbv beta in Ex. destruct (is_single x && str_eqb (single_name x) name); [discriminate Ex|].
        destruct (mexclude vmerge vcontains perm f name x) as [rx| |] eqn:Er; try discriminate Ex. cbn [bind] in Ex.
        injection Ex as <-. exact (IH _ _ Er). }
      destruct (flat_map (fun o => match o with Some x => [x] | None => [] end) new) as [|y ys] eqn:Ef; [injection H as <-; reflexivity|].
      exact (Huni _ _ H Qnew).
  Qed.
End OnlyExclude.

(* ---- the concrete shape invariant: pairwise distinct children, no child of the same kind, at any depth ---- *)

(* pairwise distinct, in the order the code builds lists: every element differs (==) from all earlier ones *)
Inductive dist : list marker -> Prop :=
| dist_nil : dist []
| dist_snoc l x : dist l -> mem_marker x l = false -> dist (l ++ [x]).

Lemma dedup_fold_dist sub : forall acc, dist acc ->
  dist (fold_left (fun ac s => if mem_marker s ac then ac else ac ++ [s]) sub acc).
Proof.
  induction sub as [|s sub IH]; intros acc D; [exact D|]. cbn [fold_left].
  destruct (mem_marker s acc) eqn:E; apply IH; [exact D | constructor; assumption].
Qed.
Lemma flatten_dist same items : forall acc, dist acc -> dist (flatten same items acc).
Proof.
  induction items as [|it rest IH]; intros acc D; [exact D|]. cbn [flatten].
  destruct (same it) as [sub|].
  - apply IH, dedup_fold_dist, D.
  - destruct (mem_marker it acc) eqn:E; apply IH; [exact D | constructor; assumption].
Qed.

(* the same as a boolean: walk the list with the elements seen so far *)
Fixpoint distb_from (seen l : list marker) : bool :=
  match l with [] => true | x :: t => negb (mem_marker x seen) && distb_from (seen ++ [x]) t end.
Definition distb (l : list marker) : bool := distb_from [] l.
Lemma distb_from_snoc l : forall seen x, distb_from seen (l ++ [x]) = distb_from seen l && negb (mem_marker x (seen ++ l)).
Proof.
  induction l as [|y l IH]; intros seen x; cbn [app distb_from].
  - rewrite app_nil_r, andb_true_r. reflexivity.
  - rewrite IH, <- app_assoc. cbn [app]. rewrite andb_assoc. reflexivity.
Qed.
Lemma dist_distb l : dist l -> distb l = true.
Proof.
  induction 1 as [|l x D IH E]; [reflexivity|]. unfold distb in *. rewrite distb_from_snoc, IH. cbn [app]. rewrite E. reflexivity.
Qed.
Lemma distb_dist l : distb l = true -> dist l.
Proof.
  induction l as [|x l IH] using rev_ind; intros H; [constructor|]. unfold distb in *. rewrite distb_from_snoc in H. cbn [app] in H.
  apply andb_prop in H as [H1 H2]. constructor; [exact (IH H1)|]. destruct (mem_marker x l); [discriminate H2 | reflexivity].
Qed.

Definition cmW (l : list marker) : bool := distb l && forallb (fun x => negb (is_multi x)) l.
Definition cuW (l : list marker) : bool := distb l && forallb (fun x => negb (is_union x)) l.

Section Shape.
  Variable qn : str -> bool.
  Notation Wf := (W qn cmW cuW gvT).

  Lemma dedup_fold_no (p : marker -> bool) sub : forall acc, forallb p sub = true -> forallb p acc = true ->
    forallb p (fold_left (fun ac s => if mem_marker s ac then ac else ac ++ [s]) sub acc) = true.
  Proof.
    induction sub as [|s sub IH]; intros acc Hs Ha; [exact Ha|]. cbn [fold_left]. cbn in Hs. apply andb_prop in Hs as [H1 H2].
    destruct (mem_marker s acc); apply IH; try assumption. rewrite forallb_app, Ha. cbn. rewrite H1. reflexivity.
  Qed.
  Lemma flatten_no (p : marker -> bool) same items :
    (forall it sub, In it items -> same it = Some sub -> forallb p sub = true) ->
    (forall it, In it items -> same it = None -> p it = true) ->
    forall acc, forallb p acc = true -> forallb p (flatten same items acc) = true.
  Proof.
    induction items as [|it rest IH]; intros Hs Hn acc Ha; [exact Ha|]. cbn [flatten].
    assert (Hs' : forall it0 sub, In it0 rest -> same it0 = Some sub -> forallb p sub = true) by (intros; eapply Hs; [right|]; eassumption).
    assert (Hn' : forall it0, In it0 rest -> same it0 = None -> p it0 = true) by (intros; eapply Hn; [right|]; eassumption).
    destruct (same it) as [sub|] eqn:E.
    - apply (IH Hs' Hn'). apply dedup_fold_no; [exact (Hs it sub (or_introl eq_refl) E) | exact Ha].
    - destruct (mem_marker it acc); apply (IH Hs' Hn'); try assumption. rewrite forallb_app, Ha. cbn. rewrite (Hn it (or_introl eq_refl) E). reflexivity.
  Qed.

  Lemma cm_mk_W l : forallb Wf l = true -> cmW (flatten sub_multi l []) = true.
  Proof.
    intros H. unfold cmW. rewrite (dist_distb _ (flatten_dist sub_multi l [] dist_nil)). cbn [andb].
    apply flatten_no; [| |reflexivity].
    - intros it sub Hin E. destruct it; try discriminate E. injection E as <-.
      rewrite forallb_forall in H. specialize (H _ Hin). rewrite W_multi in H. apply andb_prop in H as [H _].
      unfold cmW in H. apply andb_prop in H as [_ H]. exact H.
    - intros it _ E. destruct it; try reflexivity. discriminate E.
  Qed.
  Lemma cu_mk_W l : forallb Wf l = true -> cuW (flatten sub_union l []) = true.
  Proof.
    intros H. unfold cuW. rewrite (dist_distb _ (flatten_dist sub_union l [] dist_nil)). cbn [andb].
    apply flatten_no; [| |reflexivity].
    - intros it sub Hin E. destruct it; try discriminate E. injection E as <-.
      rewrite forallb_forall in H. specialize (H _ Hin). rewrite W_union in H. apply andb_prop in H as [H _].
      unfold cuW in H. apply andb_prop in H as [_ H]. exact H.
    - intros it _ E. destruct it; try reflexivity. discriminate E.
  Qed.
End Shape.

Lemma marker_indW (P : marker -> Prop) :
  P MAny -> P MEmpty -> (forall a, P (MAtom a)) -> (forall n vs, P (MEqU n vs)) -> (forall n vs, P (MNeM n vs)) ->
  (forall l, Forall P l -> P (MMulti l)) -> (forall l, Forall P l -> P (MUnion l)) -> forall m, P m.
Proof.
  intros H1 H2 H3 H4 H5 H6 H7. fix IH 1. intros [| |a|n vs|n vs|l|l]; [exact H1 | exact H2 | apply H3 | apply H4 | apply H5 | |].
  - apply H6. induction l as [|x l IHl]; constructor; [apply IH | exact IHl].
  - apply H7. induction l as [|x l IHl]; constructor; [apply IH | exact IHl].
Qed.

(* well-shaped markers: every conjunction / disjunction, at any depth, has pairwise distinct children none of which is a compound of the same kind *)
Definition shaped (m : marker) : bool := W (fun _ => true) cmW cuW gvT m.
Lemma W_shaped qn m : W qn cmW cuW gvT m = true -> shaped m = true.
Proof.
  unfold shaped. induction m as [| |a|n vs|n vs|l IH|l IH] using marker_indW; intros H; try reflexivity.
  - rewrite W_multi in *. apply andb_prop in H as [H1 H2]. rewrite H1. cbn [andb]. apply forallb_forall. intros x Hx.
    rewrite Forall_forall in IH. apply (IH x Hx). rewrite forallb_forall in H2. exact (H2 x Hx).
  - rewrite W_union in *. apply andb_prop in H as [H1 H2]. rewrite H1. cbn [andb]. apply forallb_forall. intros x Hx.
    rewrite Forall_forall in IH. apply (IH x Hx). rewrite forallb_forall in H2. exact (H2 x Hx).
Qed.

(* ---- every operation of the normaliser returns well-shaped markers ---- *)
Section ShapeOps.
  Variable vmerge : bool -> atom -> atom -> option marker.
  Variable vcontains : atom -> str -> bool.
  Variable perm : list marker -> list marker.
  (* what _merge_single_markers returns is an atom, the universal or the empty marker - never a compound *)
  Hypothesis vmerge_leaf : forall k a b r, vmerge k a b = Some r -> is_multi r = false /\ is_union r = false.
  Hypothesis perm_perm : forall l, Permutation (perm l) l.
  Let qt : str -> bool := fun _ => true.

  Lemma leaf_shaped r : is_multi r = false -> is_union r = false -> shaped r = true.
  Proof. destruct r; try reflexivity; discriminate. Qed.
  Lemma vmerge_shaped k a b r : vmerge k a b = Some r -> qt (a_name a) = true -> qt (a_name b) = true -> W qt cmW cuW gvT r = true.
  Proof. intros E _ _. destruct (vmerge_leaf _ _ _ _ E) as [H1 H2]. exact (leaf_shaped r H1 H2). Qed.

  Lemma level_shaped n : inv_callees qt cmW cuW gvT (level vmerge vcontains perm n).
  Proof. exact (level_inv qt cmW cuW gvT (cm_mk_W qt) (cu_mk_W qt) gvT_oset vmerge vcontains perm vmerge_shaped perm_perm n). Qed.

  Theorem mand_shaped fuel a b r : mand vmerge vcontains perm fuel a b = Ret r -> shaped a = true -> shaped b = true -> shaped r = true.
  Proof. destruct (level_shaped fuel) as (H & _). exact (H a b r). Qed.
  Theorem mor_shaped fuel a b r : mor vmerge vcontains perm fuel a b = Ret r -> shaped a = true -> shaped b = true -> shaped r = true.
  Proof. destruct (level_shaped fuel) as (_ & H & _). exact (H a b r). Qed.
  Theorem multi_of_shaped fuel l r : multi_of vmerge vcontains perm fuel l = Ret r -> forallb shaped l = true -> shaped r = true.
  Proof. destruct (level_shaped fuel) as (_ & _ & H & _). exact (H l r). Qed.
  Theorem union_of_shaped fuel l r : union_of vmerge vcontains perm fuel l = Ret r -> forallb shaped l = true -> shaped r = true.
  Proof. destruct (level_shaped fuel) as (_ & _ & _ & H & _). exact (H l r). Qed.
  Theorem monly_shaped names fuel m r : monly vmerge vcontains perm fuel names m = Ret r -> shaped r = true.
  Proof. exact (monly_inv vmerge vcontains perm cmW cuW qt (cm_mk_W qt) (cu_mk_W qt) vmerge_shaped perm_perm names fuel (fun _ _ => eq_refl) m r). Qed.
  Theorem mexclude_shaped name fuel m r : mexclude vmerge vcontains perm fuel name m = Ret r -> shaped r = true.
  Proof. exact (mexclude_inv vmerge vcontains perm cmW cuW qt (cm_mk_W qt) (cu_mk_W qt) vmerge_shaped perm_perm name fuel (fun _ _ => eq_refl) m r). Qed.

  (* the markers reachable from atoms through the public operations *)
  Inductive reachable : marker -> Prop :=
  | r_any : reachable MAny
  | r_empty : reachable MEmpty
  | r_atom a : reachable (MAtom a)
  | r_and fuel a b r : reachable a -> reachable b -> mand vmerge vcontains perm fuel a b = Ret r -> reachable r
  | r_or fuel a b r : reachable a -> reachable b -> mor vmerge vcontains perm fuel a b = Ret r -> reachable r
  | r_multi_of fuel l r : (forall x, In x l -> reachable x) -> multi_of vmerge vcontains perm fuel l = Ret r -> reachable r
  | r_union_of fuel l r : (forall x, In x l -> reachable x) -> union_of vmerge vcontains perm fuel l = Ret r -> reachable r
  | r_only fuel names m r : reachable m -> monly vmerge vcontains perm fuel names m = Ret r -> reachable r
  | r_exclude fuel name m r : reachable m -> mexclude vmerge vcontains perm fuel name m = Ret r -> reachable r.

  Theorem reachable_shaped : forall m, reachable m -> shaped m = true.
  Proof.
    fix IH 2. intros m [| |a|fuel a b r Ha Hb E|fuel a b r Ha Hb E|fuel l r Hl E|fuel l r Hl E|fuel names m0 r Hm E|fuel name m0 r Hm E]; try reflexivity.
    - exact (mand_shaped fuel a b r E (IH a Ha) (IH b Hb)).
    - exact (mor_shaped fuel a b r E (IH a Ha) (IH b Hb)).
    - apply (multi_of_shaped fuel l r E). apply forallb_forall. intros x Hx. exact (IH x (Hl x Hx)).
    - apply (union_of_shaped fuel l r E). apply forallb_forall. intros x Hx. exact (IH x (Hl x Hx)).
    - exact (monly_shaped names fuel m0 r E).
    - exact (mexclude_shaped name fuel m0 r E).
  Qed.
End ShapeOps.

(* what shaped says, unfolded one level *)
Lemma shaped_multi l : shaped (MMulti l) = true ->
  dist l /\ forallb (fun x => negb (is_multi x)) l = true /\ forallb shaped l = true.
Proof.
  unfold shaped. rewrite W_multi. intros H. apply andb_prop in H as [H1 H2]. unfold cmW in H1. apply andb_prop in H1 as [D N].
  split; [exact (distb_dist l D)|]. split; assumption.
Qed.
Lemma shaped_union l : shaped (MUnion l) = true ->
  dist l /\ forallb (fun x => negb (is_union x)) l = true /\ forallb shaped l = true.
Proof.
  unfold shaped. rewrite W_union. intros H. apply andb_prop in H as [H1 H2]. unfold cuW in H1. apply andb_prop in H1 as [D N].
  split; [exact (distb_dist l D)|]. split; assumption.
Qed.
