(* ParseArith.v — list arithmetic behind `==X.*`, `!=X.*` and `~=`: incrementing the last
   release segment, prefix matching with zero padding, and their reading in the padded
   lexicographic order cmp_pad. *)
From Coq Require Import List Bool ZArith NArith Arith Lia.
From Verif Require Import Pep440 Pep440Facts.
Import ListNotations.
Local Open Scope N_scope.

(* increment the last element *)
Fixpoint incl (l : list N) : list N :=
  match l with
  | [] => []
  | [x] => [x + 1]
  | x :: l' => x :: incl l'
  end.
Lemma incl_cons x y l : incl (x :: y :: l) = x :: incl (y :: l).
Proof. reflexivity. Qed.
Lemma incl_app_last m x : incl (m ++ [x]) = m ++ [x + 1].
Proof.
  induction m as [|y m IH]; [reflexivity|]. cbn [app].
  destruct m as [|z t]; [reflexivity|]. cbn [app] in *. rewrite incl_cons, IH. reflexivity.
Qed.
Lemma incl_not_all_zero l : l <> [] -> all_zero (incl l) = false.
Proof.
  induction l as [|x l IH]; [congruence|]. intros _. destruct l as [|y l].
  - cbn [incl]. rewrite all_zero_cons. destruct x; reflexivity.
  - rewrite incl_cons, all_zero_cons, IH by discriminate. apply andb_false_r.
Qed.
Lemma incl_length l : length (incl l) = length l.
Proof. induction l as [|x [|y l] IH]; [reflexivity | reflexivity |]. rewrite incl_cons. cbn [length] in *. rewrite IH. reflexivity. Qed.

(* p.<anything> < (p with the last segment incremented) *)
Lemma cmp_pad_app_incl p l : p <> [] -> cmp_pad (p ++ l) (incl p) = Lt.
Proof.
  induction p as [|x p IH]; [congruence|]. intros _. destruct p as [|y p].
  - cbn [app incl cmp_pad]. assert (H : N.compare x (x + 1) = Lt) by (apply N.compare_lt_iff; lia). rewrite H. reflexivity.
  - rewrite incl_cons. cbn [app cmp_pad]. rewrite N.compare_refl. apply IH. discriminate.
Qed.

(* prefix match with zero padding: the first |p| segments of r (padded with zeros) are p *)
Fixpoint pm (p r : list N) : bool :=
  match p, r with
  | [], _ => true
  | x :: p', [] => (x =? 0) && pm p' []
  | x :: p', y :: r' => (x =? y) && pm p' r'
  end.
Lemma pm_nil p : pm p [] = all_zero p.
Proof. induction p as [|x p IH]; [reflexivity|]. cbn [pm]. rewrite all_zero_cons, IH, N.eqb_sym. reflexivity. Qed.

Fixpoint list_N_eqb (a b : list N) : bool :=
  match a, b with
  | [], [] => true
  | x :: a', y :: b' => (x =? y) && list_N_eqb a' b'
  | _, _ => false
  end.
Lemma pm_firstn p : forall r,
  list_N_eqb (firstn (length p) (r ++ repeat 0 (length p - length r))) p = pm p r.
Proof.
  induction p as [|x p IH]; intros r.
  - destruct r; reflexivity.
  - destruct r as [|y r].
    + cbn [length app Nat.sub repeat firstn list_N_eqb pm]. rewrite N.eqb_sym. f_equal.
      specialize (IH []). cbn [length app] in IH. rewrite Nat.sub_0_r in IH. exact IH.
    + cbn [length app Nat.sub firstn list_N_eqb pm]. rewrite N.eqb_sym. f_equal. apply IH.
Qed.

Definition not_gt (c : comparison) : bool := match c with Gt => false | _ => true end.
Definition is_lt (c : comparison) : bool := match c with Lt => true | _ => false end.

Lemma cmp_pad_nil_l b : cmp_pad [] b = if all_zero b then Eq else Lt.
Proof. reflexivity. Qed.
Lemma cmp_pad_nil_r a : cmp_pad a [] = if all_zero a then Eq else Gt.
Proof. destruct a; reflexivity. Qed.

(* p.0 <= r < incl(p).0  iff  r matches the prefix p *)
Lemma pm_order p : p <> [] -> forall r, pm p r = not_gt (cmp_pad p r) && is_lt (cmp_pad r (incl p)).
Proof.
  induction p as [|x p IH]; [congruence|]. intros _ r. destruct p as [|x' p].
  - destruct r as [|y r]; cbn [pm incl cmp_pad].
    + rewrite !all_zero_cons, all_zero_nil, !andb_true_r. destruct x; reflexivity.
    + rewrite andb_true_r, ?cmp_pad_nil_l, ?cmp_pad_nil_r.
      destruct (N.compare_spec x y) as [E|E|E], (N.compare_spec y (x + 1)) as [E'|E'|E']; try lia;
        try (assert (Hf : (x =? y) = false) by (apply N.eqb_neq; lia); rewrite Hf);
        try (subst; rewrite N.eqb_refl); try reflexivity.
      * destruct (all_zero r); reflexivity.
      * destruct (all_zero r); reflexivity.
  - rewrite incl_cons. destruct r as [|y r].
    + rewrite pm_nil, cmp_pad_nil_l, cmp_pad_nil_r.
      assert (Hn : all_zero (x :: incl (x' :: p)) = false) by (rewrite all_zero_cons, incl_not_all_zero by discriminate; apply andb_false_r).
      rewrite Hn. destruct (all_zero (x :: x' :: p)); reflexivity.
    + cbn [pm cmp_pad]. rewrite (N.compare_antisym x y).
      destruct (N.compare_spec x y) as [E|E|E]; cbn [CompOpp].
      * subst. rewrite N.eqb_refl. apply IH. discriminate.
      * assert (Hf : (x =? y) = false) by (apply N.eqb_neq; lia). rewrite Hf. reflexivity.
      * assert (Hf : (x =? y) = false) by (apply N.eqb_neq; lia). rewrite Hf. reflexivity.
Qed.

(* p <= p ++ l *)
Lemma cmp_pad_prefix_not_gt p l r : not_gt (cmp_pad (p ++ l) r) = true -> not_gt (cmp_pad p r) = true.
Proof.
  intros H. destruct (cmp_pad p r) eqn:E; try reflexivity.
  rewrite (cmp_pad_app_gt p l r E) in H. discriminate.
Qed.

(* lists: last-element decomposition *)
Lemma firstn_pred_app {A} (m : list A) x : firstn (length (m ++ [x]) - 1) (m ++ [x]) = m.
Proof.
  rewrite app_length. cbn [length]. replace (length m + 1 - 1)%nat with (length m + 0)%nat by lia.
  rewrite firstn_app_2. cbn. apply app_nil_r.
Qed.
Lemma firstn_all_sub0 {A} (l : list A) : firstn (length l - 0) l = l.
Proof. rewrite Nat.sub_0_r. apply firstn_all. Qed.
