(* MarkerOf.v — the body shared by MultiMarker.of and MarkerUnion.of preserves meaning,
   given sound merge operators.  k = true: conjunction (Multi.of), k = false:
   disjunction (Union.of). *)
From Coq Require Import List Bool NArith Arith String Lia Permutation.
From Verif Require Import PyRes Str Marker MarkerBase MarkerSingle.
Import ListNotations.

Definition semk (k : bool) (e : menv) (l : list marker) : bool := if k then forallb (meval e) l else existsb (meval e) l.

Lemma semk_sem k e l : semk k e l = sem e (bop k) k l.
Proof. destruct k; cbn; [symmetry; apply sem_and | symmetry; apply sem_or]. Qed.
Lemma semk_app k e a b : semk k e (a ++ b) = bop k (semk k e a) (semk k e b).
Proof. destruct k; cbn; [apply forallb_app | apply existsb_app]. Qed.
Lemma semk_cons k e x l : semk k e (x :: l) = bop k (meval e x) (semk k e l).
Proof. destruct k; reflexivity. Qed.
Lemma semk_nil k e : semk k e [] = k.
Proof. destruct k; reflexivity. Qed.
Lemma semk_absorb k e x l : mem_marker x l = true -> bop k (semk k e l) (meval e x) = semk k e l.
Proof.
  intros H. rewrite !semk_sem. destruct k; cbn [bop].
  - apply (sem_absorb e andb true andb_assoc andb_comm andb_diag); exact H.
  - apply (sem_absorb e orb false orb_assoc orb_comm orb_diag); exact H.
Qed.
Lemma semk_zero k e x l : In x l -> meval e x = negb k -> semk k e l = negb k.
Proof.
  intros Hin Hx. destruct k; cbn in *.
  - apply not_true_is_false. intros F. rewrite forallb_forall in F. specialize (F x Hin). congruence.
  - apply existsb_exists. exists x. auto.
Qed.

(* pure Boolean facts about bop k (andb / orb), proved by cases *)
Ltac bcases := intros; repeat match goal with b : bool |- _ => destruct b end; cbn in *; congruence.
Lemma A1 k m c p q : bop k m c = negb k -> bop k (bop k p (bop k m q)) c = negb k. Proof. bcases. Qed.
Lemma A2 k m c p q : bop k p (bop k (bop k m c) q) = bop k (bop k p (bop k m q)) c. Proof. bcases. Qed.
Lemma A3 k N c R : bop k N c = N -> bop k N R = bop k N (bop k c R). Proof. bcases. Qed.
Lemma A5 k N R : bop k N (bop k k R) = bop k N R. Proof. bcases. Qed.
Lemma A6 k N c R : bop k (bop k N c) R = bop k N (bop k c R). Proof. bcases. Qed.
Lemma A7 k N c R : bop k (bop k N (bop k c k)) R = bop k N (bop k c R). Proof. bcases. Qed.
Lemma A8 k N c R : bop k N c = negb k -> bop k N (bop k c R) = negb k. Proof. bcases. Qed.
Lemma A9 k N : bop k k N = N. Proof. bcases. Qed.
Lemma A10 k N : bop k N k = N. Proof. bcases. Qed.

Section OfSound.
  Variable good : menv -> Prop.
  Variable k : bool.
  Variable absorbing neutral : marker -> bool.
  Variable absorb_m neutral_m : marker.
  Variable sub : marker -> option (list marker).
  Variable mk : list marker -> marker.
  Variable other_cls : marker -> bool.
  Variable op : marker -> marker -> pyres marker.
  Variable simp : marker -> marker -> pyres (option marker).

  Hypothesis H_abs : forall m, absorbing m = true -> forall e, meval e m = negb k.
  Hypothesis H_absm : wf absorb_m = true /\ forall e, meval e absorb_m = negb k.
  Hypothesis H_neu : forall m, neutral m = true -> forall e, meval e m = k.
  Hypothesis H_neum : wf neutral_m = true /\ forall e, meval e neutral_m = k.
  Hypothesis H_sub : forall m l, sub m = Some l -> (forall e, meval e m = semk k e l) /\ (wf m = true -> forallb wf l = true).
  Hypothesis H_mk : forall l, (forall e, meval e (mk l) = semk k e l) /\ (forallb wf l = true -> wf (mk l) = true).
  Hypothesis H_op : forall a b r, op a b = Ret r -> wf a = true -> wf b = true ->
    wf r = true /\ forall e, good e -> meval e r = bop k (meval e a) (meval e b).
  Hypothesis H_simp : forall a b r, simp a b = Ret (Some r) -> wf a = true -> wf b = true ->
    wf r = true /\ forall e, good e -> meval e r = bop k (meval e a) (meval e b).

  Lemma flatten_semk e items : semk k e (flatten sub items []) = semk k e items.
  Proof.
    rewrite !semk_sem.
    assert (HS : forall m l, sub m = Some l -> meval e m = sem e (bop k) k l) by (intros m l E; rewrite <- semk_sem; apply (H_sub m l E)).
    destruct k; cbn [bop] in *.
    - rewrite (flatten_sem e andb true andb_assoc andb_comm andb_diag andb_true_l sub HS). reflexivity.
    - rewrite (flatten_sem e orb false orb_assoc orb_comm orb_diag orb_false_l sub HS). reflexivity.
  Qed.
  Lemma flatten_wfk items : forallb wf items = true -> forallb wf (flatten sub items []) = true.
  Proof. intros H. apply flatten_wf; auto. intros m l E W. apply (H_sub m l E), W. Qed.


  Lemma scan_sound cur : forall post pre res,
    of_scan absorbing other_cls op simp cur pre post = Ret res ->
    wf cur = true -> forallb wf pre = true -> forallb wf post = true ->
    match res with
    | None => forall e, good e -> bop k (semk k e (pre ++ post)) (meval e cur) = negb k
    | Some (Some l) => forallb wf l = true /\ forall e, good e -> semk k e l = bop k (semk k e (pre ++ post)) (meval e cur)
    | Some None => True
    end.
  Proof.
    induction post as [|mark post IH]; intros pre res H Wc Wpre Wpost; cbn [of_scan] in H.
    - injection H as <-. exact I.
    - cbn in Wpost. apply andb_prop in Wpost as [Wm Wpost].
      assert (Wpre' : forallb wf (pre ++ [mark]) = true) by (rewrite forallb_app, Wpre; cbn; rewrite Wm; reflexivity).
      assert (Eapp : forall e, semk k e ((pre ++ [mark]) ++ post) = semk k e (pre ++ mark :: post))
        by (intros e; rewrite <- app_assoc; reflexivity).
      destruct (is_single mark).
      + destruct (op mark cur) as [nm| |] eqn:Eop; try discriminate. cbn [bind] in H.
        destruct (H_op mark cur nm Eop Wm Wc) as [Wnm Mnm].
        destruct (absorbing nm) eqn:Ab.
        * injection H as <-. intros e G. pose proof (H_abs nm Ab e) as Z. rewrite (Mnm e G) in Z.
          rewrite semk_app, semk_cons. apply A1, Z.
        * destruct (is_single nm).
          -- injection H as <-. split.
             ++ rewrite forallb_app, Wpre. cbn. rewrite Wnm, Wpost. reflexivity.
             ++ intros e G. rewrite !semk_app, !semk_cons, (Mnm e G). apply A2.
          -- specialize (IH (pre ++ [mark]) res H Wc Wpre' Wpost).
             destruct res as [[l|]|]; auto; [destruct IH as [W M]; split; auto; intros e G; rewrite <- Eapp; auto | intros e G; rewrite <- Eapp; auto].
      + destruct (other_cls mark).
        * destruct (simp mark cur) as [s| |] eqn:Es; try discriminate. cbn [bind] in H. destruct s as [x|].
          -- injection H as <-. destruct (H_simp mark cur x Es Wm Wc) as [Wx Mx]. split.
             ++ rewrite forallb_app, Wpre. cbn. rewrite Wx, Wpost. reflexivity.
             ++ intros e G. rewrite !semk_app, !semk_cons, (Mx e G). apply A2.
          -- specialize (IH (pre ++ [mark]) res H Wc Wpre' Wpost).
             destruct res as [[l|]|]; auto; [destruct IH as [W M]; split; auto; intros e G; rewrite <- Eapp; auto | intros e G; rewrite <- Eapp; auto].
        * specialize (IH (pre ++ [mark]) res H Wc Wpre' Wpost).
          destruct res as [[l|]|]; auto; [destruct IH as [W M]; split; auto; intros e G; rewrite <- Eapp; auto | intros e G; rewrite <- Eapp; auto].
  Qed.

  Lemma pass_sound : forall old new res,
    of_pass absorbing neutral sub other_cls op simp old new = Ret res ->
    forallb wf old = true -> forallb wf new = true ->
    match res with
    | None => forall e, good e -> bop k (semk k e new) (semk k e old) = negb k
    | Some l => forallb wf l = true /\ forall e, good e -> semk k e l = bop k (semk k e new) (semk k e old)
    end.
  Proof.
    induction old as [|cur rest IH]; intros new res H Wo Wn; cbn [of_pass] in H.
    - injection H as <-. split; [exact Wn|]. intros e _. rewrite semk_nil, A10. reflexivity.
    - cbn in Wo. apply andb_prop in Wo as [Wc Wr].
      destruct (mem_marker cur new) eqn:Mem.
      { specialize (IH new res H Wr Wn). destruct res as [l|].
        - destruct IH as [W M]. split; [exact W|]. intros e G. rewrite (M e G), semk_cons.
          apply A3, semk_absorb, Mem.
        - intros e G. specialize (IH e G). rewrite semk_cons, <- (A3 k _ _ _ (semk_absorb k e cur new Mem)). exact IH. }
      destruct (neutral cur) eqn:Neu.
      { specialize (IH new res H Wr Wn). pose proof (H_neu cur Neu) as HN. destruct res as [l|].
        - destruct IH as [W M]. split; [exact W|]. intros e G. rewrite (M e G), semk_cons, (HN e), A5. reflexivity.
        - intros e G. specialize (IH e G). rewrite semk_cons, (HN e), A5. exact IH. }
      destruct (of_scan absorbing other_cls op simp cur [] new) as [r| |] eqn:Es; try discriminate. cbn [bind] in H.
      pose proof (scan_sound cur new [] r Es Wc eq_refl Wn) as HS. cbn [app] in HS.
      destruct r as [[new'|]|].
      + destruct HS as [Wn' Mn'].
        specialize (IH (flatten sub new' []) res H Wr (flatten_wfk new' Wn')). destruct res as [l|].
        * destruct IH as [W M]. split; [exact W|]. intros e G. rewrite (M e G), flatten_semk, (Mn' e G), semk_cons. apply A6.
        * intros e G. specialize (IH e G). rewrite flatten_semk, (Mn' e G), A6 in IH. rewrite semk_cons. exact IH.
      + assert (Wn' : forallb wf (new ++ [cur]) = true) by (rewrite forallb_app, Wn; cbn; rewrite Wc; reflexivity).
        specialize (IH (new ++ [cur]) res H Wr Wn'). destruct res as [l|].
        * destruct IH as [W M]. split; [exact W|]. intros e G. rewrite (M e G), semk_app, !semk_cons, semk_nil. apply A7.
        * intros e G. specialize (IH e G). rewrite semk_app, semk_cons, semk_nil, A7 in IH. rewrite semk_cons. exact IH.
      + injection H as <-. intros e G. specialize (HS e G). rewrite semk_cons. apply A8, HS.
  Qed.

  Lemma loop_sound : forall n old new res,
    of_loop absorbing neutral sub other_cls op simp n old new = Ret res ->
    forallb wf new = true ->
    match res with
    | None => forall e, good e -> semk k e new = negb k
    | Some l => forallb wf l = true /\ forall e, good e -> semk k e l = semk k e new
    end.
  Proof.
    induction n as [|n IH]; intros old new res H Wn; cbn [of_loop] in H; [discriminate|].
    destruct (markers_eqb old new).
    - injection H as <-. split; [exact Wn|]. reflexivity.
    - destruct (of_pass absorbing neutral sub other_cls op simp new []) as [r| |] eqn:Ep; try discriminate. cbn [bind] in H.
      pose proof (pass_sound new [] r Ep Wn eq_refl) as HP.
      destruct r as [new'|].
      + destruct HP as [Wn' Mn']. specialize (IH new new' res H Wn'). destruct res as [l|].
        * destruct IH as [W M]. split; [exact W|]. intros e G. rewrite (M e G), (Mn' e G), semk_nil, A9. reflexivity.
        * intros e G. specialize (IH e G). rewrite (Mn' e G), semk_nil, A9 in IH. exact IH.
      + injection H as <-. intros e G. specialize (HP e G). rewrite semk_nil, A9 in HP. exact HP.
  Qed.

  Theorem of_body_sound n markers r :
    of_body absorbing neutral absorb_m neutral_m sub mk other_cls op simp n markers = Ret r ->
    forallb wf markers = true ->
    wf r = true /\ forall e, good e -> meval e r = semk k e markers.
  Proof.
    unfold of_body. intros H Wm.
    destruct (of_loop absorbing neutral sub other_cls op simp n [] (flatten sub markers [])) as [res| |] eqn:El; try discriminate.
    cbn [bind] in H. pose proof (loop_sound n [] _ res El (flatten_wfk markers Wm)) as HL.
    destruct res as [new|].
    - destruct HL as [Wn Mn].
      destruct (existsb absorbing new) eqn:Ex.
      + injection H as <-. split; [apply H_absm|]. intros e G. rewrite (proj2 H_absm e), <- flatten_semk, <- (Mn e G).
        apply existsb_exists in Ex as (x & Hin & Hx). symmetry. eapply semk_zero; [exact Hin | apply H_abs, Hx].
      + destruct new as [|x [|y new]].
        * injection H as <-. split; [apply H_neum|]. intros e G. rewrite (proj2 H_neum e), <- flatten_semk, <- (Mn e G). rewrite semk_nil. reflexivity.
        * injection H as <-. cbn in Wn. apply andb_prop in Wn as [Wx _]. split; [exact Wx|].
          intros e G. rewrite <- flatten_semk, <- (Mn e G), semk_cons, semk_nil, A10. reflexivity.
        * injection H as <-. split; [apply H_mk, Wn|]. intros e G. rewrite (proj1 (H_mk _) e), (Mn e G), flatten_semk. reflexivity.
    - injection H as <-. split; [apply H_absm|]. intros e G. rewrite (proj2 H_absm e), <- flatten_semk. symmetry. apply HL, G.
  Qed.
End OfSound.
