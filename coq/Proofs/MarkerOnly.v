(* MarkerOnly.v — only()/exclude() over Model/Marker.v: the result is implied by the marker
   (over-approximation), and is equivalent to it when the marker mentions only the kept /
   does not mention the removed variable (for exclude: unless a conjunct collapses to
   <empty>, which the code then drops - see mexclude_sound). *)
From Coq Require Import List Bool NArith Arith Lia Permutation.
From Verif Require Import PyRes Str Marker MarkerBase MarkerSingle MarkerOf MarkerSound.
Import ListNotations.

Fixpoint mentions (name : str) (m : marker) : bool :=
  match m with
  | MAtom a => str_eqb (a_name a) name
  | MEqU n _ | MNeM n _ => str_eqb n name
  | MMulti l | MUnion l => (fix go (l : list marker) : bool := match l with [] => false | x :: t => mentions name x || go t end) l
  | _ => false
  end.
Fixpoint only_names (names : list str) (m : marker) : bool :=
  match m with
  | MAtom a => mem_str (a_name a) names
  | MEqU n _ | MNeM n _ => mem_str n names
  | MMulti l | MUnion l => (fix go (l : list marker) : bool := match l with [] => true | x :: t => only_names names x && go t end) l
  | _ => true
  end.
Lemma mentions_list name l : (fix go (l : list marker) : bool := match l with [] => false | x :: t => mentions name x || go t end) l = existsb (mentions name) l.
Proof. induction l as [|x l IH]; [reflexivity|]. cbn. rewrite IH. reflexivity. Qed.
Lemma only_list names l : (fix go (l : list marker) : bool := match l with [] => true | x :: t => only_names names x && go t end) l = forallb (only_names names) l.
Proof. induction l as [|x l IH]; [reflexivity|]. cbn. rewrite IH. reflexivity. Qed.

Lemma mapM_Forall2 {A B} (f : A -> pyres B) l : forall rs, mapM f l = Ret rs -> Forall2 (fun x y => f x = Ret y) l rs.
Proof.
  induction l as [|x l IH]; intros rs H; cbn [mapM] in H.
  - injection H as <-. constructor.
  - destruct (f x) as [y| |] eqn:E; try discriminate. cbn [bind] in H.
    destruct (mapM f l) as [ys| |] eqn:Es; try discriminate. cbn [bind] in H. injection H as <-.
    constructor; [exact E | apply IH; reflexivity].
Qed.

Section Only.
  Variable vmerge : bool -> atom -> atom -> option marker.
  Variable vcontains : atom -> str -> bool.
  Variable perm : list marker -> list marker.
  Variable good : menv -> Prop.
  Hypothesis vmerge_sound : forall k a b r, vmerge k a b = Some r ->
    wf r = true /\ forall e, good e -> meval e r = bop k (atom_eval e a) (atom_eval e b).
  Hypothesis perm_perm : forall l, Permutation (perm l) l.

  Let AS := all_sound vmerge vcontains perm good vmerge_sound perm_perm.

  Definition only_ok (names : list str) (m r : marker) : Prop :=
    wf r = true
    /\ (forall e, good e -> meval e m = true -> meval e r = true)
    /\ (only_names names m = true -> forall e, good e -> meval e r = meval e m).

  Lemma single_only names m : is_single m = true -> wf m = true ->
    only_ok names m (if mem_str (single_name m) names then m else MAny).
  Proof.
    intros Hs W. destruct (mem_str (single_name m) names) eqn:E.
    - split; [exact W|]. split; auto.
    - split; [reflexivity|]. split; [reflexivity|]. intros Ho. destruct m; try discriminate Hs; cbn in Ho, E; congruence.
  Qed.

  Lemma Forall2_only names l ms : Forall2 (fun x y => only_ok names x y) l ms ->
    forallb wf ms = true
    /\ (forall e, good e -> forallb (meval e) l = true -> forallb (meval e) ms = true)
    /\ (forall e, good e -> existsb (meval e) l = true -> existsb (meval e) ms = true)
    /\ (forallb (only_names names) l = true -> forall e, good e -> map (meval e) ms = map (meval e) l).
  Proof.
    induction 1 as [|x y l ms (Wy & Hi & He) _ (IW & IA & IE & IM)]; [repeat split; auto|].
    split; [cbn; rewrite Wy, IW; reflexivity|]. split; [|split].
    - intros e G H. cbn in *. apply andb_prop in H as [H1 H2]. rewrite (Hi e G H1), (IA e G H2). reflexivity.
    - intros e G H. cbn in *. apply orb_prop in H as [H1|H2]; [rewrite (Hi e G H1); reflexivity | rewrite (IE e G H2); apply orb_true_r].
    - intros Ho e G. cbn in *. apply andb_prop in Ho as [O1 O2]. rewrite (He O1 e G), (IM O2 e G). reflexivity.
  Qed.

  Lemma forallb_map_eq {A} (f g : A -> bool) l l' : map f l = map g l' -> forallb f l = forallb g l'.
  Proof. revert l'. induction l as [|x l IH]; intros [|y l'] H; cbn in *; try discriminate; [reflexivity|]. injection H as -> H. rewrite (IH _ H). reflexivity. Qed.
  Lemma existsb_map_eq {A} (f g : A -> bool) l l' : map f l = map g l' -> existsb f l = existsb g l'.
  Proof. revert l'. induction l as [|x l IH]; intros [|y l'] H; cbn in *; try discriminate; [reflexivity|]. injection H as -> H. rewrite (IH _ H). reflexivity. Qed.

  Theorem monly_sound fuel names : forall m r, monly vmerge vcontains perm fuel names m = Ret r -> wf m = true -> only_ok names m r.
  Proof.
    induction fuel as [|f IH]; intros m r H W; [discriminate|]. cbn [monly] in H.
    destruct (AS f) as (_ & _ & Hmulti & Hunion & _).
    destruct m as [| |a|n vs|n vs|l|l].
    - injection H as <-. repeat split; auto.
    - injection H as <-. repeat split; auto.
    - assert (E : Ret (if mem_str (single_name (MAtom a)) names then MAtom a else MAny) = Ret r) by (destruct (mem_str (single_name (MAtom a)) names); exact H).
      injection E as <-. apply single_only; [reflexivity | exact W].
    - assert (E : Ret (if mem_str (single_name (MEqU n vs)) names then MEqU n vs else MAny) = Ret r) by (destruct (mem_str (single_name (MEqU n vs)) names); exact H).
      injection E as <-. apply single_only; [reflexivity | exact W].
    - assert (E : Ret (if mem_str (single_name (MNeM n vs)) names then MNeM n vs else MAny) = Ret r) by (destruct (mem_str (single_name (MNeM n vs)) names); exact H).
      injection E as <-. apply single_only; [reflexivity | exact W].
    - destruct (mapM (monly vmerge vcontains perm f names) l) as [ms| |] eqn:Em; try discriminate. cbn [bind] in H.
      rewrite wf_multi in W.
      assert (F2 : Forall2 (fun x y => only_ok names x y) l ms).
      { apply mapM_Forall2 in Em. clear H. revert W. induction Em as [|x y l ms Exy _ IHF]; intros W; [constructor|].
        cbn in W. apply andb_prop in W as [Wx Wl]. constructor; [exact (IH x y Exy Wx) | exact (IHF Wl)]. }
      destruct (Forall2_only names l ms F2) as (Wms & HA & _ & HM).
      destruct (Hmulti ms r H Wms) as [Wr Mr].
      split; [exact Wr|]. split.
      + intros e G Hm. rewrite (Mr e G). cbn [semk]. cbn [meval] in Hm. exact (HA e G Hm).
      + intros Ho e G. cbn [only_names] in Ho. rewrite only_list in Ho. rewrite (Mr e G). cbn [semk meval].
        apply forallb_map_eq. exact (HM Ho e G).
    - destruct (mapM (monly vmerge vcontains perm f names) l) as [ms| |] eqn:Em; try discriminate. cbn [bind] in H.
      rewrite wf_union in W.
      assert (F2 : Forall2 (fun x y => only_ok names x y) l ms).
      { apply mapM_Forall2 in Em. clear H. revert W. induction Em as [|x y l ms Exy _ IHF]; intros W; [constructor|].
        cbn in W. apply andb_prop in W as [Wx Wl]. constructor; [exact (IH x y Exy Wx) | exact (IHF Wl)]. }
      destruct (Forall2_only names l ms F2) as (Wms & _ & HE & HM).
      destruct (Hunion ms r H Wms) as [Wr Mr].
      split; [exact Wr|]. split.
      + intros e G Hm. rewrite (Mr e G). cbn [semk]. cbn [meval] in Hm. exact (HE e G Hm).
      + intros Ho e G. cbn [only_names] in Ho. rewrite only_list in Ho. rewrite (Mr e G). cbn [semk meval].
        apply existsb_map_eq. exact (HM Ho e G).
  Qed.
End Only.

(* ---- exclude(): identity on markers that do not mention the variable, provided no child is contradictory ---- *)
Section Exclude.
  Variable vmerge : bool -> atom -> atom -> option marker.
  Variable vcontains : atom -> str -> bool.
  Variable perm : list marker -> list marker.
  Variable good : menv -> Prop.
  Hypothesis vmerge_sound : forall k a b r, vmerge k a b = Some r ->
    wf r = true /\ forall e, good e -> meval e r = bop k (atom_eval e a) (atom_eval e b).
  Hypothesis perm_perm : forall l, Permutation (perm l) l.
  Let AS := all_sound vmerge vcontains perm good vmerge_sound perm_perm.

  (* every child of a conjunction, at any depth, is satisfied by some environment: MultiMarker.exclude drops a conjunct whose
     exclusion is <empty>, which would change the meaning of a conjunction with a contradictory child *)
  Fixpoint alive (m : marker) : Prop :=
    match m with
    | MMulti l => (fix go (l : list marker) : Prop := match l with [] => True | x :: t => ((exists e, good e /\ meval e x = true) /\ alive x) /\ go t end) l
    | MUnion l => l <> [] /\ (fix go (l : list marker) : Prop := match l with [] => True | x :: t => alive x /\ go t end) l
    | _ => True
    end.

  Definition excl_ok (m r : marker) : Prop := wf r = true /\ forall e, good e -> meval e r = meval e m.

  Theorem mexclude_identity fuel name : forall m r,
    mexclude vmerge vcontains perm fuel name m = Ret r -> wf m = true -> mentions name m = false -> alive m -> excl_ok m r.
  Proof.
    induction fuel as [|f IH]; intros m r H W NM AL; [discriminate|]. cbn [mexclude] in H.
    destruct (AS f) as (_ & _ & Hmulti & Hunion & _).
    assert (Leaf : forall s, is_single s = true -> mentions name s = false -> wf s = true ->
              (if str_eqb (single_name s) name then Ret MAny else Ret s) = Ret r -> excl_ok s r).
    { intros s Hs Hm Ws E. assert (En : str_eqb (single_name s) name = false) by (destruct s; try discriminate Hs; exact Hm).
      rewrite En in E. injection E as <-. split; [exact Ws | reflexivity]. }
    destruct m as [| |a|n vs|n vs|l|l].
    - injection H as <-. split; reflexivity.
    - injection H as <-. split; reflexivity.
    - exact (Leaf (MAtom a) eq_refl NM W H).
    - exact (Leaf (MEqU n vs) eq_refl NM W H).
    - exact (Leaf (MNeM n vs) eq_refl NM W H).
    - (* conjunction: nothing is dropped *)
      rewrite wf_multi in W. cbn [mentions] in NM. rewrite mentions_list in NM.
      match type of H with (bind (mapM ?g l) _ = _) => destruct (mapM g l) as [new| |] eqn:Em; try discriminate H; cbn [bind] in H;
        assert (Hnew : exists rs, flat_map (fun o => match o with Some x => [x] | None => [] end) new = rs
                                  /\ forallb wf rs = true /\ forall e, good e -> forallb (meval e) rs = forallb (meval e) l) end.
      { clear H. revert new Em. induction l as [|x l IHl]; intros new Em; cbn [mapM] in Em.
        - injection Em as <-. exists []. repeat split.
        - cbn in W, NM. apply andb_prop in W as [Wx Wl]. apply orb_false_elim in NM as [NMx NMl]. destruct AL as [[[ex [Gx Tx]] ALx] ALl].
          assert (Es : is_single x && str_eqb (single_name x) name = false).
          { destruct (is_single x) eqn:Is; [|reflexivity]. destruct x; try discriminate Is; exact NMx. }
          rewrite Es in Em. destruct (mexclude vmerge vcontains perm f name x) as [rx| |] eqn:Er; try discriminate Em. cbn [bind] in Em.
          destruct (IH x rx Er Wx NMx ALx) as [Wrx Mrx].
          assert (Ne : is_empty rx = false).
          { destruct rx; try reflexivity. specialize (Mrx ex Gx). rewrite Tx in Mrx. discriminate Mrx. }
          rewrite Ne in Em.
          match type of Em with (bind (mapM ?g l) _ = _) => destruct (mapM g l) as [new'| |] eqn:Em'; try discriminate Em; cbn [bind] in Em end.
          injection Em as <-. destruct (IHl Wl NMl ALl new' eq_refl) as (rs & Ers & Wrs & Mrs).
          exists (rx :: rs). split; [cbn [flat_map app]; rewrite Ers; reflexivity|]. split; [cbn; rewrite Wrx, Wrs; reflexivity|].
          intros e G. cbn [forallb]. rewrite (Mrx e G), (Mrs e G). reflexivity. }
      destruct Hnew as (rs & Ers & Wrs & Mrs). rewrite Ers in H.
      destruct (Hmulti rs r H Wrs) as [Wr Mr]. split; [exact Wr|]. intros e G. rewrite (Mr e G). cbn [semk meval]. exact (Mrs e G).
    - rewrite wf_union in W. cbn [mentions] in NM. rewrite mentions_list in NM. destruct AL as [Lne AL].
      match type of H with (bind (mapM ?g l) _ = _) => destruct (mapM g l) as [new| |] eqn:Em; try discriminate H; cbn [bind] in H;
        assert (Hnew : exists rs, flat_map (fun o => match o with Some x => [x] | None => [] end) new = rs
                                  /\ forallb wf rs = true /\ length rs = length l /\ forall e, good e -> existsb (meval e) rs = existsb (meval e) l) end.
      { clear H Lne. revert new Em. induction l as [|x l IHl]; intros new Em; cbn [mapM] in Em.
        - injection Em as <-. exists []. repeat split.
        - cbn in W, NM. apply andb_prop in W as [Wx Wl]. apply orb_false_elim in NM as [NMx NMl]. destruct AL as [ALx ALl].
          assert (Es : is_single x && str_eqb (single_name x) name = false).
          { destruct (is_single x) eqn:Is; [|reflexivity]. destruct x; try discriminate Is; exact NMx. }
          rewrite Es in Em. destruct (mexclude vmerge vcontains perm f name x) as [rx| |] eqn:Er; try discriminate Em. cbn [bind] in Em.
          destruct (IH x rx Er Wx NMx ALx) as [Wrx Mrx].
          match type of Em with (bind (mapM ?g l) _ = _) => destruct (mapM g l) as [new'| |] eqn:Em'; try discriminate Em; cbn [bind] in Em end.
          injection Em as <-. destruct (IHl Wl NMl ALl new' eq_refl) as (rs & Ers & Wrs & Lrs & Mrs).
          exists (rx :: rs). split; [cbn [flat_map app]; rewrite Ers; reflexivity|]. split; [cbn; rewrite Wrx, Wrs; reflexivity|].
          split; [cbn; rewrite Lrs; reflexivity|]. intros e G. cbn [existsb]. rewrite (Mrx e G), (Mrs e G). reflexivity. }
      destruct Hnew as (rs & Ers & Wrs & Lrs & Mrs). rewrite Ers in H.
      destruct rs as [|y ys]; [destruct l; [congruence | discriminate Lrs]|].
      destruct (Hunion (y :: ys) r H Wrs) as [Wr Mr]. split; [exact Wr|]. intros e G. rewrite (Mr e G). cbn [semk meval]. exact (Mrs e G).
  Qed.
End Exclude.
