(* MarkerOnly.v — only()/exclude() over Model/Marker.v: the result is implied by the marker
   (over-approximation), and is equivalent to it when the marker mentions only the kept /
   does not mention the removed variable (for exclude: unless a conjunct collapses to
   <empty>, which the code then drops - see mexclude_sound). *)
From Coq Require Import List Bool NArith Arith Lia Permutation.
From Verif Require Import PyRes Str Marker MarkerBase MarkerSingle MarkerOf MarkerSound.
Import ListNotations.

Fixpoint mentions (name : str) (m : marker) : bool :=
  match m with
  | MAtom a => str_eqb (a_name a) name
  | MEqU n _ | MNeM n _ => str_eqb n name
  | MMulti l | MUnion l => (fix go (l : list marker) : bool := match l with [] => false | x :: t => mentions name x || go t end) l
  | _ => false
  end.
Fixpoint only_names (names : list str) (m : marker) : bool :=
  match m with
  | MAtom a => mem_str (a_name a) names
  | MEqU n _ | MNeM n _ => mem_str n names
  | MMulti l | MUnion l => (fix go (l : list marker) : bool := match l with [] => true | x :: t => only_names names x && go t end) l
  | _ => true
  end.
Lemma mentions_list name l : (fix go (l : list marker) : bool := match l with [] => false | x :: t => mentions name x || go t end) l = existsb (mentions name) l.
Proof. induction l as [|x l IH]; [reflexivity|]. cbn. rewrite IH. reflexivity. Qed.
Lemma only_list names l : (fix go (l : list marker) : bool := match l with [] => true | x :: t => only_names names x && go t end) l = forallb (only_names names) l.
Proof. induction l as [|x l IH]; [reflexivity|]. cbn. rewrite IH. reflexivity. Qed.

Lemma mapM_Forall2 {A B} (f : A -> pyres B) l : forall rs, mapM f l = Ret rs -> Forall2 (fun x y => f x = Ret y) l rs.
Proof.
  induction l as [|x l IH]; intros rs H; cbn [mapM] in H.
  - injection H as <-. constructor.
  - destruct (f x) as [y| |] eqn:E; try discriminate. cbn [bind] in H.
    destruct (mapM f l) as [ys| |] eqn:Es; try discriminate. cbn [bind] in H. injection H as <-.
    constructor; [exact E | apply IH; reflexivity].
Qed.

Section Only.
  Variable vmerge : bool -> atom -> atom -> option marker.
  Variable vcontains : atom -> str -> bool.
  Variable perm : list marker -> list marker.
  Variable good : menv -> Prop.
  Hypothesis vmerge_sound : forall k a b r, vmerge k a b = Some r ->
    wf r = true /\ forall e, good e -> meval e r = bop k (atom_eval e a) (atom_eval e b).
  Hypothesis perm_perm : forall l, Permutation (perm l) l.

  Let AS := all_sound vmerge vcontains perm good vmerge_sound perm_perm.

  Definition only_ok (names : list str) (m r : marker) : Prop :=
    wf r = true
    /\ (forall e, good e -> meval e m = true -> meval e r = true)
    /\ (only_names names m = true -> forall e, good e -> meval e r = meval e m).

  Lemma single_only names m : is_single m = true -> wf m = true ->
    only_ok names m (if mem_str (single_name m) names then m else MAny).
  Proof.
    intros Hs W. destruct (mem_str (single_name m) names) eqn:E.
    - split; [exact W|]. split; auto.
    - split; [reflexivity|]. split; [reflexivity|]. intros Ho. destruct m; try discriminate Hs; cbn in Ho, E; congruence.
  Qed.

  Lemma Forall2_only names l ms : Forall2 (fun x y => only_ok names x y) l ms ->
    forallb wf ms = true
    /\ (forall e, good e -> forallb (meval e) l = true -> forallb (meval e) ms = true)
    /\ (forall e, good e -> existsb (meval e) l = true -> existsb (meval e) ms = true)
    /\ (forallb (only_names names) l = true -> forall e, good e -> map (meval e) ms = map (meval e) l).
  Proof.
    induction 1 as [|x y l ms (Wy & Hi & He) _ (IW & IA & IE & IM)]; [repeat split; auto|].
    split; [cbn; rewrite Wy, IW; reflexivity|]. split; [|split].
    - intros e G H. cbn in *. apply andb_prop in H as [H1 H2]. rewrite (Hi e G H1), (IA e G H2). reflexivity.
    - intros e G H. cbn in *. apply orb_prop in H as [H1|H2]; [rewrite (Hi e G H1); reflexivity | rewrite (IE e G H2); apply orb_true_r].
    - intros Ho e G. cbn in *. apply andb_prop in Ho as [O1 O2]. rewrite (He O1 e G), (IM O2 e G). reflexivity.
  Qed.

  Lemma forallb_map_eq {A} (f g : A -> bool) l l' : map f l = map g l' -> forallb f l = forallb g l'.
  Proof. revert l'. induction l as [|x l IH]; intros [|y l'] H; cbn in *; try discriminate; [reflexivity|]. injection H as -> H. rewrite (IH _ H). reflexivity. Qed.
  Lemma existsb_map_eq {A} (f g : A -> bool) l l' : map f l = map g l' -> existsb f l = existsb g l'.
  Proof. revert l'. induction l as [|x l IH]; intros [|y l'] H; cbn in *; try discriminate; [reflexivity|]. injection H as -> H. rewrite (IH _ H). reflexivity. Qed.

  Theorem monly_sound fuel names : forall m r, monly vmerge vcontains perm fuel names m = Ret r -> wf m = true -> only_ok names m r.
  Proof.
    induction fuel as [|f IH]; intros m r H W; [discriminate|]. cbn [monly] in H.
    destruct (AS f) as (_ & _ & Hmulti & Hunion & _).
    destruct m as [| |a|n vs|n vs|l|l].
    - injection H as <-. repeat split; auto.
    - injection H as <-. repeat split; auto.
    - assert (E : Ret (if mem_str (single_name (MAtom a)) names then MAtom a else MAny) = Ret r) by (destruct (mem_str (single_name (MAtom a)) names); exact H).
      injection E as <-. apply single_only; [reflexivity | exact W].
    - assert (E : Ret (if mem_str (single_name (MEqU n vs)) names then MEqU n vs else MAny) = Ret r) by (destruct (mem_str (single_name (MEqU n vs)) names); exact H).
      injection E as <-. apply single_only; [reflexivity | exact W].
    - assert (E : Ret (if mem_str (single_name (MNeM n vs)) names then MNeM n vs else MAny) = Ret r) by (destruct (mem_str (single_name (MNeM n vs)) names); exact H).
      injection E as <-. apply single_only; [reflexivity | exact W].
    - destruct (mapM (monly vmerge vcontains perm f names) l) as [ms| |] eqn:Em; try discriminate. cbn [bind] in H.
      rewrite wf_multi in W.
      assert (F2 : Forall2 (fun x y => only_ok names x y) l ms).
      { apply mapM_Forall2 in Em. clear H. revert W. induction Em as [|x y l ms Exy _ IHF]; intros W; [constructor|].
        cbn in W. apply andb_prop in W as [Wx Wl]. constructor; [exact (IH x y Exy Wx) | exact (IHF Wl)]. }
      destruct (Forall2_only names l ms F2) as (Wms & HA & _ & HM).
      destruct (Hmulti ms r H Wms) as [Wr Mr].
      split; [exact Wr|]. split.
      + intros e G Hm. rewrite (Mr e G). cbn [semk]. cbn [meval] in Hm. exact (HA e G Hm).
      + intros Ho e G. cbn [only_names] in Ho. rewrite only_list in Ho. rewrite (Mr e G). cbn [semk meval].
        apply forallb_map_eq. exact (HM Ho e G).
    - destruct (mapM (monly vmerge vcontains perm f names) l) as [ms| |] eqn:Em; try discriminate. cbn [bind] in H.
      rewrite wf_union in W.
      assert (F2 : Forall2 (fun x y => only_ok names x y) l ms).
      { apply mapM_Forall2 in Em. clear H. revert W. induction Em as [|x y l ms Exy _ IHF]; intros W; [constructor|].
        cbn in W. apply andb_prop in W as [Wx Wl]. constructor; [exact (IH x y Exy Wx) | exact (IHF Wl)]. }
      destruct (Forall2_only names l ms F2) as (Wms & _ & HE & HM).
      destruct (Hunion ms r H Wms) as [Wr Mr].
      split; [exact Wr|]. split.
      + intros e G Hm. rewrite (Mr e G). cbn [semk]. cbn [meval] in Hm. exact (HE e G Hm).
      + intros Ho e G. cbn [only_names] in Ho. rewrite only_list in Ho. rewrite (Mr e G). cbn [semk meval].
        apply existsb_map_eq. exact (HM Ho e G).
  Qed.
End Only.
