(* SpecProv.v — provenance: the generated operators never invent a `simplified` text.  Every
   range of a result of &, | or ~ is either a range of an operand or a freshly built range
   whose `simplified` is None, and a result union either is an operand or has no
   `simplified`.  Hence the invariant "a remembered clause is the clause the value was
   parsed from" (simp_ok) holds for every value reachable from the parser. *)
From Coq Require Import List Bool ZArith NArith Arith Lia.
From Verif Require Import PyRes Order Cuts Str SpecTypes GenSpec SpecSem RangeBridge UnionBase SpecOps SpecEq SpecExpr
  Pep440 Corr SpecParse ParseSound.
Import ListNotations.
Import X.

Lemma pif_inv {A} c (t e : pyres A) r : pif c t e = Ret r -> t = Ret r \/ e = Ret r.
Proof. unfold pif, bind. destruct c as [[|]| |]; try discriminate; auto. Qed.
Lemma bind_inv {A B} (m : pyres A) (k : A -> pyres B) r : bind m k = Ret r -> exists a, m = Ret a /\ k a = Ret r.
Proof. destruct m; try discriminate. cbn. eauto. Qed.
Lemma mk_range_inv m M im iM s r : mk_range m M im iM s = Ret r -> r = mkRangeRaw m M im iM s.
Proof.
  unfold mk_range. intros H. apply bind_inv in H as (u & _ & H). injection H as <-. reflexivity.
Qed.
Lemma dispatch_inv {A C} sc (lm rm : A -> A -> pyres C) a b r : dispatch sc lm rm a b = Ret r -> lm a b = Ret r \/ rm b a = Ret r.
Proof.
  unfold dispatch. destruct (lm a b); try (intros H; left; exact H); try discriminate.
  destruct (sc a b); try discriminate. destruct (rm b a); try discriminate. auto.
Qed.

Section Prov.
  Variable G : range -> Prop.
  Variable GU : union -> Prop.
  Hypothesis G_fresh : forall r, rsimp r = None -> G r.

  Definition Inv (s : spec) : Prop :=
    match s with
    | SRange r => G r
    | SUnion u => Forall G (uranges u) /\ (usimp u = None \/ GU u)
    | _ => True
    end.

  Ltac inv_step :=
    match goal with
    | H : pif _ _ _ = Ret _ |- _ => apply pif_inv in H as [H|H]
    | H : bind (mk_range _ _ _ _ None) _ = Ret _ |- _ =>
        let x := fresh "x" in let Hm := fresh "Hm" in
        apply bind_inv in H as (x & Hm & H); apply mk_range_inv in Hm; subst x
    | H : Ret _ = Ret _ |- _ => injection H as <-
    end.

  Lemma fresh_G m M im iM : G (mkRangeRaw m M im iM None).
  Proof. apply G_fresh. reflexivity. Qed.

  Lemma range_and_inv self other r : G self -> Inv other -> range_and self other = Ret r -> Inv r.
  Proof.
    intros Gs Io H. unfold range_and in H. destruct other as [| |o|?|?|?]; try discriminate H. cbn [Inv] in Io.
    cbv zeta in H. repeat inv_step; cbn [Inv]; auto using fresh_G.
  Qed.

  Lemma range_or_inv self other r : G self -> Inv other -> range_or self other = Ret r -> Inv r.
  Proof.
    intros Gs Io H. unfold range_or in H. destruct other as [| |o|?|?|?]; try discriminate H. cbn [Inv] in Io.
    cbv zeta in H. repeat inv_step; cbn [Inv mk_union uranges usimp]; auto using fresh_G.
  Qed.

  Lemma union_from_ranges_inv l r : Forall G l -> union_from_ranges l = Ret r -> Inv r.
  Proof.
    intros Hl H. unfold union_from_ranges in H. cbv zeta in H.
    destruct l as [|a [|b l]]; cbn in H; injection H as <-; cbn [Inv mk_union uranges usimp]; auto.
    inversion Hl; assumption.
  Qed.

  Lemma filter_and_inv pairs : forall out,
    Forall (fun p => G (fst p) /\ G (snd p)) pairs ->
    filter_mapM (fun '(a, b) => bind (range_and a (SRange b)) (fun range_ => Ret (if negb (is_SEmpty range_) then Some range_ else None))) pairs = Ret out ->
    Forall Inv out.
  Proof.
    induction pairs as [|[a b] pairs IH]; intros out Hp H; cbn [filter_mapM] in H.
    - injection H as <-. constructor.
    - inversion Hp as [|? ? [Ga Gb] Hp']; subst. cbn [fst snd] in *.
      apply bind_inv in H as (y & Hy & H). apply bind_inv in H as (ys & Hys & H). injection H as <-.
      apply bind_inv in Hy as (rg & Hrg & Hy). injection Hy as <-.
      specialize (IH ys Hp' Hys). apply (range_and_inv a (SRange b) rg Ga Gb) in Hrg.
      destruct (negb (is_SEmpty rg)); [constructor; assumption | assumption].
  Qed.

  Lemma mapM_as_range_inv l : forall rs, Forall Inv l -> mapM as_range l = Ret rs -> Forall G rs.
  Proof.
    induction l as [|s l IH]; intros rs Hl H; cbn [mapM] in H.
    - injection H as <-. constructor.
    - inversion Hl as [|? ? Hs Hl']; subst. apply bind_inv in H as (y & Hy & H). apply bind_inv in H as (ys & Hys & H). injection H as <-.
      destruct s; try discriminate Hy. injection Hy as <-. constructor; [exact Hs | exact (IH ys Hl' Hys)].
  Qed.

  Lemma prod_G l l' : Forall G l -> Forall G l' -> Forall (fun p => G (fst p) /\ G (snd p)) (list_prod l l').
  Proof.
    intros H H'. apply Forall_forall. intros [a b] Hin. apply in_prod_iff in Hin as [Ha Hb].
    rewrite Forall_forall in H, H'. split; [apply H; exact Ha | apply H'; exact Hb].
  Qed.

  Lemma union_and_inv self other r : Inv (SUnion self) -> Inv other -> union_and self other = Ret r -> Inv r.
  Proof.
    intros [Gs Us] Io H. unfold union_and in H. destruct other as [| |o|uo|?|?]; try discriminate H; cbn [Inv] in Io.
    - apply pif_inv in H as [H|H]; [injection H as <-; split; assumption|]. cbv zeta in H.
      apply bind_inv in H as (nr & Hnr & H). apply bind_inv in H as (rs & Hrs & H).
      apply (union_from_ranges_inv rs); [|exact H]. apply (mapM_as_range_inv nr); [|exact Hrs].
      apply (filter_and_inv _ _ (prod_G _ _ Gs (Forall_cons _ Io (Forall_nil _))) Hnr).
    - destruct Io as [Go _]. cbv zeta in H.
      apply bind_inv in H as (nr & Hnr & H). apply bind_inv in H as (rs & Hrs & H).
      apply (union_from_ranges_inv rs); [|exact H]. apply (mapM_as_range_inv nr); [|exact Hrs].
      apply (filter_and_inv _ _ (prod_G _ _ Gs Go) Hnr).
  Qed.

  Lemma union_or_range_loop1_inv self xs : forall other acc r,
    Forall G xs -> G other -> Forall G acc -> union_or_range_loop1 self xs other acc = Ret r -> Inv r.
  Proof.
    induction xs as [|x rest IH]; intros other acc r Hxs Go Hacc H; cbn [union_or_range_loop1] in H.
    - cbv zeta in H. apply (union_from_ranges_inv _ _ (proj2 (Forall_app _ _ _) (conj Hacc (Forall_cons _ Go (Forall_nil _)))) H).
    - inversion Hxs as [|? ? Gx Hrest]; subst.
      apply pif_inv in H as [H|H].
      + apply bind_inv in H as (o1 & Ho1 & H). apply bind_inv in Ho1 as (s1 & Hs1 & Ho1).
        apply (range_or_inv other (SRange x) s1 Go Gx) in Hs1. destruct s1 as [| |r0|?|?|?]; try discriminate Ho1. injection Ho1 as <-.
        exact (IH r0 acc r Hrest Hs1 Hacc H).
      + apply pif_inv in H as [H|H]; cbv zeta in H.
        * apply (union_from_ranges_inv (acc ++ other :: x :: rest) r); [|exact H]. apply Forall_app. split; [exact Hacc|]. constructor; [exact Go|]. constructor; assumption.
        * apply (IH other (acc ++ [x]) r Hrest Go); [|exact H]. apply Forall_app. split; [exact Hacc | constructor; [exact Gx | constructor]].
  Qed.

  Lemma union_or_range_inv self other r : Forall G (uranges self) -> G other -> union_or_range self other = Ret r -> Inv r.
  Proof.
    intros Gs Go H. unfold union_or_range in H. apply pif_inv in H as [H|H]; [injection H as <-; exact Go|]. cbv zeta in H.
    exact (union_or_range_loop1_inv self (uranges self) other [] r Gs Go (Forall_nil _) H).
  Qed.

  Lemma spec_or_range_inv a x r : Inv a -> G x -> spec_or_range a x = Ret r -> Inv r.
  Proof.
    intros Ia Gx H. unfold spec_or_range, spec_or_gen in H. apply dispatch_inv in H as [H|H].
    - destruct a as [| |ra|ua|?|?]; try discriminate H; cbn [Inv] in Ia.
      + injection H as <-. exact Gx.
      + injection H as <-. exact I.
      + exact (range_or_inv ra (SRange x) r Ia Gx H).
      + exact (union_or_range_inv ua x r (proj1 Ia) Gx H).
    - cbn in H. discriminate H.
  Qed.

  Lemma union_or_loop1_inv self other xs : forall acc r, Forall G xs -> Inv acc -> union_or_loop1 self other xs acc = Ret r -> Inv r.
  Proof.
    induction xs as [|x rest IH]; intros acc r Hxs Ia H; cbn [union_or_loop1] in H.
    - injection H as <-. exact Ia.
    - inversion Hxs as [|? ? Gx Hrest]; subst. apply bind_inv in H as (a1 & Ha1 & H).
      exact (IH a1 r Hrest (spec_or_range_inv acc x a1 Ia Gx Ha1) H).
  Qed.

  Lemma union_or_inv self other r : Inv (SUnion self) -> Inv other -> union_or self other = Ret r -> Inv r.
  Proof.
    intros Is Io H. unfold union_or in H. destruct other as [| |o|uo|?|?]; try discriminate H; cbn [Inv] in Io.
    - apply pif_inv in H as [H|H]; [injection H as <-; exact Io|]. cbv zeta in H.
      exact (union_or_range_loop1_inv self (uranges self) o [] r (proj1 Is) Io (Forall_nil _) H).
    - cbv zeta in H. exact (union_or_loop1_inv self uo (uranges uo) (SUnion self) r (proj1 Io) Is H).
  Qed.

  Theorem spec_and_inv a b r : Inv a -> Inv b -> spec_and a b = Ret r -> Inv r.
  Proof.
    intros Ia Ib H. unfold spec_and, spec_and_gen in H. apply dispatch_inv in H as [H|H].
    - destruct a as [| |ra|ua|?|?]; try discriminate H.
      + injection H as <-. exact I.
      + injection H as <-. exact Ib.
      + exact (range_and_inv ra b r Ia Ib H).
      + exact (union_and_inv ua b r Ia Ib H).
    - destruct b as [| |rb|ub|?|?]; try discriminate H.
      + injection H as <-. exact I.
      + injection H as <-. exact Ia.
      + exact (union_and_inv ub a r Ib Ia H).
  Qed.

  Theorem spec_or_inv a b r : Inv a -> Inv b -> spec_or a b = Ret r -> Inv r.
  Proof.
    intros Ia Ib H. unfold spec_or, spec_or_gen in H. apply dispatch_inv in H as [H|H].
    - destruct a as [| |ra|ua|?|?]; try discriminate H.
      + injection H as <-. exact Ib.
      + injection H as <-. exact I.
      + exact (range_or_inv ra b r Ia Ib H).
      + exact (union_or_inv ua b r Ia Ib H).
    - destruct b as [| |rb|ub|?|?]; try discriminate H.
      + injection H as <-. exact Ia.
      + injection H as <-. exact I.
      + exact (union_or_inv ub a r Ib Ia H).
  Qed.

  Lemma union_invert_loop1_inv self first xs : forall acc r, Forall G acc -> union_invert_loop1 self first xs acc = Ret r -> Inv r.
  Proof.
    induction xs as [|[a b] rest IH]; intros acc r Hacc H; cbn [union_invert_loop1] in H.
    - apply bind_inv in H as (lst & _ & H). destruct (negb (is_none (rmax lst))).
      + apply bind_inv in H as (x & Hm & H). apply mk_range_inv in Hm. subst x. cbv zeta in H.
        refine (union_from_ranges_inv _ r _ H). apply Forall_app. split; [exact Hacc | constructor; [apply fresh_G | constructor]].
      + exact (union_from_ranges_inv _ r Hacc H).
    - apply bind_inv in H as (x & Hm & H). apply mk_range_inv in Hm. subst x. cbv zeta in H.
      refine (IH _ r _ H). apply Forall_app. split; [exact Hacc | constructor; [apply fresh_G | constructor]].
  Qed.

  Theorem spec_invert_inv a r : spec_invert a = Ret r -> Inv r.
  Proof.
    intros H. destruct a as [| |ra|ua|?|?]; try discriminate H; cbn [spec_invert] in H.
    - injection H as <-. exact I.
    - injection H as <-. exact I.
    - unfold range_invert in H.
      destruct (is_none (rmin ra) && is_none (rmax ra)); [injection H as <-; exact I|]. cbv zeta in H.
      destruct (negb (is_none (rmin ra))), (negb (is_none (rmax ra)));
        repeat match goal with
               | H : bind (mk_range _ _ _ _ None) _ = Ret _ |- _ =>
                   let x := fresh "x" in let Hm := fresh "Hm" in
                   apply bind_inv in H as (x & Hm & H); apply mk_range_inv in Hm; subst x; cbv zeta in H
               end; cbn in H; try discriminate H; injection H as <-; cbn [Inv mk_union uranges usimp]; auto using fresh_G.
    - unfold union_invert in H. cbv zeta in H. apply bind_inv in H as (fst_ & _ & H).
      destruct (negb (is_none (rmin fst_))).
      + apply bind_inv in H as (x & Hm & H). apply mk_range_inv in Hm. subst x. cbv zeta in H.
        apply (union_invert_loop1_inv _ _ _ _ r) in H; [exact H|]. constructor; [apply fresh_G | constructor].
      + apply (union_invert_loop1_inv _ _ _ _ r) in H; [exact H | constructor].
  Qed.
End Prov.
