(* RenderArith.v — utils.first_different_index / pad_zeros as used by the two rendering
   heuristics (`~=X.Y` for ranges, `!=X.*` for unions): what the tests on the padded
   "stable" lists [epoch, *release] say about the two versions in the padded order. *)
From Coq Require Import List Bool ZArith NArith Arith Lia.
From Verif Require Import Pep440 Pep440Facts ParseArith SpecTypes SpecParse.
Import ListNotations.
Local Open Scope N_scope.

Lemma fdf_shift a : forall b i, first_diff_from i a b = (i + first_diff_from 0 a b)%nat.
Proof.
  induction a as [|x a IH]; intros [|y b] i; cbn [first_diff_from]; try lia.
  destruct (x =? y); [|lia]. rewrite (IH b (S i)), (IH b 1%nat). lia.
Qed.
Lemma fdf_firstn a : forall b, firstn (first_diff_from 0 a b) a = firstn (first_diff_from 0 a b) b.
Proof.
  induction a as [|x a IH]; intros [|y b]; cbn [first_diff_from]; try reflexivity.
  destruct (N.eqb_spec x y) as [->|]; [|reflexivity]. rewrite fdf_shift. cbn [Nat.add firstn]. rewrite IH. reflexivity.
Qed.

Lemma pad_zeros_spec l n : exists z, pad_zeros l n = l ++ z /\ all_zero z = true /\ (n <= length (pad_zeros l n))%nat.
Proof.
  unfold pad_zeros. destruct (Nat.leb_spec n (length l)).
  - exists []. rewrite app_nil_r. repeat split. exact H.
  - exists (repeat 0 (n - length l)). split; [reflexivity|]. split.
    + induction (n - length l)%nat; [reflexivity|]. cbn [repeat]. rewrite all_zero_cons. exact IHn0.
    + rewrite app_length, repeat_length. lia.
Qed.
Lemma pad_zeros_length l n : length (pad_zeros l n) = Nat.max (length l) n.
Proof.
  unfold pad_zeros. destruct (Nat.leb_spec n (length l)); [lia|]. rewrite app_length, repeat_length. lia.
Qed.

Lemma split_at {A} (d : A) g : forall l, (g < length l)%nat -> l = firstn g l ++ [nth g l d] ++ skipn (S g) l.
Proof.
  induction g as [|g IH]; intros [|x l] H; cbn in H; try lia; [reflexivity|].
  cbn [firstn nth skipn app]. f_equal. apply IH. lia.
Qed.
Lemma firstn_S_nth {A} (d : A) g : forall l, (g < length l)%nat -> firstn (S g) l = firstn g l ++ [nth g l d].
Proof.
  induction g as [|g IH]; intros [|x l] H; cbn in H; try lia; [reflexivity|].
  cbn [firstn nth app]. f_equal. apply IH. lia.
Qed.

(* the common core: A and B agree before position g, B[g] = A[g] + 1, B is zero after g *)
Lemma stable_core (A B : list N) g :
  firstn g A = firstn g B -> (g < length A)%nat -> (g < length B)%nat ->
  nth g B 0 = nth g A 0 + 1 -> all_zero (skipn (S g) B) = true ->
  exists z, B = incl (firstn (S g) A) ++ z /\ all_zero z = true.
Proof.
  intros Hf HA HB Hn Hz. exists (skipn (S g) B). split; [|exact Hz].
  rewrite (firstn_S_nth 0 g A HA), incl_app_last, Hf, <- Hn, <- app_assoc. apply (split_at 0 g B HB).
Qed.

Lemma cmp_pad_eq_app p z z' r : all_zero z = true -> all_zero z' = true -> r ++ z' = p ++ z -> cmp_pad p r = Eq.
Proof.
  intros Hz Hz' E. rewrite <- (cmp_pad_app_zero_r r z' Hz'), E, cmp_pad_app_zero_r by exact Hz. apply cmp_pad_refl.
Qed.

Lemma nth0_nth l i : nth0 l i = nth i l 0.
Proof. reflexivity. Qed.
Lemma tl_app_cons {A} (x : A) l z : tl ((x :: l) ++ z) = l ++ z.
Proof. reflexivity. Qed.
Lemma nth_tl {A} (d : A) l i : nth i (tl l) d = nth (S i) l d.
Proof. destruct l; [destruct i; reflexivity | reflexivity]. Qed.
Lemma firstn_tl {A} (l : list A) i : firstn i (tl l) = tl (firstn (S i) l).
Proof. destruct l; [destruct i; reflexivity | reflexivity]. Qed.
Lemma skipn_tl {A} (l : list A) i : skipn i (tl l) = skipn (S i) l.
Proof. destruct l; [destruct i; reflexivity | reflexivity]. Qed.
