(* RangeOr.v — RangeSpecifier.__or__ (generated) is exact on cuts and canonical *)
From Coq Require Import List Bool Orders OrdersFacts.
From Verif Require Import PyRes Order Cuts Str SpecTypes GenSpec SpecSem RangeBridge.
Import ListNotations.

Module RangeOr (V : OrderedTypeFull').
  Module RB := RangeBridge V.
  Export RB.

  Theorem range_or_spec a b :
    okr a -> okr b ->
    (exists r, range_or a (SRange b) = Ret (SRange r) /\ okr r
               /\ forall c, memr c r = memr c a || memr c b)
    \/ (range_or a (SRange b) = Ret (SUnion (mk_union [a; b] None)) /\ CO.lt (ub a) (lb b))
    \/ (range_or a (SRange b) = Ret (SUnion (mk_union [b; a] None)) /\ CO.lt (ub b) (lb a)).
  Proof.
    intros [Na Wa] [Nb Wb]. unfold ne in *.
    unfold range_or.
    rewrite !is_superset_spec, !allows_lower_spec, !is_strictly_lower_spec, !allows_higher_spec,
      !is_adjacent_to_spec.
    unfold pif, pand, pnot, bind.
    destruct (cleb (lb a) (lb b) && cleb (ub b) (ub a)) eqn:E1.
    { left. exists a. apply andb_prop in E1 as [E1 E2]. apply cleb_iff in E1, E2.
      split; [reflexivity|]. split; [split; assumption|]. solve_mem. }
    destruct (cleb (lb b) (lb a) && cleb (ub a) (ub b)) eqn:E2.
    { left. exists b. apply andb_prop in E2 as [E2 E3]. apply cleb_iff in E2, E3.
      split; [reflexivity|]. split; [split; assumption|]. solve_mem. }
    destruct (cltb (lb a) (lb b)) eqn:E3.
    - apply cltb_iff in E3.
      destruct (cleb (ub a) (lb b)) eqn:E4; [destruct (ceqb (ub a) (lb b)) eqn:E4'|]; cbn [negb].
      + (* adjacent: merge *)
        apply cleb_iff in E4. apply ceqb_iff in E4'.
        destruct (cltb (ub b) (ub a)) eqn:E5.
        * exfalso. apply cltb_iff in E5. corder.
        * rewrite mk_range_ok by (apply wfr_mk_ok_lo_hi; assumption).
          left. eexists. split; [reflexivity|].
          match goal with |- okr ?r0 /\ _ => set (r := r0) end.
          assert (Hl : lb r = lb a) by reflexivity.
          assert (Hu : ub r = ub b) by reflexivity.
          split; [split; [unfold ne; rewrite Hl, Hu; corder | split; [apply Wa | apply Wb]]|].
          intros c. unfold memr. rewrite Hl, Hu. solve_mem.
      + right; left. apply cleb_iff in E4.
        assert (~ CO.eq (ub a) (lb b)) by (rewrite <- ceqb_iff; congruence).
        split; [reflexivity | corder].
      + assert (~ CO.le (ub a) (lb b)) by (rewrite <- cleb_iff; congruence).
        destruct (cltb (ub b) (ub a)) eqn:E5.
        * exfalso. apply cltb_iff in E5.
          assert (cleb (lb a) (lb b) = true) by (apply cleb_iff; corder).
          assert (cleb (ub b) (ub a) = true) by (apply cleb_iff; corder).
          rewrite H0, H1 in E1. discriminate.
        * rewrite mk_range_ok by (apply wfr_mk_ok_lo_hi; assumption).
          left. eexists. split; [reflexivity|].
          match goal with |- okr ?r0 /\ _ => set (r := r0) end.
          assert (Hl : lb r = lb a) by reflexivity.
          assert (Hu : ub r = ub b) by reflexivity.
          assert (~ CO.lt (ub b) (ub a)) by (rewrite <- cltb_iff; congruence).
          split; [split; [unfold ne; rewrite Hl, Hu; corder | split; [apply Wa | apply Wb]]|].
          intros c. unfold memr. rewrite Hl, Hu. solve_mem.
    - assert (~ CO.lt (lb a) (lb b)) by (rewrite <- cltb_iff; congruence).
      destruct (cleb (ub b) (lb a)) eqn:E4; [destruct (ceqb (ub b) (lb a)) eqn:E4'|]; cbn [negb].
      + apply cleb_iff in E4. apply ceqb_iff in E4'.
        destruct (cltb (ub b) (ub a)) eqn:E5.
        * rewrite mk_range_ok by (apply wfr_mk_ok_lo_hi; assumption).
          left. eexists. split; [reflexivity|].
          match goal with |- okr ?r0 /\ _ => set (r := r0) end.
          assert (Hl : lb r = lb b) by reflexivity.
          assert (Hu : ub r = ub a) by reflexivity.
          apply cltb_iff in E5.
          split; [split; [unfold ne; rewrite Hl, Hu; corder | split; [apply Wb | apply Wa]]|].
          intros c. unfold memr. rewrite Hl, Hu. solve_mem.
        * exfalso. assert (~ CO.lt (ub b) (ub a)) by (rewrite <- cltb_iff; congruence). corder.
      + right; right. apply cleb_iff in E4.
        assert (~ CO.eq (ub b) (lb a)) by (rewrite <- ceqb_iff; congruence).
        split; [reflexivity | corder].
      + assert (~ CO.le (ub b) (lb a)) by (rewrite <- cleb_iff; congruence).
        destruct (cltb (ub b) (ub a)) eqn:E5.
        * rewrite mk_range_ok by (apply wfr_mk_ok_lo_hi; assumption).
          left. eexists. split; [reflexivity|].
          match goal with |- okr ?r0 /\ _ => set (r := r0) end.
          assert (Hl : lb r = lb b) by reflexivity.
          assert (Hu : ub r = ub a) by reflexivity.
          apply cltb_iff in E5.
          split; [split; [unfold ne; rewrite Hl, Hu; corder | split; [apply Wb | apply Wa]]|].
          intros c. unfold memr. rewrite Hl, Hu. solve_mem.
        * exfalso. assert (~ CO.lt (ub b) (ub a)) by (rewrite <- cltb_iff; congruence).
          assert (cleb (lb b) (lb a) = true) by (apply cleb_iff; corder).
          assert (cleb (ub a) (ub b) = true) by (apply cleb_iff; corder).
          rewrite H2, H3 in E2. discriminate.
  Qed.

End RangeOr.
