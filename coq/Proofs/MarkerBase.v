(* MarkerBase.v — basic facts about the marker model: == is a congruence for
   evaluation, OrderedSet helpers, flatten, the GenericSpecifier case tables. *)
From Coq Require Import List Bool NArith Arith String Lia Permutation.
From Verif Require Import PyRes Str Marker.
Import ListNotations.

Lemma mem_str_In x l : mem_str x l = true <-> In x l.
Proof.
  induction l as [|y l IH]; cbn; [split; [discriminate|tauto]|].
  rewrite orb_true_iff, IH. destruct (str_eqb_spec x y); subst; intuition congruence.
Qed.

Lemma mem_str_app x a b : mem_str x (a ++ b) = mem_str x a || mem_str x b.
Proof. induction a as [|y a IH]; cbn; [reflexivity|]. rewrite IH, orb_assoc. reflexivity. Qed.

Lemma mem_dedup x l : forall acc, mem_str x (dedup l acc) = mem_str x acc || mem_str x l.
Proof.
  induction l as [|y l IH]; intros acc; cbn; [rewrite orb_false_r; reflexivity|].
  destruct (mem_str y acc) eqn:E; rewrite IH.
  - destruct (str_eqb_spec x y) as [->|]; cbn; [rewrite E; reflexivity | reflexivity].
  - rewrite mem_str_app. cbn. rewrite orb_false_r, orb_assoc. reflexivity.
Qed.

Lemma mem_oset x l : mem_str x (oset l) = mem_str x l.
Proof. unfold oset. rewrite mem_dedup. reflexivity. Qed.

Lemma mem_filter x (P : str -> bool) l : mem_str x (filter P l) = mem_str x l && P x.
Proof.
  induction l as [|y l IH]; cbn; [reflexivity|].
  destruct (P y) eqn:E; cbn; rewrite IH; destruct (str_eqb_spec x y) as [->|]; cbn; rewrite ?E; try reflexivity.
  destruct (mem_str y l); reflexivity.
Qed.

Lemma mem_oset_or x a b : mem_str x (oset_or a b) = mem_str x a || mem_str x b.
Proof. unfold oset_or. rewrite mem_oset, mem_str_app. reflexivity. Qed.
Lemma mem_oset_and x a b : mem_str x (oset_and a b) = mem_str x a && mem_str x b.
Proof. unfold oset_and. rewrite mem_oset, mem_filter. apply andb_comm. Qed.
Lemma mem_oset_sub x a b : mem_str x (oset_sub a b) = mem_str x a && negb (mem_str x b).
Proof. unfold oset_sub. rewrite mem_oset, mem_filter. reflexivity. Qed.

Lemma mop_eqb_eq a b : mop_eqb a b = true -> a = b.
Proof. destruct a, b; cbn; congruence. Qed.
Lemma mop_eqb_refl a : mop_eqb a a = true.
Proof. destruct a; reflexivity. Qed.

Lemma atom_eqb_eq a b : atom_eqb a b = true -> a = b.
Proof.
  destruct a, b. unfold atom_eqb. cbn. rewrite !andb_true_iff. intros [[[H1 H2] H3] H4].
  destruct (str_eqb_spec a_name a_name0); [|discriminate]. destruct (str_eqb_spec a_value a_value0); [|discriminate].
  apply mop_eqb_eq in H2. apply eqb_prop in H4. subst. reflexivity.
Qed.

Lemma set_eqb_mem a b x : set_eqb a b = true -> mem_str x a = mem_str x b.
Proof.
  unfold set_eqb. rewrite !andb_true_iff. intros [[_ H1] H2].
  rewrite forallb_forall in H1, H2.
  destruct (mem_str x a) eqn:Ea.
  - symmetry. apply H1. apply mem_str_In. exact Ea.
  - destruct (mem_str x b) eqn:Eb; [|reflexivity]. apply mem_str_In in Eb. apply H2 in Eb. congruence.
Qed.

(* == is a congruence for evaluation *)
Lemma marker_eqb_meval e : forall a b, marker_eqb a b = true -> meval e a = meval e b.
Proof.
  fix IH 1. intros a b. destruct a as [| |x|n v|n v|l|l], b as [| |y|n' v'|n' v'|l'|l']; cbn [marker_eqb]; try discriminate; try reflexivity.
  - intros H. apply atom_eqb_eq in H. subst. reflexivity.
  - rewrite andb_true_iff. intros [H1 H2]. destruct (str_eqb_spec n n'); [subst|discriminate]. cbn. apply set_eqb_mem, H2.
  - rewrite andb_true_iff. intros [H1 H2]. destruct (str_eqb_spec n n'); [subst|discriminate]. cbn. f_equal. apply set_eqb_mem, H2.
  - cbn [meval]. revert l'. induction l as [|x t IHt]; intros [|y t']; try discriminate; [reflexivity|].
    rewrite andb_true_iff. intros [H1 H2]. cbn. rewrite (IH x y H1). f_equal. apply IHt, H2.
  - cbn [meval]. revert l'. induction l as [|x t IHt]; intros [|y t']; try discriminate; [reflexivity|].
    rewrite andb_true_iff. intros [H1 H2]. cbn. rewrite (IH x y H1). f_equal. apply IHt, H2.
Qed.

Lemma mem_marker_ex x l : mem_marker x l = true -> exists y, In y l /\ marker_eqb x y = true.
Proof.
  induction l as [|y l IH]; cbn; [discriminate|]. rewrite orb_true_iff. intros [H|H].
  - exists y. auto.
  - destruct (IH H) as (z & Hz & E). exists z. auto.
Qed.

(* a member (up to ==) of a list: conjunction implies it, it implies disjunction *)
Lemma mem_marker_forallb e x l : mem_marker x l = true -> forallb (meval e) l = true -> meval e x = true.
Proof.
  intros H F. destruct (mem_marker_ex _ _ H) as (y & Hy & E). rewrite (marker_eqb_meval e _ _ E).
  rewrite forallb_forall in F. apply F, Hy.
Qed.
Lemma mem_marker_existsb e x l : mem_marker x l = true -> meval e x = true -> existsb (meval e) l = true.
Proof.
  intros H F. destruct (mem_marker_ex _ _ H) as (y & Hy & E). rewrite (marker_eqb_meval e _ _ E) in F.
  apply existsb_exists. exists y. auto.
Qed.

(* ---- flatten ---- *)
Section Flatten.
  Variable e : menv.
  Variable comb : bool -> bool -> bool.
  Variable unit : bool.
  Hypothesis comb_assoc : forall a b c, comb a (comb b c) = comb (comb a b) c.
  Hypothesis comb_comm : forall a b, comb a b = comb b a.
  Hypothesis comb_idem : forall a, comb a a = a.
  Hypothesis unit_l : forall a, comb unit a = a.

  Fixpoint sem (l : list marker) : bool := match l with [] => unit | m :: t => comb (meval e m) (sem t) end.

  Lemma sem_app a b : sem (a ++ b) = comb (sem a) (sem b).
  Proof. induction a as [|x a IH]; cbn [app sem]; [rewrite unit_l; reflexivity|]. rewrite IH. apply comb_assoc. Qed.

  Lemma sem_absorb x l : mem_marker x l = true -> comb (sem l) (meval e x) = sem l.
  Proof.
    induction l as [|y l IH]; cbn [mem_marker sem]; [discriminate|]. rewrite orb_true_iff. intros [H|H].
    - rewrite (marker_eqb_meval e _ _ H).
      rewrite (comb_comm (meval e y) (sem l)), <- comb_assoc, comb_idem. reflexivity.
    - rewrite <- comb_assoc, IH by exact H. reflexivity.
  Qed.

  Lemma sem_add_new acc sub :
    sem (fold_left (fun ac s => if mem_marker s ac then ac else ac ++ [s]) sub acc) = comb (sem acc) (sem sub).
  Proof.
    revert acc. induction sub as [|s sub IH]; intros acc; cbn [fold_left].
    - cbn [sem]. rewrite comb_comm, unit_l. reflexivity.
    - rewrite IH. destruct (mem_marker s acc) eqn:E.
      + cbn [sem]. rewrite comb_assoc, sem_absorb by exact E. reflexivity.
      + rewrite sem_app. cbn [sem]. rewrite (comb_comm (meval e s) unit), unit_l.
        rewrite <- comb_assoc. reflexivity.
  Qed.

  Variable same : marker -> option (list marker).
  Hypothesis same_sem : forall m l, same m = Some l -> meval e m = sem l.

  Lemma flatten_sem items : forall acc, sem (flatten same items acc) = comb (sem acc) (sem items).
  Proof.
    induction items as [|it rest IH]; intros acc; cbn [flatten].
    - cbn [sem]. rewrite comb_comm, unit_l. reflexivity.
    - destruct (same it) as [sub|] eqn:E.
      + rewrite IH, sem_add_new. cbn [sem]. rewrite (same_sem _ _ E), comb_assoc. reflexivity.
      + destruct (mem_marker it acc) eqn:M; rewrite IH; cbn [sem].
        * rewrite comb_assoc, sem_absorb by exact M. reflexivity.
        * rewrite sem_app. cbn [sem]. rewrite (comb_comm (meval e it) unit), unit_l, <- comb_assoc. reflexivity.
  Qed.
End Flatten.

Lemma sem_and e l : sem e andb true l = forallb (meval e) l.
Proof. induction l; cbn; congruence. Qed.
Lemma sem_or e l : sem e orb false l = existsb (meval e) l.
Proof. induction l; cbn; congruence. Qed.

Lemma mk_multi_meval e l : meval e (mk_multi l) = forallb (meval e) l.
Proof.
  unfold mk_multi. cbn [meval]. rewrite <- !sem_and.
  rewrite (flatten_sem e andb true andb_assoc andb_comm andb_diag andb_true_l sub_multi); [cbn; reflexivity|].
  intros m l' H. destruct m; try discriminate. injection H as ->. cbn. symmetry. apply sem_and.
Qed.
Lemma mk_union_meval e l : meval e (mk_union l) = existsb (meval e) l.
Proof.
  unfold mk_union. cbn [meval]. rewrite <- !sem_or.
  rewrite (flatten_sem e orb false orb_assoc orb_comm orb_diag orb_false_l sub_union); [cbn; reflexivity|].
  intros m l' H. destruct m; try discriminate. injection H as ->. cbn. symmetry. apply sem_or.
Qed.
