(* SpecEq.v — canonical values are unique: the generated `==` (dataclass equality,
   AnySpecifier.__eq__, EmptySpecifier.__eq__, reflected dispatch) holds exactly when
   two canonical specifiers have the same members; is_empty()/is_any() are exact. *)
From Coq Require Import List Bool Orders OrdersFacts Lia.
From Verif Require Import PyRes Order Cuts Str SpecTypes GenSpec SpecSem RangeBridge UnionBase.
Import ListNotations.

Module SpecEq (V : OrderedTypeFull').
  Module UB := UnionBase V.
  Export UB.

  (* positions: every cut except PosInf *)
  Definition pos (c : cut) : Prop := CO.lt c PosInf.
  Definition sem_eq (a b : spec) : Prop := forall c, pos c -> mem c a = mem c b.

  Lemma pos_neginf : pos NegInf.
  Proof. apply CO.lt_iff. reflexivity. Qed.

  Lemma pos_of_lt c d : CO.lt c d -> pos c.
  Proof. intros H. unfold pos. pose proof (le_posinf d). corder. Qed.

  Lemma veqb_iff x y : veqb x y = true <-> V.eq x y.
  Proof. destruct (veqb_spec x y); intuition congruence. Qed.

  Lemma ceq_C x s y s' : CO.eq (C x s : cut) (C y s') <-> V.eq x y /\ s = s'.
  Proof.
    rewrite CO.eq_iff. cbn. destruct (V.compare_spec x y) as [E|E|E].
    - destruct s, s'; cbn; split; try (intros [_ H]; discriminate H); try discriminate; auto.
    - split; [discriminate|]. intros [H _]. exfalso. vorder.
    - split; [discriminate|]. intros [H _]. exfalso. vorder.
  Qed.

  Lemma range_eqb_bounds a b :
    wfr a -> wfr b -> (range_eqb a b = true <-> CO.eq (lb a) (lb b) /\ CO.eq (ub a) (ub b)).
  Proof.
    intros [Wa1 Wa2] [Wb1 Wb2].
    destruct a as [[x|] [x'|] ia ja sa], b as [[y|] [y'|] ib jb sb]; unfold range_eqb, lb, ub; cbn in *;
      try rewrite (Wa1 eq_refl) in *; try rewrite (Wa2 eq_refl) in *;
      try rewrite (Wb1 eq_refl) in *; try rewrite (Wb2 eq_refl) in *;
      rewrite ?andb_true_iff, ?veqb_iff, ?ceq_C, ?eqb_true_iff, ?CO.eq_iff; cbn;
      try (destruct ia, ib, ja, jb; cbn; intuition congruence).
  Qed.

  Lemma memr_eq_bounds a b c :
    CO.eq (lb a) (lb b) -> CO.eq (ub a) (ub b) -> memr c a = memr c b.
  Proof. intros H1 H2. unfold memr. cbool; try reflexivity; exfalso; corder. Qed.

  Lemma mems_above_ub r l c : chain (Some (ub r)) l -> mems c l = true -> CO.lt (ub r) c.
  Proof. intros H M. exact (chain_mems_above _ _ _ H M). Qed.

  Lemma chain_head_le lo b l c : chain lo (b :: l) -> mems c (b :: l) = true -> CO.le (lb b) c.
  Proof.
    intros H M. apply chain_cons in H as (_ & [Nb _] & Hl). unfold ne in Nb.
    rewrite mems_cons in M. apply orb_true_iff in M as [M|M].
    - apply memr_true in M. tauto.
    - pose proof (mems_above_ub _ _ _ Hl M). corder.
  Qed.

  Lemma mems_false_below r l c : chain (Some (ub r)) l -> CO.le c (ub r) -> mems c l = false.
  Proof.
    intros H Hc. destruct (mems c l) eqn:M; [|reflexivity].
    pose proof (mems_above_ub _ _ _ H M). exfalso. corder.
  Qed.

  (* heads of two chains with the same members have equivalent bounds *)
  Lemma heads_eq lo lo' r1 l1 r2 l2 :
    chain lo (r1 :: l1) -> chain lo' (r2 :: l2) ->
    (forall c, pos c -> mems c (r1 :: l1) = mems c (r2 :: l2)) ->
    CO.eq (lb r1) (lb r2) /\ CO.eq (ub r1) (ub r2).
  Proof.
    intros H1 H2 S.
    pose proof H1 as H1'. pose proof H2 as H2'.
    apply chain_cons in H1 as (_ & [N1 W1] & T1). apply chain_cons in H2 as (_ & [N2 W2] & T2).
    unfold ne in N1, N2.
    assert (L12 : CO.le (lb r2) (lb r1)).
    { eapply chain_head_le; [exact H2'|]. rewrite <- S by (eapply pos_of_lt; exact N1).
      rewrite mems_cons, memr_lb by exact N1. reflexivity. }
    assert (L21 : CO.le (lb r1) (lb r2)).
    { eapply chain_head_le; [exact H1'|]. rewrite S by (eapply pos_of_lt; exact N2).
      rewrite mems_cons, memr_lb by exact N2. reflexivity. }
    split; [corder|].
    destruct (CO.compare_spec (ub r1) (ub r2)) as [E|E|E]; [exact E| |]; exfalso.
    - (* ub r1 < ub r2: the cut ub r1 is in r2 but not in l1 *)
      assert (P : pos (ub r1)) by (eapply pos_of_lt; exact E).
      specialize (S _ P). rewrite !mems_cons in S.
      assert (M2 : memr (ub r1) r2 = true) by (apply memr_true; split; corder).
      rewrite M2 in S. cbn [orb] in S.
      assert (M1 : memr (ub r1) r1 = false).
      { destruct (memr (ub r1) r1) eqn:M; [|reflexivity]. apply memr_true in M as [_ M]. exfalso. corder. }
      rewrite M1, (mems_false_below r1 l1) in S; [discriminate|exact T1|corder].
    - assert (P : pos (ub r2)) by (eapply pos_of_lt; exact E).
      specialize (S _ P). rewrite !mems_cons in S.
      assert (M1 : memr (ub r2) r1 = true) by (apply memr_true; split; corder).
      rewrite M1 in S. cbn [orb] in S.
      assert (M2 : memr (ub r2) r2 = false).
      { destruct (memr (ub r2) r2) eqn:M; [|reflexivity]. apply memr_true in M as [_ M]. exfalso. corder. }
      rewrite M2, (mems_false_below r2 l2) in S; [discriminate|exact T2|corder].
  Qed.

  Lemma chain_unique l1 : forall l2 lo lo',
    chain lo l1 -> chain lo' l2 -> (forall c, pos c -> mems c l1 = mems c l2) -> ranges_eqb l1 l2 = true.
  Proof.
    induction l1 as [|r1 l1 IH]; intros [|r2 l2] lo lo' H1 H2 S.
    - reflexivity.
    - exfalso. apply chain_cons in H2 as (_ & [N2 _] & _). unfold ne in N2.
      specialize (S (lb r2) (pos_of_lt _ _ N2)). rewrite mems_cons, memr_lb in S by exact N2. discriminate.
    - exfalso. apply chain_cons in H1 as (_ & [N1 _] & _). unfold ne in N1.
      specialize (S (lb r1) (pos_of_lt _ _ N1)). rewrite mems_cons, memr_lb in S by exact N1. discriminate.
    - destruct (heads_eq _ _ _ _ _ _ H1 H2 S) as [EL EU].
      apply chain_cons in H1 as (_ & [N1 W1] & T1). apply chain_cons in H2 as (_ & [N2 W2] & T2).
      cbn [ranges_eqb]. apply andb_true_iff. split.
      + apply range_eqb_bounds; auto.
      + apply (IH l2 _ _ T1 T2). intros c P.
        destruct (CB.vleb_spec c (ub r1)) as [Hle|Hgt].
        * rewrite (mems_false_below r1 l1 c T1 Hle). symmetry. apply (mems_false_below r2 l2 c T2). corder.
        * specialize (S c P). rewrite !mems_cons in S.
          assert (M1 : memr c r1 = false).
          { destruct (memr c r1) eqn:M; [|reflexivity]. apply memr_true in M as [_ M]. exfalso. corder. }
          assert (M2 : memr c r2 = false).
          { destruct (memr c r2) eqn:M; [|reflexivity]. apply memr_true in M as [_ M]. exfalso. corder. }
          rewrite M1, M2 in S. exact S.
  Qed.

  Lemma ranges_eqb_sem l1 : forall l2, Forall wfr l1 -> Forall wfr l2 ->
    ranges_eqb l1 l2 = true -> forall c, mems c l1 = mems c l2.
  Proof.
    induction l1 as [|r1 l1 IH]; intros [|r2 l2] F1 F2 E c; cbn [ranges_eqb] in E; try discriminate; [reflexivity|].
    apply andb_true_iff in E as [E1 E2]. inversion F1; inversion F2; subst.
    apply range_eqb_bounds in E1 as [EL EU]; auto.
    rewrite !mems_cons, (memr_eq_bounds r1 r2 c EL EU), (IH l2); auto.
  Qed.

  Lemma chain_Forall_wfr lo l : chain lo l -> Forall wfr l.
  Proof.
    revert lo; induction l as [|r l IH]; intros lo H; constructor.
    - apply chain_cons in H. apply H.
    - apply chain_cons in H. eapply IH. apply H.
  Qed.

  (* a union of >= 2 separated ranges has a hole inside its hull *)
  Lemma union_hole r1 r2 l lo :
    chain lo (r1 :: r2 :: l) ->
    pos (ub r1) /\ mems (ub r1) (r1 :: r2 :: l) = false /\ CO.lt (lb r1) (ub r1) /\ CO.lt (ub r1) (lb r2).
  Proof.
    intros H. apply chain_cons in H as (_ & [N1 _] & T). pose proof T as T'.
    apply chain_cons in T as (G & [N2 _] & _). cbn [above] in G. unfold ne in *.
    split; [eapply pos_of_lt; exact G|]. split; [|split; assumption].
    rewrite mems_cons. rewrite (mems_false_below r1 (r2 :: l) (ub r1) T') by corder.
    destruct (memr (ub r1) r1) eqn:M; [|reflexivity]. apply memr_true in M as [_ M]. exfalso. corder.
  Qed.

  Lemma is_any_sem r : okr r -> (ceqb (lb r) NegInf && ceqb (ub r) PosInf = true <-> forall c, pos c -> memr c r = true).
  Proof.
    intros [N W]. unfold ne in N. rewrite andb_true_iff, !ceqb_iff. split.
    - intros [E1 E2] c P. apply memr_true. unfold pos in P. pose proof (neginf_le c). split; corder.
    - intros S. split.
      + specialize (S NegInf pos_neginf). apply memr_true in S as [S _]. pose proof (neginf_le (lb r)). corder.
      + destruct (CO.compare_spec (ub r) PosInf) as [E|E|E]; [exact E| |exfalso; eapply not_posinf_lt; exact E].
        specialize (S (ub r) E). apply memr_true in S as [_ S]. exfalso. corder.
  Qed.

  Theorem spec_eq_spec a b :
    canon a -> canon b ->
    exists r, spec_eq a b = Ret r /\ (r = true <-> sem_eq a b).
  Proof.
    intros Ca Cb. unfold spec_eq, spec_eq_m, sem_eq.
    destruct a as [| |ra|xa|?|?]; try contradiction; destruct b as [| |rb|xb|?|?]; try contradiction;
      cbn [empty_eq any_eq range_eq union_eq is_SEmpty spec_is_any any_is_any mem].
    - exists true. split; [reflexivity|]. tauto.
    - exists false. split; [reflexivity|]. split; [discriminate|]. intros S. specialize (S NegInf pos_neginf). discriminate.
    - exists false. split; [reflexivity|]. split; [discriminate|]. intros S.
      destruct Cb as [N _]. specialize (S _ (pos_of_lt _ _ N)). rewrite memr_lb in S by exact N. discriminate.
    - exists false. split; [reflexivity|]. split; [discriminate|]. intros S.
      destruct Cb as [Hlen Cb]. destruct (uranges xb) as [|r1 l] eqn:E; [cbn in Hlen; lia|].
      apply chain_cons in Cb as (_ & [N _] & _).
      specialize (S _ (pos_of_lt _ _ N)). cbn [mems existsb] in S. rewrite memr_lb in S by exact N. discriminate.
    - exists false. split; [reflexivity|]. split; [discriminate|]. intros S. specialize (S NegInf pos_neginf). discriminate.
    - exists true. split; [reflexivity|]. tauto.
    - rewrite is_any_spec by apply Cb. eexists. split; [reflexivity|].
      rewrite (is_any_sem rb Cb). split; intros S c P; specialize (S c P); congruence.
    - exists false. split; [reflexivity|]. split; [discriminate|]. intros S. exfalso.
      destruct Cb as [Hlen Cb]. destruct (uranges xb) as [|r1 [|r2 l]] eqn:E; try (cbn in Hlen; lia).
      destruct (union_hole _ _ _ None Cb) as (P & M & _). specialize (S _ P). first [congruence | discriminate (eq_trans S M) | discriminate (eq_trans (eq_sym S) M)].
    - exists false. split; [reflexivity|]. split; [discriminate|]. intros S.
      destruct Ca as [N _]. specialize (S _ (pos_of_lt _ _ N)). rewrite memr_lb in S by exact N. discriminate.
    - rewrite is_any_spec by apply Ca. eexists. split; [reflexivity|].
      rewrite (is_any_sem ra Ca). split; intros S c P; specialize (S c P); congruence.
    - eexists. split; [reflexivity|]. destruct Ca as [Na Wa], Cb as [Nb Wb].
      rewrite (range_eqb_bounds ra rb Wa Wb). split.
      + intros [EL EU] c _. apply memr_eq_bounds; assumption.
      + intros S.
        assert (H1 : chain None [ra]) by (apply chain_cons; split; [exact I|]; split; [split; assumption|exact I]).
        assert (H2 : chain None [rb]) by (apply chain_cons; split; [exact I|]; split; [split; assumption|exact I]).
        apply (heads_eq None None ra [] rb [] H1 H2).
        intros c P. cbn. rewrite !orb_false_r. apply S, P.
    - exists false. split; [reflexivity|]. split; [discriminate|]. intros S. exfalso.
      destruct Cb as [Hlen Cb]. destruct (uranges xb) as [|r1 [|r2 l]] eqn:E; try (cbn in Hlen; lia).
      destruct (union_hole _ _ _ None Cb) as (P & M & L1 & L2).
      pose proof Cb as Cb'. apply chain_cons in Cb' as (_ & [N1 _] & T). apply chain_cons in T as (_ & [N2 _] & _).
      unfold ne in *.
      assert (A1 : memr (lb r1) ra = true).
      { rewrite S by (eapply pos_of_lt; exact N1). rewrite mems_cons, memr_lb by exact N1. reflexivity. }
      assert (A2 : memr (lb r2) ra = true).
      { rewrite S by (eapply pos_of_lt; exact N2). rewrite !mems_cons, (memr_lb r2) by exact N2.
        rewrite orb_true_r. reflexivity. }
      apply memr_true in A1 as [A1 _]. apply memr_true in A2 as [_ A2].
      assert (A3 : memr (ub r1) ra = true) by (apply memr_true; split; corder).
      first [rewrite (S _ P) in A3; congruence | discriminate (eq_trans (eq_sym A3) (eq_trans (S _ P) M))].
    - exists false. split; [reflexivity|]. split; [discriminate|]. intros S.
      destruct Ca as [Hlen Ca]. destruct (uranges xa) as [|r1 l] eqn:E; [cbn in Hlen; lia|].
      apply chain_cons in Ca as (_ & [N _] & _).
      specialize (S _ (pos_of_lt _ _ N)). cbn [mems existsb] in S. rewrite memr_lb in S by exact N. discriminate.
    - exists false. split; [reflexivity|]. split; [discriminate|]. intros S. exfalso.
      destruct Ca as [Hlen Ca]. destruct (uranges xa) as [|r1 [|r2 l]] eqn:E; try (cbn in Hlen; lia).
      destruct (union_hole _ _ _ None Ca) as (P & M & _). specialize (S _ P). first [congruence | discriminate (eq_trans S M) | discriminate (eq_trans (eq_sym S) M)].
    - exists false. split; [reflexivity|]. split; [discriminate|]. intros S. exfalso.
      destruct Ca as [Hlen Ca]. destruct (uranges xa) as [|r1 [|r2 l]] eqn:E; try (cbn in Hlen; lia).
      destruct (union_hole _ _ _ None Ca) as (P & M & L1 & L2).
      pose proof Ca as Ca'. apply chain_cons in Ca' as (_ & [N1 _] & T). apply chain_cons in T as (_ & [N2 _] & _).
      unfold ne in *.
      assert (A1 : memr (lb r1) rb = true).
      { rewrite <- S by (eapply pos_of_lt; exact N1). rewrite mems_cons, memr_lb by exact N1. reflexivity. }
      assert (A2 : memr (lb r2) rb = true).
      { rewrite <- S by (eapply pos_of_lt; exact N2). rewrite !mems_cons, (memr_lb r2) by exact N2.
        rewrite orb_true_r. reflexivity. }
      apply memr_true in A1 as [A1 _]. apply memr_true in A2 as [_ A2].
      assert (A3 : memr (ub r1) rb = true) by (apply memr_true; split; corder).
      first [rewrite <- (S _ P) in A3; congruence | discriminate (eq_trans (eq_sym A3) (eq_trans (eq_sym (S _ P)) M))].
    - eexists. split; [reflexivity|]. destruct Ca as [_ Ca], Cb as [_ Cb]. unfold union_eqb. split.
      + intros E c _. apply ranges_eqb_sem; auto; eapply chain_Forall_wfr; eauto.
      + intros S. eapply chain_unique; eauto.
  Qed.

  Theorem is_empty_spec s :
    canon s -> exists r, spec_is_empty s = Ret r /\ (r = true <-> forall c, pos c -> mem c s = false).
  Proof.
    intros Cs. destruct s as [| |r|u|?|?]; try contradiction; cbn.
    - exists true. split; [reflexivity|]. tauto.
    - exists false. split; [reflexivity|]. split; [discriminate|]. intros S. specialize (S NegInf pos_neginf). discriminate.
    - exists false. split; [reflexivity|]. split; [discriminate|]. intros S.
      destruct Cs as [N _]. specialize (S _ (pos_of_lt _ _ N)). rewrite memr_lb in S by exact N. discriminate.
    - exists false. split; [reflexivity|]. split; [discriminate|]. intros S.
      destruct Cs as [Hlen Cs]. destruct (uranges u) as [|r1 l] eqn:E; [cbn in Hlen; lia|].
      apply chain_cons in Cs as (_ & [N _] & _).
      specialize (S _ (pos_of_lt _ _ N)). cbn [mems existsb] in S. rewrite memr_lb in S by exact N. discriminate.
  Qed.

  Theorem is_any_spec' s :
    canon s -> exists r, spec_is_any s = Ret r /\ (r = true <-> forall c, pos c -> mem c s = true).
  Proof.
    intros Cs. destruct s as [| |r|u|?|?]; try contradiction; cbn [spec_is_any any_is_any mem].
    - exists false. split; [reflexivity|]. split; [discriminate|]. intros S. specialize (S NegInf pos_neginf). discriminate.
    - exists true. split; [reflexivity|]. tauto.
    - rewrite is_any_spec by apply Cs. eexists. split; [reflexivity|]. apply is_any_sem, Cs.
    - exists false. split; [reflexivity|]. split; [discriminate|]. intros S. exfalso.
      destruct Cs as [Hlen Cs]. destruct (uranges u) as [|r1 [|r2 l]] eqn:E; try (cbn in Hlen; lia).
      destruct (union_hole _ _ _ None Cs) as (P & M & _). specialize (S _ P). first [congruence | discriminate (eq_trans S M) | discriminate (eq_trans (eq_sym S) M)].
  Qed.
End SpecEq.
