(* MarkerSound.v — the marker normaliser preserves meaning: for every fuel, every set
   iteration order, and every sound version-atom merge oracle, each function of the
   mutually recursive group (mand, mor, multi_of, union_of, union_simplify,
   intersect_simplify, cnf, dnf, munion) that returns a value returns one that is
   well-formed and evaluates as the conjunction / disjunction of its inputs. *)
From Coq Require Import List Bool NArith Arith String Lia Permutation.
From Verif Require Import PyRes Str Marker MarkerBase MarkerSingle MarkerOf.
Import ListNotations.

(* ---- list facts ---- *)
Lemma mapM_spec {A B} (f : A -> pyres B) l : forall rs, mapM f l = Ret rs -> Forall2 (fun x r => f x = Ret r) l rs.
Proof.
  induction l as [|x l IH]; cbn; intros rs H; [injection H as <-; constructor|].
  destruct (f x) as [y| |] eqn:E; try discriminate. cbn [bind] in H.
  destruct (mapM f l) as [ys| |]; try discriminate. cbn [bind] in H. injection H as <-. constructor; auto.
Qed.

Lemma forallb_map_cons (P : marker -> bool) x (L : list (list marker)) :
  forallb (existsb P) (map (fun t => x :: t) L) = P x || forallb (existsb P) L.
Proof. induction L as [|t L IHL]; cbn; [rewrite orb_true_r; reflexivity|]. rewrite IHL. destruct (P x); cbn; reflexivity. Qed.
Lemma existsb_map_cons (P : marker -> bool) x (L : list (list marker)) :
  existsb (forallb P) (map (fun t => x :: t) L) = P x && existsb (forallb P) L.
Proof. induction L as [|t L IHL]; cbn; [rewrite andb_false_r; reflexivity|]. rewrite IHL. destruct (P x); cbn; reflexivity. Qed.

Lemma nprod_cnf (P : marker -> bool) ls : forallb (existsb P) (nprod ls) = existsb (forallb P) ls.
Proof.
  induction ls as [|l rest IH]; [reflexivity|]. cbn [nprod existsb].
  rewrite <- IH. generalize (nprod rest). intros L.
  induction l as [|x l IHl]; cbn [flat_map forallb]; [reflexivity|].
  rewrite forallb_app, IHl, forallb_map_cons.
  destruct (P x), (forallb P l), (forallb (existsb P) L); reflexivity.
Qed.
Lemma nprod_dnf (P : marker -> bool) ls : existsb (forallb P) (nprod ls) = forallb (existsb P) ls.
Proof.
  induction ls as [|l rest IH]; [reflexivity|]. cbn [nprod forallb].
  rewrite <- IH. generalize (nprod rest). intros L.
  induction l as [|x l IHl]; cbn [flat_map existsb]; [reflexivity|].
  rewrite existsb_app, IHl, existsb_map_cons.
  destruct (P x), (existsb P l), (existsb (forallb P) L); reflexivity.
Qed.

(* == on markers is reflexive and symmetric *)
Lemma set_eqb_refl a : set_eqb a a = true.
Proof.
  unfold set_eqb. rewrite Nat.eqb_refl. cbn.
  assert (H : forallb (fun x => mem_str x a) a = true) by (apply forallb_forall; intros x Hx; apply mem_str_In, Hx).
  rewrite H. reflexivity.
Qed.
Lemma set_eqb_sym a b : set_eqb a b = set_eqb b a.
Proof. unfold set_eqb. rewrite (Nat.eqb_sym (List.length a)). destruct (Nat.eqb _ _); cbn; [apply andb_comm | reflexivity]. Qed.
Lemma atom_eqb_refl a : atom_eqb a a = true.
Proof. unfold atom_eqb. rewrite !str_eqb_refl, mop_eqb_refl, eqb_reflx. reflexivity. Qed.
Lemma atom_eqb_sym a b : atom_eqb a b = atom_eqb b a.
Proof.
  destruct (atom_eqb a b) eqn:E.
  - apply atom_eqb_eq in E. subst. symmetry. apply atom_eqb_refl.
  - destruct (atom_eqb b a) eqn:E'; [|reflexivity]. apply atom_eqb_eq in E'. subst. rewrite atom_eqb_refl in E. discriminate.
Qed.
Lemma marker_eqb_refl : forall a, marker_eqb a a = true.
Proof.
  fix IH 1. intros [| |x|n v|n v|l|l]; cbn [marker_eqb]; try reflexivity.
  - apply atom_eqb_refl.
  - rewrite str_eqb_refl, set_eqb_refl. reflexivity.
  - rewrite str_eqb_refl, set_eqb_refl. reflexivity.
  - induction l as [|x t IHt]; [reflexivity|]. rewrite IH, IHt. reflexivity.
  - induction l as [|x t IHt]; [reflexivity|]. rewrite IH, IHt. reflexivity.
Qed.
Lemma str_eqb_sym a b : str_eqb a b = str_eqb b a.
Proof. destruct (str_eqb_spec a b), (str_eqb_spec b a); congruence. Qed.
Lemma marker_eqb_sym : forall a b, marker_eqb a b = marker_eqb b a.
Proof.
  fix IH 1. intros a b. destruct a as [| |x|n v|n v|l|l], b as [| |y|n' v'|n' v'|l'|l']; cbn [marker_eqb]; try reflexivity.
  - apply atom_eqb_sym.
  - rewrite str_eqb_sym, set_eqb_sym. reflexivity.
  - rewrite str_eqb_sym, set_eqb_sym. reflexivity.
  - revert l'. induction l as [|x t IHt]; intros [|y t']; try reflexivity. rewrite IH, IHt. reflexivity.
  - revert l'. induction l as [|x t IHt]; intros [|y t']; try reflexivity. rewrite IH, IHt. reflexivity.
Qed.

Lemma mem_marker_In x l : In x l -> mem_marker x l = true.
Proof. induction l as [|y l IH]; cbn; [tauto|]. intros [->|H]; [rewrite marker_eqb_refl; reflexivity | rewrite IH by exact H; apply orb_true_r]. Qed.

(* inclusion up to == transfers conjunctions / disjunctions *)
Lemma incl_forallb e a b : (forall x, In x a -> mem_marker x b = true) -> forallb (meval e) b = true -> forallb (meval e) a = true.
Proof. intros H F. apply forallb_forall. intros x Hx. eapply mem_marker_forallb; [apply H, Hx | exact F]. Qed.
Lemma incl_existsb e a b : (forall x, In x a -> mem_marker x b = true) -> existsb (meval e) a = true -> existsb (meval e) b = true.
Proof. intros H F. apply existsb_exists in F as (x & Hx & Ex). eapply mem_marker_existsb; [apply H, Hx | exact Ex]. Qed.
Lemma subset_spec a b : subset a b = true -> forall x, In x a -> mem_marker x b = true.
Proof. unfold subset. rewrite forallb_forall. auto. Qed.

Lemma flatten_none_In l : forall acc x, In x (flatten (fun _ => None) l acc) -> In x acc \/ In x l.
Proof.
  induction l as [|y l IH]; intros acc x H; cbn [flatten] in H; [tauto|].
  destruct (mem_marker y acc); apply IH in H; [|rewrite in_app_iff in H; cbn in H]; cbn; tauto.
Qed.

Lemma set_of_In l x : In x (set_of l) -> In x l.
Proof. unfold set_of. intros H. apply flatten_none_In in H. cbn in H. tauto. Qed.

Lemma semk_set_of k e l : semk k e (set_of l) = semk k e l.
Proof.
  unfold set_of. rewrite !semk_sem. destruct k; cbn [bop].
  - rewrite (flatten_sem e andb true andb_assoc andb_comm andb_diag andb_true_l (fun _ => None)); [reflexivity | discriminate].
  - rewrite (flatten_sem e orb false orb_assoc orb_comm orb_diag orb_false_l (fun _ => None)); [reflexivity | discriminate].
Qed.
Lemma wf_set_of l : forallb wf l = true -> forallb wf (set_of l) = true.
Proof. intros H. apply forallb_forall. intros x Hx. rewrite forallb_forall in H. apply H, set_of_In, Hx. Qed.

Lemma semk_partition k e (P : marker -> bool) l :
  semk k e l = bop k (semk k e (filter P l)) (semk k e (filter (fun x => negb (P x)) l)).
Proof.
  destruct k; cbn [semk bop]; induction l as [|x l IH]; cbn [filter forallb existsb]; try reflexivity;
    destruct (P x); cbn [negb forallb existsb]; rewrite IH.
  - rewrite andb_assoc. reflexivity.
  - rewrite !andb_assoc, (andb_comm (meval e x)). reflexivity.
  - rewrite orb_assoc. reflexivity.
  - rewrite !orb_assoc, (orb_comm (meval e x)). reflexivity.
Qed.
Lemma semk_perm k e l l' : Permutation l l' -> semk k e l = semk k e l'.
Proof.
  induction 1; try reflexivity.
  - rewrite !semk_cons, IHPermutation. reflexivity.
  - rewrite !semk_cons. destruct k; cbn; destruct (meval e x), (meval e y); reflexivity.
  - congruence.
Qed.
Lemma wf_perm l l' : Permutation l l' -> forallb wf l = true -> forallb wf l' = true.
Proof. intros HP H. rewrite forallb_forall in *. intros x Hx. apply H. eapply Permutation_in; [symmetry; exact HP | exact Hx]. Qed.
Lemma wf_filter (P : marker -> bool) l : forallb wf l = true -> forallb wf (filter P l) = true.
Proof. intros H. rewrite forallb_forall in *. intros x Hx. apply filter_In in Hx. apply H, Hx. Qed.

(* every element of a has a semantically equal element in b *)
Definition simin (e : menv) (a b : list marker) : Prop := forall x, In x a -> exists y, In y b /\ meval e x = meval e y.

Lemma semk_equiv k e a b : simin e a b -> simin e b a -> semk k e a = semk k e b.
Proof.
  intros H1 H2. destruct k; cbn.
  - destruct (forallb (meval e) a) eqn:A, (forallb (meval e) b) eqn:B; try reflexivity.
    + assert (forallb (meval e) b = true); [|congruence]. apply forallb_forall. intros y Hy. destruct (H2 y Hy) as (x & Hx & E).
      rewrite E. rewrite forallb_forall in A. apply A, Hx.
    + assert (forallb (meval e) a = true); [|congruence]. apply forallb_forall. intros x Hx. destruct (H1 x Hx) as (y & Hy & E).
      rewrite E. rewrite forallb_forall in B. apply B, Hy.
  - destruct (existsb (meval e) a) eqn:A, (existsb (meval e) b) eqn:B; try reflexivity.
    + apply existsb_exists in A as (x & Hx & Ex). destruct (H1 x Hx) as (y & Hy & E).
      assert (existsb (meval e) b = true); [|congruence]. apply existsb_exists. exists y. split; [exact Hy | congruence].
    + apply existsb_exists in B as (y & Hy & Ey). destruct (H2 y Hy) as (x & Hx & E).
      assert (existsb (meval e) a = true); [|congruence]. apply existsb_exists. exists x. split; [exact Hx | congruence].
Qed.

Lemma mem_marker_sim e x l : mem_marker x l = true -> exists y, In y l /\ meval e x = meval e y.
Proof. intros H. destruct (mem_marker_ex _ _ H) as (y & Hy & E). exists y. split; [exact Hy | apply marker_eqb_meval, E]. Qed.

(* the set manipulations of union_simplify / intersect_simplify *)
Section Sets.
  Variable k : bool.          (* true: members are conjuncts (union_simplify) ; false: disjuncts (intersect_simplify) *)
  Variable e : menv.
  Variables ours theirs : list marker.
  Let our := set_of ours.
  Let their := set_of theirs.
  Let shared := filter (fun x => mem_marker x their) our.
  Let unique := filter (fun x => negb (mem_marker x their)) our.
  Let other_unique := filter (fun x => negb (mem_marker x our)) their.
  Let common := filter (fun m => mem_marker m shared) ours.

  Lemma shared_common : semk k e shared = semk k e common.
  Proof.
    apply semk_equiv.
    - intros y Hy. exists y. split; [|reflexivity]. unfold common. apply filter_In. split.
      + unfold shared in Hy. apply filter_In in Hy as [Hy _]. apply set_of_In, Hy.
      + apply mem_marker_In, Hy.
    - intros x Hx. unfold common in Hx. apply filter_In in Hx as [_ Hx]. apply mem_marker_sim, Hx.
  Qed.

  Lemma ours_split : semk k e ours = bop k (semk k e unique) (semk k e common).
  Proof.
    rewrite <- (semk_set_of k e ours). fold our.
    rewrite (semk_partition k e (fun x => mem_marker x their) our). fold shared unique.
    rewrite shared_common. destruct k; cbn; [apply andb_comm | apply orb_comm].
  Qed.

  Lemma theirs_split : semk k e theirs = bop k (semk k e other_unique) (semk k e common).
  Proof.
    rewrite <- (semk_set_of k e theirs). fold their.
    rewrite (semk_partition k e (fun x => mem_marker x our) their). fold other_unique.
    assert (E : semk k e (filter (fun x => mem_marker x our) their) = semk k e shared).
    { apply semk_equiv.
      - (* y in their, == some x in our: that x is shared *)
        intros y Hy. apply filter_In in Hy as [Hy1 Hy2]. destruct (mem_marker_ex _ _ Hy2) as (x & Hx & Eyx).
        exists x. split; [|apply marker_eqb_meval, Eyx]. unfold shared. apply filter_In. split; [exact Hx|].
        clear -Hy1 Eyx. induction their as [|t tl IH]; [destruct Hy1|]. cbn.
        destruct Hy1 as [->|H]; [rewrite marker_eqb_sym, Eyx; reflexivity | rewrite IH by exact H; apply orb_true_r].
      - (* s shared: s in our, == some y in their; that y passes the filter *)
        intros s Hs. unfold shared in Hs. apply filter_In in Hs as [Hs1 Hs2]. destruct (mem_marker_ex _ _ Hs2) as (y & Hy & Esy).
        exists y. split; [|apply marker_eqb_meval, Esy]. apply filter_In. split; [exact Hy|].
        clear -Hs1 Esy. induction our as [|t tl IH]; [destruct Hs1|]. cbn.
        destruct Hs1 as [->|H]; [rewrite marker_eqb_sym, Esy; reflexivity | rewrite IH by exact H; apply orb_true_r]. }
    rewrite E, shared_common. destruct k; cbn; [apply andb_comm | apply orb_comm].
  Qed.
End Sets.

Lemma nprod_wf ls : (forall l, In l ls -> forallb wf l = true) -> forall c, In c (nprod ls) -> forallb wf c = true.
Proof.
  induction ls as [|l rest IH]; intros H c Hc; cbn [nprod] in Hc.
  - destruct Hc as [<-|[]]. reflexivity.
  - apply in_flat_map in Hc as (x & Hx & Hc). apply in_map_iff in Hc as (t & <- & Ht).
    cbn. rewrite (IH (fun l' Hl' => H l' (or_intror Hl')) t Ht), andb_true_r.
    specialize (H l (or_introl eq_refl)). rewrite forallb_forall in H. apply H, Hx.
Qed.

Section Sound.
  Variable vmerge : bool -> atom -> atom -> option marker.
  Variable vcontains : atom -> str -> bool.
  Variable perm : list marker -> list marker.
  Variable good : menv -> Prop.
  Hypothesis vmerge_sound : forall k a b r, vmerge k a b = Some r ->
    wf r = true /\ forall e, good e -> meval e r = bop k (atom_eval e a) (atom_eval e b).
  Hypothesis perm_perm : forall l, Permutation (perm l) l.

  Definition sound2 (k : bool) (f : marker -> marker -> pyres marker) : Prop :=
    forall a b r, f a b = Ret r -> wf a = true -> wf b = true ->
      wf r = true /\ forall e, good e -> meval e r = bop k (meval e a) (meval e b).
  Definition soundL (k : bool) (f : list marker -> pyres marker) : Prop :=
    forall l r, f l = Ret r -> forallb wf l = true -> wf r = true /\ forall e, good e -> meval e r = semk k e l.
  Definition soundS (k : bool) (f : marker -> marker -> pyres (option marker)) : Prop :=
    forall s o r, f s o = Ret (Some r) -> wf s = true -> wf o = true ->
      wf r = true /\ forall e, good e -> meval e r = bop k (meval e s) (meval e o).
  Definition sound1 (f : marker -> pyres marker) : Prop :=
    forall m r, f m = Ret r -> wf m = true -> wf r = true /\ forall e, good e -> meval e r = meval e m.

  Notation Mand := (mand vmerge vcontains perm).
  Notation Mor := (mor vmerge vcontains perm).
  Notation MultiOf := (multi_of vmerge vcontains perm).
  Notation UnionOf := (union_of vmerge vcontains perm).
  Notation USimp := (union_simplify vmerge vcontains perm).
  Notation ISimp := (intersect_simplify vmerge vcontains perm).
  Notation Cnf := (cnf vmerge vcontains perm).
  Notation Dnf := (dnf vmerge vcontains perm).
  Notation MUnionF := (munion vmerge vcontains perm).

  Definition P (n : nat) : Prop :=
    sound2 true (Mand n) /\ sound2 false (Mor n) /\ soundL true (MultiOf n) /\ soundL false (UnionOf n)
    /\ soundS false (USimp n) /\ soundS true (ISimp n) /\ sound1 (Cnf n) /\ sound1 (Dnf n) /\ soundL false (MUnionF n).

  (* mapM of a meaning-preserving function *)
  Lemma mapM_sound1 f l rs : sound1 f -> mapM f l = Ret rs -> forallb wf l = true ->
    forallb wf rs = true /\ forall e, good e -> map (meval e) rs = map (meval e) l.
  Proof.
    intros Hf H W. apply mapM_spec in H. induction H as [|x r l rs Hx Hl IH]; [split; reflexivity|].
    cbn in W. apply andb_prop in W as [Wx Wl]. destruct (Hf x r Hx Wx) as [Wr Mr]. destruct (IH Wl) as [Wrs Mrs].
    split; [cbn; rewrite Wr, Wrs; reflexivity|]. intros e G. cbn. rewrite (Mr e G), (Mrs e G). reflexivity.
  Qed.
  Lemma semk_map k e a b : map (meval e) a = map (meval e) b -> semk k e a = semk k e b.
  Proof.
    revert b. induction a as [|x a IH]; intros [|y b] H; try discriminate; [reflexivity|].
    injection H as H1 H2. rewrite !semk_cons, H1, (IH b H2). reflexivity.
  Qed.
  (* mapM of a list-combining function over a list of lists *)
  Lemma mapM_soundL k f (cs : list (list marker)) us : soundL k f -> mapM f cs = Ret us ->
    (forall c, In c cs -> forallb wf c = true) ->
    forallb wf us = true /\ forall e, good e -> map (meval e) us = map (semk k e) cs.
  Proof.
    intros Hf H W. apply mapM_spec in H. induction H as [|c u cs us Hc Hl IH]; [split; reflexivity|].
    destruct (Hf c u Hc (W c (or_introl eq_refl))) as [Wu Mu]. destruct (IH (fun c' Hc' => W c' (or_intror Hc'))) as [Wus Mus].
    split; [cbn; rewrite Wu, Wus; reflexivity|]. intros e G. cbn. rewrite (Mu e G), (Mus e G). reflexivity.
  Qed.

  Definition clauses (k : bool) (c : marker) : list marker :=
    if k then match c with MMulti x => x | _ => [c] end else match c with MUnion x => x | _ => [c] end.
  Lemma clauses_sem k e c : semk k e (clauses k c) = meval e c.
  Proof. destruct k, c; cbn; rewrite ?andb_true_r, ?orb_false_r; reflexivity. Qed.
  Lemma clauses_wf k c : wf c = true -> forallb wf (clauses k c) = true.
  Proof. destruct k, c; cbn [clauses forallb]; intros H; rewrite ?H; try reflexivity; try (rewrite wf_multi in H; exact H); try (rewrite wf_union in H; exact H). Qed.

  Lemma unwrap_sound n m :
    (fix unwrap (k : nat) (m : marker) : marker :=
       match k with O => m | S k' => match m with MMulti [x] | MUnion [x] => unwrap k' x | _ => m end end) n m = m
    \/ True.
  Proof. right. exact I. Qed.

  (* unfolding equations of the mutual block, with the recursive calls folded back *)
  Lemma usimp_unfold f self other : USimp (S f) self other =
    match self with
    | MMulti ours =>
        if mem_marker other ours then Ret (Some other)
        else match other with
             | MMulti theirs =>
                 let our := set_of ours in let their := set_of theirs in
                 if subset our their then Ret (Some self)
                 else if subset their our then Ret (Some other)
                 else
                   let shared := filter (fun x => mem_marker x their) our in
                   match shared with
                   | [] => Ret None
                   | _ =>
                       let unique := perm (filter (fun x => negb (mem_marker x their)) our) in
                       let other_unique := perm (filter (fun x => negb (mem_marker x our)) their) in
                       uu <- Mor f (mk_multi unique) (mk_multi other_unique) ;;
                       if is_single uu || is_any uu then
                         let common := filter (fun m => mem_marker m shared) ours in
                         r <- Mand f uu (mk_multi common) ;; Ret (Some r)
                       else Ret None
                   end
             | _ => Ret None
             end
    | _ => Raise AttributeError
    end.
  Proof. reflexivity. Qed.
  Lemma isimp_unfold f self other : ISimp (S f) self other =
    match self with
    | MUnion ours =>
        if mem_marker other ours then Ret (Some other)
        else match other with
             | MUnion theirs =>
                 let our := set_of ours in let their := set_of theirs in
                 if subset our their then Ret (Some self)
                 else if subset their our then Ret (Some other)
                 else
                   let shared := filter (fun x => mem_marker x their) our in
                   match shared with
                   | [] => Ret None
                   | _ =>
                       let unique := perm (filter (fun x => negb (mem_marker x their)) our) in
                       let other_unique := perm (filter (fun x => negb (mem_marker x our)) their) in
                       ui <- Mand f (mk_union unique) (mk_union other_unique) ;;
                       if is_single ui || is_empty ui then
                         let common := filter (fun m => mem_marker m shared) ours in
                         r <- Mor f ui (mk_union common) ;; Ret (Some r)
                       else Ret None
                   end
             | _ => Ret None
             end
    | _ => Raise AttributeError
    end.
  Proof. reflexivity. Qed.
  Lemma cnf_unfold f m : Cnf (S f) m =
    match m with
    | MUnion l =>
        cs <- mapM (Cnf f) l ;;
        let lists := map (fun c => match c with MMulti x => x | _ => [c] end) cs in
        us <- mapM (UnionOf f) (nprod lists) ;;
        MultiOf f us
    | MMulti l => cs <- mapM (Cnf f) l ;; MultiOf f cs
    | _ => Ret m
    end.
  Proof. reflexivity. Qed.
  Lemma dnf_unfold f m : Dnf (S f) m =
    match m with
    | MMulti l =>
        ds <- mapM (Dnf f) l ;;
        let lists := map (fun d => match d with MUnion x => x | _ => [d] end) ds in
        ms <- mapM (MultiOf f) (nprod lists) ;;
        UnionOf f ms
    | MUnion l => ds <- mapM (Dnf f) l ;; UnionOf f ds
    | _ => Ret m
    end.
  Proof. reflexivity. Qed.
  Definition unwrap1 := (fix unwrap (k : nat) (m : marker) : marker :=
             match k with
             | O => m
             | S k' => match m with MMulti [x] | MUnion [x] => unwrap k' x | _ => m end
             end).
  Lemma munion_unfold f markers : MUnionF (S f) markers =
    (let raw := mk_union (filter (fun m => negb (is_empty m)) markers) in
     let unnormalized := unwrap1 (S f) raw in
     conj <- Cnf f unnormalized ;;
     if negb (is_multi conj) then Ret conj
     else
       disj <- Dnf f conj ;;
       if negb (is_union disj) then Ret disj
       else
         let best := if pair_ltb (complexity conj) (complexity disj) then conj else disj in
         Ret (if pair_ltb (complexity unnormalized) (complexity best) then unnormalized else best)).
  Proof. reflexivity. Qed.

  Theorem all_sound : forall n, P n.
  Proof.
    induction n as [|f IH].
    { repeat split; repeat intro; match goal with H0 : _ = Ret _ |- _ => cbn in H0; discriminate H0 end. }
    destruct IH as (Hand & Hor & Hmul & Huni & Hus & His & Hcnf & Hdnf & Hmun).
    assert (Hand' : sound2 true (Mand (S f))).
    { intros a b r H Wa Wb. cbn [mand] in H.
      destruct a as [| |x|n vs|n vs|l|l].
      - injection H as <-. split; [exact Wb|]. reflexivity.
      - injection H as <-. split; reflexivity.
      - destruct (single_and_l vmerge vcontains (MAtom x) b) as [r'|] eqn:E.
        + injection H as <-. exact (single_and_l_sound vmerge vcontains good vmerge_sound _ _ _ E Wa Wb).
        + destruct (same_cls (MAtom x) b); [discriminate|].
          destruct b as [| |y|n' vs'|n' vs'|l'|l'].
          * injection H as <-. split; [exact Wa|]. intros e _. cbn. rewrite andb_true_r. reflexivity.
          * injection H as <-. split; [reflexivity|]. intros e _. cbn. rewrite andb_false_r. reflexivity.
          * discriminate.
          * destruct (single_and_r vcontains (MEqU n' vs') (MAtom x)) as [r'|] eqn:E'; [|discriminate]. injection H as <-.
            exact (single_and_r_sound vcontains good _ _ _ E' Wa Wb).
          * destruct (single_and_r vcontains (MNeM n' vs') (MAtom x)) as [r'|] eqn:E'; [|discriminate]. injection H as <-.
            exact (single_and_r_sound vcontains good _ _ _ E' Wa Wb).
          * destruct (Hdnf _ _ H) as [W M]; [apply wf_mk_multi; cbn [forallb]; rewrite Wa, Wb; reflexivity|].
            split; [exact W|]. intros e G. rewrite (M e G), mk_multi_meval. cbn. rewrite andb_true_r. apply andb_comm.
          * destruct (Hdnf _ _ H) as [W M]; [apply wf_mk_multi; cbn [forallb]; rewrite Wa, Wb; reflexivity|].
            split; [exact W|]. intros e G. rewrite (M e G), mk_multi_meval. cbn. rewrite andb_true_r. apply andb_comm.
      - destruct (single_and_l vmerge vcontains (MEqU n vs) b) as [r'|] eqn:E.
        + injection H as <-. exact (single_and_l_sound vmerge vcontains good vmerge_sound _ _ _ E Wa Wb).
        + destruct (same_cls (MEqU n vs) b); [discriminate|].
          destruct b as [| |y|n' vs'|n' vs'|l'|l'].
          * injection H as <-. split; [exact Wa|]. intros e _. cbn. rewrite andb_true_r. reflexivity.
          * injection H as <-. split; [reflexivity|]. intros e _. cbn. rewrite andb_false_r. reflexivity.
          * discriminate.
          * destruct (single_and_r vcontains (MEqU n' vs') (MEqU n vs)) as [r'|] eqn:E'; [|discriminate]. injection H as <-.
            exact (single_and_r_sound vcontains good _ _ _ E' Wa Wb).
          * destruct (single_and_r vcontains (MNeM n' vs') (MEqU n vs)) as [r'|] eqn:E'; [|discriminate]. injection H as <-.
            exact (single_and_r_sound vcontains good _ _ _ E' Wa Wb).
          * destruct (Hdnf _ _ H) as [W M]; [apply wf_mk_multi; cbn [forallb]; rewrite Wa, Wb; reflexivity|].
            split; [exact W|]. intros e G. rewrite (M e G), mk_multi_meval. cbn. rewrite andb_true_r. apply andb_comm.
          * destruct (Hdnf _ _ H) as [W M]; [apply wf_mk_multi; cbn [forallb]; rewrite Wa, Wb; reflexivity|].
            split; [exact W|]. intros e G. rewrite (M e G), mk_multi_meval. cbn. rewrite andb_true_r. apply andb_comm.
      - destruct (single_and_l vmerge vcontains (MNeM n vs) b) as [r'|] eqn:E.
        + injection H as <-. exact (single_and_l_sound vmerge vcontains good vmerge_sound _ _ _ E Wa Wb).
        + destruct (same_cls (MNeM n vs) b); [discriminate|].
          destruct b as [| |y|n' vs'|n' vs'|l'|l'].
          * injection H as <-. split; [exact Wa|]. intros e _. cbn. rewrite andb_true_r. reflexivity.
          * injection H as <-. split; [reflexivity|]. intros e _. cbn. rewrite andb_false_r. reflexivity.
          * discriminate.
          * destruct (single_and_r vcontains (MEqU n' vs') (MNeM n vs)) as [r'|] eqn:E'; [|discriminate]. injection H as <-.
            exact (single_and_r_sound vcontains good _ _ _ E' Wa Wb).
          * destruct (single_and_r vcontains (MNeM n' vs') (MNeM n vs)) as [r'|] eqn:E'; [|discriminate]. injection H as <-.
            exact (single_and_r_sound vcontains good _ _ _ E' Wa Wb).
          * destruct (Hdnf _ _ H) as [W M]; [apply wf_mk_multi; cbn [forallb]; rewrite Wa, Wb; reflexivity|].
            split; [exact W|]. intros e G. rewrite (M e G), mk_multi_meval. cbn. rewrite andb_true_r. apply andb_comm.
          * destruct (Hdnf _ _ H) as [W M]; [apply wf_mk_multi; cbn [forallb]; rewrite Wa, Wb; reflexivity|].
            split; [exact W|]. intros e G. rewrite (M e G), mk_multi_meval. cbn. rewrite andb_true_r. apply andb_comm.
      - destruct (Hdnf _ _ H) as [W M]; [apply wf_mk_multi; cbn [forallb]; rewrite Wa, Wb; reflexivity|].
        split; [exact W|]. intros e G. rewrite (M e G), mk_multi_meval. cbn [forallb]. rewrite andb_true_r. reflexivity.
      - destruct (Hdnf _ _ H) as [W M]; [apply wf_mk_multi; cbn [forallb]; rewrite Wa, Wb; reflexivity|].
        split; [exact W|]. intros e G. rewrite (M e G), mk_multi_meval. cbn [forallb]. rewrite andb_true_r. reflexivity. }
    assert (Hor' : sound2 false (Mor (S f))).
    { intros a b r H Wa Wb. cbn [mor] in H.
      assert (HU : forall x y, wf x = true -> wf y = true -> MUnionF f [x; y] = Ret r ->
                   wf r = true /\ forall e, good e -> meval e r = meval e x || meval e y).
      { intros x y Wx Wy E. destruct (Hmun _ _ E) as [W M]; [cbn [forallb]; rewrite Wx, Wy; reflexivity|].
        split; [exact W|]. intros e G. rewrite (M e G). cbn. rewrite orb_false_r. reflexivity. }
      destruct a as [| |x|n vs|n vs|l|l].
      - injection H as <-. split; reflexivity.
      - injection H as <-. split; [exact Wb|]. reflexivity.
      - destruct (single_or_l vmerge vcontains (MAtom x) b) as [r'|] eqn:E.
        + injection H as <-. exact (single_or_l_sound vmerge vcontains good vmerge_sound _ _ _ E Wa Wb).
        + destruct (same_cls (MAtom x) b); [discriminate|].
          destruct b as [| |y|n' vs'|n' vs'|l'|l'].
          * injection H as <-. split; [reflexivity|]. intros e _. cbn. rewrite orb_true_r. reflexivity.
          * injection H as <-. split; [exact Wa|]. intros e _. cbn. rewrite orb_false_r. reflexivity.
          * discriminate.
          * destruct (single_or_r vcontains (MEqU n' vs') (MAtom x)) as [r'|] eqn:E'; [|discriminate]. injection H as <-.
            exact (single_or_r_sound vcontains good _ _ _ E' Wa Wb).
          * destruct (single_or_r vcontains (MNeM n' vs') (MAtom x)) as [r'|] eqn:E'; [|discriminate]. injection H as <-.
            exact (single_or_r_sound vcontains good _ _ _ E' Wa Wb).
          * destruct (HU _ _ Wb Wa H) as [W M]. split; [exact W|]. intros e G. rewrite (M e G). apply orb_comm.
          * destruct (HU _ _ Wb Wa H) as [W M]. split; [exact W|]. intros e G. rewrite (M e G). apply orb_comm.
      - destruct (single_or_l vmerge vcontains (MEqU n vs) b) as [r'|] eqn:E.
        + injection H as <-. exact (single_or_l_sound vmerge vcontains good vmerge_sound _ _ _ E Wa Wb).
        + destruct (same_cls (MEqU n vs) b); [discriminate|].
          destruct b as [| |y|n' vs'|n' vs'|l'|l'].
          * injection H as <-. split; [reflexivity|]. intros e _. cbn. rewrite orb_true_r. reflexivity.
          * injection H as <-. split; [exact Wa|]. intros e _. cbn. rewrite orb_false_r. reflexivity.
          * discriminate.
          * destruct (single_or_r vcontains (MEqU n' vs') (MEqU n vs)) as [r'|] eqn:E'; [|discriminate]. injection H as <-.
            exact (single_or_r_sound vcontains good _ _ _ E' Wa Wb).
          * destruct (single_or_r vcontains (MNeM n' vs') (MEqU n vs)) as [r'|] eqn:E'; [|discriminate]. injection H as <-.
            exact (single_or_r_sound vcontains good _ _ _ E' Wa Wb).
          * destruct (HU _ _ Wb Wa H) as [W M]. split; [exact W|]. intros e G. rewrite (M e G). apply orb_comm.
          * destruct (HU _ _ Wb Wa H) as [W M]. split; [exact W|]. intros e G. rewrite (M e G). apply orb_comm.
      - destruct (single_or_l vmerge vcontains (MNeM n vs) b) as [r'|] eqn:E.
        + injection H as <-. exact (single_or_l_sound vmerge vcontains good vmerge_sound _ _ _ E Wa Wb).
        + destruct (same_cls (MNeM n vs) b); [discriminate|].
          destruct b as [| |y|n' vs'|n' vs'|l'|l'].
          * injection H as <-. split; [reflexivity|]. intros e _. cbn. rewrite orb_true_r. reflexivity.
          * injection H as <-. split; [exact Wa|]. intros e _. cbn. rewrite orb_false_r. reflexivity.
          * discriminate.
          * destruct (single_or_r vcontains (MEqU n' vs') (MNeM n vs)) as [r'|] eqn:E'; [|discriminate]. injection H as <-.
            exact (single_or_r_sound vcontains good _ _ _ E' Wa Wb).
          * destruct (single_or_r vcontains (MNeM n' vs') (MNeM n vs)) as [r'|] eqn:E'; [|discriminate]. injection H as <-.
            exact (single_or_r_sound vcontains good _ _ _ E' Wa Wb).
          * destruct (HU _ _ Wb Wa H) as [W M]. split; [exact W|]. intros e G. rewrite (M e G). apply orb_comm.
          * destruct (HU _ _ Wb Wa H) as [W M]. split; [exact W|]. intros e G. rewrite (M e G). apply orb_comm.
      - exact (HU _ _ Wa Wb H).
      - exact (HU _ _ Wa Wb H). }
    assert (Hmul' : soundL true (MultiOf (S f))).
    { intros l r H W. cbn [multi_of] in H.
      refine (of_body_sound good true is_empty is_any MEmpty MAny sub_multi mk_multi is_union (Mand f) (ISimp f) _ _ _ _ _ _ _ _ (S f) l r H W).
      - intros m Hm e. destruct m; try discriminate. reflexivity.
      - split; reflexivity.
      - intros m Hm e. destruct m; try discriminate. reflexivity.
      - split; reflexivity.
      - intros m l' E. destruct m; try discriminate. injection E as ->. split; [reflexivity|]. intros Wm. rewrite wf_multi in Wm. exact Wm.
      - intros l'. split; [intros e; apply mk_multi_meval | apply wf_mk_multi].
      - exact Hand.
      - exact His. }
    assert (Huni' : soundL false (UnionOf (S f))).
    { intros l r H W. cbn [union_of] in H.
      refine (of_body_sound good false is_any is_empty MAny MEmpty sub_union mk_union is_multi (Mor f) (USimp f) _ _ _ _ _ _ _ _ (S f) l r H W).
      - intros m Hm e. destruct m; try discriminate. reflexivity.
      - split; reflexivity.
      - intros m Hm e. destruct m; try discriminate. reflexivity.
      - split; reflexivity.
      - intros m l' E. destruct m; try discriminate. injection E as ->. split; [reflexivity|]. intros Wm. rewrite wf_union in Wm. exact Wm.
      - intros l'. split; [intros e; apply mk_union_meval | apply wf_mk_union].
      - exact Hor.
      - exact Hus. }
    assert (Hus' : soundS false (USimp (S f))).
    { intros s o r H Ws Wo. rewrite usimp_unfold in H. cbv zeta in H.
      destruct s as [| |?|?|?|ours|?]; try discriminate.
      rewrite wf_multi in Ws.
      destruct (mem_marker o ours) eqn:Mo.
      { injection H as <-. split; [exact Wo|]. intros e _. cbn [bop meval].
        destruct (forallb (meval e) ours) eqn:F; [|reflexivity]. cbn. eapply mem_marker_forallb; eauto. }
      destruct o as [| |?|?|?|theirs|?]; try discriminate.
      rewrite wf_multi in Wo.
      destruct (subset (set_of ours) (set_of theirs)) eqn:S1.
      { injection H as <-. split; [rewrite wf_multi; exact Ws|]. intros e _. cbn [bop meval].
        destruct (forallb (meval e) theirs) eqn:F; [|rewrite orb_false_r; reflexivity]. rewrite orb_true_r.
        pose proof (semk_set_of true e theirs) as E1. pose proof (semk_set_of true e ours) as E2. cbn in E1, E2.
        rewrite <- E2. apply (incl_forallb e _ _ (subset_spec _ _ S1)). rewrite E1. exact F. }
      destruct (subset (set_of theirs) (set_of ours)) eqn:S2.
      { injection H as <-. split; [rewrite wf_multi; exact Wo|]. intros e _. cbn [bop meval].
        destruct (forallb (meval e) ours) eqn:F; [|reflexivity]. cbn.
        pose proof (semk_set_of true e theirs) as E1. pose proof (semk_set_of true e ours) as E2. cbn in E1, E2.
        rewrite <- E1. apply (incl_forallb e _ _ (subset_spec _ _ S2)). rewrite E2. exact F. }
      destruct (filter (fun x => mem_marker x (set_of theirs)) (set_of ours)) as [|s0 sh] eqn:Esh; [discriminate|].
      rewrite <- Esh in H. clear s0 sh Esh.
      set (unique := filter (fun x => negb (mem_marker x (set_of theirs))) (set_of ours)) in *.
      set (other_unique := filter (fun x => negb (mem_marker x (set_of ours))) (set_of theirs)) in *.
      set (common := filter (fun m => mem_marker m (filter (fun x => mem_marker x (set_of theirs)) (set_of ours))) ours) in *.
      destruct (Mor f (mk_multi (perm unique)) (mk_multi (perm other_unique))) as [uu| |] eqn:Euu; try discriminate. cbn [bind] in H.
      assert (Wu : forallb wf (perm unique) = true) by (eapply wf_perm; [symmetry; apply perm_perm | apply wf_filter, wf_set_of, Ws]).
      assert (Wou : forallb wf (perm other_unique) = true) by (eapply wf_perm; [symmetry; apply perm_perm | apply wf_filter, wf_set_of, Wo]).
      destruct (Hor _ _ _ Euu (wf_mk_multi _ Wu) (wf_mk_multi _ Wou)) as [Wuu Muu].
      destruct (is_single uu || is_any uu); [|discriminate].
      destruct (Mand f uu (mk_multi common)) as [r'| |] eqn:Er; try discriminate. cbn [bind] in H. injection H as <-.
      assert (Wc : forallb wf common = true) by (apply wf_filter, Ws).
      destruct (Hand _ _ _ Er Wuu (wf_mk_multi _ Wc)) as [Wr Mr].
      split; [exact Wr|]. intros e G. rewrite (Mr e G), (Muu e G), !mk_multi_meval. cbn [bop meval].
      pose proof (ours_split true e ours theirs) as O1. pose proof (theirs_split true e ours theirs) as O2. cbn [semk bop] in O1, O2.
      fold unique other_unique common in O1, O2. rewrite O1, O2.
      pose proof (semk_perm true e _ _ (perm_perm unique)) as P1. pose proof (semk_perm true e _ _ (perm_perm other_unique)) as P2. cbn [semk] in P1, P2.
      rewrite P1, P2.
      destruct (forallb (meval e) unique), (forallb (meval e) other_unique), (forallb (meval e) common); reflexivity. }
    assert (His' : soundS true (ISimp (S f))).
    { intros s o r H Ws Wo. rewrite isimp_unfold in H. cbv zeta in H.
      destruct s as [| |?|?|?|?|ours]; try discriminate.
      rewrite wf_union in Ws.
      destruct (mem_marker o ours) eqn:Mo.
      { injection H as <-. split; [exact Wo|]. intros e _. cbn [bop meval].
        destruct (meval e o) eqn:F; [|rewrite andb_false_r; reflexivity]. rewrite andb_true_r. symmetry. eapply mem_marker_existsb; eauto. }
      destruct o as [| |?|?|?|?|theirs]; try discriminate.
      rewrite wf_union in Wo.
      destruct (subset (set_of ours) (set_of theirs)) eqn:S1.
      { injection H as <-. split; [rewrite wf_union; exact Ws|]. intros e _. cbn [bop meval].
        destruct (existsb (meval e) ours) eqn:F; [|reflexivity]. cbn.
        pose proof (semk_set_of false e theirs) as E1. pose proof (semk_set_of false e ours) as E2. cbn in E1, E2.
        rewrite <- E1. symmetry. apply (incl_existsb e _ _ (subset_spec _ _ S1)). rewrite E2. exact F. }
      destruct (subset (set_of theirs) (set_of ours)) eqn:S2.
      { injection H as <-. split; [rewrite wf_union; exact Wo|]. intros e _. cbn [bop meval].
        destruct (existsb (meval e) theirs) eqn:F; [|rewrite andb_false_r; reflexivity]. rewrite andb_true_r.
        pose proof (semk_set_of false e theirs) as E1. pose proof (semk_set_of false e ours) as E2. cbn in E1, E2.
        rewrite <- E2. symmetry. apply (incl_existsb e _ _ (subset_spec _ _ S2)). rewrite E1. exact F. }
      destruct (filter (fun x => mem_marker x (set_of theirs)) (set_of ours)) as [|s0 sh] eqn:Esh; [discriminate|].
      rewrite <- Esh in H. clear s0 sh Esh.
      set (unique := filter (fun x => negb (mem_marker x (set_of theirs))) (set_of ours)) in *.
      set (other_unique := filter (fun x => negb (mem_marker x (set_of ours))) (set_of theirs)) in *.
      set (common := filter (fun m => mem_marker m (filter (fun x => mem_marker x (set_of theirs)) (set_of ours))) ours) in *.
      destruct (Mand f (mk_union (perm unique)) (mk_union (perm other_unique))) as [ui| |] eqn:Eui; try discriminate. cbn [bind] in H.
      assert (Wu : forallb wf (perm unique) = true) by (eapply wf_perm; [symmetry; apply perm_perm | apply wf_filter, wf_set_of, Ws]).
      assert (Wou : forallb wf (perm other_unique) = true) by (eapply wf_perm; [symmetry; apply perm_perm | apply wf_filter, wf_set_of, Wo]).
      destruct (Hand _ _ _ Eui (wf_mk_union _ Wu) (wf_mk_union _ Wou)) as [Wui Mui].
      destruct (is_single ui || is_empty ui); [|discriminate].
      destruct (Mor f ui (mk_union common)) as [r'| |] eqn:Er; try discriminate. cbn [bind] in H. injection H as <-.
      assert (Wc : forallb wf common = true) by (apply wf_filter, Ws).
      destruct (Hor _ _ _ Er Wui (wf_mk_union _ Wc)) as [Wr Mr].
      split; [exact Wr|]. intros e G. rewrite (Mr e G), (Mui e G), !mk_union_meval. cbn [bop meval].
      pose proof (ours_split false e ours theirs) as O1. pose proof (theirs_split false e ours theirs) as O2. cbn [semk bop] in O1, O2.
      fold unique other_unique common in O1, O2. rewrite O1, O2.
      pose proof (semk_perm false e _ _ (perm_perm unique)) as P1. pose proof (semk_perm false e _ _ (perm_perm other_unique)) as P2. cbn [semk] in P1, P2.
      rewrite P1, P2.
      destruct (existsb (meval e) unique), (existsb (meval e) other_unique), (existsb (meval e) common); reflexivity. }
    assert (Hcnf' : sound1 (Cnf (S f))).
    { intros m r H Wm. rewrite cnf_unfold in H. destruct m as [| |?|?|?|l|l]; try (injection H as <-; split; [exact Wm | reflexivity]).
      - rewrite wf_multi in Wm.
        destruct (mapM (Cnf f) l) as [cs| |] eqn:Ecs; try discriminate. cbn [bind] in H.
        destruct (mapM_sound1 _ _ _ Hcnf Ecs Wm) as [Wcs Mcs].
        destruct (Hmul _ _ H Wcs) as [Wr Mr]. split; [exact Wr|]. intros e G. rewrite (Mr e G). cbn [meval semk].
        apply (semk_map true e). apply Mcs, G.
      - rewrite wf_union in Wm.
        destruct (mapM (Cnf f) l) as [cs| |] eqn:Ecs; try discriminate. cbn [bind] in H.
        destruct (mapM_sound1 _ _ _ Hcnf Ecs Wm) as [Wcs Mcs].
        set (lists := map (fun c => match c with MMulti x => x | _ => [c] end) cs) in *.
        assert (Hl : lists = map (clauses true) cs) by reflexivity.
        destruct (mapM (UnionOf f) (nprod lists)) as [us| |] eqn:Eus; try discriminate. cbn [bind] in H.
        assert (Wl : forall c, In c (nprod lists) -> forallb wf c = true).
        { apply nprod_wf. intros l' Hl'. rewrite Hl in Hl'. apply in_map_iff in Hl' as (c & <- & Hc). apply clauses_wf.
          rewrite forallb_forall in Wcs. apply Wcs, Hc. }
        destruct (mapM_soundL false _ _ _ Huni Eus Wl) as [Wus Mus].
        destruct (Hmul _ _ H Wus) as [Wr Mr]. split; [exact Wr|]. intros e G. rewrite (Mr e G). cbn [meval semk].
        assert (E1 : forallb (meval e) us = forallb (existsb (meval e)) (nprod lists)).
        { specialize (Mus e G). clear -Mus. revert Mus. generalize (nprod lists). induction us as [|u us IHu]; intros [|c cs'] M; try discriminate; [reflexivity|].
          injection M as M1 M2. cbn. rewrite M1, (IHu _ M2). reflexivity. }
        rewrite E1, nprod_cnf, Hl.
        assert (E2 : existsb (forallb (meval e)) (map (clauses true) cs) = existsb (meval e) cs).
        { clear. induction cs as [|c cs IHc]; [reflexivity|]. cbn [map existsb]. rewrite IHc. f_equal. apply (clauses_sem true e c). }
        rewrite E2. apply (semk_map false e). apply Mcs, G. }
    assert (Hdnf' : sound1 (Dnf (S f))).
    { intros m r H Wm. rewrite dnf_unfold in H. destruct m as [| |?|?|?|l|l]; try (injection H as <-; split; [exact Wm | reflexivity]).
      - rewrite wf_multi in Wm.
        destruct (mapM (Dnf f) l) as [ds| |] eqn:Eds; try discriminate. cbn [bind] in H.
        destruct (mapM_sound1 _ _ _ Hdnf Eds Wm) as [Wds Mds].
        set (lists := map (fun d => match d with MUnion x => x | _ => [d] end) ds) in *.
        assert (Hl : lists = map (clauses false) ds) by reflexivity.
        destruct (mapM (MultiOf f) (nprod lists)) as [ms| |] eqn:Ems; try discriminate. cbn [bind] in H.
        assert (Wl : forall c, In c (nprod lists) -> forallb wf c = true).
        { apply nprod_wf. intros l' Hl'. rewrite Hl in Hl'. apply in_map_iff in Hl' as (c & <- & Hc). apply clauses_wf.
          rewrite forallb_forall in Wds. apply Wds, Hc. }
        destruct (mapM_soundL true _ _ _ Hmul Ems Wl) as [Wms Mms].
        destruct (Huni _ _ H Wms) as [Wr Mr]. split; [exact Wr|]. intros e G. rewrite (Mr e G). cbn [meval semk].
        assert (E1 : existsb (meval e) ms = existsb (forallb (meval e)) (nprod lists)).
        { specialize (Mms e G). clear -Mms. revert Mms. generalize (nprod lists). induction ms as [|u us IHu]; intros [|c cs'] M; try discriminate; [reflexivity|].
          injection M as M1 M2. cbn. rewrite M1, (IHu _ M2). reflexivity. }
        rewrite E1, nprod_dnf, Hl.
        assert (E2 : forallb (existsb (meval e)) (map (clauses false) ds) = forallb (meval e) ds).
        { clear. induction ds as [|c cs IHc]; [reflexivity|]. cbn [map forallb]. rewrite IHc. f_equal. apply (clauses_sem false e c). }
        rewrite E2. apply (semk_map true e). apply Mds, G.
      - rewrite wf_union in Wm.
        destruct (mapM (Dnf f) l) as [ds| |] eqn:Eds; try discriminate. cbn [bind] in H.
        destruct (mapM_sound1 _ _ _ Hdnf Eds Wm) as [Wds Mds].
        destruct (Huni _ _ H Wds) as [Wr Mr]. split; [exact Wr|]. intros e G. rewrite (Mr e G). cbn [meval semk].
        apply (semk_map false e). apply Mds, G. }
    assert (Hmun' : soundL false (MUnionF (S f))).
    { intros l r H W. rewrite munion_unfold in H. cbv zeta in H.
      set (raw := mk_union (filter (fun m => negb (is_empty m)) l)) in *.
      assert (Wraw : wf raw = true) by (apply wf_mk_union, wf_filter, W).
      assert (Mraw : forall e, meval e raw = existsb (meval e) l).
      { intros e. unfold raw. rewrite mk_union_meval. clear. induction l as [|x l IHl]; [reflexivity|].
        cbn [filter]. destruct x; cbn [is_empty negb existsb meval]; rewrite <- ?IHl; reflexivity. }
      set (un := unwrap1 (S f) raw) in *.
      assert (Hun : wf un = true /\ forall e, meval e un = meval e raw).
      { unfold un. clear H. generalize (S f). intros k. revert Wraw. generalize raw. clear. induction k as [|k IHk]; intros m Wm; cbn [unwrap1]; [split; [exact Wm | reflexivity]|].
        destruct m as [| |?|?|?|[|x [|y t]]|[|x [|y t]]]; try (split; [exact Wm | reflexivity]).
        - rewrite wf_multi in Wm. cbn in Wm. apply andb_prop in Wm as [Wx _]. destruct (IHk x Wx) as [W M]. split; [exact W|].
          intros e. rewrite M. cbn. rewrite andb_true_r. reflexivity.
        - rewrite wf_union in Wm. cbn in Wm. apply andb_prop in Wm as [Wx _]. destruct (IHk x Wx) as [W M]. split; [exact W|].
          intros e. rewrite M. cbn. rewrite orb_false_r. reflexivity. }
      destruct Hun as [Wun Mun].
      destruct (Cnf f un) as [conj| |] eqn:Ec; try discriminate. cbn [bind] in H.
      destruct (Hcnf _ _ Ec Wun) as [Wc Mc].
      destruct (is_multi conj); cbn [negb] in H.
      - destruct (Dnf f conj) as [disj| |] eqn:Ed; try discriminate. cbn [bind] in H.
        destruct (Hdnf _ _ Ed Wc) as [Wd Md].
        destruct (is_union disj); cbn [negb] in H.
        + injection H as <-.
          destruct (pair_ltb (complexity un) (complexity (if pair_ltb (complexity conj) (complexity disj) then conj else disj))).
          * split; [exact Wun|]. intros e G. cbn [semk]. rewrite Mun, Mraw. reflexivity.
          * destruct (pair_ltb (complexity conj) (complexity disj)).
            -- split; [exact Wc|]. intros e G. cbn [semk]. rewrite (Mc e G), Mun, Mraw. reflexivity.
            -- split; [exact Wd|]. intros e G. cbn [semk]. rewrite (Md e G), (Mc e G), Mun, Mraw. reflexivity.
        + injection H as <-. split; [exact Wd|]. intros e G. cbn [semk]. rewrite (Md e G), (Mc e G), Mun, Mraw. reflexivity.
      - injection H as <-. split; [exact Wc|]. intros e G. cbn [semk]. rewrite (Mc e G), Mun, Mraw. reflexivity. }
    exact (conj Hand' (conj Hor' (conj Hmul' (conj Huni' (conj Hus' (conj His' (conj Hcnf' (conj Hdnf' Hmun')))))))).
  Qed.
End Sound.
