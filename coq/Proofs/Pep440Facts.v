(* Pep440Facts.v — the PEP 440 key order in terms of (epoch, zero-padded release, suffix):
   comparing two versions compares the epochs, then the releases as if padded with zeros
   to a common length, then the pre/post/dev part.  Everything the parse/render proofs
   need about concrete versions goes through `vcompare_decomp`. *)
From Coq Require Import List Bool ZArith NArith Arith Lia.
From Verif Require Import Pep440.
Import ListNotations.
Local Open Scope N_scope.

Fixpoint cmp_pad (a b : list N) : comparison :=
  match a, b with
  | [], _ => if all_zero b then Eq else Lt
  | _, [] => if all_zero a then Eq else Gt
  | x :: a', y :: b' => match N.compare x y with Eq => cmp_pad a' b' | c => c end
  end.

Definition suffix (v : version) : list Z := [pre_rank v; pre_n v; post_rank v; post_n v; dev_rank v; dev_n v].

Lemma all_zero_cons x l : all_zero (x :: l) = (0 =? x) && all_zero l.
Proof. reflexivity. Qed.
Lemma all_zero_nil : all_zero [] = true.
Proof. reflexivity. Qed.
Lemma all_zero_cons_true x l : all_zero (x :: l) = true -> x = 0 /\ all_zero l = true.
Proof. rewrite all_zero_cons. intros H. apply andb_prop in H as [Hx Hl]. apply N.eqb_eq in Hx. split; [symmetry; exact Hx | exact Hl]. Qed.
Lemma all_zero_app a b : all_zero (a ++ b) = all_zero a && all_zero b.
Proof. apply forallb_app. Qed.
Lemma all_zero_rev l : all_zero (rev l) = all_zero l.
Proof.
  induction l as [|x l IH]; [reflexivity|]. cbn [rev]. rewrite all_zero_app, IH, !all_zero_cons, all_zero_nil, andb_true_r. apply andb_comm.
Qed.

(* ---- strip_zeros without rev ---- *)
Lemma drop_zeros_app m x : drop_zeros (m ++ [x]) = if all_zero m then drop_zeros [x] else drop_zeros m ++ [x].
Proof.
  induction m as [|y m IH]; [reflexivity|]. rewrite all_zero_cons. cbn [app drop_zeros].
  destruct y; cbn [N.eqb andb]; [exact IH | reflexivity].
Qed.
Lemma drop_zeros_nil_iff m : drop_zeros m = [] <-> all_zero m = true.
Proof.
  induction m as [|y m IH]; [cbn; tauto|]. rewrite all_zero_cons. cbn [drop_zeros]. destruct y; cbn [N.eqb andb]; [exact IH|].
  split; discriminate.
Qed.
Lemma strip_nil_iff l : strip_zeros l = [] <-> all_zero l = true.
Proof.
  unfold strip_zeros. rewrite <- all_zero_rev, <- drop_zeros_nil_iff.
  split; intros H; [apply (f_equal (@rev N)) in H; rewrite rev_involutive in H; exact H | rewrite H; reflexivity].
Qed.
Lemma strip_cons x l : strip_zeros (x :: l) = if all_zero (x :: l) then [] else x :: strip_zeros l.
Proof.
  destruct (all_zero (x :: l)) eqn:E; [apply strip_nil_iff; exact E|].
  unfold strip_zeros. cbn [rev]. rewrite drop_zeros_app. rewrite all_zero_rev.
  destruct (all_zero l) eqn:El.
  - rewrite all_zero_cons, El, andb_true_r in E.
    destruct x; [discriminate|]. cbn [drop_zeros rev app].
    assert (H : drop_zeros (rev l) = []) by (apply drop_zeros_nil_iff; rewrite all_zero_rev; exact El).
    rewrite H. reflexivity.
  - rewrite rev_app_distr. reflexivity.
Qed.
Lemma strip_nil : strip_zeros [] = [].
Proof. reflexivity. Qed.

(* ---- cmp_pad against all-zero lists ---- *)
Lemma cmp_pad_zero_l a b : all_zero a = true -> cmp_pad a b = if all_zero b then Eq else Lt.
Proof.
  revert b. induction a as [|x a IH]; intros b Ha; [reflexivity|].
  apply all_zero_cons_true in Ha as [-> Ha].
  destruct b as [|y b]; cbn [cmp_pad].
  - rewrite all_zero_cons, Ha. reflexivity.
  - rewrite all_zero_cons. destruct y; cbn [N.compare N.eqb andb]; [apply IH; exact Ha | reflexivity].
Qed.
Lemma cmp_pad_zero_r a b : all_zero b = true -> cmp_pad a b = if all_zero a then Eq else Gt.
Proof.
  revert b. induction a as [|x a IH]; intros b Hb.
  - cbn [cmp_pad]. rewrite Hb. reflexivity.
  - destruct b as [|y b]; cbn [cmp_pad]; [reflexivity|].
    apply all_zero_cons_true in Hb as [-> Hb].
    rewrite all_zero_cons. destruct x; cbn [N.compare N.eqb andb]; [apply IH; exact Hb | reflexivity].
Qed.

Lemma Zcmp_neg1 (y : N) : Z.compare (-1) (Z.of_N y) = Lt.
Proof. apply Z.compare_lt_iff. lia. Qed.
Lemma Zcmp_neg1' (y : N) : Z.compare (Z.of_N y) (-1) = Gt.
Proof. apply Z.compare_gt_iff. lia. Qed.

(* the release part of the key *)
Lemma lex_release a : forall b T1 T2,
  lex (map Z.of_N (strip_zeros a) ++ (-1)%Z :: T1) (map Z.of_N (strip_zeros b) ++ (-1)%Z :: T2)
  = match cmp_pad a b with Eq => lex T1 T2 | c => c end.
Proof.
  induction a as [|x a IH]; intros b T1 T2.
  - rewrite strip_nil. cbn [map app cmp_pad].
    destruct (all_zero b) eqn:Eb.
    + apply strip_nil_iff in Eb. rewrite Eb. cbn [map app lex]. reflexivity.
    + destruct (strip_zeros b) as [|y sb] eqn:Es; [apply strip_nil_iff in Es; congruence|].
      cbn [map app lex]. rewrite Zcmp_neg1. reflexivity.
  - destruct b as [|y b].
    + rewrite strip_nil. cbn [map app cmp_pad]. rewrite strip_cons.
      destruct (all_zero (x :: a)) eqn:Ea; cbn [map app lex]; [reflexivity|]. rewrite Zcmp_neg1'. reflexivity.
    + rewrite !strip_cons. cbn [cmp_pad].
      destruct (all_zero (x :: a)) eqn:Ea, (all_zero (y :: b)) eqn:Eb; cbn [map app lex].
      * apply all_zero_cons_true in Ea as [-> Ha], Eb as [-> Hb]. cbn [N.compare].
        rewrite cmp_pad_zero_l by exact Ha. rewrite Hb. reflexivity.
      * apply all_zero_cons_true in Ea as [-> Ha]. rewrite all_zero_cons in Eb. rewrite Zcmp_neg1.
        destruct y; cbn [N.compare]; [|reflexivity]. cbn [N.eqb andb] in Eb.
        rewrite cmp_pad_zero_l by exact Ha. rewrite Eb. reflexivity.
      * apply all_zero_cons_true in Eb as [-> Hb]. rewrite all_zero_cons in Ea. rewrite Zcmp_neg1'.
        destruct x; cbn [N.compare]; [|reflexivity]. cbn [N.eqb andb] in Ea.
        rewrite cmp_pad_zero_r by exact Hb. rewrite Ea. reflexivity.
      * rewrite N2Z.inj_compare. destruct (N.compare x y); [apply IH | reflexivity | reflexivity].
Qed.

Theorem vcompare_decomp a b :
  Pep440.compare a b =
  match N.compare (epoch a) (epoch b) with
  | Eq => match cmp_pad (release a) (release b) with Eq => lex (suffix a) (suffix b) | c => c end
  | c => c
  end.
Proof.
  unfold Pep440.compare, vkey. cbn [lex]. rewrite N2Z.inj_compare.
  destruct (N.compare (epoch a) (epoch b)); try reflexivity.
  exact (lex_release (release a) (release b) _ _).
Qed.

Lemma lex_refl l : lex l l = Eq.
Proof. apply lex_eq. reflexivity. Qed.

(* ---- facts about cmp_pad ---- *)
Lemma cmp_pad_antisym a : forall b, cmp_pad b a = CompOpp (cmp_pad a b).
Proof.
  induction a as [|x a IH]; intros [|y b]; cbn [cmp_pad].
  - reflexivity.
  - destruct (all_zero (y :: b)); reflexivity.
  - destruct (all_zero (x :: a)); reflexivity.
  - rewrite (N.compare_antisym x y). destruct (N.compare x y); cbn [CompOpp]; [apply IH | reflexivity | reflexivity].
Qed.
Lemma cmp_pad_refl a : cmp_pad a a = Eq.
Proof. induction a as [|x a IH]; [reflexivity|]. cbn [cmp_pad]. rewrite N.compare_refl. exact IH. Qed.

(* trailing zeros do not matter *)
Lemma cmp_pad_app_zero_l a z : all_zero z = true -> forall b, cmp_pad (a ++ z) b = cmp_pad a b.
Proof.
  intros Hz. induction a as [|x a IH]; intros b.
  - cbn [app]. rewrite cmp_pad_zero_l by exact Hz. reflexivity.
  - destruct b as [|y b]; cbn [app cmp_pad].
    + rewrite !all_zero_cons, all_zero_app, Hz, andb_true_r. reflexivity.
    + rewrite IH. reflexivity.
Qed.
Lemma cmp_pad_app_zero_r b z : all_zero z = true -> forall a, cmp_pad a (b ++ z) = cmp_pad a b.
Proof.
  intros Hz a. rewrite (cmp_pad_antisym (b ++ z) a), (cmp_pad_antisym b a), cmp_pad_app_zero_l by exact Hz. reflexivity.
Qed.

(* extending the left operand can only make it larger *)
Lemma cmp_pad_app_gt a l : forall b, cmp_pad a b = Gt -> cmp_pad (a ++ l) b = Gt.
Proof.
  induction a as [|x a IH]; intros b H.
  - cbn in H. destruct (all_zero b); discriminate.
  - destruct b as [|y b]; cbn [app cmp_pad] in *.
    + rewrite all_zero_cons in *. rewrite all_zero_app.
      destruct (0 =? x); cbn [andb] in *; [|reflexivity]. destruct (all_zero a); [discriminate|reflexivity].
    + destruct (N.compare x y); [apply IH; exact H | discriminate | reflexivity].
Qed.
