(* MarkerVars.v — the variables a result mentions: every function of the marker normaliser
   (open-recursion bodies, hence every fuel level of Model/Marker.v), only() and exclude()
   return markers all of whose variables satisfy any predicate on names that the operands'
   variables satisfy.  Instantiated with "is one of the names kept" / "is not the removed
   name" this gives the variable-containment half of C12. *)
From Coq Require Import List Bool NArith Arith String Lia Permutation.
From Verif Require Import PyRes Str Marker MarkerBase MarkerSingle MarkerOf MarkerSound MarkerOpen MarkerOpenSound.
Import ListNotations.

Section Vars.
  Variable qn : str -> bool.          (* the names that may be mentioned *)

  Fixpoint Q (m : marker) : bool :=
    match m with
    | MAny | MEmpty => true
    | MAtom a => qn (a_name a)
    | MEqU n _ | MNeM n _ => qn n
    | MMulti l | MUnion l => (fix go (l : list marker) : bool := match l with [] => true | x :: t => Q x && go t end) l
    end.
  Lemma Q_list l : (fix go (l : list marker) : bool := match l with [] => true | x :: t => Q x && go t end) l = forallb Q l.
  Proof. induction l as [|x l IH]; [reflexivity|]. cbn. rewrite IH. reflexivity. Qed.
  Lemma Q_multi l : Q (MMulti l) = forallb Q l. Proof. cbn [Q]. apply Q_list. Qed.
  Lemma Q_union l : Q (MUnion l) = forallb Q l. Proof. cbn [Q]. apply Q_list. Qed.

  (* ---- flatten / constructors ---- *)
  Lemma dedup_fold_Q sub : forall acc, forallb Q sub = true -> forallb Q acc = true ->
    forallb Q (fold_left (fun ac s => if mem_marker s ac then ac else ac ++ [s]) sub acc) = true.
  Proof.
    induction sub as [|s sub IH]; intros acc Hs Ha; [exact Ha|]. cbn [fold_left]. cbn in Hs. apply andb_prop in Hs as [H1 H2].
    destruct (mem_marker s acc); apply IH; try assumption. rewrite forallb_app, Ha. cbn. rewrite H1. reflexivity.
  Qed.
  Lemma flatten_Q same items : (forall it sub, same it = Some sub -> Q it = true -> forallb Q sub = true) ->
    forall acc, forallb Q items = true -> forallb Q acc = true -> forallb Q (flatten same items acc) = true.
  Proof.
    intros Hsame. induction items as [|it rest IH]; intros acc Hi Ha; [exact Ha|]. cbn [flatten]. cbn in Hi. apply andb_prop in Hi as [H1 H2].
    destruct (same it) as [sub|] eqn:E.
    - apply IH; [exact H2|]. apply dedup_fold_Q; [exact (Hsame it sub E H1) | exact Ha].
    - destruct (mem_marker it acc); apply IH; try assumption. rewrite forallb_app, Ha. cbn. rewrite H1. reflexivity.
  Qed.
  Lemma sub_multi_Q it sub : sub_multi it = Some sub -> Q it = true -> forallb Q sub = true.
  Proof. destruct it; try discriminate. intros [= <-]. rewrite Q_multi. auto. Qed.
  Lemma sub_union_Q it sub : sub_union it = Some sub -> Q it = true -> forallb Q sub = true.
  Proof. destruct it; try discriminate. intros [= <-]. rewrite Q_union. auto. Qed.
  Lemma mk_multi_Q l : forallb Q l = true -> Q (mk_multi l) = true.
  Proof. intros H. unfold mk_multi. rewrite Q_multi. apply flatten_Q; [exact sub_multi_Q | exact H | reflexivity]. Qed.
  Lemma mk_union_Q l : forallb Q l = true -> Q (mk_union l) = true.
  Proof. intros H. unfold mk_union. rewrite Q_union. apply flatten_Q; [exact sub_union_Q | exact H | reflexivity]. Qed.
  Lemma set_of_Q l : forallb Q l = true -> forallb Q (set_of l) = true.
  Proof. intros H. unfold set_of. apply flatten_Q; [discriminate | exact H | reflexivity]. Qed.
  Lemma filter_Q (P : marker -> bool) l : forallb Q l = true -> forallb Q (filter P l) = true.
  Proof. induction l as [|x l IH]; [reflexivity|]. cbn. intros H. apply andb_prop in H as [H1 H2]. destruct (P x); cbn; rewrite ?H1; auto. Qed.
  Lemma perm_Q l l' : Permutation l l' -> forallb Q l = true -> forallb Q l' = true.
  Proof. intros P H. apply forallb_forall. intros x Hx. rewrite forallb_forall in H. apply H. eapply Permutation_in; [apply Permutation_sym; exact P | exact Hx]. Qed.

  Lemma equ_replace_Q n vs : qn n = true -> Q (equ_replace n vs) = true.
  Proof. intros H. destruct vs as [|v [|w t]]; cbn; auto. Qed.
  Lemma nem_replace_Q n vs : qn n = true -> Q (nem_replace n vs) = true.
  Proof. intros H. destruct vs as [|v [|w t]]; cbn; auto. Qed.

  Section Ops.
    Variable vmerge : bool -> atom -> atom -> option marker.
    Variable vcontains : atom -> str -> bool.
    Hypothesis vmerge_vars : forall k a b r, vmerge k a b = Some r -> qn (a_name a) = true -> qn (a_name b) = true -> Q r = true.

    Lemma merge_single_Q k a b r : merge_single vmerge k a b = Some r -> qn (a_name a) = true -> qn (a_name b) = true -> Q r = true.
    Proof.
      unfold merge_single. intros H Ha Hb.
      destruct (atom_eqb a b); [injection H as <-; exact Ha|].
      destruct (rev_in a || rev_in b); [discriminate|].
      destruct (pyver_pair (a_name a) (a_name b)); [eapply vmerge_vars; eauto|].
      destruct (negb (str_eqb (a_name a) (a_name b))); [discriminate|].
      destruct (version_like (a_name a)); [eapply vmerge_vars; eauto|].
      destruct (str_eqb (a_name a) (of_string "extra") && negb (str_eqb (a_value a) (a_value b))); [discriminate|].
      destruct ((if k then gen_and else gen_or) (a_op a) (a_value a) (a_op b) (a_value b)) as [o v| | |].
      - destruct (mop_eqb o (a_op a) && str_eqb v (a_value a)); [injection H as <-; exact Ha|].
        destruct (mop_eqb o (a_op b) && str_eqb v (a_value b)); [injection H as <-; exact Hb|]. injection H as <-. exact Ha.
      - injection H as <-. reflexivity.
      - injection H as <-. reflexivity.
      - destruct (mop_eqb (a_op a) MEq && mop_eqb (a_op b) MEq && negb k); [injection H as <-; exact Ha|].
        destruct (mop_eqb (a_op a) MNe && mop_eqb (a_op b) MNe && k); [injection H as <-; exact Ha | discriminate].
    Qed.

    Lemma single_ops_Q a b r : Q a = true -> Q b = true ->
      (single_and_l vmerge vcontains a b = Some r \/ single_or_l vmerge vcontains a b = Some r
       \/ single_and_r vcontains a b = Some r \/ single_or_r vcontains a b = Some r) -> Q r = true.
    Proof.
      intros Ha Hb H.
      assert (Two : forall x y, Q x = true -> Q y = true -> Q (mk_multi [x; y]) = true /\ Q (mk_union [x; y]) = true).
      { intros x y Hx Hy. split; [apply mk_multi_Q | apply mk_union_Q]; cbn; rewrite Hx, Hy; reflexivity. }
      assert (EqA : forall n vs o r0, equ_and vcontains n vs o = Some r0 -> qn n = true -> Q o = true -> Q r0 = true).
      { intros n vs o r0 E Hn Ho. unfold equ_and in E. destruct (negb (is_single o)); [discriminate|].
        destruct (negb (str_eqb n (single_name o)) || rev_in_m o); [injection E as <-; apply (Two (MEqU n vs) o); auto|].
        destruct o; try discriminate; injection E as <-; apply equ_replace_Q; exact Hn. }
      assert (EqO : forall n vs o r0, equ_or vcontains n vs o = Some r0 -> qn n = true -> Q o = true -> Q r0 = true).
      { intros n vs o r0 E Hn Ho. unfold equ_or in E. destruct (negb (is_single o)); [discriminate|].
        destruct (negb (str_eqb n (single_name o)) || rev_in_m o); [injection E as <-; apply (Two (MEqU n vs) o); auto|].
        destruct o as [| |x|n' vs'|n' vs'|l|l]; try discriminate.
        - destruct (a_op x); try (destruct (forallb (atom_contains vcontains x) vs); injection E as <-; [exact Ho | apply (Two (MEqU n vs) (MAtom x)); auto]).
          + destruct (mem_str (a_value x) vs); injection E as <-; exact Hn.
          + destruct (mem_str (a_value x) vs); injection E as <-; [reflexivity | exact Ho].
        - injection E as <-. exact Hn. }
      assert (NeA : forall n vs o r0, nem_and vcontains n vs o = Some r0 -> qn n = true -> Q o = true -> Q r0 = true).
      { intros n vs o r0 E Hn Ho. unfold nem_and in E. destruct (negb (is_single o)); [discriminate|].
        destruct (negb (str_eqb n (single_name o)) || rev_in_m o); [injection E as <-; apply (Two (MNeM n vs) o); auto|].
        destruct o as [| |x|n' vs'|n' vs'|l|l]; try discriminate.
        - destruct (a_op x); try (destruct (negb (existsb (atom_contains vcontains x) vs)); injection E as <-; [exact Ho | apply (Two (MNeM n vs) (MAtom x)); auto]).
          + destruct (mem_str (a_value x) vs); injection E as <-; [reflexivity | exact Ho].
          + destruct (mem_str (a_value x) vs); injection E as <-; exact Hn.
        - injection E as <-. apply equ_replace_Q. exact Ho.
        - injection E as <-. exact Hn. }
      assert (NeO : forall n vs o r0, nem_or vcontains n vs o = Some r0 -> qn n = true -> Q o = true -> Q r0 = true).
      { intros n vs o r0 E Hn Ho. unfold nem_or in E. destruct (negb (is_single o)); [discriminate|].
        destruct (negb (str_eqb n (single_name o)) || rev_in_m o); [injection E as <-; apply (Two (MNeM n vs) o); auto|].
        destruct o; try discriminate; injection E as <-; apply nem_replace_Q; exact Hn. }
      destruct H as [H|[H|[H|H]]].
      - destruct a as [| |x|n vs|n vs|l|l]; try discriminate H; cbn [single_and_l] in H.
        + destruct b as [| |y|?|?|?|?]; try discriminate H. injection H as <-. unfold atom_and.
          destruct (merge_single vmerge true x y) as [m|] eqn:E; [exact (merge_single_Q _ _ _ _ E Ha Hb) | apply (Two (MAtom x) (MAtom y)); auto].
        + exact (EqA _ _ _ _ H Ha Hb).
        + exact (NeA _ _ _ _ H Ha Hb).
      - destruct a as [| |x|n vs|n vs|l|l]; try discriminate H; cbn [single_or_l] in H.
        + destruct b as [| |y|?|?|?|?]; try discriminate H. injection H as <-. unfold atom_or.
          destruct (merge_single vmerge false x y) as [m|] eqn:E; [exact (merge_single_Q _ _ _ _ E Ha Hb) | apply (Two (MAtom x) (MAtom y)); auto].
        + exact (EqO _ _ _ _ H Ha Hb).
        + exact (NeO _ _ _ _ H Ha Hb).
      - destruct a as [| |x|n vs|n vs|l|l]; try discriminate H; cbn [single_and_r] in H; [exact (EqA _ _ _ _ H Ha Hb) | exact (NeA _ _ _ _ H Ha Hb)].
      - destruct a as [| |x|n vs|n vs|l|l]; try discriminate H; cbn [single_or_r] in H; [exact (EqO _ _ _ _ H Ha Hb) | exact (NeO _ _ _ _ H Ha Hb)].
    Qed.
  End Ops.

  (* ---- the of() loops ---- *)
  Section Of.
    Variable absorbing neutral : marker -> bool.
    Variable absorb_m neutral_m : marker.
    Variable sub : marker -> option (list marker).
    Variable mk : list marker -> marker.
    Variable other_cls : marker -> bool.
    Variable op : marker -> marker -> pyres marker.
    Variable simp : marker -> marker -> pyres (option marker).
    Hypothesis H_op : forall a b r, op a b = Ret r -> Q a = true -> Q b = true -> Q r = true.
    Hypothesis H_simp : forall s o r, simp s o = Ret (Some r) -> Q s = true -> Q o = true -> Q r = true.
    Hypothesis H_sub : forall it sub', sub it = Some sub' -> Q it = true -> forallb Q sub' = true.
    Hypothesis H_mk : forall l, forallb Q l = true -> Q (mk l) = true.
    Hypothesis H_abs : Q absorb_m = true.
    Hypothesis H_neu : Q neutral_m = true.

    Lemma scan_Q cur : forall post pre l, of_scan absorbing other_cls op simp cur pre post = Ret (Some (Some l)) ->
      Q cur = true -> forallb Q pre = true -> forallb Q post = true -> forallb Q l = true.
    Proof.
      induction post as [|mark post IH]; intros pre l H Qc Qpre Qpost; cbn [of_scan] in H; [discriminate|].
      cbn in Qpost. apply andb_prop in Qpost as [Qm Qpost].
      assert (Qpre' : forallb Q (pre ++ [mark]) = true) by (rewrite forallb_app, Qpre; cbn; rewrite Qm; reflexivity).
      destruct (is_single mark).
      - destruct (op mark cur) as [nm| |] eqn:Eop; try discriminate. cbn [bind] in H.
        destruct (absorbing nm); [discriminate|]. destruct (is_single nm).
        + injection H as <-. rewrite forallb_app, Qpre. cbn. rewrite (H_op _ _ _ Eop Qm Qc), Qpost. reflexivity.
        + exact (IH _ _ H Qc Qpre' Qpost).
      - destruct (other_cls mark).
        + destruct (simp mark cur) as [[x|]| |] eqn:Es; try discriminate; cbn [bind] in H.
          * injection H as <-. rewrite forallb_app, Qpre. cbn. rewrite (H_simp _ _ _ Es Qm Qc), Qpost. reflexivity.
          * exact (IH _ _ H Qc Qpre' Qpost).
        + exact (IH _ _ H Qc Qpre' Qpost).
    Qed.

    Lemma pass_Q : forall old new out, of_pass absorbing neutral sub other_cls op simp old new = Ret (Some out) ->
      forallb Q old = true -> forallb Q new = true -> forallb Q out = true.
    Proof.
      induction old as [|cur rest IH]; intros new out H Qo Qn; cbn [of_pass] in H.
      - injection H as <-. exact Qn.
      - cbn in Qo. apply andb_prop in Qo as [Qc Qr].
        destruct (mem_marker cur new); [exact (IH _ _ H Qr Qn)|]. destruct (neutral cur); [exact (IH _ _ H Qr Qn)|].
        destruct (of_scan absorbing other_cls op simp cur [] new) as [[[new'|]|]| |] eqn:Es; cbn [bind] in H; try discriminate.
        + apply (IH _ _ H Qr). apply flatten_Q; [exact H_sub | exact (scan_Q cur new [] new' Es Qc eq_refl Qn) | reflexivity].
        + apply (IH _ _ H Qr). rewrite forallb_app, Qn. cbn. rewrite Qc. reflexivity.
    Qed.

    Lemma loop_Q : forall k old new out, of_loop absorbing neutral sub other_cls op simp k old new = Ret (Some out) ->
      forallb Q new = true -> forallb Q out = true.
    Proof.
      induction k as [|k IH]; intros old new out H Qn; [discriminate|]. cbn [of_loop] in H.
      destruct (markers_eqb old new); [injection H as <-; exact Qn|].
      destruct (of_pass absorbing neutral sub other_cls op simp new []) as [[new'|]| |] eqn:Ep; cbn [bind] in H; try discriminate.
      exact (IH _ _ _ H (pass_Q new [] new' Ep Qn eq_refl)).
    Qed.

    Lemma of_body_Q k markers r : of_body absorbing neutral absorb_m neutral_m sub mk other_cls op simp k markers = Ret r ->
      forallb Q markers = true -> Q r = true.
    Proof.
      unfold of_body. intros H Qm.
      destruct (of_loop absorbing neutral sub other_cls op simp k [] (flatten sub markers [])) as [[new|]| |] eqn:El; cbn [bind] in H; try discriminate.
      - pose proof (loop_Q k [] _ new El (flatten_Q sub markers H_sub [] Qm eq_refl)) as Qnew.
        destruct (existsb absorbing new); [injection H as <-; exact H_abs|].
        destruct new as [|x [|y t]]; injection H as <-; [exact H_neu | cbn in Qnew; apply andb_prop in Qnew as [Qx _]; exact Qx | apply H_mk; exact Qnew].
      - injection H as <-. exact H_abs.
    Qed.
  End Of.

  (* ---- one step of the normaliser over callees that preserve Q ---- *)
  Section Step.
    Variable vmerge : bool -> atom -> atom -> option marker.
    Variable vcontains : atom -> str -> bool.
    Variable perm : list marker -> list marker.
    Hypothesis vmerge_vars : forall k a b r, vmerge k a b = Some r -> qn (a_name a) = true -> qn (a_name b) = true -> Q r = true.
    Hypothesis perm_perm : forall l, Permutation (perm l) l.

    Definition pres2 (f : marker -> marker -> pyres marker) : Prop := forall a b r, f a b = Ret r -> Q a = true -> Q b = true -> Q r = true.
    Definition presL (f : list marker -> pyres marker) : Prop := forall l r, f l = Ret r -> forallb Q l = true -> Q r = true.
    Definition presS (f : marker -> marker -> pyres (option marker)) : Prop := forall s o r, f s o = Ret (Some r) -> Q s = true -> Q o = true -> Q r = true.
    Definition pres1 (f : marker -> pyres marker) : Prop := forall m r, f m = Ret r -> Q m = true -> Q r = true.
    Definition vars_callees (c : callees) : Prop :=
      pres2 (c_and c) /\ pres2 (c_or c) /\ presL (c_multi_of c) /\ presL (c_union_of c) /\ presS (c_usimp c) /\ presS (c_isimp c)
      /\ pres1 (c_cnf c) /\ pres1 (c_dnf c) /\ presL (c_munion c).

    Lemma mapM_pres1 f l : pres1 f -> forall rs, mapM f l = Ret rs -> forallb Q l = true -> forallb Q rs = true.
    Proof.
      intros Hf. induction l as [|x l IH]; intros rs H Ql; cbn [mapM] in H; [injection H as <-; reflexivity|].
      cbn in Ql. apply andb_prop in Ql as [Qx Ql]. destruct (f x) as [y| |] eqn:E; try discriminate. cbn [bind] in H.
      destruct (mapM f l) as [ys| |] eqn:Es; try discriminate. cbn [bind] in H. injection H as <-. cbn. rewrite (Hf _ _ E Qx), (IH ys eq_refl Ql). reflexivity.
    Qed.
    Lemma mapM_presL f (ls : list (list marker)) : presL f -> forall rs, mapM f ls = Ret rs -> forallb (forallb Q) ls = true -> forallb Q rs = true.
    Proof.
      intros Hf. induction ls as [|x l IH]; intros rs H Ql; cbn [mapM] in H; [injection H as <-; reflexivity|].
      cbn in Ql. apply andb_prop in Ql as [Qx Ql]. destruct (f x) as [y| |] eqn:E; try discriminate. cbn [bind] in H.
      destruct (mapM f l) as [ys| |] eqn:Es; try discriminate. cbn [bind] in H. injection H as <-. cbn. rewrite (Hf _ _ E Qx), (IH ys eq_refl Ql). reflexivity.
    Qed.
    Lemma nprod_Q ls : forallb (forallb Q) ls = true -> forallb (forallb Q) (nprod ls) = true.
    Proof.
      induction ls as [|l ls IH]; intros H; [reflexivity|]. cbn in H. apply andb_prop in H as [Hl Hls]. cbn [nprod].
      apply forallb_forall. intros c Hc. apply in_flat_map in Hc as (x & Hx & Hc). apply in_map_iff in Hc as (t & <- & Ht).
      cbn. rewrite forallb_forall in Hl. rewrite (Hl x Hx). specialize (IH Hls). rewrite forallb_forall in IH. exact (IH t Ht).
    Qed.

    Theorem step_vars c : vars_callees c -> vars_callees (step vmerge vcontains perm c).
    Proof.
      intros (Hand & Hor & Hmul & Huni & Hus & His & Hcnf & Hdnf & Hmun).
      assert (Two : forall x y, Q x = true -> Q y = true -> Q (mk_multi [x; y]) = true /\ forallb Q [x; y] = true).
      { intros x y Hx Hy. split; [apply mk_multi_Q|]; cbn; rewrite Hx, Hy; reflexivity. }
      assert (SO := single_ops_Q vmerge vcontains vmerge_vars).
      unfold vars_callees, step. cbn [c_and c_or c_multi_of c_union_of c_usimp c_isimp c_cnf c_dnf c_munion c_fuel].
      assert (Hand' : pres2 (mand_body vmerge vcontains c)).
      { intros a b r H Qa Qb. unfold mand_body in H.
        destruct a as [| |x|n vs|n vs|l|l]; try (injection H as <-; assumption || reflexivity);
          try (exact (Hdnf _ _ H (proj1 (Two _ _ Qa Qb))));
          (destruct (single_and_l vmerge vcontains _ b) as [r'|] eqn:E; [injection H as <-; exact (SO _ _ _ Qa Qb (or_introl E))|];
           destruct (same_cls _ b); [discriminate|];
           destruct b as [| |y|n' vs'|n' vs'|l'|l']; try discriminate; try (injection H as <-; assumption || reflexivity);
           try (exact (Hdnf _ _ H (proj1 (Two _ _ Qb Qa))));
           (destruct (single_and_r vcontains _ _) as [r'|] eqn:E'; [|discriminate]; injection H as <-; exact (SO _ _ _ Qb Qa (or_intror (or_intror (or_introl E')))))). }
      assert (Hor' : pres2 (mor_body vmerge vcontains c)).
      { intros a b r H Qa Qb. unfold mor_body in H.
        destruct a as [| |x|n vs|n vs|l|l]; try (injection H as <-; assumption || reflexivity);
          try (exact (Hmun _ _ H (proj2 (Two _ _ Qa Qb))));
          (destruct (single_or_l vmerge vcontains _ b) as [r'|] eqn:E; [injection H as <-; exact (SO _ _ _ Qa Qb (or_intror (or_introl E)))|];
           destruct (same_cls _ b); [discriminate|];
           destruct b as [| |y|n' vs'|n' vs'|l'|l']; try discriminate; try (injection H as <-; assumption || reflexivity);
           try (exact (Hmun _ _ H (proj2 (Two _ _ Qb Qa))));
           (destruct (single_or_r vcontains _ _) as [r'|] eqn:E'; [|discriminate]; injection H as <-; exact (SO _ _ _ Qb Qa (or_intror (or_intror (or_intror E')))))). }
      assert (Hmul' : presL (multi_of_body c)).
      { intros l r H Ql. unfold multi_of_body in H.
        exact (of_body_Q is_empty is_any MEmpty MAny sub_multi mk_multi is_union (c_and c) (c_isimp c) Hand His sub_multi_Q mk_multi_Q eq_refl eq_refl _ l r H Ql). }
      assert (Huni' : presL (union_of_body c)).
      { intros l r H Ql. unfold union_of_body in H.
        exact (of_body_Q is_any is_empty MAny MEmpty sub_union mk_union is_multi (c_or c) (c_usimp c) Hor Hus sub_union_Q mk_union_Q eq_refl eq_refl _ l r H Ql). }
      assert (Hus' : presS (union_simplify_body perm c)).
      { intros s o r H Qs Qo. unfold union_simplify_body in H. destruct s as [| |?|?|?|ours|?]; try discriminate H.
        destruct (mem_marker o ours); [injection H as <-; exact Qo|]. destruct o as [| |?|?|?|theirs|?]; try discriminate H.
        cbv zeta in H. rewrite Q_multi in Qs, Qo.
        destruct (subset (set_of ours) (set_of theirs)); [injection H as <-; rewrite Q_multi; exact Qs|].
        destruct (subset (set_of theirs) (set_of ours)); [injection H as <-; rewrite Q_multi; exact Qo|].
        destruct (filter (fun x => mem_marker x (set_of theirs)) (set_of ours)) as [|sh shared] eqn:Esh; [discriminate|].
        set (unique := filter (fun x => negb (mem_marker x (set_of theirs))) (set_of ours)) in *.
        set (other_unique := filter (fun x => negb (mem_marker x (set_of ours))) (set_of theirs)) in *.
        destruct (c_or c (mk_multi (perm unique)) (mk_multi (perm other_unique))) as [uu| |] eqn:Euu; try discriminate. cbn [bind] in H.
        assert (Quu : Q uu = true).
        { apply (Hor _ _ _ Euu); apply mk_multi_Q; (eapply perm_Q; [apply Permutation_sym, perm_perm|]); apply filter_Q, set_of_Q; assumption. }
        destruct (is_single uu || is_any uu); [|discriminate].
        destruct (c_and c uu (mk_multi (filter (fun m => mem_marker m (sh :: shared)) ours))) as [r'| |] eqn:Er; try discriminate. cbn [bind] in H. injection H as <-.
        apply (Hand _ _ _ Er Quu). apply mk_multi_Q, filter_Q, Qs. }
      assert (His' : presS (intersect_simplify_body perm c)).
      { intros s o r H Qs Qo. unfold intersect_simplify_body in H. destruct s as [| |?|?|?|?|ours]; try discriminate H.
        destruct (mem_marker o ours); [injection H as <-; exact Qo|]. destruct o as [| |?|?|?|?|theirs]; try discriminate H.
        cbv zeta in H. rewrite Q_union in Qs, Qo.
        destruct (subset (set_of ours) (set_of theirs)); [injection H as <-; rewrite Q_union; exact Qs|].
        destruct (subset (set_of theirs) (set_of ours)); [injection H as <-; rewrite Q_union; exact Qo|].
        destruct (filter (fun x => mem_marker x (set_of theirs)) (set_of ours)) as [|sh shared] eqn:Esh; [discriminate|].
        set (unique := filter (fun x => negb (mem_marker x (set_of theirs))) (set_of ours)) in *.
        set (other_unique := filter (fun x => negb (mem_marker x (set_of ours))) (set_of theirs)) in *.
        destruct (c_and c (mk_union (perm unique)) (mk_union (perm other_unique))) as [ui| |] eqn:Eui; try discriminate. cbn [bind] in H.
        assert (Qui : Q ui = true).
        { apply (Hand _ _ _ Eui); apply mk_union_Q; (eapply perm_Q; [apply Permutation_sym, perm_perm|]); apply filter_Q, set_of_Q; assumption. }
        destruct (is_single ui || is_empty ui); [|discriminate].
        destruct (c_or c ui (mk_union (filter (fun m => mem_marker m (sh :: shared)) ours))) as [r'| |] eqn:Er; try discriminate. cbn [bind] in H. injection H as <-.
        apply (Hor _ _ _ Er Qui). apply mk_union_Q, filter_Q, Qs. }
      assert (Clauses : forall (k : bool) cs, forallb Q cs = true ->
                forallb (forallb Q) (map (fun c0 => match c0, k with MMulti x, true => x | MUnion x, false => x | _, _ => [c0] end) cs) = true).
      { intros k cs H. induction cs as [|c0 cs IH]; [reflexivity|]. cbn in H. apply andb_prop in H as [H0 H1]. cbn [map forallb]. rewrite (IH H1), andb_true_r.
        destruct k; destruct c0; cbn [forallb]; try (rewrite H0; reflexivity); rewrite ?Q_multi, ?Q_union in H0; exact H0. }
      assert (Hcnf' : pres1 (cnf_body c)).
      { intros m r H Qm. unfold cnf_body in H. destruct m as [| |?|?|?|l|l]; try (injection H as <-; exact Qm).
        - rewrite Q_multi in Qm. destruct (mapM (c_cnf c) l) as [cs| |] eqn:Ecs; try discriminate. cbn [bind] in H.
          exact (Hmul _ _ H (mapM_pres1 _ _ Hcnf cs Ecs Qm)).
        - rewrite Q_union in Qm. destruct (mapM (c_cnf c) l) as [cs| |] eqn:Ecs; try discriminate. cbn [bind] in H. cbv zeta in H.
          pose proof (mapM_pres1 _ _ Hcnf cs Ecs Qm) as Qcs.
          destruct (mapM (c_union_of c) (nprod (map (fun c0 => match c0 with MMulti x => x | _ => [c0] end) cs))) as [us| |] eqn:Eus; try discriminate. cbn [bind] in H.
          apply (Hmul _ _ H). apply (mapM_presL _ _ Huni us Eus). apply nprod_Q.
          pose proof (Clauses true cs Qcs) as Hc. erewrite map_ext; [exact Hc|]. intros c0. destruct c0; reflexivity. }
      assert (Hdnf' : pres1 (dnf_body c)).
      { intros m r H Qm. unfold dnf_body in H. destruct m as [| |?|?|?|l|l]; try (injection H as <-; exact Qm).
        - rewrite Q_multi in Qm. destruct (mapM (c_dnf c) l) as [ds| |] eqn:Eds; try discriminate. cbn [bind] in H. cbv zeta in H.
          pose proof (mapM_pres1 _ _ Hdnf ds Eds Qm) as Qds.
          destruct (mapM (c_multi_of c) (nprod (map (fun d => match d with MUnion x => x | _ => [d] end) ds))) as [ms| |] eqn:Ems; try discriminate. cbn [bind] in H.
          apply (Huni _ _ H). apply (mapM_presL _ _ Hmul ms Ems). apply nprod_Q.
          pose proof (Clauses false ds Qds) as Hc. erewrite map_ext; [exact Hc|]. intros c0. destruct c0; reflexivity.
        - rewrite Q_union in Qm. destruct (mapM (c_dnf c) l) as [ds| |] eqn:Eds; try discriminate. cbn [bind] in H.
          exact (Huni _ _ H (mapM_pres1 _ _ Hdnf ds Eds Qm)). }
      assert (Hmun' : presL (munion_body c)).
      { intros l r H Ql. rewrite munion_body_unfold in H. cbv zeta in H.
        set (un := unwrap1 (S (c_fuel c)) (mk_union (filter (fun m => negb (is_empty m)) l))) in *.
        assert (Qun : Q un = true).
        { unfold un. generalize (S (c_fuel c)). intros k.
          assert (Qraw : Q (mk_union (filter (fun m => negb (is_empty m)) l)) = true) by (apply mk_union_Q, filter_Q, Ql).
          revert Qraw. generalize (mk_union (filter (fun m => negb (is_empty m)) l)). clear.
          induction k as [|k IHk]; intros m Qm; cbn [unwrap1]; [exact Qm|].
          destruct m as [| |?|?|?|[|x [|y t]]|[|x [|y t]]]; try exact Qm; apply IHk; cbn in Qm; apply andb_prop in Qm as [Qx _]; exact Qx. }
        destruct (c_cnf c un) as [conj| |] eqn:Ec; try discriminate. cbn [bind] in H.
        pose proof (Hcnf _ _ Ec Qun) as Qc.
        destruct (negb (is_multi conj)); [injection H as <-; exact Qc|].
        destruct (c_dnf c conj) as [disj| |] eqn:Ed; try discriminate. cbn [bind] in H.
        pose proof (Hdnf _ _ Ed Qc) as Qd.
        destruct (negb (is_union disj)); [injection H as <-; exact Qd|]. injection H as <-.
        destruct (pair_ltb _ _); [exact Qun|]. destruct (pair_ltb _ _); assumption. }
      exact (conj Hand' (conj Hor' (conj Hmul' (conj Huni' (conj Hus' (conj His' (conj Hcnf' (conj Hdnf' Hmun')))))))).
    Qed.

    Theorem level_vars n : vars_callees (level vmerge vcontains perm n).
    Proof.
      induction n as [|n IH]; [|rewrite level_S; exact (step_vars _ IH)].
      unfold vars_callees, level, pres2, presL, presS, pres1. cbn [c_and c_or c_multi_of c_union_of c_usimp c_isimp c_cnf c_dnf c_munion].
      repeat split; intros; match goal with H0 : _ = Ret _ |- _ => cbn in H0; discriminate H0 end.
    Qed.
  End Step.
End Vars.

(* ---- only() / exclude() ---- *)
Section OnlyExclude.
  Variable vmerge : bool -> atom -> atom -> option marker.
  Variable vcontains : atom -> str -> bool.
  Variable perm : list marker -> list marker.
  (* a merged version atom mentions only the variables of the two atoms *)
  Hypothesis vmerge_names : forall k a b r, vmerge k a b = Some r ->
    forall qn, qn (a_name a) = true -> qn (a_name b) = true -> Q qn r = true.
  Hypothesis perm_perm : forall l, Permutation (perm l) l.

  Lemma Q_single qn m : is_single m = true -> Q qn m = qn (single_name m).
  Proof. destruct m; try discriminate; reflexivity. Qed.

  Lemma mapM_all {A} qn (g : A -> pyres marker) l : (forall x r, g x = Ret r -> Q qn r = true) ->
    forall rs, mapM g l = Ret rs -> forallb (Q qn) rs = true.
  Proof.
    intros Hg. induction l as [|x l IH]; intros rs H; cbn [mapM] in H; [injection H as <-; reflexivity|].
    destruct (g x) as [y| |] eqn:E; try discriminate. cbn [bind] in H. destruct (mapM g l) as [ys| |] eqn:Es; try discriminate. cbn [bind] in H.
    injection H as <-. cbn. rewrite (Hg _ _ E), (IH ys eq_refl). reflexivity.
  Qed.

  Theorem monly_vars names fuel : forall m r, monly vmerge vcontains perm fuel names m = Ret r ->
    Q (fun n => mem_str n names) r = true.
  Proof.
    set (qn := fun n => mem_str n names).
    induction fuel as [|f IH]; intros m r H; [discriminate|]. cbn [monly] in H.
    destruct (level_vars qn vmerge vcontains perm (fun k a b r0 E => vmerge_names k a b r0 E qn) perm_perm f) as (_ & _ & Hmul & Huni & _).
    assert (Leaf : forall s, is_single s = true -> (if mem_str (single_name s) names then Ret s else Ret MAny) = Ret r -> Q qn r = true).
    { intros s Hs E. destruct (mem_str (single_name s) names) eqn:Em; injection E as <-; [rewrite (Q_single qn s Hs); exact Em | reflexivity]. }
    destruct m as [| |a|n vs|n vs|l|l].
    - injection H as <-. reflexivity.
    - injection H as <-. reflexivity.
    - exact (Leaf (MAtom a) eq_refl H).
    - exact (Leaf (MEqU n vs) eq_refl H).
    - exact (Leaf (MNeM n vs) eq_refl H).
    - destruct (mapM (monly vmerge vcontains perm f names) l) as [ms| |] eqn:Em; try discriminate. cbn [bind] in H.
      exact (Hmul _ _ H (mapM_all qn _ l IH ms Em)).
    - destruct (mapM (monly vmerge vcontains perm f names) l) as [ms| |] eqn:Em; try discriminate. cbn [bind] in H.
      exact (Huni _ _ H (mapM_all qn _ l IH ms Em)).
  Qed.

  Lemma flat_some_Q qn (new : list (option marker)) : (forall x, In (Some x) new -> Q qn x = true) ->
    forallb (Q qn) (flat_map (fun o => match o with Some x => [x] | None => [] end) new) = true.
  Proof.
    induction new as [|[x|] new IH]; intros H; cbn [flat_map app]; [reflexivity | |].
    - cbn. rewrite (H x (or_introl eq_refl)), IH; [reflexivity|]. intros y Hy. apply H. right. exact Hy.
    - apply IH. intros y Hy. apply H. right. exact Hy.
  Qed.
  Lemma mapM_opt_In {A} (g : A -> pyres (option marker)) l : forall rs, mapM g l = Ret rs ->
    forall y, In (Some y) rs -> exists x, In x l /\ g x = Ret (Some y).
  Proof.
    induction l as [|x l IH]; intros rs H y Hy; cbn [mapM] in H; [injection H as <-; destruct Hy|].
    destruct (g x) as [o| |] eqn:E; try discriminate. cbn [bind] in H. destruct (mapM g l) as [ys| |] eqn:Es; try discriminate. cbn [bind] in H.
    injection H as <-. destruct Hy as [->|Hy]; [exists x; split; [left; reflexivity | exact E]|].
    destruct (IH ys eq_refl y Hy) as (x' & Hx' & E'). exists x'. split; [right; exact Hx' | exact E'].
  Qed.

  Theorem mexclude_vars name fuel : forall m r, mexclude vmerge vcontains perm fuel name m = Ret r ->
    Q (fun n => negb (str_eqb n name)) r = true.
  Proof.
    set (qn := fun n => negb (str_eqb n name)).
    induction fuel as [|f IH]; intros m r H; [discriminate|]. cbn [mexclude] in H.
    destruct (level_vars qn vmerge vcontains perm (fun k a b r0 E => vmerge_names k a b r0 E qn) perm_perm f) as (_ & _ & Hmul & Huni & _).
    assert (Leaf : forall s, is_single s = true -> (if str_eqb (single_name s) name then Ret MAny else Ret s) = Ret r -> Q qn r = true).
    { intros s Hs E. destruct (str_eqb (single_name s) name) eqn:Em; injection E as <-; [reflexivity | rewrite (Q_single qn s Hs); unfold qn; rewrite Em; reflexivity]. }
    destruct m as [| |a|n vs|n vs|l|l].
    - injection H as <-. reflexivity.
    - injection H as <-. reflexivity.
    - exact (Leaf (MAtom a) eq_refl H).
    - exact (Leaf (MEqU n vs) eq_refl H).
    - exact (Leaf (MNeM n vs) eq_refl H).
    - match type of H with (bind (mapM ?g l) _ = _) => destruct (mapM g l) as [new| |] eqn:Em; try discriminate H; cbn [bind] in H;
        apply (Hmul _ _ H); apply flat_some_Q; intros y Hy; destruct (mapM_opt_In g l new Em y Hy) as (x & _ & Ex) end.
      cbv beta in Ex. destruct (is_single x && str_eqb (single_name x) name); [discriminate Ex|].
      destruct (mexclude vmerge vcontains perm f name x) as [rx| |] eqn:Er; try discriminate Ex. cbn [bind] in Ex.
      destruct (is_empty rx); [discriminate Ex|]. injection Ex as <-. exact (IH _ _ Er).
    - match type of H with (bind (mapM ?g l) _ = _) => destruct (mapM g l) as [new| |] eqn:Em; try discriminate H; cbn [bind] in H;
        assert (Qnew : forallb (Q qn) (flat_map (fun o => match o with Some x => [x] | None => [] end) new) = true) end.
      { apply flat_some_Q. intros y Hy.
        match type of Em with mapM ?g l = _ => destruct (mapM_opt_In g l new Em y Hy) as (x & _ & Ex) end.
        cbv beta in Ex. destruct (is_single x && str_eqb (single_name x) name); [discriminate Ex|].
        destruct (mexclude vmerge vcontains perm f name x) as [rx| |] eqn:Er; try discriminate Ex. cbn [bind] in Ex.
        injection Ex as <-. exact (IH _ _ Er). }
      destruct (flat_map (fun o => match o with Some x => [x] | None => [] end) new) as [|y ys] eqn:Ef; [injection H as <-; reflexivity|].
      exact (Huni _ _ H Qnew).
  Qed.
End OnlyExclude.
