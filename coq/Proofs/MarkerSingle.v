(* MarkerSingle.v — soundness of the single-marker layer of the marker model:
   the GenericSpecifier case tables, _merge_single_markers, MarkerExpression / 
   EqualityMarkerUnion / InequalityMultiMarker operators. *)
From Coq Require Import List Bool NArith Arith String Lia Permutation.
From Verif Require Import PyRes Str Marker MarkerBase.
Import ListNotations.

Definition str_var (n : str) : bool := negb (version_like n) && negb (str_eqb n (of_string "extra")).
(* well-defined atoms: `extra` only with == / != ; string variables with == != in not in (GenericSpecifier accepts nothing else:
   an ordering or ~= atom on a string variable makes the code raise InvalidSpecifier / UndefinedComparison), either operand order;
   version-valued variables with any operator *)
Definition ok_atom (a : atom) : bool :=
  if version_like (a_name a) then true
  else if str_eqb (a_name a) (of_string "extra") then mop_eqb (a_op a) MEq || mop_eqb (a_op a) MNe
  else mop_eqb (a_op a) MEq || mop_eqb (a_op a) MNe || mop_eqb (a_op a) MIn || mop_eqb (a_op a) MNotIn.
Fixpoint wf (m : marker) : bool :=
  match m with
  | MAtom a => ok_atom a
  | MEqU n _ | MNeM n _ => str_var n
  | MMulti l | MUnion l => (fix go (l : list marker) : bool := match l with [] => true | x :: t => wf x && go t end) l
  | _ => true
  end.
Lemma wf_list l : (fix go (l : list marker) : bool := match l with [] => true | x :: t => wf x && go t end) l = forallb wf l.
Proof. induction l; cbn; congruence. Qed.

Ltac split_ifs :=
  repeat match goal with
  | |- context [if ?c then _ else _] =>
      match c with
      | str_eqb ?x ?y => destruct (str_eqb_spec x y); subst
      | _ => let S := fresh "S" in destruct c eqn:S
      end
  end.
Ltac bool_goal :=
  cbn;
  repeat match goal with
  | |- context [str_eqb ?x ?y] => destruct (str_eqb_spec x y); subst
  end;
  cbn;
  repeat match goal with
  | H : substr ?x ?y = _ |- context [substr ?x ?y] => rewrite H
  end;
  cbn;
  repeat match goal with
  | |- context [substr ?x ?y] => destruct (substr x y)
  end;
  cbn; try reflexivity; try congruence.

Definition gres_ok (comb : bool -> bool -> bool) (o1 : mop) (v1 : str) (o2 : mop) (v2 : str) (x : str) (r : gres) : Prop :=
  match r with
  | GR o v => gen_contains o v x = comb (gen_contains o1 v1 x) (gen_contains o2 v2 x)
  | GREmpty => comb (gen_contains o1 v1 x) (gen_contains o2 v2 x) = false
  | GRAny => comb (gen_contains o1 v1 x) (gen_contains o2 v2 x) = true
  | GRNotImpl => True
  end.

Lemma gen_and_sound o1 v1 o2 v2 x : gres_ok andb o1 v1 o2 v2 x (gen_and o1 v1 o2 v2).
Proof.
  unfold gen_and.
  destruct (mop_eqb o1 o2 && str_eqb v1 v2) eqn:E.
  - apply andb_prop in E as [E1 E2]. apply mop_eqb_eq in E1. destruct (str_eqb_spec v1 v2); [subst|discriminate].
    cbn. rewrite andb_diag. reflexivity.
  - destruct o1, o2; cbn in E |- *; split_ifs; cbn; try exact I; bool_goal;
      try (rewrite str_eqb_refl in E; discriminate E).
Qed.

Lemma gen_or_sound o1 v1 o2 v2 x : gres_ok orb o1 v1 o2 v2 x (gen_or o1 v1 o2 v2).
Proof.
  unfold gen_or.
  destruct (mop_eqb o1 o2 && str_eqb v1 v2) eqn:E.
  - apply andb_prop in E as [E1 E2]. apply mop_eqb_eq in E1. destruct (str_eqb_spec v1 v2); [subst|discriminate].
    cbn. rewrite orb_diag. reflexivity.
  - destruct o1, o2; cbn in E |- *; split_ifs; cbn; try exact I; bool_goal;
      try (rewrite str_eqb_refl in E; discriminate E).
Qed.

(* ---- wf is preserved by flatten / constructors ---- *)
Lemma wf_multi l : wf (MMulti l) = forallb wf l.
Proof. cbn [wf]. apply wf_list. Qed.
Lemma wf_union l : wf (MUnion l) = forallb wf l.
Proof. cbn [wf]. apply wf_list. Qed.

Lemma flatten_wf same items : forall acc,
  (forall m l, same m = Some l -> wf m = true -> forallb wf l = true) ->
  forallb wf acc = true -> forallb wf items = true -> forallb wf (flatten same items acc) = true.
Proof.
  induction items as [|it rest IH]; intros acc Hs Ha Hi; cbn [flatten]; [exact Ha|].
  cbn in Hi. apply andb_prop in Hi as [H1 H2].
  destruct (same it) as [sub|] eqn:E.
  - apply IH; auto.
    assert (Hsub : forallb wf sub = true) by (eapply Hs; eauto).
    clear -Ha Hsub. revert acc Ha. induction sub as [|s sub IHs]; intros acc Ha; cbn; [exact Ha|].
    cbn in Hsub. apply andb_prop in Hsub as [Hs1 Hs2]. apply IHs; auto.
    destruct (mem_marker s acc); [exact Ha|]. rewrite forallb_app, Ha. cbn. rewrite Hs1. reflexivity.
  - destruct (mem_marker it acc); apply IH; auto. rewrite forallb_app, Ha. cbn. rewrite H1. reflexivity.
Qed.

Lemma wf_mk_multi l : forallb wf l = true -> wf (mk_multi l) = true.
Proof.
  intros H. unfold mk_multi. rewrite wf_multi. apply flatten_wf; auto.
  intros m l' E W. destruct m; try discriminate. injection E as ->. rewrite wf_multi in W. exact W.
Qed.
Lemma wf_mk_union l : forallb wf l = true -> wf (mk_union l) = true.
Proof.
  intros H. unfold mk_union. rewrite wf_union. apply flatten_wf; auto.
  intros m l' E W. destruct m; try discriminate. injection E as ->. rewrite wf_union in W. exact W.
Qed.

Section Single.
  Variable vmerge : bool -> atom -> atom -> option marker.
  Variable vcontains : atom -> str -> bool.
  Variable good : menv -> Prop.
  Definition bop (k : bool) : bool -> bool -> bool := if k then andb else orb.
  Hypothesis vmerge_sound : forall k a b r, vmerge k a b = Some r ->
    wf r = true /\ forall e, good e -> meval e r = bop k (atom_eval e a) (atom_eval e b).

  Lemma atom_eval_str e a : str_var (a_name a) = true -> rev_in a = false ->
    atom_eval e a = gen_contains (a_op a) (a_value a) (sv e (a_name a)).
  Proof.
    unfold str_var, rev_in, atom_eval. intros H. apply andb_prop in H as [H1 H2].
    apply negb_true_iff in H1, H2. rewrite H1, H2.
    destruct (a_rev a); [|reflexivity]. cbn. intros H.
    destruct (a_op a); cbn in H; try discriminate; reflexivity.
  Qed.

  Lemma atom_contains_str a v : version_like (a_name a) = false -> atom_contains vcontains a v = gen_contains (a_op a) (a_value a) v.
  Proof. intros H. unfold atom_contains. rewrite H. reflexivity. Qed.

  Lemma str_var_split n : str_var n = true -> version_like n = false /\ str_eqb n (of_string "extra") = false.
  Proof. unfold str_var. intros H. apply andb_prop in H as [H1 H2]. apply negb_true_iff in H1, H2. auto. Qed.
  Definition op4 (o : mop) : bool := mop_eqb o MEq || mop_eqb o MNe || mop_eqb o MIn || mop_eqb o MNotIn.
  Lemma ok_new_atom n o v : str_var n = true -> op4 o = true -> ok_atom (mkAtom n o v false) = true.
  Proof. intros H Ho. destruct (str_var_split n H) as [H1 H2]. unfold ok_atom. cbn [a_name a_op a_value a_rev]. rewrite H1, H2. exact Ho. Qed.
  Lemma ok_atom_op4 a : str_var (a_name a) = true -> ok_atom a = true -> op4 (a_op a) = true.
  Proof. intros H O. destruct (str_var_split _ H) as [H1 H2]. unfold ok_atom in O. rewrite H1, H2 in O. exact O. Qed.
  Lemma gen_op_in (k : bool) o1 v1 o2 v2 o v : (if k then gen_and else gen_or) o1 v1 o2 v2 = GR o v -> o = o1 \/ o = o2.
  Proof.
    destruct k; unfold gen_and, gen_or; (destruct (mop_eqb o1 o2 && str_eqb v1 v2); [intros [= <- _]; left; reflexivity|]);
      destruct (Nat.ltb (op_order o2) (op_order o1)); destruct o1, o2; cbn;
      repeat match goal with |- context [if ?c then _ else _] => destruct c end; intros H; try discriminate H; injection H as <- _; auto.
  Qed.
  Lemma atom_eval_new e n o v : str_var n = true -> atom_eval e (mkAtom n o v false) = gen_contains o v (sv e n).
  Proof. intros H. destruct (str_var_split n H) as [H1 H2]. unfold atom_eval. cbn [a_name a_op a_value a_rev]. rewrite H1, H2. reflexivity. Qed.

  Lemma equ_replace_ok e n vs : str_var n = true ->
    wf (equ_replace n vs) = true /\ meval e (equ_replace n vs) = mem_str (sv e n) vs.
  Proof.
    intros Hn. destruct vs as [|v [|w vs]]; cbn [equ_replace].
    - split; reflexivity.
    - split; [cbn [wf]; apply ok_new_atom; [exact Hn | reflexivity]|]. cbn [meval]. rewrite atom_eval_new by exact Hn. cbn. rewrite orb_false_r. reflexivity.
    - split; [exact Hn | reflexivity].
  Qed.
  Lemma nem_replace_ok e n vs : str_var n = true ->
    wf (nem_replace n vs) = true /\ meval e (nem_replace n vs) = negb (mem_str (sv e n) vs).
  Proof.
    intros Hn. destruct vs as [|v [|w vs]]; cbn [nem_replace].
    - split; reflexivity.
    - split; [cbn [wf]; apply ok_new_atom; [exact Hn | reflexivity]|]. cbn [meval]. rewrite atom_eval_new by exact Hn. cbn. rewrite orb_false_r. reflexivity.
    - split; [exact Hn | reflexivity].
  Qed.

  Theorem merge_single_sound k a b r :
    merge_single vmerge k a b = Some r -> ok_atom a = true -> ok_atom b = true ->
    wf r = true /\ forall e, good e -> meval e r = bop k (atom_eval e a) (atom_eval e b).
  Proof.
    unfold merge_single. intros H Oa Ob.
    destruct (atom_eqb a b) eqn:Eab.
    { injection H as <-. apply atom_eqb_eq in Eab. subst b. split; [exact Oa|]. intros e _. cbn [meval]. destruct k; cbn [bop]; [rewrite andb_diag | rewrite orb_diag]; reflexivity. }
    destruct (rev_in a || rev_in b) eqn:Rab; [discriminate H|]. apply orb_false_elim in Rab as [Ra Rb].
    destruct (pyver_pair (a_name a) (a_name b)); [eapply vmerge_sound; eauto|].
    destruct (str_eqb_spec (a_name a) (a_name b)) as [En|]; [|discriminate]. cbn [negb] in H.
    destruct (version_like (a_name a)) eqn:VL; [eapply vmerge_sound; eauto|].
    assert (VLb : version_like (a_name b) = false) by (rewrite <- En; exact VL).
    destruct (str_eqb_spec (a_name a) (of_string "extra")) as [Ex|Nx].
    - (* extra: only atoms with the same value are merged *)
      cbn [andb] in H. destruct (str_eqb_spec (a_value a) (a_value b)) as [Ev|]; [|discriminate]. cbn [negb] in H.
      assert (Exb : a_name b = of_string "extra") by congruence.
      unfold ok_atom in Oa, Ob. rewrite VL, Ex in Oa. rewrite VLb, Exb in Ob. cbn in Oa, Ob.
      assert (Eva : forall e, atom_eval e a = match a_op a with MEq => mem_str (a_value a) (extras e) | _ => negb (mem_str (a_value a) (extras e)) end).
      { intros e. unfold atom_eval. rewrite VL, Ex. cbn. destruct (a_op a); try discriminate; reflexivity. }
      assert (Evb : forall e, atom_eval e b = match a_op b with MEq => mem_str (a_value a) (extras e) | _ => negb (mem_str (a_value a) (extras e)) end).
      { intros e. unfold atom_eval. rewrite VLb, Exb, <- Ev. cbn. destruct (a_op b); try discriminate; reflexivity. }
      destruct a as [na oa va ra], b as [nb ob vb rb]. cbn [a_name a_op a_value a_rev] in *. subst.
      destruct oa, ob; try discriminate; destruct k; unfold gen_and, gen_or in H; cbn in H; rewrite ?str_eqb_refl in H; cbn in H;
        rewrite ?str_eqb_refl in H; cbn in H;
        injection H as <-; (split; [cbn; unfold ok_atom; cbn; reflexivity|]);
        intros e _; rewrite Eva, Evb; cbn [meval bop]; rewrite ?Eva, ?Evb; cbn;
        destruct (mem_str vb (extras e)); reflexivity.
    - cbn [andb] in H.
      assert (SV : str_var (a_name a) = true) by (unfold str_var; rewrite VL; destruct (str_eqb_spec (a_name a) (of_string "extra")); [contradiction|reflexivity]).
      assert (SVb : str_var (a_name b) = true) by (rewrite <- En; exact SV).
      assert (G : forall e, gres_ok (bop k) (a_op a) (a_value a) (a_op b) (a_value b) (sv e (a_name a))
                     ((if k then gen_and else gen_or) (a_op a) (a_value a) (a_op b) (a_value b))).
      { intros e. destruct k; [apply gen_and_sound | apply gen_or_sound]. }
      assert (EA : forall e, atom_eval e a = gen_contains (a_op a) (a_value a) (sv e (a_name a))) by (intros; apply atom_eval_str; assumption).
      assert (EB : forall e, atom_eval e b = gen_contains (a_op b) (a_value b) (sv e (a_name a))) by (intros; rewrite En; apply atom_eval_str; assumption).
      destruct ((if k then gen_and else gen_or) (a_op a) (a_value a) (a_op b) (a_value b)) as [o v| | |] eqn:EG.
      + (* a specifier: one of the operands, or a new atom *)
        destruct (mop_eqb o (a_op a) && str_eqb v (a_value a)) eqn:E1.
        { injection H as <-. split; [exact Oa|]. intros e _. cbn [meval]. rewrite EA, EB. specialize (G e). cbn in G.
          apply andb_prop in E1 as [E1 E2]. apply mop_eqb_eq in E1. destruct (str_eqb_spec v (a_value a)); [subst|discriminate]. exact G. }
        destruct (mop_eqb o (a_op b) && str_eqb v (a_value b)) eqn:E2.
        { injection H as <-. split; [exact Ob|]. intros e _. cbn [meval]. rewrite EA, EB. specialize (G e). cbn in G.
          apply andb_prop in E2 as [E2 E3]. apply mop_eqb_eq in E2. destruct (str_eqb_spec v (a_value b)); [subst|discriminate].
          rewrite <- G. reflexivity. }
        injection H as <-. split.
        * cbn [wf]. apply ok_new_atom; [exact SV|]. destruct (gen_op_in k _ _ _ _ _ _ EG) as [->| ->]; [exact (ok_atom_op4 a SV Oa) | exact (ok_atom_op4 b SVb Ob)].
        * intros e _. cbn [meval]. rewrite atom_eval_new by exact SV. rewrite EA, EB. exact (G e).
      + injection H as <-. split; [reflexivity|]. intros e _. rewrite EA, EB. symmetry. exact (G e).
      + injection H as <-. split; [reflexivity|]. intros e _. rewrite EA, EB. symmetry. exact (G e).
      + (* NotImplementedError: groups *)
        destruct (mop_eqb (a_op a) MEq && mop_eqb (a_op b) MEq && negb k) eqn:C1.
        { injection H as <-. apply andb_prop in C1 as [C1 Ck]. apply andb_prop in C1 as [C1 C2].
          apply mop_eqb_eq in C1, C2. apply negb_true_iff in Ck. subst k.
          split; [exact SV|]. intros e _. cbn [meval bop]. rewrite mem_oset, EA, EB, C1, C2. cbn. rewrite orb_false_r. reflexivity. }
        destruct (mop_eqb (a_op a) MNe && mop_eqb (a_op b) MNe && k) eqn:C2; [|discriminate].
        injection H as <-. apply andb_prop in C2 as [C2 Ck]. apply andb_prop in C2 as [C2 C3].
        apply mop_eqb_eq in C2, C3. subst k.
        split; [exact SV|]. intros e _. cbn [meval bop]. rewrite mem_oset, EA, EB, C2, C3. cbn. rewrite orb_false_r, negb_orb. reflexivity.
  Qed.
End Single.

Section SingleOps.
  Variable vmerge : bool -> atom -> atom -> option marker.
  Variable vcontains : atom -> str -> bool.
  Variable good : menv -> Prop.
  Hypothesis vmerge_sound : forall k a b r, vmerge k a b = Some r ->
    wf r = true /\ forall e, good e -> meval e r = bop k (atom_eval e a) (atom_eval e b).

  Lemma atom_and_sound a b : ok_atom a = true -> ok_atom b = true ->
    wf (atom_and vmerge a b) = true /\ forall e, good e -> meval e (atom_and vmerge a b) = atom_eval e a && atom_eval e b.
  Proof.
    intros Oa Ob. unfold atom_and. destruct (merge_single vmerge true a b) as [r|] eqn:E.
    - exact (merge_single_sound vmerge good vmerge_sound true a b r E Oa Ob).
    - split; [apply wf_mk_multi; cbn; rewrite Oa, Ob; reflexivity|].
      intros e _. rewrite mk_multi_meval. cbn. rewrite andb_true_r. reflexivity.
  Qed.
  Lemma atom_or_sound a b : ok_atom a = true -> ok_atom b = true ->
    wf (atom_or vmerge a b) = true /\ forall e, good e -> meval e (atom_or vmerge a b) = atom_eval e a || atom_eval e b.
  Proof.
    intros Oa Ob. unfold atom_or. destruct (merge_single vmerge false a b) as [r|] eqn:E.
    - exact (merge_single_sound vmerge good vmerge_sound false a b r E Oa Ob).
    - split; [apply wf_mk_union; cbn; rewrite Oa, Ob; reflexivity|].
      intros e _. rewrite mk_union_meval. cbn. rewrite orb_false_r. reflexivity.
  Qed.

  (* a single marker on the same string variable n *)
  Lemma same_name_atom e n a : str_var n = true -> a_name a = n -> rev_in a = false ->
    atom_eval e a = gen_contains (a_op a) (a_value a) (sv e n) /\ (forall v, atom_contains vcontains a v = gen_contains (a_op a) (a_value a) v).
  Proof.
    intros Hn <- Oa. split; [apply atom_eval_str; assumption|].
    intros v. apply atom_contains_str. apply (str_var_split _ Hn).
  Qed.

  Lemma forallb_mem (P : str -> bool) vs x : forallb P vs = true -> mem_str x vs = true -> P x = true.
  Proof. intros F M. rewrite forallb_forall in F. apply F, mem_str_In, M. Qed.
  Lemma existsb_mem (P : str -> bool) vs x : existsb P vs = false -> mem_str x vs = true -> P x = false.
  Proof.
    intros F M. destruct (P x) eqn:E; [|reflexivity].
    assert (existsb P vs = true) by (apply existsb_exists; exists x; split; [apply mem_str_In, M | exact E]). congruence.
  Qed.

  Ltac name_split other n Hname :=
    destruct (str_eqb_spec n (single_name other)) as [Hname|Hname]; cbn [negb].

  Theorem equ_and_sound n vs other r : equ_and vcontains n vs other = Some r -> str_var n = true -> wf other = true ->
    wf r = true /\ forall e, meval e r = mem_str (sv e n) vs && meval e other.
  Proof.
    unfold equ_and. intros H Hn Wo. destruct (is_single other) eqn:IS; [|discriminate]. cbn [negb] in H.
    destruct (str_eqb_spec n (single_name other)) as [Hname|Hname]; cbn [negb orb] in H.
    - destruct (rev_in_m other) eqn:Rv.
      { injection H as <-. split; [apply wf_mk_multi; cbn; rewrite Hn, Wo; reflexivity|].
        intros e. rewrite mk_multi_meval. cbn. rewrite andb_true_r. reflexivity. }
      destruct other as [| |a|n' vs'|n' vs'|l|l]; try discriminate; cbn [single_name] in Hname.
      + injection H as <-. destruct (same_name_atom (mkMEnv (fun _ => []) [] (fun _ => false)) n a Hn (eq_sym Hname) Rv) as [_ HC].
        split; [apply (equ_replace_ok (mkMEnv (fun _ => []) [] (fun _ => false))), Hn|].
        intros e. destruct (equ_replace_ok e n (oset (filter (atom_contains vcontains a) vs)) Hn) as [_ ->].
        destruct (same_name_atom e n a Hn (eq_sym Hname) Rv) as [HE _]. cbn [meval]. rewrite HE, mem_oset, mem_filter, HC. reflexivity.
      + injection H as <-. subst n'. split; [apply (equ_replace_ok (mkMEnv (fun _ => []) [] (fun _ => false))), Hn|].
        intros e. destruct (equ_replace_ok e n (oset_and vs vs') Hn) as [_ ->]. rewrite mem_oset_and. reflexivity.
    - injection H as <-. split; [apply wf_mk_multi; cbn; rewrite Hn, Wo; reflexivity|].
      intros e. rewrite mk_multi_meval. cbn. rewrite andb_true_r. reflexivity.
  Qed.

  Theorem equ_or_sound n vs other r : equ_or vcontains n vs other = Some r -> str_var n = true -> wf other = true ->
    wf r = true /\ forall e, meval e r = mem_str (sv e n) vs || meval e other.
  Proof.
    unfold equ_or. intros H Hn Wo. destruct (is_single other) eqn:IS; [|discriminate]. cbn [negb] in H.
    destruct (str_eqb_spec n (single_name other)) as [Hname|Hname]; cbn [negb orb] in H.
    - destruct (rev_in_m other) eqn:Rv.
      { injection H as <-. split; [apply wf_mk_union; cbn; rewrite Hn, Wo; reflexivity|].
        intros e. rewrite mk_union_meval. cbn. rewrite orb_false_r. reflexivity. }
      destruct other as [| |a|n' vs'|n' vs'|l|l]; try discriminate; cbn [single_name] in Hname.
      + assert (HA : forall e, atom_eval e a = gen_contains (a_op a) (a_value a) (sv e n)) by (intros e; apply (same_name_atom e n a Hn (eq_sym Hname) Rv)).
        assert (HC : forall v, atom_contains vcontains a v = gen_contains (a_op a) (a_value a) v)
          by (apply (same_name_atom (mkMEnv (fun _ => []) [] (fun _ => false)) n a Hn (eq_sym Hname) Rv)).
        destruct (a_op a) eqn:Eop.
        3-10: (destruct (forallb (atom_contains vcontains a) vs) eqn:F; injection H as <-;
                  [ split; [exact Wo|]; intros e; cbn [meval]; rewrite HA, <- HC;
                    destruct (mem_str (sv e n) vs) eqn:M; [rewrite (forallb_mem _ _ _ F M); reflexivity | reflexivity]
                  | split; [apply wf_mk_union; cbn [forallb]; rewrite Wo; cbn [wf]; rewrite Hn; reflexivity|];
                    intros e; rewrite mk_union_meval; cbn; rewrite orb_false_r; reflexivity ]).
        * (* == *)
          destruct (mem_str (a_value a) vs) eqn:M; injection H as <-; (split; [exact Hn|]); intros e; cbn [meval]; rewrite HA; cbn.
          -- destruct (str_eqb_spec (sv e n) (a_value a)) as [->|]; [rewrite M; reflexivity | rewrite orb_false_r; reflexivity].
          -- rewrite mem_oset_or. cbn. rewrite orb_false_r. reflexivity.
        * (* != *)
          destruct (mem_str (a_value a) vs) eqn:M; injection H as <-.
          -- split; [reflexivity|]. intros e. cbn [meval]. rewrite HA. cbn.
             destruct (str_eqb_spec (sv e n) (a_value a)) as [->|]; [rewrite M; reflexivity | rewrite orb_true_r; reflexivity].
          -- split; [exact Wo|]. intros e. cbn [meval]. rewrite HA. cbn.
             destruct (str_eqb_spec (sv e n) (a_value a)) as [->|]; [rewrite M; reflexivity | rewrite orb_true_r; reflexivity].
      + injection H as <-. subst n'. split; [exact Hn|]. intros e. cbn [meval]. rewrite mem_oset_or. reflexivity.
    - injection H as <-. split; [apply wf_mk_union; cbn; rewrite Hn, Wo; reflexivity|].
      intros e. rewrite mk_union_meval. cbn. rewrite orb_false_r. reflexivity.
  Qed.

  Theorem nem_and_sound n vs other r : nem_and vcontains n vs other = Some r -> str_var n = true -> wf other = true ->
    wf r = true /\ forall e, meval e r = negb (mem_str (sv e n) vs) && meval e other.
  Proof.
    unfold nem_and. intros H Hn Wo. destruct (is_single other) eqn:IS; [|discriminate]. cbn [negb] in H.
    destruct (str_eqb_spec n (single_name other)) as [Hname|Hname]; cbn [negb orb] in H.
    - destruct (rev_in_m other) eqn:Rv.
      { injection H as <-. split; [apply wf_mk_multi; cbn; rewrite Hn, Wo; reflexivity|].
        intros e. rewrite mk_multi_meval. cbn. rewrite andb_true_r. reflexivity. }
      destruct other as [| |a|n' vs'|n' vs'|l|l]; try discriminate; cbn [single_name] in Hname.
      + assert (HA : forall e, atom_eval e a = gen_contains (a_op a) (a_value a) (sv e n)) by (intros e; apply (same_name_atom e n a Hn (eq_sym Hname) Rv)).
        assert (HC : forall v, atom_contains vcontains a v = gen_contains (a_op a) (a_value a) v)
          by (apply (same_name_atom (mkMEnv (fun _ => []) [] (fun _ => false)) n a Hn (eq_sym Hname) Rv)).
        destruct (a_op a) eqn:Eop.
        3-10: (destruct (existsb (atom_contains vcontains a) vs) eqn:F; cbn [negb] in H; injection H as <-;
                  [ split; [apply wf_mk_multi; cbn [forallb]; rewrite Wo; cbn [wf]; rewrite Hn; reflexivity|];
                    intros e; rewrite mk_multi_meval; cbn; rewrite andb_true_r; reflexivity
                  | split; [exact Wo|]; intros e; cbn [meval]; rewrite HA, <- HC;
                    destruct (mem_str (sv e n) vs) eqn:M; [rewrite (existsb_mem _ _ _ F M); reflexivity | reflexivity] ]).
        * destruct (mem_str (a_value a) vs) eqn:M; injection H as <-.
          -- split; [reflexivity|]. intros e. cbn [meval]. rewrite HA. cbn.
             destruct (str_eqb_spec (sv e n) (a_value a)) as [->|]; [rewrite M; reflexivity | rewrite andb_false_r; reflexivity].
          -- split; [exact Wo|]. intros e. cbn [meval]. rewrite HA. cbn.
             destruct (str_eqb_spec (sv e n) (a_value a)) as [->|]; [rewrite M; reflexivity | rewrite andb_false_r; reflexivity].
        * destruct (mem_str (a_value a) vs) eqn:M; injection H as <-; (split; [exact Hn|]); intros e; cbn [meval]; rewrite HA; cbn.
          -- destruct (str_eqb_spec (sv e n) (a_value a)) as [->|]; [rewrite M; reflexivity | rewrite andb_true_r; reflexivity].
          -- rewrite mem_oset_or. cbn. rewrite orb_false_r, negb_orb. reflexivity.
      + injection H as <-. subst n'. split; [apply (equ_replace_ok (mkMEnv (fun _ => []) [] (fun _ => false))), Hn|].
        intros e. destruct (equ_replace_ok e n (oset_sub vs' vs) Hn) as [_ ->]. cbn [meval]. rewrite mem_oset_sub. apply andb_comm.
      + injection H as <-. subst n'. split; [exact Hn|]. intros e. cbn [meval]. rewrite mem_oset_or, negb_orb. reflexivity.
    - injection H as <-. split; [apply wf_mk_multi; cbn; rewrite Hn, Wo; reflexivity|].
      intros e. rewrite mk_multi_meval. cbn. rewrite andb_true_r. reflexivity.
  Qed.

  Theorem nem_or_sound n vs other r : nem_or vcontains n vs other = Some r -> str_var n = true -> wf other = true ->
    wf r = true /\ forall e, meval e r = negb (mem_str (sv e n) vs) || meval e other.
  Proof.
    unfold nem_or. intros H Hn Wo. destruct (is_single other) eqn:IS; [|discriminate]. cbn [negb] in H.
    destruct (str_eqb_spec n (single_name other)) as [Hname|Hname]; cbn [negb orb] in H.
    - destruct (rev_in_m other) eqn:Rv.
      { injection H as <-. split; [apply wf_mk_union; cbn; rewrite Hn, Wo; reflexivity|].
        intros e. rewrite mk_union_meval. cbn. rewrite orb_false_r. reflexivity. }
      destruct other as [| |a|n' vs'|n' vs'|l|l]; try discriminate; cbn [single_name] in Hname; injection H as <-.
      + assert (HA : forall e, atom_eval e a = gen_contains (a_op a) (a_value a) (sv e n)) by (intros e; apply (same_name_atom e n a Hn (eq_sym Hname) Rv)).
        assert (HC : forall v, atom_contains vcontains a v = gen_contains (a_op a) (a_value a) v)
          by (apply (same_name_atom (mkMEnv (fun _ => []) [] (fun _ => false)) n a Hn (eq_sym Hname) Rv)).
        split; [apply (nem_replace_ok (mkMEnv (fun _ => []) [] (fun _ => false))), Hn|].
        intros e. destruct (nem_replace_ok e n (oset (filter (fun v => negb (atom_contains vcontains a v)) vs)) Hn) as [_ ->].
        cbn [meval]. rewrite mem_oset, mem_filter, HA, HC.
        destruct (mem_str (sv e n) vs), (gen_contains (a_op a) (a_value a) (sv e n)); reflexivity.
      + subst n'. split; [apply (nem_replace_ok (mkMEnv (fun _ => []) [] (fun _ => false))), Hn|].
        intros e. destruct (nem_replace_ok e n (oset_sub vs vs') Hn) as [_ ->]. cbn [meval]. rewrite mem_oset_sub.
        destruct (mem_str (sv e n) vs), (mem_str (sv e n) vs'); reflexivity.
      + subst n'. split; [apply (nem_replace_ok (mkMEnv (fun _ => []) [] (fun _ => false))), Hn|].
        intros e. destruct (nem_replace_ok e n (oset_and vs vs') Hn) as [_ ->]. cbn [meval]. rewrite mem_oset_and.
        destruct (mem_str (sv e n) vs), (mem_str (sv e n) vs'); reflexivity.
    - injection H as <-. split; [apply wf_mk_union; cbn; rewrite Hn, Wo; reflexivity|].
      intros e. rewrite mk_union_meval. cbn. rewrite orb_false_r. reflexivity.
  Qed.

  (* the dispatch tables *)
  Theorem single_and_l_sound a b r : single_and_l vmerge vcontains a b = Some r -> wf a = true -> wf b = true ->
    wf r = true /\ forall e, good e -> meval e r = meval e a && meval e b.
  Proof.
    intros H Wa Wb. destruct a as [| |x|n vs|n vs|l|l]; try discriminate; cbn [single_and_l] in H.
    - destruct b as [| |y|?|?|?|?]; try discriminate. injection H as <-. apply atom_and_sound; assumption.
    - destruct (equ_and_sound n vs b r H Wa Wb) as [W M]. split; [exact W|]. intros e _. apply M.
    - destruct (nem_and_sound n vs b r H Wa Wb) as [W M]. split; [exact W|]. intros e _. apply M.
  Qed.
  Theorem single_or_l_sound a b r : single_or_l vmerge vcontains a b = Some r -> wf a = true -> wf b = true ->
    wf r = true /\ forall e, good e -> meval e r = meval e a || meval e b.
  Proof.
    intros H Wa Wb. destruct a as [| |x|n vs|n vs|l|l]; try discriminate; cbn [single_or_l] in H.
    - destruct b as [| |y|?|?|?|?]; try discriminate. injection H as <-. apply atom_or_sound; assumption.
    - destruct (equ_or_sound n vs b r H Wa Wb) as [W M]. split; [exact W|]. intros e _. apply M.
    - destruct (nem_or_sound n vs b r H Wa Wb) as [W M]. split; [exact W|]. intros e _. apply M.
  Qed.
  Theorem single_and_r_sound b a r : single_and_r vcontains b a = Some r -> wf a = true -> wf b = true ->
    wf r = true /\ forall e, good e -> meval e r = meval e a && meval e b.
  Proof.
    intros H Wa Wb. destruct b as [| |x|n vs|n vs|l|l]; try discriminate; cbn [single_and_r] in H.
    - destruct (equ_and_sound n vs a r H Wb Wa) as [W M]. split; [exact W|]. intros e _. rewrite M. apply andb_comm.
    - destruct (nem_and_sound n vs a r H Wb Wa) as [W M]. split; [exact W|]. intros e _. rewrite M. apply andb_comm.
  Qed.
  Theorem single_or_r_sound b a r : single_or_r vcontains b a = Some r -> wf a = true -> wf b = true ->
    wf r = true /\ forall e, good e -> meval e r = meval e a || meval e b.
  Proof.
    intros H Wa Wb. destruct b as [| |x|n vs|n vs|l|l]; try discriminate; cbn [single_or_r] in H.
    - destruct (equ_or_sound n vs a r H Wb Wa) as [W M]. split; [exact W|]. intros e _. rewrite M. apply orb_comm.
    - destruct (nem_or_sound n vs a r H Wb Wa) as [W M]. split; [exact W|]. intros e _. rewrite M. apply orb_comm.
  Qed.
End SingleOps.
