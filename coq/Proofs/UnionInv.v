(* UnionInv.v — UnionSpecifier.__invert__ (generated: zip walk over neighbouring
   ranges) is the exact complement and returns a canonical value. *)
From Coq Require Import List Bool Orders OrdersFacts Lia.
From Verif Require Import PyRes Order Cuts Str SpecTypes GenSpec SpecSem RangeBridge UnionBase.
Import ListNotations.

Module UnionInv (V : OrderedTypeFull').
  Module UB := UnionBase V.
  Export UB.

  Lemma lb_raw m M im iM s :
    lb (mkRangeRaw (A:=V.t) m M im iM s) = match m with None => NegInf | Some v => C v (if im then Bef else Aft) end.
  Proof. reflexivity. Qed.
  Lemma ub_raw m M im iM s :
    ub (mkRangeRaw (A:=V.t) m M im iM s) = match M with None => PosInf | Some v => C v (if iM then Aft else Bef) end.
  Proof. reflexivity. Qed.

  Lemma if_negb_side (b : bool) : (if negb b then Aft else Bef) = (if b then Bef else Aft).
  Proof. destruct b; reflexivity. Qed.
  Lemma if_negb_side' (b : bool) : (if negb b then Bef else Aft) = (if b then Aft else Bef).
  Proof. destruct b; reflexivity. Qed.

  (* the gap between two neighbours of a chain *)
  Lemma gap_spec a b :
    okr a -> okr b -> CO.lt (ub a) (lb b) ->
    exists g, mk_range (rmax a) (rmin b) (negb (imax a)) (negb (imin b)) None = Ret g
              /\ lb g = ub a /\ ub g = lb b /\ okr g.
  Proof.
    intros [Na Wa] [Nb Wb] H.
    destruct a as [ma [xa|] ia ja sa]; [|exfalso; eapply not_posinf_lt; exact H].
    destruct b as [[xb|] mb ib jb sb]; [|exfalso; eapply not_lt_neginf; exact H].
    rewrite mk_range_ok by (split; cbn; congruence).
    eexists. split; [reflexivity|]. cbn [rmax rmin imax imin].
    unfold okr, ne, wfr. rewrite !lb_raw, !ub_raw in *. rewrite if_negb_side, if_negb_side'.
    split; [reflexivity|]. split; [reflexivity|].
    split; [exact H | split; cbn; congruence].
  Qed.

  Lemma tail_spec z :
    okr z ->
    (rmax z = None /\ ub z = PosInf)
    \/ (exists v, mk_range (rmax z) None (negb (imax z)) false None = Ret v
                  /\ is_none (rmax z) = false /\ lb v = ub z /\ ub v = PosInf /\ okr v).
  Proof.
    intros [Nz Wz]. destruct z as [mz [xz|] iz jz sz].
    - right. rewrite mk_range_ok by (split; cbn; congruence). eexists. split; [reflexivity|].
      split; [reflexivity|]. cbn [rmax imax].
      unfold okr, ne, wfr. rewrite !lb_raw, !ub_raw. rewrite if_negb_side'.
      split; [reflexivity|]. split; [reflexivity|].
      split; [apply lt_posinf | split; cbn; congruence].
    - left. split; reflexivity.
  Qed.

  Lemma head_spec z :
    okr z ->
    (rmin z = None /\ lb z = NegInf)
    \/ (exists v, mk_range None (rmin z) false (negb (imin z)) None = Ret v
                  /\ is_none (rmin z) = false /\ lb v = NegInf /\ ub v = lb z /\ okr v).
  Proof.
    intros [Nz Wz]. destruct z as [[xz|] Mz iz jz sz].
    - right. rewrite mk_range_ok by (split; cbn; congruence). eexists. split; [reflexivity|].
      split; [reflexivity|]. cbn [rmin imin].
      unfold okr, ne, wfr. rewrite !lb_raw, !ub_raw. rewrite if_negb_side.
      split; [reflexivity|]. split; [reflexivity|].
      split; [apply neginf_lt | split; cbn; congruence].
    - left. split; reflexivity.
  Qed.

  Lemma mems_nil c : mems c [] = false.
  Proof. reflexivity. Qed.

  Lemma last_range_app pre z : last_range (pre ++ [z]) = Ret z.
  Proof. unfold last_range. rewrite rev_app_distr. reflexivity. Qed.

  Lemma chain_head_le lo b l c : chain lo (b :: l) -> mems c (b :: l) = true -> CO.le (lb b) c.
  Proof.
    intros H M. apply chain_cons in H as (_ & [Nb _] & Hl). unfold ne in Nb.
    rewrite mems_cons in M. apply orb_true_iff in M as [M|M].
    - apply memr_true in M. tauto.
    - pose proof (chain_mems_above _ _ _ Hl M) as A. cbn [above] in A. corder.
  Qed.

  Definition hi_le (o : option cut) (c : cut) : Prop :=
    match o with None => True | Some x => CO.le x c end.

  Lemma loop_spec self first : forall l a acc lo pre,
    uranges self = pre ++ a :: l ->
    chain lo (a :: l) -> chain None acc -> hi_le (hi None acc) (lb a) ->
    exists s, union_invert_loop1 self first (combine (a :: l) l) acc = Ret s /\ canon s
              /\ forall c, CO.lt c PosInf ->
                   mem c s = mems c acc || (cleb (lb a) c && negb (mems c (a :: l))).
  Proof.
    induction l as [|b l IH]; intros a acc lo pre Hself Hch Hacc Hhi.
    - cbn [combine union_invert_loop1]. rewrite Hself, last_range_app. cbn [bind].
      apply chain_cons in Hch as (_ & Oa & _). pose proof Oa as [Na _]. unfold ne in Na.
      destruct (tail_spec a Oa) as [[E U] | (v & E & En & L & U & Ov)].
      + rewrite E. cbn [is_none negb].
        destruct (from_ranges_spec acc Hacc) as (s & Es & Cs & Ms).
        exists s. split; [exact Es|]. split; [exact Cs|].
        intros c Hc. rewrite Ms, mems_cons, mems_nil, orb_false_r.
        unfold memr. rewrite U.
        destruct (mems c acc); [reflexivity|]. cbn [orb]. cbool; try reflexivity; exfalso; corder.
      + rewrite En, E. cbn [negb bind].
        destruct (from_ranges_spec (acc ++ [v])) as (s & Es & Cs & Ms).
        { apply chain_app. split; [exact Hacc|]. apply chain_cons. split; [|split; [exact Ov|exact I]].
          rewrite L. destruct (hi None acc); cbn [above hi_le] in *; [corder|exact I]. }
        exists s. split; [exact Es|]. split; [exact Cs|].
        intros c Hc. rewrite Ms, mems_app, !mems_cons, !mems_nil, !orb_false_r.
        unfold memr. rewrite L, U.
        destruct (mems c acc); [reflexivity|]. cbn [orb]. cbool; try reflexivity; exfalso; corder.
    - cbn [combine union_invert_loop1].
      pose proof Hch as Hch0.
      apply chain_cons in Hch as (_ & Oa & Hbl). pose proof Oa as [Na _]. unfold ne in Na.
      pose proof Hbl as Hbl0.
      apply chain_cons in Hbl as (Hab & Ob & Hl). cbn [above] in Hab.
      destruct (gap_spec a b Oa Ob Hab) as (g & E & L & U & Og). rewrite E. cbn [bind].
      destruct (IH b (acc ++ [g]) (Some (ub a)) (pre ++ [a])) as (s & Es & Cs & Ms).
      { rewrite Hself, <- app_assoc. reflexivity. }
      { exact Hbl0. }
      { apply chain_app. split; [exact Hacc|]. apply chain_cons. split; [|split; [exact Og|exact I]].
        rewrite L. destruct (hi None acc); cbn [above hi_le] in *; [corder|exact I]. }
      { rewrite hi_app. cbn [hi hi_le]. rewrite U. corder. }
      exists s. split; [exact Es|]. split; [exact Cs|].
      intros c Hc. rewrite (Ms c Hc), mems_app, (mems_cons c g []), mems_nil, orb_false_r.
      change (mems c (a :: b :: l)) with (memr c a || mems c (b :: l)).
      destruct (mems c acc); [reflexivity|]. cbn [orb].
      destruct (mems c (b :: l)) eqn:M.
      + pose proof (chain_head_le _ _ _ _ Hbl0 M) as Hle.
        rewrite orb_true_r. cbn [negb]. rewrite !andb_false_r, orb_false_r.
        unfold memr. rewrite L, U. cbool; try reflexivity; exfalso; corder.
      + rewrite orb_false_r. cbn [negb]. rewrite !andb_true_r.
        unfold memr. rewrite L, U. cbool; try reflexivity; exfalso; corder.
  Qed.

  Theorem union_invert_spec u :
    canon (SUnion u) ->
    exists s, union_invert u = Ret s /\ canon s
              /\ forall c, CO.lt c PosInf -> mem c s = negb (mems c (uranges u)).
  Proof.
    intros [Hlen Hc]. unfold union_invert.
    destruct (uranges u) as [|r1 l] eqn:EU; [cbn in Hlen; lia|].
    cbn [nth_range nth_error bind tl].
    pose proof Hc as Hc0. apply chain_cons in Hc as (_ & O1 & _).
    destruct (head_spec r1 O1) as [[E L] | (v & E & En & L & U & Ov)].
    - rewrite E. cbn [is_none negb].
      destruct (loop_spec u r1 l r1 [] None []) as (s & Es & Cs & Ms).
      { exact EU. }
      { exact Hc0. }
      { exact I. }
      { exact I. }
      exists s. split; [exact Es|]. split; [exact Cs|].
      intros c Hc. rewrite (Ms c Hc), mems_nil. cbn [orb]. rewrite L.
      pose proof (neginf_le c). cbool; try reflexivity; exfalso; corder.
    - rewrite En, E. cbn [negb bind app].
      destruct (loop_spec u r1 l r1 [v] None []) as (s & Es & Cs & Ms).
      { exact EU. }
      { exact Hc0. }
      { apply chain_cons. split; [exact I|]. split; [exact Ov|exact I]. }
      { cbn [hi hi_le]. rewrite U. corder. }
      exists s. split; [exact Es|]. split; [exact Cs|].
      intros c Hc. rewrite (Ms c Hc), (mems_cons c v []), mems_nil, orb_false_r.
      destruct (mems c (r1 :: l)) eqn:M.
      + pose proof (chain_head_le None r1 l c Hc0 M) as Hle. cbn [negb]. rewrite andb_false_r, orb_false_r.
        unfold memr. rewrite L, U. pose proof (neginf_le c). cbool; try reflexivity; exfalso; corder.
      + cbn [negb]. rewrite andb_true_r.
        unfold memr. rewrite L, U. pose proof (neginf_le c). cbool; try reflexivity; exfalso; corder.
  Qed.
End UnionInv.
