(* RangeAnd.v — RangeSpecifier.__and__ (generated) is exact on cuts and canonical *)
From Coq Require Import List Bool Orders OrdersFacts.
From Verif Require Import PyRes Order Cuts Str SpecTypes GenSpec SpecSem RangeBridge.
Import ListNotations.

Module RangeAnd (V : OrderedTypeFull').
  Module RB := RangeBridge V.
  Export RB.

  Theorem range_and_spec a b :
    okr a -> okr b ->
    (range_and a (SRange b) = Ret SEmpty /\ forall c, memr c a && memr c b = false)
    \/ (exists r, range_and a (SRange b) = Ret (SRange r) /\ okr r
                  /\ CO.le (lb a) (lb r) /\ CO.le (lb b) (lb r)
                  /\ CO.le (ub r) (ub a) /\ CO.le (ub r) (ub b)
                  /\ forall c, memr c r = memr c a && memr c b).
  Proof.
    intros [Na Wa] [Nb Wb]. unfold ne in *.
    unfold range_and.
    rewrite !is_superset_spec, !allows_lower_spec, !is_strictly_lower_spec, !allows_higher_spec.
    unfold pif, bind.
    destruct (cleb (lb a) (lb b) && cleb (ub b) (ub a)) eqn:E1.
    { right. exists b. apply andb_prop in E1 as [E1 E2]. apply cleb_iff in E1, E2.
      split; [reflexivity|]. split; [split; assumption|].
      repeat (split; [corder|]). solve_mem. }
    destruct (cleb (lb b) (lb a) && cleb (ub a) (ub b)) eqn:E2.
    { right. exists a. apply andb_prop in E2 as [E2 E3]. apply cleb_iff in E2, E3.
      split; [reflexivity|]. split; [split; assumption|].
      repeat (split; [corder|]). solve_mem. }
    destruct (cltb (lb a) (lb b)) eqn:E3.
    - destruct (cleb (ub a) (lb b)) eqn:E4.
      + left. split; [reflexivity|]. apply cltb_iff in E3. apply cleb_iff in E4. solve_mem.
      + destruct (cltb (ub b) (ub a)) eqn:E5.
        * (* superset of b would have fired *)
          exfalso. apply cltb_iff in E3, E5.
          assert (cleb (lb a) (lb b) = true) by (apply cleb_iff; corder).
          assert (cleb (ub b) (ub a) = true) by (apply cleb_iff; corder).
          rewrite H, H0 in E1. discriminate.
        * rewrite mk_range_ok by (apply wfr_mk_ok_lo_hi; assumption).
          right. eexists. split; [reflexivity|].
          match goal with |- okr ?r0 /\ _ => set (r := r0) end.
          assert (Hl : lb r = lb b) by reflexivity.
          assert (Hu : ub r = ub a) by reflexivity.
          apply cltb_iff in E3.
          assert (~ CO.le (ub a) (lb b)) by (rewrite <- cleb_iff; congruence).
          assert (~ CO.lt (ub b) (ub a)) by (rewrite <- cltb_iff; congruence).
          split; [split; [unfold ne; rewrite Hl, Hu; corder | split; [apply Wb || apply Wa | apply Wa || apply Wb]]|].
          rewrite Hl, Hu. repeat (split; [corder|]).
          intros c. unfold memr. rewrite Hl, Hu. solve_mem.
    - destruct (cleb (ub b) (lb a)) eqn:E4.
      + left. split; [reflexivity|]. apply cleb_iff in E4.
        assert (~ CO.lt (lb a) (lb b)) by (rewrite <- cltb_iff; congruence). solve_mem.
      + destruct (cltb (ub b) (ub a)) eqn:E5.
        * rewrite mk_range_ok by (apply wfr_mk_ok_lo_hi; assumption).
          right. eexists. split; [reflexivity|].
          match goal with |- okr ?r0 /\ _ => set (r := r0) end.
          assert (Hl : lb r = lb a) by reflexivity.
          assert (Hu : ub r = ub b) by reflexivity.
          apply cltb_iff in E5.
          assert (~ CO.le (ub b) (lb a)) by (rewrite <- cleb_iff; congruence).
          assert (~ CO.lt (lb a) (lb b)) by (rewrite <- cltb_iff; congruence).
          split; [split; [unfold ne; rewrite Hl, Hu; corder | split; [apply Wb || apply Wa | apply Wa || apply Wb]]|].
          rewrite Hl, Hu. repeat (split; [corder|]).
          intros c. unfold memr. rewrite Hl, Hu. solve_mem.
        * (* superset of a would have fired *)
          exfalso.
          assert (~ CO.lt (lb a) (lb b)) by (rewrite <- cltb_iff; congruence).
          assert (~ CO.lt (ub b) (ub a)) by (rewrite <- cltb_iff; congruence).
          assert (cleb (lb b) (lb a) = true) by (apply cleb_iff; corder).
          assert (cleb (ub a) (ub b) = true) by (apply cleb_iff; corder).
          rewrite H1, H2 in E2. discriminate.
  Qed.

End RangeAnd.
