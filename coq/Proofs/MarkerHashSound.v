(* Proofs/MarkerHashSound.v — ==-equal markers have equal hashes (Model/MarkerHash.v): Set._hash is invariant under
   permutation of the elements (XOR accumulation under a 64-bit mask), two duplicate-free value lists that are equal as
   sets are permutations of each other, and the dataclass hashes are functions of the fields compared by ==. *)
From Coq Require Import List Bool ZArith NArith Arith Lia Permutation.
From Verif Require Import Str Marker MarkerHash MarkerBase.
Import ListNotations.
Open Scope Z_scope.

Lemma set_step_swap h a b : set_step (set_step h a) b = set_step (set_step h b) a.
Proof.
  unfold set_step. apply Z.bits_inj'. intros n Hn.
  rewrite !Z.land_spec, !Z.lxor_spec, !Z.land_spec, !Z.lxor_spec.
  destruct (Z.testbit h n), (Z.testbit (set_scramble a) n), (Z.testbit (set_scramble b) n), (Z.testbit M64 n); reflexivity.
Qed.

Lemma fold_set_step_perm l l' : Permutation l l' -> forall h, fold_left set_step l h = fold_left set_step l' h.
Proof.
  induction 1 as [|x l l' _ IH|x y l|l l' l'' _ IH1 _ IH2]; intros h; cbn [fold_left].
  - reflexivity.
  - apply IH.
  - rewrite set_step_swap. reflexivity.
  - rewrite IH1. apply IH2.
Qed.

Lemma set_hash_perm l l' : Permutation l l' -> set_hash l = set_hash l'.
Proof.
  intros P. unfold set_hash. rewrite (Permutation_length P). f_equal. apply fold_set_step_perm. exact P.
Qed.

Lemma nodupb_NoDup l : nodupb l = true -> NoDup l.
Proof.
  induction l as [|x t IH]; cbn [nodupb]; intros H; [constructor|].
  apply andb_prop in H as [H1 H2]. constructor; [|exact (IH H2)].
  intros I. apply mem_str_In in I. rewrite I in H1. discriminate.
Qed.

Lemma set_eqb_perm a b : nodupb a = true -> nodupb b = true -> set_eqb a b = true -> Permutation a b.
Proof.
  intros Na Nb H. unfold set_eqb in H.
  apply andb_prop in H as [H Hb]. apply andb_prop in H as [_ Ha].
  rewrite forallb_forall in Ha, Hb.
  apply NoDup_Permutation; [exact (nodupb_NoDup a Na) | exact (nodupb_NoDup b Nb) |].
  intros x. split; intros I; apply mem_str_In; [apply Ha | apply Hb]; exact I.
Qed.

Section HashSound.
  Variable hstr : str -> Z.
  Variable hop : mop -> Z.

  Lemma group_hash_eq n v v' : nodupb v = true -> nodupb v' = true -> set_eqb v v' = true ->
    group_hash hstr n v = group_hash hstr n v'.
  Proof.
    intros N1 N2 S. unfold group_hash. do 2 f_equal. f_equal. apply set_hash_perm. apply Permutation_map.
    exact (set_eqb_perm v v' N1 N2 S).
  Qed.

  Lemma marker_eqb_mhash : forall a b, nodup_vals a = true -> nodup_vals b = true -> marker_eqb a b = true ->
    mhash hstr hop a = mhash hstr hop b.
  Proof.
    fix IH 1. intros a b. destruct a as [| |x|n v|n v|l|l], b as [| |y|n' v'|n' v'|l'|l']; cbn [marker_eqb nodup_vals mhash]; try discriminate; try reflexivity.
    - intros _ _ H. apply atom_eqb_eq in H. subst. reflexivity.
    - intros N1 N2 H. apply andb_prop in H as [Hn Hs]. destruct (str_eqb_spec n n'); [|discriminate]. subst. exact (group_hash_eq n' v v' N1 N2 Hs).
    - intros N1 N2 H. apply andb_prop in H as [Hn Hs]. destruct (str_eqb_spec n n'); [|discriminate]. subst. exact (group_hash_eq n' v v' N1 N2 Hs).
    - intros N1 N2 H. do 2 f_equal. f_equal. revert l' N1 N2 H. induction l as [|x t IHt]; intros [|y t']; try discriminate; [reflexivity|].
      cbn [forallb map]. intros N1 N2 H. apply andb_prop in N1 as [N1 N1']. apply andb_prop in N2 as [N2 N2']. apply andb_prop in H as [H H'].
      f_equal; [exact (IH x y N1 N2 H) | exact (IHt t' N1' N2' H')].
    - intros N1 N2 H. do 2 f_equal. f_equal. revert l' N1 N2 H. induction l as [|x t IHt]; intros [|y t']; try discriminate; [reflexivity|].
      cbn [forallb map]. intros N1 N2 H. apply andb_prop in N1 as [N1 N1']. apply andb_prop in N2 as [N2 N2']. apply andb_prop in H as [H H'].
      f_equal; [exact (IH x y N1 N2 H) | exact (IHt t' N1' N2' H')].
  Qed.
End HashSound.
