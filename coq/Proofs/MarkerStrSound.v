(* MarkerStrSound.v — the marker text round trip at lexeme level: the rendering of a
   renderable marker parses (PEP 508 grammar) to a tree whose packaging-style evaluation
   equals the marker's own evaluation; parenthesisation is therefore adequate for every
   tree shape. *)
From Coq Require Import List Bool NArith Arith Lia.
From Verif Require Import PyRes Str Marker MarkerBase MarkerSingle CorrMarker MarkerStr C02.
Import ListNotations.

Lemma marker_ind2 (P : marker -> Prop) :
  P MAny -> P MEmpty -> (forall a, P (MAtom a)) -> (forall n vs, P (MEqU n vs)) -> (forall n vs, P (MNeM n vs)) ->
  (forall l, Forall P l -> P (MMulti l)) -> (forall l, Forall P l -> P (MUnion l)) -> forall m, P m.
Proof.
  intros H1 H2 H3 H4 H5 H6 H7. fix IH 1. intros [| |a|n vs|n vs|l|l]; [exact H1 | exact H2 | apply H3 | apply H4 | apply H5 | |].
  - apply H6. induction l as [|x l IHl]; constructor; [apply IH | exact IHl].
  - apply H7. induction l as [|x l IHl]; constructor; [apply IH | exact IHl].
Qed.

(* ---- items ---- *)
Fixpoint joini (sep : pitem) (parts : list (list pitem)) : list pitem :=
  match parts with
  | [] => []
  | [p] => p
  | p :: rest => p ++ sep :: joini sep rest
  end.
Definition atom_item (a : atom) : list pitem := [PSub (PAtom a)].
(* the flat item list packaging's parser yields for str(m) *)
Fixpoint to_items (m : marker) : list pitem :=
  match m with
  | MAny | MEmpty => []
  | MAtom a => atom_item a
  | MEqU n vs => joini POr (map (fun v => atom_item (mkAtom n MEq v false)) vs)
  | MNeM n vs => joini PAnd (map (fun v => atom_item (mkAtom n MNe v false)) vs)
  | MMulti l =>
      joini PAnd ((fix go (l : list marker) : list (list pitem) :=
                     match l with
                     | [] => []
                     | x :: t => (match x with
                                  | MAtom _ | MMulti _ => to_items x
                                  | _ => [PSub (PList (to_items x))]
                                  end) :: go t
                     end) l)
  | MUnion l => joini POr ((fix go (l : list marker) : list (list pitem) := match l with [] => [] | x :: t => to_items x :: go t end) l)
  end.
Definition multi_part (x : marker) : list pitem :=
  match x with MAtom _ | MMulti _ => to_items x | _ => [PSub (PList (to_items x))] end.
Lemma to_items_multi l : to_items (MMulti l) = joini PAnd (map multi_part l).
Proof. cbn [to_items]. f_equal; try (induction l as [|x l IH]; [reflexivity|]; cbn [map]; rewrite <- IH; reflexivity). Qed.
Lemma to_items_union l : to_items (MUnion l) = joini POr (map to_items l).
Proof. cbn [to_items]. f_equal; try (induction l as [|x l IH]; [reflexivity|]; cbn [map]; rewrite <- IH; reflexivity). Qed.

(* unparse: items back to lexemes *)
Definition unparse_ (ut : ptree -> list lex) := fix go (its : list pitem) : list lex :=
  match its with
  | [] => []
  | PAnd :: r => LAnd :: go r
  | POr :: r => LOr :: go r
  | PSub t :: r => ut t ++ go r
  end.
Fixpoint unparse_tree (t : ptree) : list lex :=
  match t with
  | PAtom a => atom_lex a
  | PList its => LLP :: unparse_ unparse_tree its ++ [LRP]
  end.
Definition unparse := unparse_ unparse_tree.
Lemma unparse_cons_and r : unparse (PAnd :: r) = LAnd :: unparse r. Proof. reflexivity. Qed.
Lemma unparse_cons_or r : unparse (POr :: r) = LOr :: unparse r. Proof. reflexivity. Qed.
Lemma unparse_cons_sub t r : unparse (PSub t :: r) = unparse_tree t ++ unparse r. Proof. reflexivity. Qed.
Lemma unparse_nil : unparse [] = []. Proof. reflexivity. Qed.
Lemma unparse_app a b : unparse (a ++ b) = unparse a ++ unparse b.
Proof.
  induction a as [|[| |t] a IH]; cbn [app].
  - reflexivity.
  - rewrite !unparse_cons_and, IH. reflexivity.
  - rewrite !unparse_cons_or, IH. reflexivity.
  - rewrite !unparse_cons_sub, IH, app_assoc. reflexivity.
Qed.

Lemma unparse_paren its : unparse [PSub (PList its)] = LLP :: unparse its ++ [LRP].
Proof. rewrite unparse_cons_sub, unparse_nil, app_nil_r. reflexivity. Qed.

Definition sep_lex (s : pitem) : lex := match s with PAnd => LAnd | _ => LOr end.
Lemma unparse_joini sep parts : sep = PAnd \/ sep = POr ->
  unparse (joini sep parts) = join (sep_lex sep) (map unparse parts).
Proof.
  intros Hs. induction parts as [|p [|q rest] IH]; [reflexivity | reflexivity|].
  change (joini sep (p :: q :: rest)) with (p ++ sep :: joini sep (q :: rest)).
  change (map unparse (p :: q :: rest)) with (unparse p :: map unparse (q :: rest)).
  change (join (sep_lex sep) (unparse p :: map unparse (q :: rest))) with (unparse p ++ sep_lex sep :: join (sep_lex sep) (map unparse (q :: rest))).
  rewrite unparse_app. f_equal. destruct Hs as [-> | ->]; cbn [sep_lex]; [rewrite unparse_cons_and | rewrite unparse_cons_or]; rewrite IH; reflexivity.
Qed.

(* renderable markers: what str() can express *)
Definition not_const (m : marker) : bool := match m with MAny | MEmpty => false | _ => true end.
Fixpoint rnd (m : marker) : bool :=
  match m with
  | MAny | MEmpty => true
  | MAtom _ => true
  | MEqU _ vs | MNeM _ vs => negb (Nat.eqb (length vs) 0)
  | MMulti l | MUnion l =>
      negb (Nat.eqb (length l) 0)
      && (fix go (l : list marker) : bool := match l with [] => true | x :: t => not_const x && rnd x && go t end) l
  end.
Lemma rnd_list l : (fix go (l : list marker) : bool := match l with [] => true | x :: t => not_const x && rnd x && go t end) l
                   = forallb (fun x => not_const x && rnd x) l.
Proof. induction l as [|x l IH]; [reflexivity|]. cbn. rewrite IH. reflexivity. Qed.

(* the rendering is the unparse of the item structure *)
Lemma join_map_atoms (sep : pitem) (f : str -> atom) vs : sep = PAnd \/ sep = POr ->
  join (sep_lex sep) (map (fun v => atom_lex (f v)) vs) = unparse (joini sep (map (fun v => atom_item (f v)) vs)).
Proof.
  intros Hs. rewrite unparse_joini by exact Hs. f_equal. rewrite map_map. apply map_ext. intros v. change (unparse (atom_item (f v))) with (atom_lex (f v) ++ []). rewrite app_nil_r. reflexivity.
Qed.

Lemma rnd_children l : negb (Nat.eqb (length l) 0) && forallb (fun x => not_const x && rnd x) l = true ->
  Forall (fun x => not_const x = true /\ rnd x = true) l.
Proof.
  intros H. apply andb_prop in H as [_ H]. apply Forall_forall. intros x Hx. rewrite forallb_forall in H. specialize (H x Hx).
  apply andb_prop in H. exact H.
Qed.
Lemma rnd_multi l : rnd (MMulti l) = negb (Nat.eqb (length l) 0) && forallb (fun x => not_const x && rnd x) l.
Proof. cbn [rnd]. rewrite rnd_list. reflexivity. Qed.
Lemma rnd_union l : rnd (MUnion l) = negb (Nat.eqb (length l) 0) && forallb (fun x => not_const x && rnd x) l.
Proof. cbn [rnd]. rewrite rnd_list. reflexivity. Qed.

Theorem mstr_unparse m : rnd m = true -> m <> MEmpty -> mstr m = unparse (to_items m).
Proof.
  revert m. apply (marker_ind2 (fun m => rnd m = true -> m <> MEmpty -> mstr m = unparse (to_items m))); [reflexivity | congruence | intros a | intros n vs | intros n vs | intros l IH | intros l IH]; intros R NE.
  - change (unparse (to_items (MAtom a))) with (atom_lex a ++ []). rewrite app_nil_r. reflexivity.
  - exact (join_map_atoms POr (fun v => mkAtom n MEq v false) vs (or_intror eq_refl)).
  - exact (join_map_atoms PAnd (fun v => mkAtom n MNe v false) vs (or_introl eq_refl)).
  - rewrite rnd_multi in R. apply rnd_children in R.
    rewrite to_items_multi, unparse_joini by (left; reflexivity). cbn [mstr sep_lex]. f_equal. clear NE.
    induction IH as [|x l Hx _ IHl]; [reflexivity|]. inversion R as [|? ? [Nx Rx] Rl]; subst. cbn [map]. rewrite <- (IHl Rl). f_equal.
    assert (Hx' : mstr x = unparse (to_items x)) by (apply Hx; [exact Rx | intros ->; discriminate Nx]).
    destruct x; cbn [multi_part]; try exact Hx'; rewrite unparse_paren, <- Hx'; reflexivity.
  - rewrite rnd_union in R. apply rnd_children in R.
    rewrite to_items_union, unparse_joini by (right; reflexivity). cbn [mstr sep_lex]. f_equal. clear NE.
    induction IH as [|x l Hx _ IHl]; [reflexivity|]. inversion R as [|? ? [Nx Rx] Rl]; subst. cbn [map]. rewrite <- (IHl Rl). f_equal.
    apply Hx; [exact Rx | intros ->; discriminate Nx].
Qed.

(* ---- the grammar: parse (unparse items) = items ---- *)
Definition size_items_ (st : ptree -> nat) := fix go (its : list pitem) : nat :=
  match its with [] => O | PSub t :: r => S (st t + go r) | _ :: r => S (go r) end.
Fixpoint size_tree (t : ptree) : nat := match t with PAtom _ => 1%nat | PList its => S (size_items_ size_tree its) end.
Definition size_items := size_items_ size_tree.

(* well-formed item lists: sub (op sub)*, recursively *)
Definition wfi_ (wt : ptree -> bool) := fix go (its : list pitem) : bool :=
  match its with
  | [PSub t] => wt t
  | PSub t :: PAnd :: r | PSub t :: POr :: r => wt t && go r
  | _ => false
  end.
Fixpoint wft (t : ptree) : bool := match t with PAtom _ => true | PList its => wfi_ wft its end.
Definition wfi := wfi_ wft.

Lemma reflect_invol o : reflect (reflect o) = o.
Proof. destruct o; reflexivity. Qed.

Lemma patom_atom f a rest : patom (S f) (atom_lex a ++ rest) = Some (PAtom a, rest).
Proof.
  destruct a as [n o v r]. unfold atom_lex. cbn [a_rev a_name a_op a_value]. destruct r; cbn [app patom].
  - rewrite reflect_invol. reflexivity.
  - reflexivity.
Qed.

Definition stops (rest : list lex) : Prop := rest = [] \/ exists r, rest = LRP :: r.

Lemma parse_unparse fuel :
  (forall its rest, wfi its = true -> (size_items its < fuel)%nat -> stops rest -> pmarker fuel (unparse its ++ rest) = Some (its, rest))
  /\ (forall t rest, wft t = true -> (size_tree t < fuel)%nat -> patom fuel (unparse_tree t ++ rest) = Some (t, rest)).
Proof.
  induction fuel as [|f [IHm IHa]]; [split; intros; lia|]. split.
  - intros its rest W Sz St. destruct its as [|[| |t] its]; try discriminate W.
    assert (Hstop : forall l, pmarker (S f) (unparse_tree t ++ l) = match patom f (unparse_tree t ++ l) with
                     | Some (it, LAnd :: r0) => match pmarker f r0 with Some (its0, r1) => Some (PSub it :: PAnd :: its0, r1) | None => None end
                     | Some (it, LOr :: r0) => match pmarker f r0 with Some (its0, r1) => Some (PSub it :: POr :: its0, r1) | None => None end
                     | Some (it, r0) => Some ([PSub it], r0) | None => None end) by reflexivity.
    destruct its as [|[| |t2] r].
    + (* single *)
      change (wfi [PSub t]) with (wft t) in W. change (size_items [PSub t]) with (S (size_tree t + 0)) in Sz.
      rewrite unparse_cons_sub, unparse_nil, app_nil_r, Hstop, (IHa t rest W) by lia.
      destruct St as [-> | (r0 & ->)]; reflexivity.
    + change (wfi (PSub t :: PAnd :: r)) with (wft t && wfi r) in W. apply andb_prop in W as [Wt Wr].
      change (size_items (PSub t :: PAnd :: r)) with (S (size_tree t + S (size_items r))) in Sz.
      rewrite unparse_cons_sub, unparse_cons_and, <- app_assoc. cbn [app]. rewrite Hstop, (IHa t _ Wt) by lia.
      rewrite (IHm r rest Wr) by (lia || exact St). reflexivity.
    + change (wfi (PSub t :: POr :: r)) with (wft t && wfi r) in W. apply andb_prop in W as [Wt Wr].
      change (size_items (PSub t :: POr :: r)) with (S (size_tree t + S (size_items r))) in Sz.
      rewrite unparse_cons_sub, unparse_cons_or, <- app_assoc. cbn [app]. rewrite Hstop, (IHa t _ Wt) by lia.
      rewrite (IHm r rest Wr) by (lia || exact St). reflexivity.
    + discriminate W.
  - intros t rest W Sz. destruct t as [a|its].
    + apply patom_atom.
    + cbn [unparse_tree]. fold unparse. cbn [app patom]. rewrite <- app_assoc. cbn [app].
      cbn [size_tree] in Sz. fold size_items in Sz. cbn [wft] in W. fold wfi in W.
      rewrite (IHm its (LRP :: rest) W) by (lia || (right; eexists; reflexivity)). reflexivity.
Qed.

(* ---- to_items is well formed ---- *)
Lemma wfi_single t : wfi [PSub t] = wft t. Proof. reflexivity. Qed.
Lemma wfi_and t r : wfi (PSub t :: PAnd :: r) = wft t && wfi r. Proof. reflexivity. Qed.
Lemma wfi_or t r : wfi (PSub t :: POr :: r) = wft t && wfi r. Proof. reflexivity. Qed.

Lemma wfi_join sep q : sep = PAnd \/ sep = POr -> wfi q = true -> forall p, wfi p = true -> wfi (p ++ sep :: q) = true.
Proof.
  intros Hs Wq p0.
  assert (H : forall n p, (length p <= n)%nat -> wfi p = true -> wfi (p ++ sep :: q) = true).
  { induction n as [|n IH]; intros p L W.
    - destruct p; [discriminate W | cbn in L; lia].
    - destruct p as [|[| |t] [|[| |t2] r]]; try discriminate W.
      + rewrite wfi_single in W. cbn [app]. destruct Hs as [-> | ->]; [rewrite wfi_and | rewrite wfi_or]; rewrite W, Wq; reflexivity.
      + rewrite wfi_and in W. apply andb_prop in W as [Wt Wr]. cbn [app]. rewrite wfi_and, Wt. apply IH; [cbn in L; lia | exact Wr].
      + rewrite wfi_or in W. apply andb_prop in W as [Wt Wr]. cbn [app]. rewrite wfi_or, Wt. apply IH; [cbn in L; lia | exact Wr]. }
  apply (H (length p0) p0). lia.
Qed.

Lemma wfi_joini sep parts : sep = PAnd \/ sep = POr -> parts <> [] -> Forall (fun p => wfi p = true) parts -> wfi (joini sep parts) = true.
Proof.
  intros Hs. induction parts as [|p [|q rest] IH]; intros Hne F; [congruence | inversion F; assumption|].
  inversion F as [|? ? Wp F']; subst.
  change (joini sep (p :: q :: rest)) with (p ++ sep :: joini sep (q :: rest)).
  apply wfi_join; [exact Hs | apply IH; [discriminate | exact F'] | exact Wp].
Qed.

Lemma map_nonempty {A B} (f : A -> B) l : negb (Nat.eqb (length l) 0) = true -> map f l <> [].
Proof. destruct l; [discriminate | discriminate]. Qed.

Theorem to_items_wf m : rnd m = true -> not_const m = true -> wfi (to_items m) = true.
Proof.
  revert m. apply (marker_ind2 (fun m => rnd m = true -> not_const m = true -> wfi (to_items m) = true));
    [discriminate | discriminate | intros a | intros n vs | intros n vs | intros l IH | intros l IH]; intros R NC.
  - reflexivity.
  - cbn [to_items]. apply wfi_joini; [right; reflexivity | apply map_nonempty; exact R|].
    apply Forall_forall. intros p Hp. apply in_map_iff in Hp as (v & <- & _). reflexivity.
  - cbn [to_items]. apply wfi_joini; [left; reflexivity | apply map_nonempty; exact R|].
    apply Forall_forall. intros p Hp. apply in_map_iff in Hp as (v & <- & _). reflexivity.
  - rewrite rnd_multi in R. pose proof (rnd_children l R) as RC. apply andb_prop in R as [Rn _].
    rewrite to_items_multi. apply wfi_joini; [left; reflexivity | apply map_nonempty; exact Rn|].
    clear Rn NC. induction IH as [|x l Hx _ IHl]; [constructor|]. inversion RC as [|? ? [Nx Rx] Rl]; subst. cbn [map]. constructor; [|exact (IHl Rl)].
    specialize (Hx Rx Nx). destruct x; cbn [multi_part]; try exact Hx; rewrite wfi_single; exact Hx.
  - rewrite rnd_union in R. pose proof (rnd_children l R) as RC. apply andb_prop in R as [Rn _].
    rewrite to_items_union. apply wfi_joini; [right; reflexivity | apply map_nonempty; exact Rn|].
    clear Rn NC. induction IH as [|x l Hx _ IHl]; [constructor|]. inversion RC as [|? ? [Nx Rx] Rl]; subst. cbn [map]. constructor; [|exact (IHl Rl)].
    exact (Hx Rx Nx).
Qed.

(* ---- meaning of the item structure ---- *)
Section Sem.
  Variable ev : ptree -> bool.
  Notation pv := (pev_ ev).
  Definition no_or (its : list pitem) : bool := forallb (fun i => match i with POr => false | _ => true end) its.

  Lemma pv_app_or p : forall rest cur, pv (p ++ POr :: rest) cur = pv p cur || pv rest true.
  Proof.
    induction p as [|[| |t] p IH]; intros rest cur; cbn [app pev_].
    - reflexivity.
    - apply IH.
    - rewrite IH, orb_assoc. reflexivity.
    - apply IH.
  Qed.
  Lemma pv_app_noor p : no_or p = true -> forall rest cur, pv (p ++ rest) cur = pv rest (pv p cur).
  Proof.
    induction p as [|[| |t] p IH]; intros N rest cur; cbn [app pev_]; try discriminate N.
    - reflexivity.
    - apply IH. exact N.
    - apply IH. exact N.
  Qed.
  Lemma pv_noor_cur p : no_or p = true -> forall cur, pv p cur = cur && pv p true.
  Proof.
    induction p as [|[| |t] p IH]; intros N cur; cbn [pev_]; try discriminate N.
    - rewrite andb_true_r. reflexivity.
    - apply IH. exact N.
    - rewrite (IH N (cur && ev t)), (IH N (true && ev t)). cbn [andb]. rewrite andb_assoc. reflexivity.
  Qed.

  Lemma pv_joini_or parts : parts <> [] -> pv (joini POr parts) true = existsb (fun p => pv p true) parts.
  Proof.
    induction parts as [|p [|q rest] IH]; intros Hne; [congruence | cbn; rewrite orb_false_r; reflexivity|].
    change (joini POr (p :: q :: rest)) with (p ++ POr :: joini POr (q :: rest)).
    rewrite pv_app_or, IH by discriminate. reflexivity.
  Qed.
  Lemma no_or_joini_and parts : Forall (fun p => no_or p = true) parts -> no_or (joini PAnd parts) = true.
  Proof.
    induction parts as [|p [|q rest] IH]; intros F; [reflexivity | inversion F; assumption|].
    inversion F as [|? ? Np F']; subst. change (joini PAnd (p :: q :: rest)) with (p ++ PAnd :: joini PAnd (q :: rest)).
    unfold no_or. rewrite forallb_app. cbn [forallb]. fold (no_or p). fold (no_or (joini PAnd (q :: rest))). rewrite Np, (IH F'). reflexivity.
  Qed.
  Lemma pv_joini_and parts : parts <> [] -> Forall (fun p => no_or p = true) parts -> pv (joini PAnd parts) true = forallb (fun p => pv p true) parts.
  Proof.
    induction parts as [|p [|q rest] IH]; intros Hne F; [congruence | cbn; rewrite andb_true_r; reflexivity|].
    inversion F as [|? ? Np F']; subst.
    change (joini PAnd (p :: q :: rest)) with (p ++ PAnd :: joini PAnd (q :: rest)).
    rewrite (pv_app_noor p Np). cbn [pev_]. rewrite (pv_noor_cur _ (no_or_joini_and _ F')), IH by (discriminate || exact F'). reflexivity.
  Qed.
End Sem.

Lemma no_or_multi_part x : rnd x = true -> no_or (multi_part x) = true.
Proof.
  revert x. apply (marker_ind2 (fun x => rnd x = true -> no_or (multi_part x) = true)); try (intros; reflexivity).
  intros l IH R. rewrite rnd_multi in R. pose proof (rnd_children l R) as RC.
  change (multi_part (MMulti l)) with (to_items (MMulti l)). rewrite to_items_multi. apply no_or_joini_and.
  clear R. induction IH as [|x l Hx _ IHl]; [constructor|]. inversion RC as [|? ? [_ Rx] Rl]; subst. cbn [map].
  constructor; [exact (Hx Rx) | exact (IHl Rl)].
Qed.

Lemma atom_item_val e a cur : pev_ (peval e) (atom_item a) cur = cur && atom_eval e a.
Proof. reflexivity. Qed.

Theorem items_meaning e m : rnd m = true -> not_const m = true -> wf m = true ->
  pev_ (peval e) (to_items m) true = meval e m.
Proof.
  revert m. apply (marker_ind2 (fun m => rnd m = true -> not_const m = true -> wf m = true -> pev_ (peval e) (to_items m) true = meval e m));
    [discriminate | discriminate | intros a | intros n vs | intros n vs | intros l IH | intros l IH]; intros R NC W.
  - reflexivity.
  - cbn [to_items meval wf] in *. rewrite pv_joini_or by (apply map_nonempty; exact R).
    induction vs as [|v vs IHv]; [reflexivity|]. cbn [map existsb mem_str]. rewrite atom_item_val, (atom_eval_new e n MEq v W). cbn [andb gen_contains].
    destruct vs as [|v2 vs']; [cbn; reflexivity|]. rewrite IHv by reflexivity. reflexivity.
  - cbn [to_items meval wf] in *. rewrite pv_joini_and; [| apply map_nonempty; exact R | apply Forall_forall; intros p Hp; apply in_map_iff in Hp as (v & <- & _); reflexivity].
    induction vs as [|v vs IHv]; [reflexivity|]. cbn [map forallb mem_str]. rewrite atom_item_val, (atom_eval_new e n MNe v W). cbn [andb gen_contains].
    destruct vs as [|v2 vs']; [cbn; rewrite andb_true_r, orb_false_r; reflexivity|]. rewrite IHv by reflexivity. rewrite negb_orb. reflexivity.
  - rewrite rnd_multi in R. pose proof (rnd_children l R) as RC. apply andb_prop in R as [Rn _]. rewrite wf_multi in W.
    rewrite to_items_multi, pv_joini_and; [| apply map_nonempty; exact Rn | apply Forall_forall; intros p Hp; apply in_map_iff in Hp as (x & <- & Hx); rewrite Forall_forall in RC; apply no_or_multi_part, (RC x Hx)].
    cbn [meval]. clear Rn NC. induction IH as [|x l Hx _ IHl]; [reflexivity|]. inversion RC as [|? ? [Nx Rx] Rl]; subst.
    cbn [forallb] in W. apply andb_prop in W as [Wx Wl]. cbn [map forallb]. rewrite (IHl Wl Rl). f_equal.
    specialize (Hx Rx Nx Wx). destruct x; cbn [multi_part]; try exact Hx; cbn [pev_]; cbn [andb]; rewrite peval_list; exact Hx.
  - rewrite rnd_union in R. pose proof (rnd_children l R) as RC. apply andb_prop in R as [Rn _]. rewrite wf_union in W.
    rewrite to_items_union, pv_joini_or by (apply map_nonempty; exact Rn).
    cbn [meval]. clear Rn NC. induction IH as [|x l Hx _ IHl]; [reflexivity|]. inversion RC as [|? ? [Nx Rx] Rl]; subst.
    cbn [forallb] in W. apply andb_prop in W as [Wx Wl]. cbn [map existsb]. rewrite (IHl Wl Rl), (Hx Rx Nx Wx). reflexivity.
Qed.

(* atoms of the items are the atoms of the marker: pwf from wf *)
Lemma pwfl_joini sep parts : sep = PAnd \/ sep = POr -> Forall (fun p => pwfl p = true) parts -> pwfl (joini sep parts) = true.
Proof.
  intros Hs. induction parts as [|p [|q rest] IH]; intros F; [reflexivity | inversion F; assumption|].
  inversion F as [|? ? Wp F']; subst. change (joini sep (p :: q :: rest)) with (p ++ sep :: joini sep (q :: rest)).
  assert (Happ : forall a b, pwfl (a ++ b) = pwfl a && pwfl b).
  { induction a as [|[| |t] a IHa]; intros b; cbn; try apply IHa; [reflexivity|]. fold pwfl. rewrite IHa, andb_assoc. reflexivity. }
  rewrite Happ, Wp. destruct Hs as [-> | ->]; cbn; fold pwfl; exact (IH F').
Qed.

Theorem to_items_pwf m : rnd m = true -> wf m = true -> pwfl (to_items m) = true.
Proof.
  revert m. apply (marker_ind2 (fun m => rnd m = true -> wf m = true -> pwfl (to_items m) = true));
    [reflexivity | reflexivity | intros a | intros n vs | intros n vs | intros l IH | intros l IH]; intros R W.
  - cbn. rewrite andb_true_r. exact W.
  - cbn [to_items]. apply pwfl_joini; [right; reflexivity|]. apply Forall_forall. intros p Hp. apply in_map_iff in Hp as (v & <- & _).
    cbn. rewrite andb_true_r. apply ok_new_atom; [exact W | reflexivity].
  - cbn [to_items]. apply pwfl_joini; [left; reflexivity|]. apply Forall_forall. intros p Hp. apply in_map_iff in Hp as (v & <- & _).
    cbn. rewrite andb_true_r. apply ok_new_atom; [exact W | reflexivity].
  - rewrite rnd_multi in R. pose proof (rnd_children l R) as RC. rewrite wf_multi in W. rewrite to_items_multi. apply pwfl_joini; [left; reflexivity|].
    clear R. induction IH as [|x l Hx _ IHl]; [constructor|]. inversion RC as [|? ? [_ Rx] Rl]; subst. cbn [forallb] in W. apply andb_prop in W as [Wx Wl].
    cbn [map]. constructor; [|first [exact (IHl Rl Wl) | exact (IHl Wl Rl)]]. specialize (Hx Rx Wx). destruct x; cbn [multi_part]; try exact Hx; cbn; fold pwfl; rewrite andb_true_r; exact Hx.
  - rewrite rnd_union in R. pose proof (rnd_children l R) as RC. rewrite wf_union in W. rewrite to_items_union. apply pwfl_joini; [right; reflexivity|].
    clear R. induction IH as [|x l Hx _ IHl]; [constructor|]. inversion RC as [|? ? [_ Rx] Rl]; subst. cbn [forallb] in W. apply andb_prop in W as [Wx Wl].
    cbn [map]. constructor; [exact (Hx Rx Wx) | first [exact (IHl Rl Wl) | exact (IHl Wl Rl)]].
Qed.

(* <empty> never appears inside a larger marker *)
Lemma no_empty_lex n :
  (forall its, (size_items its < n)%nat -> ~ In LEmptyTok (unparse its))
  /\ (forall t, (size_tree t < n)%nat -> ~ In LEmptyTok (unparse_tree t)).
Proof.
  induction n as [|n [IHi IHt]]; [split; intros; lia|]. split.
  - intros [|[| |t] its] Sz.
    + cbn. tauto.
    + rewrite unparse_cons_and. change (size_items (PAnd :: its)) with (S (size_items its)) in Sz.
      intros [H|H]; [discriminate | exact (IHi its ltac:(lia) H)].
    + rewrite unparse_cons_or. change (size_items (POr :: its)) with (S (size_items its)) in Sz.
      intros [H|H]; [discriminate | exact (IHi its ltac:(lia) H)].
    + rewrite unparse_cons_sub. change (size_items (PSub t :: its)) with (S (size_tree t + size_items its)) in Sz.
      intros H. apply in_app_or in H as [H|H]; [exact (IHt t ltac:(lia) H) | exact (IHi its ltac:(lia) H)].
  - intros [a|its] Sz.
    + unfold unparse_tree, atom_lex. destruct (a_rev a); cbn; intuition discriminate.
    + cbn [unparse_tree]. fold unparse. cbn [size_tree] in Sz. fold size_items in Sz.
      intros [H|H]; [discriminate|]. apply in_app_or in H as [H|H]; [exact (IHi its ltac:(lia) H)|]. cbn in H. intuition discriminate.
Qed.

Theorem no_empty_inside m : rnd m = true -> m <> MEmpty -> ~ In LEmptyTok (mstr m).
Proof.
  intros R NE. rewrite (mstr_unparse m R NE). exact (proj1 (no_empty_lex (S (size_items (to_items m)))) (to_items m) ltac:(lia)).
Qed.
