(* ParseSound.v — _from_pkg_specifier / from_specifierset / parse_version_specifier
   (Model/SpecParse.v) are total on well-formed clauses, return canonical values, and on
   final releases the members of the result are exactly the versions packaging's
   Specifier.contains accepts (clause_sem). *)
From Coq Require Import List Bool ZArith NArith Arith Lia.
From Verif Require Import PyRes Order Cuts Str SpecTypes GenSpec SpecSem RangeBridge UnionBase SpecOps SpecEq SpecExpr
  Pep440 Pep440Facts ParseArith Corr SpecParse.
Import ListNotations.
Local Open Scope N_scope.

Module X := SpecExpr Pep440.
Import X.

Definition vcmp := Pep440.compare.
Arguments vcmp : simpl never.
Definition is_eq (c : comparison) : bool := match c with Eq => true | _ => false end.
(* the comparisons used by the model (Corr.P) in terms of vcmp *)
Lemma pvleb a b : Corr.P.T.VB.vleb a b = not_gt (vcmp a b). Proof. reflexivity. Qed.
Lemma pvltb a b : Corr.P.T.VB.vltb a b = is_lt (vcmp a b). Proof. reflexivity. Qed.
Lemma pveqb a b : Corr.P.T.VB.veqb a b = is_eq (vcmp a b). Proof. reflexivity. Qed.
Lemma vcmp_antisym a b : vcmp b a = CompOpp (vcmp a b).
Proof. unfold vcmp, Pep440.compare. apply lex_antisym. Qed.
Ltac csem := unfold clause_sem; cbn [c_op c_ver]; rewrite ?pvleb, ?pvltb, ?pveqb.
Definition final (v : version) : Prop := pre v = None /\ post v = None /\ dev v = None.
(* what packaging guarantees about a tokenised clause: `~=` has at least two release segments; a wildcard has a release *)
Definition wf_clause (c : clause) : Prop :=
  match c_op c with
  | OpCompat => (2 <= length (release (c_ver c)))%nat
  | OpEqStar | OpNeStar => release (c_ver c) <> []
  | _ => True
  end.

Lemma final_eta v : final v -> v = relver (epoch v) (release v).
Proof. destruct v as [e r p po d]. intros (H1 & H2 & H3). cbn in *. subst. reflexivity. Qed.
Lemma final_relver e r : final (relver e r).
Proof. repeat split. Qed.

Definition fsuffix : list Z := [3; 0; 0; 0; 1; 0]%Z.
Lemma vcmp_relver_l e r b :
  vcmp (relver e r) b = match N.compare e (epoch b) with
                        | Eq => match cmp_pad r (release b) with Eq => lex fsuffix (suffix b) | c => c end
                        | c => c end.
Proof. unfold vcmp. rewrite vcompare_decomp. reflexivity. Qed.
Lemma vcmp_relver_r a e r :
  vcmp a (relver e r) = match N.compare (epoch a) e with
                        | Eq => match cmp_pad (release a) r with Eq => lex (suffix a) fsuffix | c => c end
                        | c => c end.
Proof. unfold vcmp. rewrite vcompare_decomp. reflexivity. Qed.
Lemma vcmp_relver e r e' r' :
  vcmp (relver e r) (relver e' r') = match N.compare e e' with Eq => cmp_pad r r' | c => c end.
Proof. rewrite vcmp_relver_l. cbn [epoch release relver]. destruct (N.compare e e'); try reflexivity. destruct (cmp_pad r r'); reflexivity. Qed.
Lemma vcmp_refl a : vcmp a a = Eq.
Proof. unfold vcmp, Pep440.compare. apply lex_eq. reflexivity. Qed.

(* membership of a real version, read off the bounds *)
Lemma memr_vcut r v : memr (vcut v) r =
  match rmin r with None => true | Some m => if imin r then not_gt (vcmp m v) else is_lt (vcmp m v) end
  && match rmax r with None => true | Some M => if imax r then not_gt (vcmp v M) else is_lt (vcmp v M) end.
Proof.
  unfold memr, lb, ub, vcut, cleb, cltb, CB.vleb, CB.vltb, vcmp, Pep440.compare.
  destruct (rmin r) as [m|], (imin r), (rmax r) as [M|], (imax r); cbn [CO.compare]; unfold Pep440.compare;
    repeat match goal with |- context [lex ?a ?b] => destruct (lex a b) end; reflexivity.
Qed.

Lemma prefix_bounds_ok v d rel :
  rel = firstn (length (release v) - d) (release v) -> rel <> [] ->
  prefix_bounds v d = Ret (relver (epoch v) (rel ++ [0]), relver (epoch v) (incl rel ++ [0])).
Proof.
  intros E H. unfold prefix_bounds. rewrite <- E. destruct (exists_last H) as (m & x & Em). rewrite Em.
  rewrite rev_app_distr. cbn [rev app]. rewrite rev_involutive, incl_app_last, <- !app_assoc. reflexivity.
Qed.

(* lo = p.0 < hi = incl(p).0 *)
Lemma star_bounds_lt e p : p <> [] -> vcmp (relver e (p ++ [0])) (relver e (incl p ++ [0])) = Lt.
Proof.
  intros H. rewrite vcmp_relver, N.compare_refl. rewrite cmp_pad_app_zero_r by reflexivity. apply cmp_pad_app_incl. exact H.
Qed.

(* `simplified` remembers the clause a value was parsed from *)
Definition simp_ok_range (r : range) : Prop :=
  match rsimp r with None => True | Some c => wf_clause c /\ from_pkg c = Ret (SRange r) end.
Definition simp_ok (s : spec) : Prop :=
  match s with
  | SRange r => simp_ok_range r
  | SUnion u => match usimp u with None => True | Some c => wf_clause c /\ from_pkg c = Ret (SUnion u) end
                /\ Forall simp_ok_range (uranges u)
  | _ => True
  end.

Lemma CO_compare_C a s b s' : CO.compare (C a s : cut) (C b s') = match vcmp a b with Eq => CO.side_cmp s s' | r => r end.
Proof. reflexivity. Qed.
Lemma lt_C_same v : CO.lt (C v Bef : cut) (C v Aft).
Proof. apply CO.lt_iff. rewrite CO_compare_C, vcmp_refl. reflexivity. Qed.
Lemma lt_C_of_vcmp a b s s' : vcmp a b = Lt -> CO.lt (C a s : cut) (C b s').
Proof. intros H. apply CO.lt_iff. rewrite CO_compare_C, H. reflexivity. Qed.

Lemma prefix_match_pm p v : prefix_match p v = (epoch p =? epoch v) && pm (release p) (release v).
Proof.
  unfold prefix_match, pad_to. f_equal. rewrite <- pm_firstn.
  generalize (firstn (length (release p)) (release v ++ repeat 0 (length (release p) - length (release v)))) as a.
  generalize (release p) as q. intros q a. revert q. induction a as [|x a IH]; intros [|y q]; cbn; try reflexivity. rewrite IH. reflexivity.
Qed.

(* the wildcard interval: for a final v, p.0 <= v < incl(p).0 iff v matches the prefix p of epoch e *)
Lemma star_sem e p v : p <> [] -> final v ->
  not_gt (vcmp (relver e (p ++ [0])) v) && is_lt (vcmp v (relver e (incl p ++ [0])))
  = (e =? epoch v) && pm p (release v).
Proof.
  intros Hp Fv. rewrite (final_eta v Fv) at 1 2. rewrite !vcmp_relver.
  rewrite (N.compare_antisym e (epoch v)).
  destruct (N.compare_spec e (epoch v)) as [E|E|E]; cbn [CompOpp].
  - subst. rewrite N.eqb_refl. cbn [andb].
    rewrite cmp_pad_app_zero_l, cmp_pad_app_zero_r by reflexivity. symmetry. apply pm_order. exact Hp.
  - assert (Hf : (e =? epoch v) = false) by (apply N.eqb_neq; lia). rewrite Hf. reflexivity.
  - assert (Hf : (e =? epoch v) = false) by (apply N.eqb_neq; lia). rewrite Hf. reflexivity.
Qed.

(* the compatible-release interval: V <= v < incl(m).0 iff V <= v and v matches the prefix m, where release V = m ++ [x] *)
Lemma compat_sem V m x v : release V = m ++ [x] -> m <> [] -> final v ->
  not_gt (vcmp V v) && is_lt (vcmp v (relver (epoch V) (incl m ++ [0])))
  = not_gt (vcmp V v) && ((epoch V =? epoch v) && pm m (release v)).
Proof.
  intros ER Hm Fv. destruct (not_gt (vcmp V v)) eqn:HV; [|reflexivity]. cbn [andb].
  rewrite (final_eta v Fv) in HV |- * at 1. rewrite vcmp_relver_r in HV. rewrite vcmp_relver. cbn [epoch release relver] in *.
  rewrite (N.compare_antisym (epoch V) (epoch v)).
  destruct (N.compare_spec (epoch V) (epoch v)) as [E|E|E]; cbn [CompOpp] in *.
  - rewrite E, N.eqb_refl. cbn [andb]. rewrite cmp_pad_app_zero_r by reflexivity.
    rewrite pm_order by exact Hm.
    assert (Hng : not_gt (cmp_pad m (release v)) = true).
    { apply (cmp_pad_prefix_not_gt m [x]). rewrite <- ER. destruct (cmp_pad (release V) (release v)); try reflexivity. discriminate. }
    rewrite Hng. reflexivity.
  - assert (Hf : (epoch V =? epoch v) = false) by (apply N.eqb_neq; lia). rewrite Hf. reflexivity.
  - discriminate.
Qed.

Lemma compat_bounds_lt V m x : release V = m ++ [x] -> m <> [] -> vcmp V (relver (epoch V) (incl m ++ [0])) = Lt.
Proof.
  intros ER Hm. rewrite vcmp_relver_r, N.compare_refl, ER. rewrite cmp_pad_app_zero_r by reflexivity.
  rewrite cmp_pad_app_incl by exact Hm. reflexivity.
Qed.

Lemma last_decomp (l : list N) : (2 <= length l)%nat -> exists m x, l = m ++ [x] /\ m <> [].
Proof.
  intros H. assert (Hn : l <> []) by (destruct l; cbn in H; [lia|discriminate]).
  destruct (exists_last Hn) as (m & x & E). exists m, x. split; [exact E|].
  intros ->. subst l. cbn in H. lia.
Qed.

Lemma canon_two l r s : okr l -> okr r -> CO.lt (ub l) (lb r) -> canon (SUnion (mkUnionRaw [l; r] s)).
Proof.
  intros Hl Hr Hg. split; [cbn; lia|]. cbn [uranges canon_list chain]. split; [exact I|]. split; [exact Hl|]. split; [exact Hg|]. split; [exact Hr|exact I].
Qed.
Lemma okr_below M (b : bool) s : okr (mkRangeRaw None (Some M) false b s).
Proof. split; [apply neginf_lt | split; cbn; congruence]. Qed.
Lemma okr_above m (b : bool) s : okr (mkRangeRaw (Some m) None b false s).
Proof. split; [apply lt_posinf | split; cbn; congruence]. Qed.

Theorem from_pkg_spec c : wf_clause c ->
  exists s, from_pkg c = Ret s /\ canon s /\ simp_ok s /\ forall v, final v -> mem (vcut v) s = clause_sem c v.
Proof.
  intros W. destruct c as [op V]. pose proof W as Hrel. pose proof W as Hop. unfold wf_clause in Hrel, Hop. cbn [c_op c_ver] in *.
  destruct op; unfold from_pkg; cbn [c_op c_ver].
  - (* >= *) eexists. split; [reflexivity|]. split; [split; [apply lt_posinf | split; cbn; congruence]|]. split; [split; [exact W|reflexivity]|].
    intros v _. cbn [mem]. rewrite memr_vcut. csem. cbn. rewrite andb_true_r. reflexivity.
  - (* > *) eexists. split; [reflexivity|]. split; [split; [apply lt_posinf | split; cbn; congruence]|]. split; [split; [exact W|reflexivity]|].
    intros v _. cbn [mem]. rewrite memr_vcut. csem. cbn. rewrite andb_true_r. reflexivity.
  - (* <= *) eexists. split; [reflexivity|]. split; [split; [apply neginf_lt | split; cbn; congruence]|]. split; [split; [exact W|reflexivity]|].
    intros v _. cbn [mem]. rewrite memr_vcut. csem. reflexivity.
  - (* < *) eexists. split; [reflexivity|]. split; [split; [apply neginf_lt | split; cbn; congruence]|]. split; [split; [exact W|reflexivity]|].
    intros v _. cbn [mem]. rewrite memr_vcut. csem. reflexivity.
  - (* == *) eexists. split; [reflexivity|]. split; [split; [apply lt_C_same | split; cbn; congruence]|]. split; [split; [exact W|reflexivity]|].
    intros v _. cbn [mem]. rewrite memr_vcut. csem. cbn. rewrite (vcmp_antisym V v).
    destruct (vcmp V v); reflexivity.
  - (* != *) eexists. split; [reflexivity|]. split.
    { apply canon_two; [apply okr_below | apply okr_above | apply lt_C_same]. }
    split. { split; [split; [exact W|reflexivity]|]. repeat constructor. }
    intros v _. cbn [mem mems existsb Corr.P.mk_union uranges]. rewrite !memr_vcut. csem. cbn. rewrite (vcmp_antisym V v).
    destruct (vcmp V v); reflexivity.
  - (* ~= *)
    destruct (last_decomp _ Hop) as (m & x & ER & Hm).
    assert (PB := prefix_bounds_ok V 1 m). rewrite ER, firstn_pred_app in PB. specialize (PB eq_refl Hm).
    eexists. split.
    { unfold from_pkg. cbn [c_op c_ver]. rewrite PB. cbn [bind fst snd]. reflexivity. }
    split. { split; [apply lt_C_of_vcmp; eapply compat_bounds_lt; eassumption | split; cbn; congruence]. }
    split. { split; [exact W|]. unfold from_pkg. cbn [c_op c_ver]. rewrite PB. reflexivity. }
    intros v Fv. cbn [mem]. rewrite memr_vcut. cbn [rmin rmax imin imax].
    rewrite (compat_sem V m x v ER Hm Fv). csem.
    rewrite prefix_match_pm. cbn [epoch release relver]. rewrite ER, removelast_last. reflexivity.
  - (* ==X.* *)
    assert (PB := prefix_bounds_ok V 0 (release V)). rewrite firstn_all_sub0 in PB. specialize (PB eq_refl Hrel).
    eexists. split.
    { rewrite PB. cbn [bind fst snd]. reflexivity. }
    split. { split; [apply lt_C_of_vcmp; apply star_bounds_lt; exact Hrel | split; cbn; congruence]. }
    split. { split; [exact W|]. unfold from_pkg. cbn [c_op c_ver]. rewrite PB. reflexivity. }
    intros v Fv. cbn [mem]. rewrite memr_vcut. cbn [rmin rmax imin imax].
    rewrite (star_sem (epoch V) (release V) v Hrel Fv). csem. rewrite prefix_match_pm. reflexivity.
  - (* !=X.* *)
    assert (PB := prefix_bounds_ok V 0 (release V)). rewrite firstn_all_sub0 in PB. specialize (PB eq_refl Hrel).
    eexists. split.
    { rewrite PB. cbn [bind fst snd]. reflexivity. }
    split.
    { apply canon_two; [apply okr_below | apply okr_above | apply lt_C_of_vcmp; apply star_bounds_lt; exact Hrel]. }
    split. { split; [split; [exact W|]; unfold from_pkg; cbn [c_op c_ver]; rewrite PB; reflexivity|]. repeat constructor. }
    intros v Fv. cbn [mem mems existsb Corr.P.mk_union uranges]. rewrite !memr_vcut. cbn [rmin rmax imin imax].
    csem. rewrite prefix_match_pm, <- (star_sem (epoch V) (release V) v Hrel Fv).
    cbn [andb orb]. rewrite orb_false_r, andb_true_r.
    rewrite (vcmp_antisym (relver (epoch V) (release V ++ [0])) v), (vcmp_antisym v (relver (epoch V) (incl (release V) ++ [0]))).
    destruct (vcmp (relver (epoch V) (release V ++ [0])) v), (vcmp v (relver (epoch V) (incl (release V) ++ [0]))); reflexivity.
Qed.

(* ---- sets of clauses and || alternatives ---- *)
Definition cl_mem (c : cut) (k : clause) : bool := match from_pkg k with Ret s => mem c s | _ => false end.

Lemma and_fold_spec cs : forall acc, canon acc -> Forall wf_clause cs ->
  exists s, and_fold acc cs = Ret s /\ canon s
    /\ (forall v, final v -> mem (vcut v) s = mem (vcut v) acc && set_sem cs v)
    /\ (forall c, mem c s = mem c acc && forallb (cl_mem c) cs).
Proof.
  induction cs as [|k cs IH]; intros acc Ca W.
  - exists acc. split; [reflexivity|]. split; [exact Ca|]. split; intros; cbn; rewrite andb_true_r; reflexivity.
  - inversion W as [|? ? Wk Wcs]; subst. destruct (from_pkg_spec k Wk) as (s1 & E1 & C1 & _ & M1).
    destruct (spec_and_spec acc s1 Ca C1) as (r & Er & Cr & Mr).
    destruct (IH r Cr Wcs) as (s & Es & Cs & Mv & Mc).
    exists s. split.
    { cbn [and_fold]. rewrite E1. cbn [bind]. change (Corr.P.spec_and acc s1) with (spec_and acc s1). rewrite Er. cbn [bind]. exact Es. }
    split; [exact Cs|]. split.
    + intros v Fv. rewrite (Mv v Fv), Mr, (M1 v Fv). unfold set_sem. cbn [forallb]. rewrite andb_assoc. reflexivity.
    + intros c. rewrite Mc, Mr. cbn [forallb]. unfold cl_mem at 2. rewrite E1, andb_assoc. reflexivity.
Qed.

Lemma canon_any_range : canon (SRange any_range).
Proof. split; [apply CO.lt_iff; reflexivity | split; reflexivity]. Qed.

Theorem from_specifierset_spec cs : Forall wf_clause cs ->
  exists s, from_specifierset cs = Ret s /\ canon s
    /\ (forall v, final v -> mem (vcut v) s = set_sem cs v)
    /\ (forall c, SE.pos c -> mem c s = forallb (cl_mem c) cs).
Proof.
  intros W. destruct (and_fold_spec cs (SRange any_range) canon_any_range W) as (s & E & C & Mv & Mc).
  exists s. split; [exact E|]. split; [exact C|]. split.
  - intros v Fv. rewrite (Mv v Fv). reflexivity.
  - intros c P. rewrite Mc. cbn [mem]. unfold memr. cbn [lb ub any_range rmin rmax].
    assert (H1 : cleb NegInf c = true) by (apply cleb_iff, neginf_le).
    assert (H2 : cltb c PosInf = true) by (apply cltb_iff; exact P).
    rewrite H1, H2. reflexivity.
Qed.

Definition alt_mem (c : cut) (a : list clause) : bool := forallb (cl_mem c) a.

Lemma or_fold_spec alts : forall acc, canon acc -> Forall (Forall wf_clause) alts ->
  exists s, or_fold acc alts = Ret s /\ canon s
    /\ (forall v, final v -> mem (vcut v) s = mem (vcut v) acc || existsb (fun a => set_sem a v) alts)
    /\ (forall c, SE.pos c -> mem c s = mem c acc || existsb (alt_mem c) alts).
Proof.
  induction alts as [|a alts IH]; intros acc Ca W.
  - exists acc. split; [reflexivity|]. split; [exact Ca|]. split; intros; cbn; rewrite orb_false_r; reflexivity.
  - inversion W as [|? ? Wa Walts]; subst. destruct (from_specifierset_spec a Wa) as (s1 & E1 & C1 & M1 & M1c).
    destruct (spec_or_spec acc s1 Ca C1) as (r & Er & Cr & Mr).
    destruct (IH r Cr Walts) as (s & Es & Cs & Mv & Mc).
    exists s. split.
    { cbn [or_fold]. rewrite E1. cbn [bind]. change (Corr.P.spec_or acc s1) with (spec_or acc s1). rewrite Er. cbn [bind]. exact Es. }
    split; [exact Cs|]. split.
    + intros v Fv. rewrite (Mv v Fv), Mr, (M1 v Fv). cbn [existsb]. rewrite orb_assoc. reflexivity.
    + intros c P. rewrite (Mc c P), Mr, (M1c c P). cbn [existsb]. rewrite orb_assoc. reflexivity.
Qed.

Definition wf_text (t : stext) : Prop :=
  match t with TEmpty => True | TAlts alts => alts <> [] /\ Forall (Forall wf_clause) alts end.
Definition text_sem (t : stext) (v : version) : bool :=
  match t with TEmpty => false | TAlts alts => existsb (fun a => set_sem a v) alts end.
Definition text_mem (c : cut) (t : stext) : bool :=
  match t with TEmpty => false | TAlts alts => existsb (alt_mem c) alts end.

Theorem parse_spec t : wf_text t ->
  exists s, parse t = Ret s /\ canon s
    /\ (forall v, final v -> mem (vcut v) s = text_sem t v)
    /\ (forall c, SE.pos c -> mem c s = text_mem c t).
Proof.
  destruct t as [|alts]; intros W.
  - exists SEmpty. split; [reflexivity|]. split; [exact I|]. split; reflexivity.
  - destruct W as [Hne W]. destruct alts as [|a alts]; [congruence|].
    inversion W as [|? ? Wa Walts]; subst. destruct (from_specifierset_spec a Wa) as (s1 & E1 & C1 & M1 & M1c).
    destruct (or_fold_spec alts s1 C1 Walts) as (s & Es & Cs & Mv & Mc).
    exists s. split; [cbn [parse]; rewrite E1; exact Es|]. split; [exact Cs|]. split.
    + intros v Fv. rewrite (Mv v Fv), (M1 v Fv). reflexivity.
    + intros c P. rewrite (Mc c P), (M1c c P). reflexivity.
Qed.
