(* BridgeSound.v — the marker <-> specifier bridge preserves meaning on final releases. *)
From Coq Require Import List Bool ZArith NArith Arith Lia.
From Verif Require Import PyRes Order Cuts Str SpecTypes GenSpec SpecSem RangeBridge UnionBase SpecOps SpecEq SpecExpr
  Pep440 Pep440Facts ParseArith RenderArith Corr SpecParse ParseSound RenderSound ParseReach Bridge.
Import ListNotations.
Local Open Scope N_scope.
Import X.

(* RangeSpecifier() & s = s *)
Lemma and_any_range r : spec_and (SRange any_range) (SRange r) = Ret (SRange r).
Proof.
  unfold spec_and, spec_and_gen, dispatch. cbn [range_and]. unfold range_and.
  rewrite is_superset_spec. cbn [lb ub any_range rmin rmax].
  assert (H1 : cleb NegInf (lb r) = true) by apply cleb_neginf.
  assert (H2 : cleb (ub r) PosInf = true) by (apply cleb_iff, le_posinf).
  rewrite H1, H2. reflexivity.
Qed.
Lemma and_any_union u : spec_and (SRange any_range) (SUnion u) = Ret (SUnion u).
Proof. reflexivity. Qed.

Lemma tilde_safe_simp r k : rsimp r = Some k -> tilde_safe r.
Proof. intros H m M H0. congruence. Qed.
Lemma tilde_safe_nomin r : rmin r = None -> tilde_safe r.
Proof. intros H m M _ H0. congruence. Qed.
Lemma tilde_safe_nomax r : rmax r = None -> tilde_safe r.
Proof. intros H m M _ _ H0. congruence. Qed.

(* the value a single clause parses to: exactly _from_pkg_specifier's, and nothing in it is rendered by a heuristic *)
Lemma parse_single c : wf_clause c ->
  exists s, parse (TAlts [[c]]) = Ret s /\ from_pkg c = Ret s /\ Forall tilde_safe (ranges_of s).
Proof.
  intros W. destruct (from_pkg_spec c W) as (s & E & _ & _ & _). exists s.
  assert (Hshape : (exists r k, s = SRange r /\ rsimp r = Some k)
                   \/ (exists l r' k, s = SUnion (mkUnionRaw [l; r'] k) /\ rmin l = None /\ rmax r' = None)).
  { destruct c as [op V]. unfold from_pkg in E. cbn [c_op c_ver] in E.
    destruct op; cbn [bind] in E;
      try (injection E as <-; left; eexists; eexists; split; reflexivity);
      try (injection E as <-; right; do 3 eexists; repeat split; reflexivity).
    - destruct (prefix_bounds V 1) as [[lo hi]| |]; try discriminate E. cbn in E. injection E as <-. left. eexists; eexists; split; reflexivity.
    - destruct (prefix_bounds V 0) as [[lo hi]| |]; try discriminate E. cbn in E. injection E as <-. left. eexists; eexists; split; reflexivity.
    - destruct (prefix_bounds V 0) as [[lo hi]| |]; try discriminate E. cbn in E. injection E as <-. right. do 3 eexists; repeat split; reflexivity. }
  split; [|split; [exact E|]].
  - cbn [parse from_specifierset and_fold]. rewrite E. cbn [bind or_fold].
    destruct Hshape as [(r & k & -> & _)|(l & r' & k & -> & _)].
    + change (Corr.P.spec_and (SRange any_range) (SRange r)) with (spec_and (SRange any_range) (SRange r)). rewrite and_any_range. reflexivity.
    + reflexivity.
  - destruct Hshape as [(r & k & -> & Hk)|(l & r' & k & -> & Hl & Hr)]; cbn [ranges_of uranges].
    + constructor; [exact (tilde_safe_simp r k Hk) | constructor].
    + constructor; [exact (tilde_safe_nomin l Hl)|]. constructor; [exact (tilde_safe_nomax r' Hr) | constructor].
Qed.

(* C11, first half: `value in marker.specifier` = the atom's evaluation, for every final value *)
Theorem view_sound c : wf_clause c ->
  exists s, get_specifier c = Ret s /\ forall v, final v -> spec_contains s v = Ret (atom_sem c v).
Proof.
  intros W. destruct (parse_single c W) as (s & Ep & Ef & Ht). exists s. split; [exact Ep|].
  intros v Fv. assert (Wt : wf_text (TAlts [[c]])) by (split; [discriminate | apply Forall1, Forall1; exact W]).
  rewrite (leaf_contains (TAlts [[c]]) s Wt Ep Ht v Fv). cbn [text_sem existsb set_sem forallb]. rewrite andb_true_r, orb_false_r. reflexivity.
Qed.

(* zero padding of the release segment does not change any comparison *)
Lemma suffix_pad V : suffix (pad_release V) = suffix V.
Proof. destruct V as [e r p po d]. reflexivity. Qed.
Lemma repeat_zero n : all_zero (repeat 0 n) = true.
Proof. induction n as [|n IH]; [reflexivity|]. cbn [repeat]. rewrite all_zero_cons. exact IH. Qed.
Lemma vcmp_pad_l V v : vcmp (pad_release V) v = vcmp V v.
Proof.
  unfold vcmp. rewrite !vcompare_decomp, suffix_pad. cbn [pad_release epoch release].
  rewrite cmp_pad_app_zero_l by apply repeat_zero. reflexivity.
Qed.
Lemma vcmp_pad_r V v : vcmp v (pad_release V) = vcmp v V.
Proof. rewrite (vcmp_antisym (pad_release V) v), vcmp_pad_l, <- vcmp_antisym. reflexivity. Qed.

Lemma pad_pfv_sem k v : clause_sem (pad_pfv k) v = clause_sem k v.
Proof.
  destruct k as [op V]. unfold pad_pfv. cbn [c_op c_ver].
  destruct op; try reflexivity; destruct (Nat.ltb (length (release V)) 3); try reflexivity;
    unfold clause_sem; cbn [c_op c_ver]; rewrite ?pvleb, ?pvltb, ?pveqb, ?vcmp_pad_l, ?vcmp_pad_r; reflexivity.
Qed.

(* a simplified form is at most one clause *)
Lemma range_simplified_len r cl : range_simplified r = Ret (Some cl) -> (length cl <= 1)%nat.
Proof.
  unfold range_simplified. destruct (rsimp r); [intros H; injection H as <-; cbn; lia|].
  destruct (rmin r), (rmax r); try (intros H; injection H as <-; cbn; lia).
  destruct (Corr.P.T.VB.veqb v v0); [intros H; injection H as <-; cbn; lia|].
  destruct (negb (imin r) || imax r); [discriminate|]. destruct (tilde_ok v v0); [intros H; injection H as <-; cbn; lia | discriminate].
Qed.

Lemma union_simplified_sem u : canon (SUnion u) -> simp_ok (SUnion u) ->
  forall cl, union_simplified u = Ret (Some cl) ->
  exists k, cl = [k] /\ wf_clause k /\ forall c, SE.pos c -> cl_mem c k = mems c (uranges u).
Proof.
  intros [Hlen Hch] [Hsu _] cl H.
  destruct (usimp u) as [k|] eqn:Esu.
  - unfold union_simplified in H. rewrite Esu in H. injection H as <-. destruct Hsu as [Wk Ek].
    exists k. split; [reflexivity|]. split; [exact Wk|]. intros c _. unfold cl_mem. rewrite Ek. reflexivity.
  - destruct (uranges u) as [|l [|r [|x rest]]] eqn:Eu; try (cbn in Hlen; lia).
    + apply chain_cons in Hch as (_ & Hl & Hch). apply chain_cons in Hch as (Hgap & Hr & _).
      destruct (union_simplified_two u l r Eu Esu Hl Hr Hgap) as (o & Eo & Ho). rewrite Eo in H. injection H as ->.
      destruct Ho as [Wcl Mcl].
      assert (Hone : exists k, cl = [k]).
      { clear - Eo Esu Eu. unfold union_simplified in Eo. rewrite Esu, Eu in Eo.
        destruct (Corr.P.T.is_none (rmin l) && Corr.P.T.is_none (rmax r) && Corr.P.T.ver_eq_o (rmax l) (rmin r) && negb (Corr.P.T.is_none (rmax l))).
        - destruct (rmax l); [injection Eo as <-; eexists; reflexivity | discriminate].
        - destruct (rmin l), (rmax r), (rmax l), (rmin r); try discriminate Eo.
          destruct (negb (imax l) && imin r); [|discriminate Eo].
          destruct (nestar_prefix v v0) as [[p|]| |]; try discriminate Eo; cbn in Eo. injection Eo as <-. eexists; reflexivity. }
      destruct Hone as (k & ->). exists k. split; [reflexivity|]. split; [inversion Wcl; assumption|].
      intros c P. specialize (Mcl c P). unfold alt_mem in Mcl. cbn [forallb] in Mcl. rewrite andb_true_r in Mcl.
      rewrite Mcl. unfold mems. cbn [existsb]. rewrite orb_false_r. reflexivity.
    + unfold union_simplified in H. rewrite Esu, Eu in H. discriminate H.
Qed.

(* C11, second half: from_specifier yields an atom that evaluates true exactly on the final versions the specifier admits *)
Theorem back_sound name s : canon s -> simp_ok s -> Forall tilde_safe (ranges_of s) ->
  forall res, from_specifier name s = Ret res ->
  match res with
  | FAny => forall v, final v -> mem (vcut v) s = true
  | FEmpty => forall v, final v -> mem (vcut v) s = false
  | FNone => True
  | FAtom k => forall v, final v -> atom_sem k v = mem (vcut v) s
  end.
Proof.
  intros Cs Ss Ts res H. unfold from_specifier in H.
  destruct (SE.is_any_spec' s Cs) as (ba & Ea & Ha). destruct (SE.is_empty_spec s Cs) as (be & Ee & He).
  assert (Ea' : Corr.P.spec_is_any s = Ret ba) by exact Ea. assert (Ee' : Corr.P.spec_is_empty s = Ret be) by exact Ee.
  rewrite Ea' in H. cbn [bind] in H. destruct ba.
  { injection H as <-. intros v _. apply Ha; [reflexivity | apply lt_posinf]. }
  rewrite Ee' in H. cbn [bind] in H. destruct be.
  { injection H as <-. intros v _. apply He; [reflexivity | apply lt_posinf]. }
  assert (Hpad : forall k v, clause_sem (match name with PFV => pad_pfv k | _ => k end) v = clause_sem k v)
    by (intros k v; destruct name; rewrite ?pad_pfv_sem; reflexivity).
  destruct s as [| |r|u|?|?]; try contradiction; try discriminate H.
  - inversion Ts as [|? ? Tr _]; subst.
    destruct (range_clauses_spec r Cs Ss Tr) as (l & El & Wl & Ml).
    unfold range_clauses in El. destruct (range_simplified r) as [[cl|]| |] eqn:Ers; try discriminate H; cbn [bind] in *.
    + injection El as ->. pose proof (range_simplified_len r l Ers) as Hlen.
      destruct l as [|k [|k2 rest]]; [discriminate H | | cbn in Hlen; lia]. injection H as <-.
      intros v Fv. unfold atom_sem. rewrite Hpad. cbn [mem].
      rewrite <- (Ml (vcut v) (lt_posinf _ _)), <- (set_sem_alt_mem [k] v Wl Fv). cbn. rewrite andb_true_r. reflexivity.
    + injection H as <-. exact I.
  - destruct (union_simplified u) as [[cl|]| |] eqn:Eus; try discriminate H; cbn [bind] in H.
    + destruct (union_simplified_sem u Cs Ss cl Eus) as (k & -> & Wk & Mk). injection H as <-.
      intros v Fv. unfold atom_sem. rewrite Hpad. cbn [mem]. rewrite <- (Mk (vcut v) (lt_posinf _ _)).
      destruct (from_pkg_spec k Wk) as (s1 & E1 & _ & _ & M1). unfold cl_mem. rewrite E1. symmetry. exact (M1 v Fv).
    + injection H as <-. exact I.
Qed.
