(* BridgeSound.v — the marker <-> specifier bridge preserves meaning on final releases. *)
From Coq Require Import List Bool ZArith NArith Arith Lia.
From Verif Require Import PyRes Order Cuts Str SpecTypes GenSpec SpecSem RangeBridge UnionBase SpecOps SpecEq SpecExpr
  Pep440 Pep440Facts ParseArith RenderArith Corr SpecParse ParseSound RenderSound ParseReach Bridge.
Import ListNotations.
Local Open Scope N_scope.
Import X.

(* RangeSpecifier() & s = s *)
Lemma and_any_range r : spec_and (SRange any_range) (SRange r) = Ret (SRange r).
Proof.
  unfold spec_and, spec_and_gen, dispatch. cbn [range_and]. unfold range_and.
  rewrite is_superset_spec. cbn [lb ub any_range rmin rmax].
  assert (H1 : cleb NegInf (lb r) = true) by apply cleb_neginf.
  assert (H2 : cleb (ub r) PosInf = true) by (apply cleb_iff, le_posinf).
  rewrite H1, H2. reflexivity.
Qed.
Lemma and_any_union u : spec_and (SRange any_range) (SUnion u) = Ret (SUnion u).
Proof. reflexivity. Qed.

Lemma tilde_safe_simp r k : rsimp r = Some k -> tilde_safe r.
Proof. intros H m M H0. congruence. Qed.
Lemma tilde_safe_nomin r : rmin r = None -> tilde_safe r.
Proof. intros H m M _ H0. congruence. Qed.
Lemma tilde_safe_nomax r : rmax r = None -> tilde_safe r.
Proof. intros H m M _ _ H0. congruence. Qed.

(* the value a single clause parses to: exactly _from_pkg_specifier's, and nothing in it is rendered by a heuristic *)
Lemma parse_single c : wf_clause c ->
  exists s, parse (TAlts [[c]]) = Ret s /\ from_pkg c = Ret s /\ Forall tilde_safe (ranges_of s).
Proof.
  intros W. destruct (from_pkg_spec c W) as (s & E & _ & _ & _). exists s.
  assert (Hshape : (exists r k, s = SRange r /\ rsimp r = Some k)
                   \/ (exists l r' k, s = SUnion (mkUnionRaw [l; r'] k) /\ rmin l = None /\ rmax r' = None)).
  { destruct c as [op V]. unfold from_pkg in E. cbn [c_op c_ver] in E.
    destruct op; cbn [bind] in E;
      try (injection E as <-; left; eexists; eexists; split; reflexivity);
      try (injection E as <-; right; do 3 eexists; repeat split; reflexivity).
    - destruct (prefix_bounds V 1) as [[lo hi]| |]; try discriminate E. cbn in E. injection E as <-. left. eexists; eexists; split; reflexivity.
    - destruct (prefix_bounds V 0) as [[lo hi]| |]; try discriminate E. cbn in E. injection E as <-. left. eexists; eexists; split; reflexivity.
    - destruct (prefix_bounds V 0) as [[lo hi]| |]; try discriminate E. cbn in E. injection E as <-. right. do 3 eexists; repeat split; reflexivity. }
  split; [|split; [exact E|]].
  - cbn [parse from_specifierset and_fold]. rewrite E. cbn [bind or_fold].
    destruct Hshape as [(r & k & -> & _)|(l & r' & k & -> & _)].
    + change (Corr.P.spec_and (SRange any_range) (SRange r)) with (spec_and (SRange any_range) (SRange r)). rewrite and_any_range. reflexivity.
    + reflexivity.
  - destruct Hshape as [(r & k & -> & Hk)|(l & r' & k & -> & Hl & Hr)]; cbn [ranges_of uranges].
    + constructor; [exact (tilde_safe_simp r k Hk) | constructor].
    + constructor; [exact (tilde_safe_nomin l Hl)|]. constructor; [exact (tilde_safe_nomax r' Hr) | constructor].
Qed.

(* C11, first half: `value in marker.specifier` = the atom's evaluation, for every final value *)
Theorem view_sound c : wf_clause c ->
  exists s, get_specifier c = Ret s /\ forall v, final v -> spec_contains s v = Ret (atom_sem c v).
Proof.
  intros W. destruct (parse_single c W) as (s & Ep & Ef & Ht). exists s. split; [exact Ep|].
  intros v Fv. assert (Wt : wf_text (TAlts [[c]])) by (split; [discriminate | apply Forall1, Forall1; exact W]).
  rewrite (leaf_contains (TAlts [[c]]) s Wt Ep Ht v Fv). cbn [text_sem existsb set_sem forallb]. rewrite andb_true_r, orb_false_r. reflexivity.
Qed.

(* zero padding of the release segment does not change any comparison *)
Lemma suffix_pad V : suffix (pad_release V) = suffix V.
Proof. destruct V as [e r p po d]. reflexivity. Qed.
Lemma repeat_zero n : all_zero (repeat 0 n) = true.
Proof. induction n as [|n IH]; [reflexivity|]. cbn [repeat]. rewrite all_zero_cons. exact IH. Qed.
Lemma vcmp_pad_l V v : vcmp (pad_release V) v = vcmp V v.
Proof.
  unfold vcmp. rewrite !vcompare_decomp, suffix_pad. cbn [pad_release epoch release].
  rewrite cmp_pad_app_zero_l by apply repeat_zero. reflexivity.
Qed.
Lemma vcmp_pad_r V v : vcmp v (pad_release V) = vcmp v V.
Proof. rewrite (vcmp_antisym (pad_release V) v), vcmp_pad_l, <- vcmp_antisym. reflexivity. Qed.

Lemma pad_pfv_sem k v : clause_sem (pad_pfv k) v = clause_sem k v.
Proof.
  destruct k as [op V]. unfold pad_pfv. cbn [c_op c_ver].
  destruct op; try reflexivity; destruct (Nat.ltb (length (release V)) 3); try reflexivity;
    unfold clause_sem; cbn [c_op c_ver]; rewrite ?pvleb, ?pvltb, ?pveqb, ?vcmp_pad_l, ?vcmp_pad_r; reflexivity.
Qed.

(* a simplified form is at most one clause *)
Lemma range_simplified_len r cl : range_simplified r = Ret (Some cl) -> (length cl <= 1)%nat.
Proof.
  unfold range_simplified. destruct (rsimp r); [intros H; injection H as <-; cbn; lia|].
  destruct (rmin r), (rmax r); try (intros H; injection H as <-; cbn; lia).
  destruct (Corr.P.T.VB.veqb v v0); [intros H; injection H as <-; cbn; lia|].
  destruct (negb (imin r) || imax r); [discriminate|]. destruct (tilde_ok v v0); [intros H; injection H as <-; cbn; lia | discriminate].
Qed.

Lemma union_simplified_sem u : canon (SUnion u) -> simp_ok (SUnion u) ->
  forall cl, union_simplified u = Ret (Some cl) ->
  exists k, cl = [k] /\ wf_clause k /\ forall c, SE.pos c -> cl_mem c k = mems c (uranges u).
Proof.
  intros [Hlen Hch] [Hsu _] cl H.
  destruct (usimp u) as [k|] eqn:Esu.
  - unfold union_simplified in H. rewrite Esu in H. injection H as <-. destruct Hsu as [Wk Ek].
    exists k. split; [reflexivity|]. split; [exact Wk|]. intros c _. unfold cl_mem. rewrite Ek. reflexivity.
  - destruct (uranges u) as [|l [|r [|x rest]]] eqn:Eu; try (cbn in Hlen; lia).
    + apply chain_cons in Hch as (_ & Hl & Hch). apply chain_cons in Hch as (Hgap & Hr & _).
      destruct (union_simplified_two u l r Eu Esu Hl Hr Hgap) as (o & Eo & Ho). rewrite Eo in H. injection H as ->.
      destruct Ho as [Wcl Mcl].
      assert (Hone : exists k, cl = [k]).
      { clear - Eo Esu Eu. unfold union_simplified in Eo. rewrite Esu, Eu in Eo.
        destruct (Corr.P.T.is_none (rmin l) && Corr.P.T.is_none (rmax r) && Corr.P.T.ver_eq_o (rmax l) (rmin r) && negb (Corr.P.T.is_none (rmax l))).
        - destruct (rmax l); [injection Eo as <-; eexists; reflexivity | discriminate].
        - destruct (rmin l), (rmax r), (rmax l), (rmin r); try discriminate Eo.
          destruct (negb (imax l) && imin r); [|discriminate Eo].
          destruct (nestar_prefix v v0) as [[p|]| |]; try discriminate Eo; cbn in Eo. injection Eo as <-. eexists; reflexivity. }
      destruct Hone as (k & ->). exists k. split; [reflexivity|]. split; [inversion Wcl; assumption|].
      intros c P. specialize (Mcl c P). unfold alt_mem in Mcl. cbn [forallb] in Mcl. rewrite andb_true_r in Mcl.
      rewrite Mcl. unfold mems. cbn [existsb]. rewrite orb_false_r. reflexivity.
    + unfold union_simplified in H. rewrite Esu, Eu in H. discriminate H.
Qed.

(* C11, second half: from_specifier yields an atom that evaluates true exactly on the final versions the specifier accepts *)
Theorem back_sound name s : canon s -> simp_ok s -> Forall tilde_safe (ranges_of s) ->
  forall res, from_specifier name s = Ret res ->
  match res with
  | FAny => forall v, final v -> mem (vcut v) s = true
  | FEmpty => forall v, final v -> mem (vcut v) s = false
  | FNone => True
  | FAtom k => forall v, final v -> atom_sem k v = mem (vcut v) s
  end.
Proof.
  intros Cs Ss Ts res H. unfold from_specifier in H.
  destruct (SE.is_any_spec' s Cs) as (ba & Ea & Ha). destruct (SE.is_empty_spec s Cs) as (be & Ee & He).
  assert (Ea' : Corr.P.spec_is_any s = Ret ba) by exact Ea. assert (Ee' : Corr.P.spec_is_empty s = Ret be) by exact Ee.
  rewrite Ea' in H. cbn [bind] in H. destruct ba.
  { injection H as <-. intros v _. apply Ha; [reflexivity | apply lt_posinf]. }
  rewrite Ee' in H. cbn [bind] in H. destruct be.
  { injection H as <-. intros v _. apply He; [reflexivity | apply lt_posinf]. }
  assert (Hpad : forall k v, clause_sem (match name with PFV => pad_pfv k | _ => k end) v = clause_sem k v)
    by (intros k v; destruct name; rewrite ?pad_pfv_sem; reflexivity).
  destruct s as [| |r|u|?|?]; try contradiction; try discriminate H.
  - inversion Ts as [|? ? Tr _]; subst.
    destruct (range_clauses_spec r Cs Ss Tr) as (l & El & Wl & Ml).
    unfold range_clauses in El. destruct (range_simplified r) as [[cl|]| |] eqn:Ers; try discriminate H; cbn [bind] in *.
    + injection El as ->. pose proof (range_simplified_len r l Ers) as Hlen.
      destruct l as [|k [|k2 rest]]; [discriminate H | | cbn in Hlen; lia]. injection H as <-.
      intros v Fv. unfold atom_sem. rewrite Hpad. cbn [mem].
      rewrite <- (Ml (vcut v) (lt_posinf _ _)), <- (set_sem_alt_mem [k] v Wl Fv). cbn. rewrite andb_true_r. reflexivity.
    + injection H as <-. exact I.
  - destruct (union_simplified u) as [[cl|]| |] eqn:Eus; try discriminate H; cbn [bind] in H.
    + destruct (union_simplified_sem u Cs Ss cl Eus) as (k & -> & Wk & Mk). injection H as <-.
      intros v Fv. unfold atom_sem. rewrite Hpad. cbn [mem]. rewrite <- (Mk (vcut v) (lt_posinf _ _)).
      destruct (from_pkg_spec k Wk) as (s1 & E1 & _ & _ & M1). unfold cl_mem. rewrite E1. symmetry. exact (M1 v Fv).
    + injection H as <-. exact I.
Qed.

(* ---- merging two atoms of one version-like variable ---- *)
From Verif Require Import SpecProv.
Definition bopb (k : bool) : bool -> bool -> bool := if k then andb else orb.

Theorem vmerge_same_sound kind name c1 c2 res : wf_clause c1 -> wf_clause c2 ->
  vmerge_same kind name c1 c2 = Ret res ->
  (forall s1 s2 rs, get_specifier c1 = Ret s1 -> get_specifier c2 = Ret s2 ->
     (if kind then spec_and s1 s2 else spec_or s1 s2) = Ret rs -> Forall tilde_safe (ranges_of rs)) ->
  forall v, final v ->
  match res with
  | VMFirst => clause_sem c1 v = bopb kind (clause_sem c1 v) (clause_sem c2 v)
  | VMSecond => clause_sem c2 v = bopb kind (clause_sem c1 v) (clause_sem c2 v)
  | VMAny => bopb kind (clause_sem c1 v) (clause_sem c2 v) = true
  | VMEmpty => bopb kind (clause_sem c1 v) (clause_sem c2 v) = false
  | VMAtom k => atom_sem k v = bopb kind (clause_sem c1 v) (clause_sem c2 v)
  | VMNone => True
  end.
Proof.
  intros W1 W2 H Hts v Fv. unfold vmerge_same in H.
  destruct (parse_single c1 W1) as (s1 & Ep1 & Ef1 & _). destruct (parse_single c2 W2) as (s2 & Ep2 & Ef2 & _).
  destruct (from_pkg_spec c1 W1) as (s1' & E1' & C1 & S1 & M1). rewrite Ef1 in E1'. injection E1' as <-.
  destruct (from_pkg_spec c2 W2) as (s2' & E2' & C2 & S2 & M2). rewrite Ef2 in E2'. injection E2' as <-.
  assert (Eg1 : get_specifier c1 = Ret s1) by exact Ep1. assert (Eg2 : get_specifier c2 = Ret s2) by exact Ep2.
  rewrite Eg1, Eg2 in H. cbn [bind] in H.
  assert (Hrs : exists rs, (if kind then Corr.P.spec_and s1 s2 else Corr.P.spec_or s1 s2) = Ret rs /\ canon rs /\ simp_ok rs
                           /\ forall c, SE.pos c -> mem c rs = bopb kind (mem c s1) (mem c s2)).
  { destruct kind.
    - destruct (spec_and_spec s1 s2 C1 C2) as (rs & E & Cr & Mr). exists rs. split; [exact E|]. split; [exact Cr|]. split; [|intros c _; apply Mr].
      apply simp_ok_iff. apply (spec_and_inv simp_ok_range GU fresh_simp_ok s1 s2 rs); [apply simp_ok_iff, S1 | apply simp_ok_iff, S2 | exact E].
    - destruct (spec_or_spec s1 s2 C1 C2) as (rs & E & Cr & Mr). exists rs. split; [exact E|]. split; [exact Cr|]. split; [|intros c _; apply Mr].
      apply simp_ok_iff. apply (spec_or_inv simp_ok_range GU fresh_simp_ok s1 s2 rs); [apply simp_ok_iff, S1 | apply simp_ok_iff, S2 | exact E]. }
  destruct Hrs as (rs & Ers & Crs & Srs & Mrs). rewrite Ers in H. cbn [bind] in H.
  assert (Tr : Forall tilde_safe (ranges_of rs)) by (apply (Hts s1 s2 rs Eg1 Eg2); destruct kind; exact Ers).
  assert (P : SE.pos (vcut v)) by apply lt_posinf.
  assert (Mv : mem (vcut v) rs = bopb kind (clause_sem c1 v) (clause_sem c2 v)) by (rewrite (Mrs _ P), (M1 v Fv), (M2 v Fv); reflexivity).
  destruct (spec_eq_spec' rs s1 Crs C1) as (e1 & Ee1 & He1). assert (Ee1' : Corr.P.spec_eq rs s1 = Ret e1) by exact Ee1. rewrite Ee1' in H. cbn [bind] in H.
  destruct e1.
  { injection H as <-. rewrite <- Mv, <- (M1 v Fv). symmetry. apply (proj1 He1 eq_refl). exact P. }
  destruct (spec_eq_spec' rs s2 Crs C2) as (e2 & Ee2 & He2). assert (Ee2' : Corr.P.spec_eq rs s2 = Ret e2) by exact Ee2. rewrite Ee2' in H. cbn [bind] in H.
  destruct e2.
  { injection H as <-. rewrite <- Mv, <- (M2 v Fv). symmetry. apply (proj1 He2 eq_refl). exact P. }
  destruct (from_specifier name rs) as [fr| |] eqn:Efr; try discriminate H. cbn [bind] in H. injection H as <-.
  pose proof (back_sound name rs Crs Srs Tr fr Efr) as B.
  destruct fr as [| | |k]; try exact I.
  - rewrite <- Mv. exact (B v Fv).
  - rewrite <- Mv. exact (B v Fv).
  - rewrite <- Mv. exact (B v Fv).
Qed.

(* ---- the python_version / python_full_version pair ---- *)
Definition pvv (X Y : N) : version := relver 0 [X; Y].
Definition pfv (X Y Z : N) : version := relver 0 [X; Y; Z].

(* two release lists that compare alike against everything (equal up to trailing zeros) *)
Definition releq (r r2 : list N) : Prop := forall l, cmp_pad r l = cmp_pad r2 l.
Lemma releq_sym_side r r2 : releq r r2 -> forall l, cmp_pad l r = cmp_pad l r2.
Proof. intros H l. rewrite (cmp_pad_antisym r l), (cmp_pad_antisym r2 l), H. reflexivity. Qed.
Lemma releq_app_zero r z : all_zero z = true -> releq (r ++ z) r.
Proof. intros Hz l. apply cmp_pad_app_zero_l. exact Hz. Qed.
Lemma releq_trans a b c : releq a b -> releq b c -> releq a c.
Proof. intros H1 H2 l. rewrite H1. apply H2. Qed.
Lemma releq_refl a : releq a a. Proof. intros l. reflexivity. Qed.

Lemma vcmp_releq_l r r2 v : releq r r2 -> vcmp (relver 0 r) v = vcmp (relver 0 r2) v.
Proof. intros H. rewrite !vcmp_relver_l. cbn [epoch release relver]. rewrite H. reflexivity. Qed.
Lemma vcmp_releq_r r r2 v : releq r r2 -> vcmp v (relver 0 r) = vcmp v (relver 0 r2).
Proof. intros H. rewrite !vcmp_relver_r. cbn [epoch release relver]. rewrite (releq_sym_side r r2 H). reflexivity. Qed.

Lemma strip_to2_releq fuel : forall r, releq r (strip_to2 fuel r).
Proof.
  induction fuel as [|f IH]; intros r; [apply releq_refl|]. cbn [strip_to2].
  destruct (Nat.ltb 2 (length r) && (last r 1 =? 0)%N) eqn:E; [|apply releq_refl].
  apply andb_prop in E as [E1 E2]. apply N.eqb_eq in E2.
  assert (Hne : r <> []) by (intros ->; discriminate E1).
  destruct (exists_last Hne) as (m & x & ->). rewrite last_last in E2. subst x. rewrite removelast_last.
  eapply releq_trans; [apply (releq_app_zero m [0%N]); reflexivity | apply IH].
Qed.

(* the arithmetic: a python_version X.Y against an operand a.b, and the python_full_version X.Y.Z against the normalised clause *)
Ltac ncases :=
  repeat match goal with
         | |- context [N.compare ?p ?q] => destruct (N.compare_spec p q)
         | |- context [N.eqb ?p ?q] => destruct (N.eqb_spec p q)
         end; subst; try lia; try reflexivity.

Lemma cmp2_2 a b X Y : cmp_pad [a; b] [X; Y] = match N.compare a X with Eq => N.compare b Y | c => c end.
Proof. cbn. destruct (N.compare a X); try reflexivity. destruct (N.compare b Y); reflexivity. Qed.
Lemma cmp2_3 a b X Y Z : cmp_pad [a; b] [X; Y; Z] = match N.compare a X with Eq => match N.compare b Y with Eq => if (0 =? Z)%N then Eq else Lt | c => c end | c => c end.
Proof. cbn. destruct (N.compare a X); try reflexivity. destruct (N.compare b Y); try reflexivity. destruct Z; reflexivity. Qed.
Lemma cmp3_2 a b X Y Z : cmp_pad [X; Y; Z] [a; b] = match N.compare X a with Eq => match N.compare Y b with Eq => if (0 =? Z)%N then Eq else Gt | c => c end | c => c end.
Proof. cbn. destruct (N.compare X a); try reflexivity. destruct (N.compare Y b); try reflexivity. destruct Z; reflexivity. Qed.

Lemma vcmp_pv a b X Y : vcmp (relver 0 [a; b]) (pvv X Y) = match N.compare a X with Eq => N.compare b Y | c => c end.
Proof. unfold pvv. rewrite vcmp_relver, cmp2_2. reflexivity. Qed.
Lemma vcmp_pv' a b X Y : vcmp (pvv X Y) (relver 0 [a; b]) = match N.compare X a with Eq => N.compare Y b | c => c end.
Proof. unfold pvv. rewrite vcmp_relver, cmp2_2. reflexivity. Qed.
Lemma vcmp_pfv a b X Y Z : vcmp (relver 0 [a; b]) (pfv X Y Z) = match N.compare a X with Eq => match N.compare b Y with Eq => if (0 =? Z)%N then Eq else Lt | c => c end | c => c end.
Proof. unfold pfv. rewrite vcmp_relver, cmp2_3. reflexivity. Qed.
Lemma vcmp_pfv' a b X Y Z : vcmp (pfv X Y Z) (relver 0 [a; b]) = match N.compare X a with Eq => match N.compare Y b with Eq => if (0 =? Z)%N then Eq else Gt | c => c end | c => c end.
Proof. unfold pfv. rewrite vcmp_relver, cmp3_2. reflexivity. Qed.

Definition norm_target (op : sop) (a b : N) : clause :=
  match op with
  | OpEq => mkClause OpEqStar (relver 0 [a; b])
  | OpNe => mkClause OpNeStar (relver 0 [a; b])
  | OpGt => mkClause OpGe (relver 0 [a; b + 1])
  | OpLe => mkClause OpLt (relver 0 [a; b + 1])
  | o => mkClause o (relver 0 [a; b])
  end.

Lemma norm_arith op a b X Y Z : op <> OpEqStar -> op <> OpNeStar ->
  clause_sem (mkClause op (relver 0 [a; b])) (pvv X Y) = clause_sem (norm_target op a b) (pfv X Y Z).
Proof.
  intros H1 H2. destruct op; try congruence; unfold norm_target, clause_sem; cbn [c_op c_ver];
    rewrite ?pvleb, ?pvltb, ?pveqb, ?prefix_match_pm, ?vcmp_pv, ?vcmp_pv', ?vcmp_pfv, ?vcmp_pfv';
    cbn [epoch release relver pvv pfv pm removelast N.eqb andb]; ncases; try (destruct Z; reflexivity).
Qed.

(* operands of python_version the normalisation handles: a plain release whose meaningful part has one or two segments
   (everything else is the recorded finding pv-long-operand) *)
Definition pv_operand_ok (c : clause) : Prop :=
  c_ver c = relver 0 (release (c_ver c)) /\
  let r0 := release (c_ver c) in
  match c_op c with
  | OpEqStar | OpNeStar => length r0 = 1%nat \/ length r0 = 2%nat
  | OpCompat => length r0 = 2%nat
  | _ => length (strip_to2 (length r0) r0) = 1%nat \/ length (strip_to2 (length r0) r0) = 2%nat
  end.

Lemma get_specifier_sem k : wf_clause k ->
  exists s, get_specifier k = Ret s /\ canon s /\ simp_ok s /\ forall v, final v -> mem (vcut v) s = clause_sem k v.
Proof.
  intros W. destruct (parse_single k W) as (s & Ep & Ef & _). destruct (from_pkg_spec k W) as (s' & E' & C & S & M).
  rewrite Ef in E'. injection E' as <-. exists s. repeat split; assumption.
Qed.

Lemma releq_sym a b : releq a b -> releq b a.
Proof. intros H l. symmetry. apply H. Qed.

Lemma simple_sem_releq op r r2 v : releq r r2 ->
  op <> OpCompat -> op <> OpEqStar -> op <> OpNeStar ->
  clause_sem (mkClause op (relver 0 r)) v = clause_sem (mkClause op (relver 0 r2)) v.
Proof.
  intros H N1 N2 N3. destruct op; try congruence; unfold clause_sem; cbn [c_op c_ver];
    rewrite ?pvleb, ?pvltb, ?pveqb, ?(vcmp_releq_l r r2 v H), ?(vcmp_releq_r r r2 v H); reflexivity.
Qed.

Lemma sop_eq_dec (a b : sop) : {a = b} + {a <> b}.
Proof. decide equality. Qed.

Theorem normalize_pv_sound c : pv_operand_ok c ->
  exists ns, normalize_pv c = Ret ns /\ canon ns /\ simp_ok ns
             /\ forall X Y Z, clause_sem c (pvv X Y) = mem (vcut (pfv X Y Z)) ns.
Proof.
  destruct c as [op V]. intros [HV Hlen]. cbn [c_op c_ver] in *. set (r0 := release V) in *.
  assert (Star : forall (sop' : sop), (sop' = OpEqStar \/ sop' = OpNeStar) -> (length r0 = 1%nat \/ length r0 = 2%nat) ->
            exists ns, get_specifier (mkClause sop' V) = Ret ns /\ canon ns /\ simp_ok ns
                       /\ forall X Y Z, clause_sem (mkClause sop' V) (pvv X Y) = mem (vcut (pfv X Y Z)) ns).
  { intros o Ho Hl. assert (W : wf_clause (mkClause o V)).
    { unfold wf_clause. cbn [c_op c_ver]. fold r0. destruct Ho as [-> | ->]; destruct r0; cbn in Hl; try discriminate; destruct Hl; discriminate. }
    destruct (get_specifier_sem _ W) as (ns & E & C & S & M). exists ns. repeat split; try assumption.
    intros X Y Z. rewrite (M (pfv X Y Z) (final_relver _ _)). unfold clause_sem. cbn [c_op c_ver].
    rewrite HV. fold r0. destruct Ho as [-> | ->]; rewrite !prefix_match_pm; cbn [epoch release relver pvv pfv];
      destruct r0 as [|a [|b [|x t]]]; cbn in Hl; try (destruct Hl; discriminate); cbn [pm]; rewrite ?andb_true_r; reflexivity. }
  assert (Simple : forall o a b, o <> OpEqStar -> o <> OpNeStar -> (o = OpCompat -> r0 = [a; b]) -> releq r0 [a; b] ->
            normalize_pv (mkClause o V) = get_specifier (norm_target o a b) ->
            exists ns, normalize_pv (mkClause o V) = Ret ns /\ canon ns /\ simp_ok ns
                       /\ forall X Y Z, clause_sem (mkClause o V) (pvv X Y) = mem (vcut (pfv X Y Z)) ns).
  { intros o a b N1 N2 Hc Hr En. assert (W : wf_clause (norm_target o a b)) by (destruct o; cbn; try exact I; try discriminate; auto).
    destruct (get_specifier_sem _ W) as (ns & E & C & S & M). exists ns. split; [rewrite En; exact E|]. split; [exact C|]. split; [exact S|].
    intros X Y Z. rewrite (M (pfv X Y Z) (final_relver _ _)), <- (norm_arith o a b X Y Z N1 N2). rewrite HV. fold r0.
    destruct (sop_eq_dec o OpCompat) as [->|Nc]; [rewrite (Hc eq_refl); reflexivity|].
    exact (simple_sem_releq o r0 [a; b] _ Hr Nc N1 N2). }
  assert (Strip : forall o, o <> OpEqStar -> o <> OpNeStar -> o <> OpCompat ->
            (length (strip_to2 (length r0) r0) = 1%nat \/ length (strip_to2 (length r0) r0) = 2%nat) ->
            exists ns, normalize_pv (mkClause o V) = Ret ns /\ canon ns /\ simp_ok ns
                       /\ forall X Y Z, clause_sem (mkClause o V) (pvv X Y) = mem (vcut (pfv X Y Z)) ns).
  { intros o N1 N2 N3 Hl. pose proof (strip_to2_releq (length r0) r0) as Hr.
    destruct (strip_to2 (length r0) r0) as [|a [|b [|x t]]] eqn:Er; cbn in Hl; try (destruct Hl; discriminate).
    - apply (Simple o a 0%N N1 N2); [intros; congruence | eapply releq_trans; [exact Hr | apply releq_sym, (releq_app_zero [a] [0%N]); reflexivity]|].
      unfold normalize_pv. cbn [c_op c_ver]. fold r0. destruct o; try congruence; rewrite Er; reflexivity.
    - apply (Simple o a b N1 N2); [intros; congruence | exact Hr|].
      unfold normalize_pv. cbn [c_op c_ver]. fold r0. destruct o; try congruence; rewrite Er; reflexivity. }
  destruct op; try (apply Star; [auto | exact Hlen]); try (apply Strip; [discriminate | discriminate | discriminate | exact Hlen]).
  (* ~= *)
  destruct r0 as [|a [|b [|? ?]]] eqn:Er0; try discriminate Hlen.
  apply (Simple OpCompat a b); try discriminate; [intros _; reflexivity | apply releq_refl|].
  unfold normalize_pv. cbn [c_op c_ver]. fold r0. rewrite Er0. reflexivity.
Qed.

(* _merge_python_version_single_markers: on every consistent interpreter (python_version = X.Y, python_full_version = X.Y.Z) the
   result evaluates as the conjunction / disjunction of the two atoms *)
Theorem vmerge_pv_sound kind c_pv c_full res : pv_operand_ok c_pv -> wf_clause c_full ->
  vmerge_pv kind c_pv c_full = Ret res ->
  (forall ns sf rs, normalize_pv c_pv = Ret ns -> get_specifier c_full = Ret sf ->
     (if kind then spec_and ns sf else spec_or ns sf) = Ret rs -> Forall tilde_safe (ranges_of rs)) ->
  forall X Y Z,
  let want := bopb kind (clause_sem c_pv (pvv X Y)) (clause_sem c_full (pfv X Y Z)) in
  match res with
  | VMFirst => clause_sem c_pv (pvv X Y) = want
  | VMSecond => True
  | VMAny => want = true
  | VMEmpty => want = false
  | VMAtom k => atom_sem k (pfv X Y Z) = want
  | VMNone => True
  end.
Proof.
  intros Hpv Wf H Hts X Y Z want. unfold vmerge_pv in H.
  destruct (normalize_pv_sound c_pv Hpv) as (ns & En & Cn & Sn & Mn).
  destruct (get_specifier_sem c_full Wf) as (sf & Ef & Cf & Sf & Mf).
  rewrite En, Ef in H. cbn [bind] in H.
  assert (Hrs : exists rs, (if kind then Corr.P.spec_and ns sf else Corr.P.spec_or ns sf) = Ret rs /\ canon rs /\ simp_ok rs
                           /\ forall c, SE.pos c -> mem c rs = bopb kind (mem c ns) (mem c sf)).
  { destruct kind.
    - destruct (spec_and_spec ns sf Cn Cf) as (rs & E & Cr & Mr). exists rs. split; [exact E|]. split; [exact Cr|]. split; [|intros c _; apply Mr].
      apply simp_ok_iff. apply (spec_and_inv simp_ok_range GU fresh_simp_ok ns sf rs); [apply simp_ok_iff, Sn | apply simp_ok_iff, Sf | exact E].
    - destruct (spec_or_spec ns sf Cn Cf) as (rs & E & Cr & Mr). exists rs. split; [exact E|]. split; [exact Cr|]. split; [|intros c _; apply Mr].
      apply simp_ok_iff. apply (spec_or_inv simp_ok_range GU fresh_simp_ok ns sf rs); [apply simp_ok_iff, Sn | apply simp_ok_iff, Sf | exact E]. }
  destruct Hrs as (rs & Ers & Crs & Srs & Mrs). rewrite Ers in H. cbn [bind] in H.
  assert (Tr : Forall tilde_safe (ranges_of rs)) by (apply (Hts ns sf rs En Ef); destruct kind; exact Ers).
  assert (Fv : final (pfv X Y Z)) by apply final_relver.
  assert (P : SE.pos (vcut (pfv X Y Z))) by apply lt_posinf.
  assert (Mv : mem (vcut (pfv X Y Z)) rs = want).
  { unfold want. rewrite (Mrs _ P), <- (Mn X Y Z), (Mf _ Fv). reflexivity. }
  destruct (spec_eq_spec' rs ns Crs Cn) as (e1 & Ee1 & He1). assert (Ee1' : Corr.P.spec_eq rs ns = Ret e1) by exact Ee1. rewrite Ee1' in H. cbn [bind] in H.
  destruct e1.
  { injection H as <-. rewrite <- Mv, (Mn X Y Z). symmetry. apply (proj1 He1 eq_refl). exact P. }
  destruct (from_specifier PFV rs) as [fr| |] eqn:Efr; try discriminate H. cbn [bind] in H. injection H as <-.
  pose proof (back_sound PFV rs Crs Srs Tr fr Efr) as B.
  destruct fr as [| | |k]; try exact I; rewrite <- Mv; exact (B _ Fv).
Qed.


(* literal-on-the-left atoms with a FINAL literal evaluate like the mirrored atom (for a pre/post-release literal they do not:
   PEP 440 excludes the literal as a candidate - the code leaves such atoms unmerged since fix 004ebf8) *)
Theorem reversed_sem c v : (c_op c = OpLt \/ c_op c = OpLe \/ c_op c = OpGt \/ c_op c = OpGe \/ c_op c = OpEq \/ c_op c = OpNe) ->
  atom_sem_rev c v = atom_sem c v.
Proof.
  destruct c as [op V]. cbn [c_op]. unfold atom_sem_rev, atom_sem, clause_sem. cbn [c_op c_ver reflect_sop].
  intros [->|[->|[->|[->|[->| ->]]]]]; cbn [reflect_sop]; rewrite ?pvleb, ?pvltb, ?pveqb; try reflexivity;
    rewrite (vcmp_antisym V v); destruct (vcmp V v); reflexivity.
Qed.
