(* SpecOps.v — the Python operators a & b, a | b, ~a (generated methods composed by
   the CPython dispatch rule) on every canonical specifier value. *)
From Coq Require Import List Bool Orders OrdersFacts Lia.
From Verif Require Import PyRes Order Cuts Str SpecTypes GenSpec SpecSem RangeBridge
  RangeAnd RangeInv UnionBase UnionOr UnionAnd UnionInv.
Import ListNotations.

Module SpecOps (V : OrderedTypeFull').
  Module UO := UnionOr V.
  Export UO.
  Module UA := UnionAnd V.
  Module UI := UnionInv V.
  Module RI := RangeInv V.

  Lemma range_and_spec'' a b :
    okr a -> okr b ->
    exists s, range_and a (SRange b) = Ret s /\ canon s /\ forall c, mem c s = memr c a && memr c b.
  Proof.
    intros Ha Hb.
    destruct (UA.range_and_spec' a b Ha Hb) as [[E M] | (r & E & Or & _ & _ & _ & _ & M)].
    - exists SEmpty. split; [exact E|]. split; [exact I|]. intros c. symmetry. apply M.
    - exists (SRange r). split; [exact E|]. split; [exact Or|]. exact M.
  Qed.

  Lemma union_and_spec' u b :
    canon (SUnion u) -> canon b -> (exists r, b = SRange r) \/ (exists u', b = SUnion u') ->
    exists s, union_and u b = Ret s /\ canon s /\ forall c, mem c s = mems c (uranges u) && mem c b.
  Proof. exact (UA.union_and_spec u b). Qed.

  Theorem spec_and_spec a b :
    canon a -> canon b ->
    exists s, spec_and a b = Ret s /\ canon s /\ forall c, mem c s = mem c a && mem c b.
  Proof.
    intros Ca Cb. unfold spec_and, spec_and_gen, dispatch.
    destruct a as [| |ra|ua|?|?]; try contradiction.
    - exists SEmpty. split; [reflexivity|]. split; [exact I|]. reflexivity.
    - exists b. split; [reflexivity|]. split; [exact Cb|]. reflexivity.
    - destruct b as [| |rb|ub|?|?]; try contradiction.
      + exists SEmpty. split; [reflexivity|]. split; [exact I|]. intros c. cbn. rewrite andb_false_r. reflexivity.
      + exists (SRange ra). split; [reflexivity|]. split; [exact Ca|]. intros c. cbn. rewrite andb_true_r. reflexivity.
      + destruct (range_and_spec'' ra rb Ca Cb) as (s & E & Cs & Ms). rewrite E. exists s. auto.
      + cbn [range_and same_class].
        destruct (union_and_spec' ub (SRange ra) Cb Ca) as (s & E & Cs & Ms); [left; eauto|].
        rewrite E. exists s. split; [reflexivity|]. split; [exact Cs|]. intros c. rewrite Ms. apply andb_comm.
    - destruct b as [| |rb|ub|?|?]; try contradiction.
      + exists SEmpty. split; [reflexivity|]. split; [exact I|]. intros c. cbn [mem]. rewrite andb_false_r. reflexivity.
      + exists (SUnion ua). split; [reflexivity|]. split; [exact Ca|]. intros c. cbn [mem]. rewrite andb_true_r. reflexivity.
      + destruct (union_and_spec' ua (SRange rb) Ca Cb) as (s & E & Cs & Ms); [left; eauto|].
        rewrite E. exists s. auto.
      + destruct (union_and_spec' ua (SUnion ub) Ca Cb) as (s & E & Cs & Ms); [right; eauto|].
        rewrite E. exists s. auto.
  Qed.

  Theorem spec_or_spec a b :
    canon a -> canon b ->
    exists s, spec_or a b = Ret s /\ canon s /\ forall c, mem c s = mem c a || mem c b.
  Proof.
    intros Ca Cb. unfold spec_or, spec_or_gen, dispatch.
    destruct a as [| |ra|ua|?|?]; try contradiction.
    - exists b. split; [reflexivity|]. split; [exact Cb|]. reflexivity.
    - exists SAny. split; [reflexivity|]. split; [exact I|]. reflexivity.
    - destruct b as [| |rb|ub|?|?]; try contradiction.
      + exists (SRange ra). split; [reflexivity|]. split; [exact Ca|]. intros c. cbn. rewrite orb_false_r. reflexivity.
      + exists SAny. split; [reflexivity|]. split; [exact I|]. intros c. cbn. rewrite orb_true_r. reflexivity.
      + destruct (spec_or_range_spec (SRange ra) rb Ca Cb) as (s & E & Cs & Ms).
        exists s. split; [exact E|]. split; [exact Cs|]. exact Ms.
      + cbn [range_or same_class].
        destruct (union_or_spec ub (SRange ra) Cb Ca) as (s & E & Cs & Ms); [left; eauto|].
        rewrite E. exists s. split; [reflexivity|]. split; [exact Cs|]. intros c. rewrite Ms. apply orb_comm.
    - destruct b as [| |rb|ub|?|?]; try contradiction.
      + exists (SUnion ua). split; [reflexivity|]. split; [exact Ca|]. intros c. cbn [mem]. rewrite orb_false_r. reflexivity.
      + exists SAny. split; [reflexivity|]. split; [exact I|]. intros c. cbn [mem]. rewrite orb_true_r. reflexivity.
      + destruct (union_or_spec ua (SRange rb) Ca Cb) as (s & E & Cs & Ms); [left; eauto|].
        rewrite E. exists s. auto.
      + destruct (union_or_spec ua (SUnion ub) Ca Cb) as (s & E & Cs & Ms); [right; eauto|].
        rewrite E. exists s. auto.
  Qed.

  Theorem spec_invert_spec a :
    canon a ->
    exists s, spec_invert a = Ret s /\ canon s /\ forall c, CO.lt c PosInf -> mem c s = negb (mem c a).
  Proof.
    intros Ca. destruct a as [| |ra|ua|?|?]; try contradiction.
    - exists SAny. split; [reflexivity|]. split; [exact I|]. reflexivity.
    - exists SEmpty. split; [reflexivity|]. split; [exact I|]. reflexivity.
    - exact (RI.range_invert_spec ra Ca).
    - exact (UI.union_invert_spec ua Ca).
  Qed.
End SpecOps.
