(* RenderSound.v — str() is meaning preserving: the clauses a canonical value renders to
   denote, when parsed back, exactly the value (every position), provided the remembered
   `simplified` clauses are genuine (simp_ok) and no upper bound rendered with `~=` is a
   post-release (the recorded defect tilde-max-post; see tilde_refuted). *)
From Coq Require Import List Bool ZArith NArith Arith Lia.
From Verif Require Import PyRes Order Cuts Str SpecTypes GenSpec SpecSem RangeBridge UnionBase SpecOps SpecEq SpecExpr
  Pep440 Pep440Facts ParseArith RenderArith Corr SpecParse ParseSound.
Import ListNotations.
Local Open Scope N_scope.
Import X.

Lemma suffix_final M : pre M = None -> post M = None -> dev M = None -> suffix M = fsuffix.
Proof. destruct M as [e r p po d]. cbn. intros -> -> ->. reflexivity. Qed.

Lemma is_prerelease_false M : is_prerelease M = false -> pre M = None /\ dev M = None.
Proof. unfold is_prerelease, is_none. destruct (pre M), (dev M); cbn; intros H; try discriminate; auto. Qed.

Lemma Nsub_eq_1 a b : (a - b =? 1) = true -> a = b + 1.
Proof. intros H. apply N.eqb_eq in H. lia. Qed.

(* what first_different_index says about two padded stable lists with equal heads *)
Lemma fdi_cons x A y B : first_different_index (x :: A) (y :: B) = if x =? y then S (first_diff_from 0 A B) else 0%nat.
Proof. unfold first_different_index. cbn [first_diff_from]. destruct (x =? y); [|reflexivity]. rewrite fdf_shift. reflexivity. Qed.

(* `~=`: when tilde_ok m M holds and M is not a post-release, max == (release of min without its last segment, incremented).0 *)
Lemma tilde_ok_sound m M : tilde_ok m M = true -> post M = None ->
  exists mm x, release m = mm ++ [x] /\ mm <> [] /\ vcmp (relver (epoch m) (incl mm ++ [0])) M = Eq.
Proof.
  unfold tilde_ok. intros H HpM.
  set (L := Nat.max (length (epoch m :: release m)) (length (epoch M :: release M))) in *.
  destruct (pad_zeros_spec (epoch m :: release m) L) as (za & Ea & Hza & _).
  destruct (pad_zeros_spec (epoch M :: release M) L) as (zb & Eb & Hzb & _).
  assert (La : length (pad_zeros (epoch m :: release m) L) = L) by (rewrite pad_zeros_length; unfold L; lia).
  assert (Lb : length (pad_zeros (epoch M :: release M) L) = L) by (rewrite pad_zeros_length; unfold L; lia).
  rewrite Ea, Eb in *. cbn [app] in *. rewrite fdi_cons in H.
  destruct (N.eqb_spec (epoch m) (epoch M)) as [Ee|Ee]; [|rewrite orb_true_r in H; discriminate].
  set (A := release m ++ za) in *. set (B := release M ++ zb) in *.
  set (g := first_diff_from 0 A B) in *.
  destruct (Nat.leb_spec (length (epoch m :: A) - 1) (S g)) as [Hle|Hlt]; [discriminate H|].
  cbn [orb Nat.eqb] in H.
  destruct (negb (nth0 (epoch M :: B) (S g) - nth0 (epoch m :: A) (S g) =? 1) || (nth0 (epoch M :: B) (S g) <? nth0 (epoch m :: A) (S g))) eqn:H2; [discriminate H|].
  apply orb_false_elim in H2 as [H2 _]. apply negb_false_iff in H2. apply Nsub_eq_1 in H2.
  apply andb_prop in H as [H H5]. apply andb_prop in H as [H3 H4].
  apply negb_true_iff, is_prerelease_false in H4 as [Hpre Hdev]. apply Nat.eqb_eq in H5.
  cbn [length] in La, Lb, Hlt. rewrite !nth0_nth in H2. cbn [nth] in H2. cbn [skipn] in H3.
  assert (HgA : (g < length A)%nat) by lia. assert (HgB : (g < length B)%nat) by lia.
  destruct (stable_core A B g (fdf_firstn A B) HgA HgB H2 H3) as (z & EB & Hz).
  assert (Hne : release m <> []) by (intros E0; rewrite E0 in H5; discriminate).
  destruct (exists_last Hne) as (mm & x & Em). exists mm, x. split; [exact Em|].
  assert (Lmm : length mm = S g) by (rewrite Em, app_length in H5; cbn in H5; lia).
  split; [intros ->; discriminate|].
  assert (EA : firstn (S g) A = mm).
  { unfold A. rewrite Em, <- app_assoc, <- Lmm. rewrite <- (Nat.add_0_r (length mm)), firstn_app_2. cbn. apply app_nil_r. }
  rewrite EA in EB.
  rewrite vcmp_relver_l, Ee, N.compare_refl. rewrite cmp_pad_app_zero_l by reflexivity.
  rewrite (cmp_pad_eq_app (incl mm) z zb (release M) Hz Hzb EB).
  rewrite (suffix_final M Hpre HpM Hdev). apply lex_refl.
Qed.

Lemma release_relver e r : release (relver e r) = r. Proof. reflexivity. Qed.
Lemma epoch_relver e r : epoch (relver e r) = e. Proof. reflexivity. Qed.
Lemma is_postrelease_false M : is_postrelease M = false -> post M = None.
Proof. unfold is_postrelease, is_none. destruct (post M); cbn; intros H; [discriminate|reflexivity]. Qed.

Lemma fdf_le a : forall b, (first_diff_from 0 a b <= length a)%nat /\ (first_diff_from 0 a b <= length b)%nat.
Proof.
  induction a as [|x a IH]; intros [|y b]; cbn [first_diff_from length]; try lia.
  destruct (x =? y); [|lia]. rewrite fdf_shift. specialize (IH b). lia.
Qed.

(* `!=X.*`: the prefix found denotes exactly the hole between left.max and right.min *)
Lemma nestar_prefix_sound lM rm p : nestar_prefix lM rm = Ret (Some p) ->
  release p <> [] /\ vcmp (relver (epoch p) (release p ++ [0])) lM = Eq
  /\ vcmp (relver (epoch p) (incl (release p) ++ [0])) rm = Eq.
Proof.
  unfold nestar_prefix. intros H.
  destruct (is_prerelease lM || is_prerelease rm || is_postrelease lM || is_postrelease rm) eqn:Hs; [discriminate H|].
  apply orb_false_elim in Hs as [Hs Hpo2]. apply orb_false_elim in Hs as [Hs Hpo1]. apply orb_false_elim in Hs as [Hp1 Hp2].
  apply is_prerelease_false in Hp1 as [Hpre1 Hdev1], Hp2 as [Hpre2 Hdev2].
  apply is_postrelease_false in Hpo1, Hpo2.
  set (L := Nat.max (length (epoch lM :: release lM)) (length (epoch rm :: release rm))) in *.
  destruct (pad_zeros_spec (epoch lM :: release lM) L) as (za & Ea & Hza & _).
  destruct (pad_zeros_spec (epoch rm :: release rm) L) as (zb & Eb & Hzb & _).
  assert (La : length (pad_zeros (epoch lM :: release lM) L) = L) by (rewrite pad_zeros_length; unfold L; lia).
  assert (Lb : length (pad_zeros (epoch rm :: release rm) L) = L) by (rewrite pad_zeros_length; unfold L; lia).
  rewrite Ea, Eb in *. cbn [app] in *. rewrite fdi_cons in H.
  destruct (N.eqb_spec (epoch lM) (epoch rm)) as [Ee|Ee]; [|cbn in H; discriminate H].
  set (A := release lM ++ za) in *. set (B := release rm ++ zb) in *.
  set (g := first_diff_from 0 A B) in *.
  cbn [Nat.ltb Nat.leb andb] in H.
  destruct (Nat.leb_spec (length (epoch rm :: B)) (S g)) as [Hle|Hlt]; [discriminate H|].
  destruct ((nth0 (epoch rm :: B) (S g) - nth0 (epoch lM :: A) (S g) =? 1) && negb (nth0 (epoch rm :: B) (S g) <? nth0 (epoch lM :: A) (S g))
            && all_zero (skipn (S (S g)) (epoch lM :: A) ++ skipn (S (S g)) (epoch rm :: B))
            && negb (Nat.eqb (length (skipn (S (S g)) (epoch lM :: A) ++ skipn (S (S g)) (epoch rm :: B))) 0)) eqn:Hc; [|discriminate H].
  injection H as Hp.
  apply andb_prop in Hc as [Hc _]. apply andb_prop in Hc as [Hc Hz]. apply andb_prop in Hc as [H2 _].
  apply Nsub_eq_1 in H2. rewrite !nth0_nth in H2. cbn [nth] in H2. cbn [skipn] in Hz.
  rewrite all_zero_app in Hz. apply andb_prop in Hz as [HzA HzB].
  cbn [length] in La, Lb, Hlt.
  assert (HgA : (g < length A)%nat) by lia. assert (HgB : (g < length B)%nat) by lia.
  destruct (stable_core A B g (fdf_firstn A B) HgA HgB H2 HzB) as (z & EB & Hz).
  assert (Ep : epoch p = epoch lM) by (rewrite <- Hp; reflexivity).
  assert (Rp : release p = firstn (S g) A) by (rewrite <- Hp; reflexivity).
  rewrite Ep, Rp. clear Hp Ep Rp.
  set (pA := firstn (S g) A) in *.
  assert (EA : release lM ++ za = pA ++ skipn (S g) A) by (symmetry; apply firstn_skipn).
  split.
  { assert (Hl : length pA = S g) by (unfold pA; rewrite firstn_length; lia). intros E0. apply (f_equal (@length N)) in E0. change (length pA = 0%nat) in E0. rewrite Hl in E0. discriminate E0. }
  split.
  - rewrite vcmp_relver_l, N.compare_refl. rewrite cmp_pad_app_zero_l by reflexivity.
    rewrite (cmp_pad_eq_app pA (skipn (S g) A) za (release lM) HzA Hza EA).
    rewrite (suffix_final lM Hpre1 Hpo1 Hdev1). apply lex_refl.
  - rewrite vcmp_relver_l, Ee, N.compare_refl. rewrite cmp_pad_app_zero_l by reflexivity.
    rewrite (cmp_pad_eq_app (incl pA) z zb (release rm) Hz Hzb EB).
    rewrite (suffix_final rm Hpre2 Hpo2 Hdev2). apply lex_refl.
Qed.

(* it never raises when left.max < right.min (which the canonical shape guarantees) *)
Lemma list_eq_of_firstn {A} (a b : list A) : length a = length b -> firstn (length a) a = firstn (length a) b -> a = b.
Proof. intros L H. rewrite firstn_all in H. rewrite L, firstn_all in H. exact H. Qed.

Lemma nestar_prefix_total lM rm : vcmp lM rm = Lt -> exists o, nestar_prefix lM rm = Ret o.
Proof.
  intros Hlt. unfold nestar_prefix.
  destruct (is_prerelease lM || is_prerelease rm || is_postrelease lM || is_postrelease rm) eqn:Hs; [eexists; reflexivity|].
  apply orb_false_elim in Hs as [Hs Hpo2]. apply orb_false_elim in Hs as [Hs Hpo1]. apply orb_false_elim in Hs as [Hp1 Hp2].
  apply is_prerelease_false in Hp1 as [Hpre1 Hdev1], Hp2 as [Hpre2 Hdev2].
  apply is_postrelease_false in Hpo1, Hpo2.
  set (L := Nat.max (length (epoch lM :: release lM)) (length (epoch rm :: release rm))) in *.
  destruct (pad_zeros_spec (epoch lM :: release lM) L) as (za & Ea & Hza & _).
  destruct (pad_zeros_spec (epoch rm :: release rm) L) as (zb & Eb & Hzb & _).
  assert (La : length (pad_zeros (epoch lM :: release lM) L) = L) by (rewrite pad_zeros_length; unfold L; lia).
  assert (Lb : length (pad_zeros (epoch rm :: release rm) L) = L) by (rewrite pad_zeros_length; unfold L; lia).
  rewrite Ea, Eb in *. cbn [app] in *. rewrite fdi_cons.
  destruct (N.eqb_spec (epoch lM) (epoch rm)) as [Ee|Ee]; [|cbn; eexists; reflexivity].
  set (A := release lM ++ za) in *. set (B := release rm ++ zb) in *.
  set (g := first_diff_from 0 A B) in *.
  cbn [Nat.ltb Nat.leb andb].
  destruct (Nat.leb_spec (length (epoch rm :: B)) (S g)) as [Hle|Hl].
  - exfalso. cbn [length] in *. destruct (fdf_le A B) as [HA HB]. fold g in HA, HB.
    assert (Hg : g = length A) by lia.
    assert (EAB : A = B).
    { apply list_eq_of_firstn; [lia|]. rewrite <- Hg. apply fdf_firstn. }
    assert (Hc : cmp_pad (release lM) (release rm) = Eq) by (apply (cmp_pad_eq_app (release lM) za zb (release rm) Hza Hzb); symmetry; exact EAB).
    unfold vcmp in Hlt. rewrite vcompare_decomp, Ee, N.compare_refl, Hc in Hlt.
    rewrite (suffix_final lM Hpre1 Hpo1 Hdev1), (suffix_final rm Hpre2 Hpo2 Hdev2), lex_refl in Hlt. discriminate.
  - match goal with |- context [if ?c then _ else _] => destruct c end; eexists; reflexivity.
Qed.

(* ---- rendering of one range ---- *)
(* the recorded defect: `~=` is chosen although max is a post-release; excluded here, exhibited in tilde_refuted *)
Definition tilde_safe (r : range) : Prop :=
  forall m M, rsimp r = None -> rmin r = Some m -> rmax r = Some M -> tilde_ok m M = true -> post M = None.

Lemma cl_mem_lower c m (b : bool) :
  cl_mem c (mkClause (if b then OpGe else OpGt) m) = cleb (C m (if b then Bef else Aft)) c && cltb c PosInf.
Proof. destruct b; reflexivity. Qed.
Lemma cl_mem_upper c M (b : bool) :
  cl_mem c (mkClause (if b then OpLe else OpLt) M) = cleb NegInf c && cltb c (C M (if b then Aft else Bef)).
Proof. destruct b; reflexivity. Qed.
Lemma cl_mem_eq c m : cl_mem c (mkClause OpEq m) = cleb (C m Bef) c && cltb c (C m Aft).
Proof. reflexivity. Qed.

Lemma pos_cltb c : SE.pos c -> cltb c PosInf = true.
Proof. intros P. apply cltb_iff. exact P. Qed.
Lemma cleb_neginf c : cleb NegInf c = true.
Proof. apply cleb_iff, neginf_le. Qed.

Lemma cltb_eq_r c a b s : vcmp a b = Eq -> cltb c (C a s) = cltb c (C b s).
Proof.
  intros H. change (cltb c (C a s)) with (match CO.compare c (C a s) with Lt => true | _ => false end).
  change (cltb c (C b s)) with (match CO.compare c (C b s) with Lt => true | _ => false end).
  rewrite (CO.compare_eq_r (C a s) (C b s) c); [reflexivity|].
  rewrite CO_compare_C, H. destruct s; reflexivity.
Qed.
Lemma cleb_eq_l c a b s : vcmp a b = Eq -> cleb (C a s) c = cleb (C b s) c.
Proof.
  intros H. change (cleb (C a s) c) with (match CO.compare (C a s) c with Gt => false | _ => true end).
  change (cleb (C b s) c) with (match CO.compare (C b s) c with Gt => false | _ => true end).
  rewrite (CO.compare_eq_l (C a s) (C b s) c); [reflexivity|].
  rewrite CO_compare_C, H. destruct s; reflexivity.
Qed.

Lemma from_pkg_compat V mm x : release V = mm ++ [x] -> mm <> [] ->
  from_pkg (mkClause OpCompat V)
  = Ret (SRange (mkRangeRaw (Some V) (Some (relver (epoch V) (incl mm ++ [0]))) true false (Some (mkClause OpCompat V)))).
Proof.
  intros ER Hm. assert (PB := prefix_bounds_ok V 1 mm). rewrite ER, firstn_pred_app in PB. specialize (PB eq_refl Hm).
  unfold from_pkg. cbn [c_op c_ver]. rewrite PB. reflexivity.
Qed.

Lemma pveqb_true a b : Corr.P.T.VB.veqb a b = true -> vcmp a b = Eq.
Proof. rewrite pveqb. destruct (vcmp a b); cbn; congruence. Qed.

Lemma wf_simple op v : op <> OpCompat -> op <> OpEqStar -> op <> OpNeStar -> wf_clause (mkClause op v).
Proof. intros H1 H2 H3. unfold wf_clause. cbn [c_op]. destruct op; try exact I; congruence. Qed.
Lemma Forall1 {A} (P : A -> Prop) x : P x -> Forall P [x].
Proof. intros H. constructor; [exact H | constructor]. Qed.
Lemma Forall2' {A} (P : A -> Prop) x y : P x -> P y -> Forall P [x; y].
Proof. intros H1 H2. constructor; [exact H1 | apply Forall1; exact H2]. Qed.
Lemma lower_op_ne (b : bool) : (if b then OpGe else OpGt) <> OpCompat. Proof. destruct b; discriminate. Qed.
Lemma upper_op_ne (b : bool) : (if b then OpLe else OpLt) <> OpCompat. Proof. destruct b; discriminate. Qed.

Lemma range_clauses_spec r : okr r -> simp_ok_range r -> tilde_safe r ->
  exists l, range_clauses r = Ret l /\ Forall wf_clause l /\ forall c, SE.pos c -> alt_mem c l = memr c r.
Proof.
  intros [Hne [Wlo Whi]] Hs Ht. unfold range_clauses, range_simplified. unfold simp_ok_range in Hs.
  destruct (rsimp r) as [k|] eqn:Esimp.
  { destruct Hs as [Wk Ek]. exists [k]. split; [reflexivity|]. split; [apply Forall1; exact Wk|].
    intros c _. unfold alt_mem. cbn [forallb]. unfold cl_mem. rewrite Ek. cbn [mem]. apply andb_true_r. }
  specialize (Ht). unfold ne in Hne. unfold memr, lb, ub in *.
  destruct (rmin r) as [m|] eqn:Emin, (rmax r) as [M|] eqn:Emax.
  - (* both bounds *)
    destruct (Corr.P.T.VB.veqb m M) eqn:Eeq.
    + apply pveqb_true in Eeq.
      exists [mkClause OpEq m]. split; [reflexivity|]. split; [apply Forall1, wf_simple; discriminate|].
      intros c _. unfold alt_mem. cbn [forallb]. rewrite cl_mem_eq, andb_true_r.
      apply CO.lt_iff in Hne. rewrite CO_compare_C, Eeq in Hne.
      destruct (imin r), (imax r); try discriminate Hne. cbv beta iota. f_equal. exact (cltb_eq_r c m M Aft Eeq).
    + assert (Fallback : exists l, Ret [mkClause (if imin r then OpGe else OpGt) m; mkClause (if imax r then OpLe else OpLt) M] = Ret l
                /\ Forall wf_clause l /\ forall c, SE.pos c -> alt_mem c l = cleb (C m (if imin r then Bef else Aft)) c && cltb c (C M (if imax r then Aft else Bef))).
      { eexists. split; [reflexivity|]. split.
        - apply Forall2'; apply wf_simple; try discriminate; destruct (imin r), (imax r); discriminate.
        - intros c P. unfold alt_mem. cbn [forallb]. rewrite cl_mem_lower, cl_mem_upper, (pos_cltb c P), cleb_neginf, !andb_true_r. reflexivity. }
      destruct (negb (imin r) || imax r) eqn:Einc; [exact Fallback|].
      destruct (tilde_ok m M) eqn:Etil; [|exact Fallback].
      apply orb_false_elim in Einc as [Ei1 Ei2]. apply negb_false_iff in Ei1. rewrite Ei1, Ei2.
      destruct (tilde_ok_sound m M Etil (Ht m M Esimp Emin Emax Etil)) as (mm & x & Em & Hmm & Hc).
      exists [mkClause OpCompat m]. split; [reflexivity|]. split.
      { apply Forall1. unfold wf_clause. cbn [c_ver c_op]. rewrite Em, app_length. cbn. destruct mm; [congruence|cbn; lia]. }
      intros c _. unfold alt_mem. cbn [forallb]. unfold cl_mem. rewrite (from_pkg_compat m mm x Em Hmm). cbn [mem]. unfold memr, lb, ub. cbn [rmin rmax imin imax].
      rewrite andb_true_r. f_equal. exact (cltb_eq_r c _ M Bef Hc).
  - (* only min *)
    exists [mkClause (if imin r then OpGe else OpGt) m]. split; [reflexivity|]. split.
    { apply Forall1, wf_simple; destruct (imin r); discriminate. }
    intros c _. unfold alt_mem. cbn [forallb]. rewrite cl_mem_lower, andb_true_r. reflexivity.
  - (* only max *)
    exists [mkClause (if imax r then OpLe else OpLt) M]. split; [reflexivity|]. split.
    { apply Forall1, wf_simple; destruct (imax r); discriminate. }
    intros c _. unfold alt_mem. cbn [forallb]. rewrite cl_mem_upper, andb_true_r. reflexivity.
  - (* unbounded *)
    exists []. split; [reflexivity|]. split; [constructor|].
    intros c P. cbn. rewrite (pos_cltb c P), cleb_neginf. reflexivity.
Qed.

(* ---- rendering of a union ---- *)
Lemma from_pkg_nestar p : release p <> [] ->
  from_pkg (mkClause OpNeStar p)
  = Ret (SUnion (mkUnionRaw [mkRangeRaw None (Some (relver (epoch p) (release p ++ [0]))) false false None;
                             mkRangeRaw (Some (relver (epoch p) (incl (release p) ++ [0]))) None true false None]
                            (Some (mkClause OpNeStar p)))).
Proof.
  intros Hrel. assert (PB := prefix_bounds_ok p 0 (release p)). rewrite firstn_all_sub0 in PB. specialize (PB eq_refl Hrel).
  unfold from_pkg. cbn [c_op c_ver]. rewrite PB. reflexivity.
Qed.

Lemma from_pkg_ne V :
  from_pkg (mkClause OpNe V)
  = Ret (SUnion (mkUnionRaw [mkRangeRaw None (Some V) false false None; mkRangeRaw (Some V) None false false None] (Some (mkClause OpNe V)))).
Proof. reflexivity. Qed.

Lemma vcmp_of_lt_C a s b s' : CO.lt (C a s : cut) (C b s') -> vcmp a b = Lt \/ (vcmp a b = Eq /\ s = Bef /\ s' = Aft).
Proof.
  intros H. apply CO.lt_iff in H. rewrite CO_compare_C in H. destruct (vcmp a b); [right|left|discriminate]; [|reflexivity].
  destruct s, s'; try discriminate. repeat split.
Qed.

Lemma union_simplified_two u l r : uranges u = [l; r] -> usimp u = None -> okr l -> okr r -> CO.lt (ub l) (lb r) ->
  exists o, union_simplified u = Ret o
    /\ match o with None => True | Some cl => Forall wf_clause cl /\ forall c, SE.pos c -> alt_mem c cl = memr c l || memr c r end.
Proof.
  intros Eu Es [Nl [Wl1 Wl2]] [Nr [Wr1 Wr2]] Hgap. unfold union_simplified. rewrite Es, Eu.
  unfold memr, lb, ub in *.
  destruct (rmin l) as [lm|] eqn:Elm; cbn [Corr.P.T.is_none andb].
  { destruct (rmax r), (rmax l), (rmin r); eexists; split; try reflexivity; exact I. }
  destruct (rmax r) as [rM|] eqn:ErM; cbn [Corr.P.T.is_none andb].
  { destruct (rmax l), (rmin r); eexists; split; try reflexivity; exact I. }
  destruct (rmax l) as [lM|] eqn:ElM; cbn [Corr.P.T.is_none Corr.P.T.ver_eq_o andb negb].
  2:{ destruct (rmin r); cbn [andb]; eexists; (split; [reflexivity|exact I]). }
  destruct (rmin r) as [rm|] eqn:Erm; cbn [andb].
  2:{ eexists. split; [reflexivity|exact I]. }
  rewrite andb_true_r.
  destruct (Corr.P.T.VB.veqb lM rm) eqn:Eeq.
  - (* != V *)
    apply pveqb_true in Eeq. eexists. split; [reflexivity|]. split.
    { apply Forall1, wf_simple; discriminate. }
    intros c P. destruct (vcmp_of_lt_C _ _ _ _ Hgap) as [Hlt|(_ & Hs1 & Hs2)]; [congruence|].
    destruct (imax l); cbv iota in Hs1; [discriminate Hs1|]. destruct (imin r); cbv iota in Hs2; [discriminate Hs2|].
    clear Hs1 Hs2. unfold alt_mem. cbn [forallb]. unfold cl_mem. rewrite from_pkg_ne.
    cbn [mem mems existsb uranges]. rewrite andb_true_r, orb_false_r.
    unfold memr, lb, ub. cbn [rmin rmax imin imax]. f_equal. f_equal. exact (cleb_eq_l c lM rm Aft Eeq).
  - destruct (negb (imax l) && imin r) eqn:Einc; [|eexists; split; [reflexivity|exact I]].
    apply andb_prop in Einc as [Ei1 Ei2]. apply negb_true_iff in Ei1. rewrite Ei1, Ei2 in *.
    assert (Hlt : vcmp lM rm = Lt).
    { destruct (vcmp_of_lt_C _ _ _ _ Hgap) as [H|(_ & _ & H)]; [exact H | discriminate H]. }
    destruct (nestar_prefix_total lM rm Hlt) as (o & Eo). rewrite Eo. cbn [bind].
    destruct o as [p|]; eexists; (split; [reflexivity|]); [|exact I].
    destruct (nestar_prefix_sound lM rm p Eo) as (Hrel & Hlo & Hhi).
    split. { apply Forall1. exact Hrel. }
    intros c P. unfold alt_mem. cbn [forallb]. unfold cl_mem. rewrite (from_pkg_nestar p Hrel).
    cbn [mem mems existsb uranges]. rewrite andb_true_r, orb_false_r.
    unfold memr, lb, ub. cbn [rmin rmax imin imax]. f_equal; f_equal.
    + exact (cltb_eq_r c _ lM Bef Hlo).
    + exact (cleb_eq_l c _ rm Bef Hhi).
Qed.

(* ---- whole values ---- *)
Definition ranges_of (s : spec) : list range := match s with SRange r => [r] | SUnion u => uranges u | _ => [] end.
Definition render_ok (s : spec) : Prop := simp_ok s /\ Forall tilde_safe (ranges_of s).

Lemma chain_Forall_okr l : forall lo, chain lo l -> Forall okr l.
Proof. induction l as [|r l IH]; intros lo H; [constructor|]. apply chain_cons in H as (_ & Hr & Hc). constructor; [exact Hr | exact (IH _ Hc)]. Qed.

Lemma mapM_clauses rs : Forall okr rs -> Forall simp_ok_range rs -> Forall tilde_safe rs ->
  exists ls, mapM_ range_clauses rs = Ret ls /\ Forall (Forall wf_clause) ls /\ length ls = length rs
             /\ forall c, SE.pos c -> existsb (alt_mem c) ls = mems c rs.
Proof.
  induction rs as [|r rs IH]; intros Ho Hs Hv.
  - exists []. repeat split; constructor.
  - inversion Ho as [|? ? Ho1 Ho2]; inversion Hs as [|? ? Hs1 Hs2]; inversion Hv as [|? ? Ht1 Hv2]; subst.
    destruct (range_clauses_spec r Ho1 Hs1 Ht1) as (l & El & Wl & Ml).
    destruct (IH Ho2 Hs2 Hv2) as (ls & Els & Wls & Len & Mls).
    exists (l :: ls). split; [cbn [mapM_]; rewrite El; cbn [bind]; rewrite Els; reflexivity|].
    split; [constructor; assumption|]. split; [cbn; rewrite Len; reflexivity|].
    intros c P. cbn [existsb]. rewrite (Ml c P), (Mls c P). reflexivity.
Qed.

Theorem render_spec s : canon s -> render_ok s ->
  exists t, render s = Ret t /\ wf_text t /\ forall c, SE.pos c -> text_mem c t = mem c s.
Proof.
  intros Cs [Hs Hv]. destruct s as [| |r|u|?|?]; try contradiction.
  - exists TEmpty. repeat split.
  - exists (TAlts [[]]). split; [reflexivity|]. split; [split; [discriminate | repeat constructor]|]. reflexivity.
  - inversion Hv as [|? ? Ht1 _]; subst.
    destruct (range_clauses_spec r Cs Hs Ht1) as (l & El & Wl & Ml).
    exists (TAlts [l]). split; [cbn [render]; rewrite El; reflexivity|]. split; [split; [discriminate | apply Forall1; exact Wl]|].
    intros c P. cbn [text_mem existsb mem]. rewrite (Ml c P). apply orb_false_r.
  - destruct Cs as [Hlen Hch]. destruct Hs as [Hsu Hsr]. cbn [ranges_of] in Hv.
    assert (Fallback : union_simplified u = Ret None ->
              exists t, render (SUnion u) = Ret t /\ wf_text t /\ forall c, SE.pos c -> text_mem c t = mem c (SUnion u)).
    { intros E. destruct (mapM_clauses (uranges u) (chain_Forall_okr _ _ Hch) Hsr Hv) as (ls & Els & Wls & Len & Mls).
      exists (TAlts ls). split; [cbn [render]; rewrite E; cbn [bind]; rewrite Els; reflexivity|]. split.
      - split; [|exact Wls]. intros ->. clear - Hlen Len. destruct (uranges u); [cbn in Hlen; lia | cbn in Len; discriminate Len].
      - intros c P. cbn [text_mem mem]. apply Mls. exact P. }
    destruct (usimp u) as [k|] eqn:Esu.
    + destruct Hsu as [Wk Ek]. exists (TAlts [[k]]). split; [unfold render, union_simplified; rewrite Esu; reflexivity|].
      split; [split; [discriminate | apply Forall1, Forall1; exact Wk]|].
      intros c _. cbn [text_mem existsb alt_mem forallb]. unfold cl_mem. rewrite Ek. rewrite andb_true_r, orb_false_r. reflexivity.
    + destruct (uranges u) as [|l [|r [|x rest]]] eqn:Eu; try (cbn in Hlen; lia).
      * apply chain_cons in Hch as (_ & Hl & Hch). apply chain_cons in Hch as (Hgap & Hr & _).
        destruct (union_simplified_two u l r Eu Esu Hl Hr Hgap) as (o & Eo & Ho).
        destruct o as [cl|]; [|rewrite <- Eu in *; apply Fallback; exact Eo].
        destruct Ho as [Wcl Mcl]. exists (TAlts [cl]). split; [cbn [render]; rewrite Eo; reflexivity|].
        split; [split; [discriminate | apply Forall1; exact Wcl]|].
        intros c P. cbn [text_mem existsb mem]. unfold mems. rewrite Eu. cbn [existsb]. rewrite (Mcl c P), !orb_false_r. reflexivity.
      * rewrite <- Eu in *. apply Fallback. unfold union_simplified. rewrite Esu, Eu. reflexivity.
Qed.

(* C06: the rendered text parses back to an equal value *)
Theorem render_parse_roundtrip s : canon s -> render_ok s ->
  exists t s', render s = Ret t /\ parse t = Ret s' /\ canon s' /\ spec_eq s s' = Ret true.
Proof.
  intros Cs Hr. destruct (render_spec s Cs Hr) as (t & Et & Wt & Mt).
  destruct (parse_spec t Wt) as (s' & Ep & Cs' & _ & Mp).
  exists t, s'. split; [exact Et|]. split; [exact Ep|]. split; [exact Cs'|].
  destruct (spec_eq_spec' s s' Cs Cs') as (b & Eb & Hb). rewrite Eb. f_equal. apply Hb.
  intros c P. change (mem c s = mem c s'). rewrite (Mp c P), (Mt c P). reflexivity.
Qed.

(* C04: contains() = packaging on the rendered text = structural membership, for final releases *)
Lemma set_sem_alt_mem l v : Forall wf_clause l -> final v -> set_sem l v = alt_mem (vcut v) l.
Proof.
  intros W Fv. destruct (from_specifierset_spec l W) as (s & _ & _ & Mv & Mc).
  rewrite <- (Mv v Fv). apply Mc. apply lt_posinf.
Qed.

Theorem contains_spec s v : canon s -> render_ok s -> final v -> spec_contains s v = Ret (mem (vcut v) s).
Proof.
  intros Cs [Hs Hv] Fv. assert (P : SE.pos (vcut v)) by apply lt_posinf.
  destruct s as [| |r|u|?|?]; try contradiction; try reflexivity.
  - inversion Hv as [|? ? Ht1 _]; subst.
    destruct (range_clauses_spec r Cs Hs Ht1) as (l & El & Wl & Ml).
    cbn [spec_contains mem]. rewrite El. cbn [bind]. rewrite (set_sem_alt_mem l v Wl Fv), (Ml _ P). reflexivity.
  - destruct Cs as [Hlen Hch]. destruct Hs as [_ Hsr]. cbn [ranges_of] in Hv.
    destruct (mapM_clauses (uranges u) (chain_Forall_okr _ _ Hch) Hsr Hv) as (ls & Els & Wls & _ & Mls).
    cbn [spec_contains mem]. rewrite Els. cbn [bind]. rewrite <- (Mls _ P). f_equal.
    clear Els Mls. induction Wls as [|l ls Wl _ IH]; [reflexivity|]. cbn [existsb]. rewrite (set_sem_alt_mem l v Wl Fv), IH. reflexivity.
Qed.
