(* RangeBridge.v — bridge lemmas from the GENERATED RangeSpecifier predicates to
   comparisons of cuts.  Proved by brute-force case analysis so that a reordering of
   the Python Boolean expressions does not break them, but a change of meaning does. *)
From Coq Require Import List Bool Orders OrdersFacts.
From Verif Require Import PyRes Order Cuts Str SpecTypes GenSpec SpecSem.
Import ListNotations.

Module RangeBridge (V : OrderedTypeFull').
  Module S := SpecSem V.
  Export S.

  Ltac vcmp :=
    repeat match goal with
    | |- context [V.compare ?x ?x] => rewrite (cmp_refl x)
    | |- context [V.compare ?x ?y] =>
        let E := fresh "E" in
        destruct (V.compare x y) eqn:E;
        try (rewrite (cmp_antisym x y), E); cbn
    end.

  Ltac unf :=
    unfold range_allows_lower, range_allows_higher, range_is_strictly_lower,
      range_is_adjacent_to, range_is_superset, range_is_subset, range_is_any,
      ver_gt_o, ver_lt_o, ver_eq_o, por, pand, pnot, pif, bind, is_none, vltb, veqb,
      CB.vltb, CB.vleb, CB.veqb, CO.compare, CO.side_cmp, lb, ub.

  Ltac brute a b :=
    destruct a as [[x|] [x'|] [] [] sa], b as [[y|] [y'|] [] [] sb];
    unf; cbn; vcmp; reflexivity.

  Lemma allows_lower_spec a b : range_allows_lower a b = Ret (cltb (lb a) (lb b)).
  Proof. brute a b. Qed.

  Lemma allows_higher_spec a b : range_allows_higher a b = Ret (cltb (ub b) (ub a)).
  Proof. brute a b. Qed.

  Lemma is_strictly_lower_spec a b : range_is_strictly_lower a b = Ret (cleb (ub a) (lb b)).
  Proof. brute a b. Qed.

  Lemma is_adjacent_to_spec a b : range_is_adjacent_to a b = Ret (ceqb (ub a) (lb b)).
  Proof. brute a b. Qed.

  Lemma is_superset_spec a b :
    range_is_superset a b = Ret (cleb (lb a) (lb b) && cleb (ub b) (ub a)).
  Proof. brute a b. Qed.

  Lemma is_subset_spec a b :
    range_is_subset a b = Ret (cleb (lb b) (lb a) && cleb (ub a) (ub b)).
  Proof. unfold range_is_subset. apply is_superset_spec. Qed.

  Lemma is_any_spec a : wfr a -> range_is_any a = Ret (ceqb (lb a) NegInf && ceqb (ub a) PosInf).
  Proof. intros _. destruct a as [[x|] [x'|] [] [] sa]; reflexivity. Qed.

  Lemma can_combine_spec a b :
    range_can_combine a b =
    Ret (if cltb (lb a) (lb b) then negb (cleb (ub a) (lb b)) || ceqb (ub a) (lb b)
         else negb (cleb (ub b) (lb a)) || ceqb (ub b) (lb a)).
  Proof.
    unfold range_can_combine.
    rewrite allows_lower_spec, !is_strictly_lower_spec, !is_adjacent_to_spec.
    unfold pif, por, pnot, bind.
    destruct (cltb (lb a) (lb b)); [destruct (cleb (ub a) (lb b))|destruct (cleb (ub b) (lb a))]; reflexivity.
  Qed.

  Lemma mk_range_ok m M im iM s :
    mk_ok m M im iM -> mk_range m M im iM s = Ret (mkRangeRaw m M im iM s).
  Proof.
    intros [H1 H2]. unfold mk_range, bind, is_none; cbn.
    destruct m; [|rewrite (H1 eq_refl)]; destruct M; try rewrite (H2 eq_refl); cbn;
      try reflexivity; destruct im; reflexivity.
  Qed.

  (* boolean comparisons of cuts as propositions *)
  Lemma cltb_iff x y : cltb x y = true <-> CO.lt x y.
  Proof. destruct (CB.vltb_spec x y); intuition congruence. Qed.
  Lemma cleb_iff x y : cleb x y = true <-> CO.le x y.
  Proof. destruct (CB.vleb_spec x y); intuition congruence. Qed.
  Lemma ceqb_iff x y : ceqb x y = true <-> CO.eq x y.
  Proof. destruct (CB.veqb_spec x y); intuition congruence. Qed.

  Ltac cbool :=
    repeat match goal with
    | |- context [cltb ?x ?y] => destruct (CB.vltb_spec x y)
    | |- context [cleb ?x ?y] => destruct (CB.vleb_spec x y)
    | |- context [ceqb ?x ?y] => destruct (CB.veqb_spec x y)
    | H : context [cltb ?x ?y] |- _ => destruct (CB.vltb_spec x y)
    | H : context [cleb ?x ?y] |- _ => destruct (CB.vleb_spec x y)
    | H : context [ceqb ?x ?y] |- _ => destruct (CB.veqb_spec x y)
    end.
  Lemma wfr_mk_ok_lo_hi a b : wfr a -> wfr b -> mk_ok (rmin a) (rmax b) (imin a) (imax b).
  Proof. intros [H1 _] [_ H2]. split; assumption. Qed.

  Lemma lb_mk m M im iM s (b : range) : m = rmin b -> im = imin b -> lb (mkRangeRaw m M im iM s) = lb b.
  Proof. intros -> ->. reflexivity. Qed.
  Lemma ub_mk m M im iM s (b : range) : M = rmax b -> iM = imax b -> ub (mkRangeRaw m M im iM s) = ub b.
  Proof. intros -> ->. reflexivity. Qed.

  (* the semantic core: a record with the given bounds *)
  Definition has_bounds (r : range) (l u : cut) : Prop := lb r = l /\ ub r = u.

  Lemma memr_bounds c r l u : has_bounds r l u -> memr c r = cleb l c && cltb c u.
  Proof. intros [<- <-]. reflexivity. Qed.

  Ltac solve_mem :=
    intros; unfold memr; cbool; try reflexivity; exfalso; corder.

  Lemma neginf_lt x sd : CO.lt (NegInf : cut) (C x sd).
  Proof. apply CO.lt_iff. reflexivity. Qed.
  Lemma lt_posinf x sd : CO.lt (C x sd) (PosInf : cut).
  Proof. apply CO.lt_iff. reflexivity. Qed.
  Lemma neginf_le c : CO.le (NegInf : cut) c.
  Proof. apply CO.le_iff. destruct c; cbn; congruence. Qed.
  Lemma le_posinf c : CO.le c (PosInf : cut).
  Proof. apply CO.le_iff. destruct c; cbn; congruence. Qed.
  Lemma not_lt_neginf c : ~ CO.lt c (NegInf : cut).
  Proof. rewrite CO.lt_iff. destruct c; cbn; congruence. Qed.
  Lemma not_posinf_lt c : ~ CO.lt (PosInf : cut) c.
  Proof. rewrite CO.lt_iff. destruct c; cbn; congruence. Qed.

End RangeBridge.
