(* MergeLink.v — the hypothesis `vmerge_sound` of the marker theorems, discharged inside Coq for a merging oracle built from the
   bridge model (Model/Bridge.v: vmerge_same = _merge_single_markers on two atoms of one version-valued variable).
   The marker model keeps operands as opaque strings and lets the environment decide version atoms (vatom); the bridge model
   works on tokenised clauses (operator + structured version).  The two are joined by the TOKENISER, which is packaging's and is
   a parameter here:
     tok   : what packaging reads from an atom (None: outside the bridge model - in-lists, arbitrary equality ...)
     untok : the atom MarkerExpression.from_specifier builds for a clause (name, operator, str(version))
     ver   : the (final) interpreter version an environment gives a version-valued variable
   good_env e says that e decides every tokenisable version atom as packaging's Specifier.contains does (clause_sem).
   Under "untok is read back by tok" (tok_untok) the oracle vmerge_link satisfies vmerge_sound, so every marker theorem (C02, C03, C07, C10,
   C12, C14m ...) holds for it with good := good_env.  vmerge_link declines (None) when the merged specifier is not tilde_safe:
   that is the recorded finding tilde-max-post, where the code's merge is wrong. *)
From Coq Require Import List Bool NArith String Permutation.
From Verif Require Import PyRes Order Cuts Str SpecTypes GenSpec SpecSem SpecExpr Pep440 Corr SpecParse
  ParseSound RenderSound ParseReach Bridge BridgeSound.
From Verif Require Marker MarkerBase MarkerSingle MarkerOf MarkerSound.
Import ListNotations.
Import X.

Definition tilde_safeb (r : range) : bool :=
  match rsimp r, rmin r, rmax r with
  | None, Some m, Some M => negb (tilde_ok m M) || match post M with None => true | Some _ => false end
  | _, _, _ => true
  end.
Lemma tilde_safeb_ok r : tilde_safeb r = true -> tilde_safe r.
Proof.
  unfold tilde_safeb, tilde_safe. intros H m M Es Em EM T. rewrite Es, Em, EM, T in H. cbn in H. destruct (post M); [discriminate | reflexivity].
Qed.
Lemma forallb_tilde_safe l : forallb tilde_safeb l = true -> Forall tilde_safe l.
Proof. intros H. apply Forall_forall. intros r Hr. rewrite forallb_forall in H. exact (tilde_safeb_ok r (H r Hr)). Qed.

Definition wf_clauseb (c : clause) : bool :=
  match c_op c with
  | OpCompat => Nat.leb 2 (List.length (release (c_ver c)))
  | OpEqStar | OpNeStar => match release (c_ver c) with [] => false | _ => true end
  | _ => true
  end.
Lemma wf_clauseb_ok c : wf_clauseb c = true -> wf_clause c.
Proof.
  unfold wf_clauseb, wf_clause. destruct (c_op c); intros H; try exact I.
  - apply PeanoNat.Nat.leb_le. exact H.
  - destruct (release (c_ver c)); [discriminate | discriminate].
  - destruct (release (c_ver c)); [discriminate | discriminate].
Qed.

Section Link.
  Variable tok : Marker.atom -> option clause.
  Variable untok : str -> clause -> Marker.atom.
  Variable vn : str -> vname.
  Variable ver : Marker.menv -> str -> version.
  Hypothesis untok_name : forall n c, Marker.a_name (untok n c) = n.
  Hypothesis tok_untok : forall n c, tok (untok n c) = Some c.

  Definition good_env (e : Marker.menv) : Prop :=
    forall a c, Marker.version_like (Marker.a_name a) = true -> tok a = Some c ->
      final (ver e (Marker.a_name a)) /\ Marker.vatom e a = clause_sem c (ver e (Marker.a_name a)).

  (* the specifier the merge goes through, to test the side condition of C11_merge *)
  Definition merged_safe (k : bool) (c1 c2 : clause) : bool :=
    match get_specifier c1, get_specifier c2 with
    | Ret s1, Ret s2 => match (if k then spec_and s1 s2 else spec_or s1 s2) with Ret rs => forallb tilde_safeb (ranges_of rs) | _ => false end
    | _, _ => false
    end.

  Definition vmerge_link (k : bool) (a b : Marker.atom) : option Marker.marker :=
    if Marker.version_like (Marker.a_name a) && str_eqb (Marker.a_name a) (Marker.a_name b) then
      match tok a, tok b with
      | Some ca, Some cb =>
          if wf_clauseb ca && wf_clauseb cb && merged_safe k ca cb then
            match vmerge_same k (vn (Marker.a_name a)) ca cb with
            | Ret VMFirst => Some (Marker.MAtom a)
            | Ret VMSecond => Some (Marker.MAtom b)
            | Ret VMAny => Some Marker.MAny
            | Ret VMEmpty => Some Marker.MEmpty
            | Ret (VMAtom c) => Some (Marker.MAtom (untok (Marker.a_name a) c))
            | _ => None
            end
          else None
      | _, _ => None
      end
    else None.

  Theorem vmerge_link_sound k a b r : vmerge_link k a b = Some r ->
    MarkerSingle.wf r = true /\ forall e, good_env e -> Marker.meval e r = MarkerSingle.bop k (Marker.atom_eval e a) (Marker.atom_eval e b).
  Proof.
    unfold vmerge_link. intros H.
    destruct (Marker.version_like (Marker.a_name a)) eqn:VL; [|discriminate H]. cbn [andb] in H.
    destruct (str_eqb_spec (Marker.a_name a) (Marker.a_name b)) as [En|]; [|discriminate H].
    destruct (tok a) as [ca|] eqn:Ta; [|discriminate H]. destruct (tok b) as [cb|] eqn:Tb; [|discriminate H].
    destruct (wf_clauseb ca) eqn:Wa; [|discriminate H]. destruct (wf_clauseb cb) eqn:Wb; [|discriminate H]. cbn [andb] in H.
    destruct (merged_safe k ca cb) eqn:Sf; [|discriminate H].
    assert (VLb : Marker.version_like (Marker.a_name b) = true) by (rewrite <- En; exact VL).
    destruct (vmerge_same k (vn (Marker.a_name a)) ca cb) as [res| |] eqn:Ev; try discriminate H.
    assert (Side : forall s1 s2 rs, get_specifier ca = Ret s1 -> get_specifier cb = Ret s2 ->
              (if k then spec_and s1 s2 else spec_or s1 s2) = Ret rs -> Forall tilde_safe (ranges_of rs)).
    { intros s1 s2 rs E1 E2 Er. unfold merged_safe in Sf. rewrite E1, E2, Er in Sf. exact (forallb_tilde_safe _ Sf). }
    pose proof (vmerge_same_sound k (vn (Marker.a_name a)) ca cb res (wf_clauseb_ok ca Wa) (wf_clauseb_ok cb Wb) Ev Side) as Sound.
    assert (Ev_a : forall e, good_env e -> Marker.atom_eval e a = clause_sem ca (ver e (Marker.a_name a)) /\ final (ver e (Marker.a_name a))).
    { intros e G. unfold Marker.atom_eval. rewrite VL. destruct (G a ca VL Ta) as [F E]. split; assumption. }
    assert (Ev_b : forall e, good_env e -> Marker.atom_eval e b = clause_sem cb (ver e (Marker.a_name a))).
    { intros e G. unfold Marker.atom_eval. rewrite VLb. destruct (G b cb VLb Tb) as [_ E]. rewrite En. exact E. }
    assert (Bop : forall x y, MarkerSingle.bop k x y = bopb k x y) by (intros; destruct k; reflexivity).
    destruct res as [| | | | |c]; try discriminate H; injection H as <-.
    - split; [cbn; unfold MarkerSingle.ok_atom; rewrite VL; reflexivity|]. intros e G. destruct (Ev_a e G) as [Ea F].
      cbn [Marker.meval]. rewrite Bop, (Ev_b e G), Ea. exact (Sound _ F).
    - split; [cbn; unfold MarkerSingle.ok_atom; rewrite VLb; reflexivity|]. intros e G. destruct (Ev_a e G) as [Ea F].
      cbn [Marker.meval]. rewrite Bop, (Ev_b e G), Ea. exact (Sound _ F).
    - split; [reflexivity|]. intros e G. destruct (Ev_a e G) as [Ea F]. cbn [Marker.meval]. rewrite Bop, (Ev_b e G), Ea. symmetry. exact (Sound _ F).
    - split; [reflexivity|]. intros e G. destruct (Ev_a e G) as [Ea F]. cbn [Marker.meval]. rewrite Bop, (Ev_b e G), Ea. symmetry. exact (Sound _ F).
    - assert (VLu : Marker.version_like (Marker.a_name (untok (Marker.a_name a) c)) = true) by (rewrite untok_name; exact VL).
      split; [cbn; unfold MarkerSingle.ok_atom; rewrite VLu; reflexivity|]. intros e G. destruct (Ev_a e G) as [Ea F].
      cbn [Marker.meval]. unfold Marker.atom_eval at 1. rewrite VLu.
      destruct (G (untok (Marker.a_name a) c) c VLu (tok_untok _ c)) as [_ Eu]. rewrite Eu, untok_name.
      rewrite Bop, (Ev_b e G), Ea. exact (Sound _ F).
  Qed.

  (* hence the marker theorems hold for this merging oracle on every good_env environment, e.g. the operators: *)
  Section Ops.
    Variable vcontains : Marker.atom -> str -> bool.
    Variable perm : list Marker.marker -> list Marker.marker.
    Hypothesis perm_perm : forall l, Permutation (perm l) l.

    Theorem linked_sound fuel : MarkerSound.P vmerge_link vcontains perm good_env fuel.
    Proof. exact (MarkerSound.all_sound vmerge_link vcontains perm good_env vmerge_link_sound perm_perm fuel). Qed.

    Theorem linked_and fuel a b r :
      Marker.mand vmerge_link vcontains perm fuel a b = Ret r -> MarkerSingle.wf a = true -> MarkerSingle.wf b = true ->
      MarkerSingle.wf r = true /\ forall e, good_env e -> Marker.meval e r = Marker.meval e a && Marker.meval e b.
    Proof. exact (proj1 (linked_sound fuel) a b r). Qed.
    Theorem linked_or fuel a b r :
      Marker.mor vmerge_link vcontains perm fuel a b = Ret r -> MarkerSingle.wf a = true -> MarkerSingle.wf b = true ->
      MarkerSingle.wf r = true /\ forall e, good_env e -> Marker.meval e r = Marker.meval e a || Marker.meval e b.
    Proof. exact (proj1 (proj2 (linked_sound fuel)) a b r). Qed.
  End Ops.
End Link.

(* ---- the same, with the python_version / python_full_version pair (_merge_python_version_single_markers = vmerge_pv) ---- *)
Definition pv_operand_okb (c : clause) : bool :=
  let v := c_ver c in
  (epoch v =? 0)%N && match pre v, post v, dev v with None, None, None => true | _, _, _ => false end
  && let r0 := release v in
     match c_op c with
     | OpEqStar | OpNeStar => Nat.eqb (List.length r0) 1 || Nat.eqb (List.length r0) 2
     | OpCompat => Nat.eqb (List.length r0) 2
     | _ => Nat.eqb (List.length (strip_to2 (List.length r0) r0)) 1 || Nat.eqb (List.length (strip_to2 (List.length r0) r0)) 2
     end.
Lemma pv_operand_okb_ok c : pv_operand_okb c = true -> pv_operand_ok c.
Proof.
  unfold pv_operand_okb, pv_operand_ok. intros H. apply andb_prop in H as [H1 H3]. apply andb_prop in H1 as [H1 H2].
  split.
  - destruct (c_ver c) as [e r p po d]. cbn in *. apply N.eqb_eq in H1. subst e.
    destruct p; [discriminate|]. destruct po; [discriminate|]. destruct d; [discriminate|]. reflexivity.
  - cbv zeta in H3 |- *. destruct (c_op c);
      try (apply orb_prop in H3 as [H3|H3]; apply PeanoNat.Nat.eqb_eq in H3; [left | right]; exact H3);
      apply PeanoNat.Nat.eqb_eq in H3; exact H3.
Qed.

Section LinkPair.
  Variable tok : Marker.atom -> option clause.
  Variable untok : str -> clause -> Marker.atom.
  Variable vn : str -> vname.
  Variable ver : Marker.menv -> str -> version.
  Hypothesis untok_name : forall n c, Marker.a_name (untok n c) = n.
  Hypothesis tok_untok : forall n c, tok (untok n c) = Some c.
  Let PVn := of_string "python_version".
  Let PFVn := of_string "python_full_version".

  (* additionally: the two interpreter variables are consistent, python_version = X.Y and python_full_version = X.Y.Z *)
  Definition good_env_pv (e : Marker.menv) : Prop :=
    good_env tok ver e /\ exists X Y Z, ver e PVn = pvv X Y /\ ver e PFVn = pfv X Y Z.

  Definition merged_safe_pv (k : bool) (c_pv c_full : clause) : bool :=
    match normalize_pv c_pv, get_specifier c_full with
    | Ret ns, Ret sf => match (if k then spec_and ns sf else spec_or ns sf) with Ret rs => forallb tilde_safeb (ranges_of rs) | _ => false end
    | _, _ => false
    end.

  (* a: the python_version atom, b: the python_full_version atom *)
  Definition pair_merge (k : bool) (a b : Marker.atom) : option Marker.marker :=
    match tok a, tok b with
    | Some c_pv, Some c_full =>
        if pv_operand_okb c_pv && wf_clauseb c_full && merged_safe_pv k c_pv c_full then
          match vmerge_pv k c_pv c_full with
          | Ret VMFirst => Some (Marker.MAtom a)
          | Ret VMAny => Some Marker.MAny
          | Ret VMEmpty => Some Marker.MEmpty
          | Ret (VMAtom c) => Some (Marker.MAtom (untok PFVn c))
          | _ => None
          end
        else None
    | _, _ => None
    end.

  Definition vmerge_link2 (k : bool) (a b : Marker.atom) : option Marker.marker :=
    if str_eqb (Marker.a_name a) PVn && str_eqb (Marker.a_name b) PFVn then pair_merge k a b
    else if str_eqb (Marker.a_name a) PFVn && str_eqb (Marker.a_name b) PVn then pair_merge k b a
    else vmerge_link tok untok vn k a b.

  Lemma vl_pv : Marker.version_like PVn = true. Proof. reflexivity. Qed.
  Lemma vl_pfv : Marker.version_like PFVn = true. Proof. reflexivity. Qed.

  Lemma pair_merge_sound k a b r : Marker.a_name a = PVn -> Marker.a_name b = PFVn -> pair_merge k a b = Some r ->
    MarkerSingle.wf r = true /\ forall e, good_env_pv e -> Marker.meval e r = bopb k (Marker.atom_eval e a) (Marker.atom_eval e b).
  Proof.
    intros Na Nb H. unfold pair_merge in H.
    destruct (tok a) as [c_pv|] eqn:Ta; [|discriminate H]. destruct (tok b) as [c_full|] eqn:Tb; [|discriminate H].
    destruct (pv_operand_okb c_pv) eqn:Ok; [|discriminate H]. destruct (wf_clauseb c_full) eqn:Wf; [|discriminate H]. cbn [andb] in H.
    destruct (merged_safe_pv k c_pv c_full) eqn:Sf; [|discriminate H].
    destruct (vmerge_pv k c_pv c_full) as [res| |] eqn:Ev; try discriminate H.
    assert (Side : forall ns sf rs, normalize_pv c_pv = Ret ns -> get_specifier c_full = Ret sf ->
              (if k then spec_and ns sf else spec_or ns sf) = Ret rs -> Forall tilde_safe (ranges_of rs)).
    { intros ns sf rs E1 E2 Er. unfold merged_safe_pv in Sf. rewrite E1, E2, Er in Sf. exact (forallb_tilde_safe _ Sf). }
    pose proof (vmerge_pv_sound k c_pv c_full res (pv_operand_okb_ok _ Ok) (wf_clauseb_ok _ Wf) Ev Side) as Sound.
    assert (VLa : Marker.version_like (Marker.a_name a) = true) by (rewrite Na; exact vl_pv).
    assert (VLb : Marker.version_like (Marker.a_name b) = true) by (rewrite Nb; exact vl_pfv).
    assert (Evs : forall e, good_env_pv e -> exists X Y Z,
              Marker.atom_eval e a = clause_sem c_pv (pvv X Y) /\ Marker.atom_eval e b = clause_sem c_full (pfv X Y Z) /\ ver e PFVn = pfv X Y Z).
    { intros e [G (X & Y & Z & E1 & E2)]. exists X, Y, Z. unfold Marker.atom_eval. rewrite VLa, VLb.
      destruct (G a c_pv VLa Ta) as [_ Ea]. destruct (G b c_full VLb Tb) as [_ Eb]. rewrite Ea, Eb, Na, Nb, E1, E2. auto. }
    destruct res as [| | | | |c]; try discriminate H; injection H as <-.
    - split; [cbn [MarkerSingle.wf]; unfold MarkerSingle.ok_atom; rewrite VLa; reflexivity|]. intros e G. destruct (Evs e G) as (X & Y & Z & Ea & Eb & _).
      cbn [Marker.meval]. rewrite Eb, Ea. exact (Sound X Y Z).
    - split; [reflexivity|]. intros e G. destruct (Evs e G) as (X & Y & Z & Ea & Eb & _). cbn [Marker.meval]. rewrite Eb, Ea. symmetry. exact (Sound X Y Z).
    - split; [reflexivity|]. intros e G. destruct (Evs e G) as (X & Y & Z & Ea & Eb & _). cbn [Marker.meval]. rewrite Eb, Ea. symmetry. exact (Sound X Y Z).
    - assert (VLu : Marker.version_like (Marker.a_name (untok PFVn c)) = true) by (rewrite untok_name; exact vl_pfv).
      split; [cbn [MarkerSingle.wf]; unfold MarkerSingle.ok_atom; rewrite VLu; reflexivity|]. intros e G. destruct (Evs e G) as (X & Y & Z & Ea & Eb & Ev2).
      assert (Hn : Marker.atom_eval e (untok PFVn c) = Marker.vatom e (untok PFVn c)) by (unfold Marker.atom_eval; rewrite VLu; reflexivity).
      cbn [Marker.meval]. rewrite Hn. destruct G as [G _].
      destruct (G (untok PFVn c) c VLu (tok_untok _ c)) as [_ Eu]. rewrite Eu, untok_name, Ev2, Eb, Ea. exact (Sound X Y Z).
  Qed.

  Theorem vmerge_link2_sound k a b r : vmerge_link2 k a b = Some r ->
    MarkerSingle.wf r = true /\ forall e, good_env_pv e -> Marker.meval e r = MarkerSingle.bop k (Marker.atom_eval e a) (Marker.atom_eval e b).
  Proof.
    assert (Bop : forall x y, MarkerSingle.bop k x y = bopb k x y) by (intros; destruct k; reflexivity).
    unfold vmerge_link2. intros H.
    destruct (str_eqb_spec (Marker.a_name a) PVn) as [Na|Na]; cbn [andb] in H.
    - destruct (str_eqb_spec (Marker.a_name b) PFVn) as [Nb|Nb].
      + destruct (pair_merge_sound k a b r Na Nb H) as [W S]. split; [exact W|]. intros e G. rewrite Bop. exact (S e G).
      + destruct (str_eqb_spec (Marker.a_name a) PFVn) as [Na'|_]; cbn [andb] in H.
        * rewrite Na in Na'. discriminate Na'.
        * destruct (vmerge_link_sound tok untok vn ver untok_name tok_untok k a b r H) as [W S]. split; [exact W|]. intros e [G _]. exact (S e G).
    - destruct (str_eqb_spec (Marker.a_name a) PFVn) as [Na'|Na']; cbn [andb] in H.
      + destruct (str_eqb_spec (Marker.a_name b) PVn) as [Nb|Nb].
        * destruct (pair_merge_sound k b a r Nb Na' H) as [W S]. split; [exact W|]. intros e G. rewrite Bop, (S e G). destruct k; cbn; [apply andb_comm | apply orb_comm].
        * destruct (vmerge_link_sound tok untok vn ver untok_name tok_untok k a b r H) as [W S]. split; [exact W|]. intros e [G _]. exact (S e G).
      + destruct (vmerge_link_sound tok untok vn ver untok_name tok_untok k a b r H) as [W S]. split; [exact W|]. intros e [G _]. exact (S e G).
  Qed.

  Section Ops2.
    Variable vcontains : Marker.atom -> str -> bool.
    Variable perm : list Marker.marker -> list Marker.marker.
    Hypothesis perm_perm : forall l, Permutation (perm l) l.
    Theorem linked2_sound fuel : MarkerSound.P vmerge_link2 vcontains perm good_env_pv fuel.
    Proof. exact (MarkerSound.all_sound vmerge_link2 vcontains perm good_env_pv vmerge_link2_sound perm_perm fuel). Qed.
  End Ops2.
End LinkPair.

(* ---- the hypotheses are satisfiable: an instance with an injective serialisation of clauses as the "text" of the operand ----
   (packaging's real tokeniser is not modelled; any tok/untok pair with tok (untok n c) = Some c will do) *)
Definition opc (o : sop) : N :=
  match o with OpGe => 0 | OpGt => 1 | OpLe => 2 | OpLt => 3 | OpEq => 4 | OpNe => 5 | OpCompat => 6 | OpEqStar => 7 | OpNeStar => 8 end%N.
Definition opd (n : N) : option sop :=
  match n with
  | 0 => Some OpGe | 1 => Some OpGt | 2 => Some OpLe | 3 => Some OpLt | 4 => Some OpEq | 5 => Some OpNe | 6 => Some OpCompat
  | 7 => Some OpEqStar | 8 => Some OpNeStar | _ => None
  end%N.
Definition enc_opt (o : option N) : N := match o with None => 0%N | Some n => N.succ n end.
Definition dec_opt (n : N) : option N := if (n =? 0)%N then None else Some (N.pred n).
Definition enc_pre (p : option (prekind * N)) : list N :=
  match p with None => [0; 0] | Some (PA, n) => [1; n] | Some (PB, n) => [2; n] | Some (PRC, n) => [3; n] end%N.
Definition dec_pre (k n : N) : option (option (prekind * N)) :=
  match k with 0 => Some None | 1 => Some (Some (PA, n)) | 2 => Some (Some (PB, n)) | 3 => Some (Some (PRC, n)) | _ => None end%N.
Definition enc_clause (c : clause) : str :=
  let v := c_ver c in
  opc (c_op c) :: epoch v :: N.of_nat (List.length (release v)) :: release v ++ enc_pre (pre v) ++ [enc_opt (post v); enc_opt (dev v)].
Definition dec_clause (l : str) : option clause :=
  match l with
  | o :: e :: n :: rest =>
      let k := N.to_nat n in
      match opd o, skipn k rest with
      | Some op, [pc; pn; qc; dc] =>
          match dec_pre pc pn with
          | Some p => Some (mkClause op (mkVer e (firstn k rest) p (dec_opt qc) (dec_opt dc)))
          | None => None
          end
      | _, _ => None
      end
  | _ => None
  end.
Lemma dec_opt_enc o : dec_opt (enc_opt o) = o.
Proof.
  destruct o as [n|]; [|reflexivity]. unfold dec_opt, enc_opt.
  destruct (N.eqb_spec (N.succ n) 0) as [E|_]; [destruct n; discriminate E|]. rewrite N.pred_succ. reflexivity.
Qed.
Lemma dec_enc_clause c : dec_clause (enc_clause c) = Some c.
Proof.
  destruct c as [op [e rel p po d]]. unfold enc_clause, dec_clause. cbn [c_op c_ver epoch release pre post dev].
  rewrite Nnat.Nat2N.id.
  assert (Eo : opd (opc op) = Some op) by (destruct op; reflexivity). rewrite Eo.
  rewrite skipn_app, skipn_all, PeanoNat.Nat.sub_diag. cbn [skipn app].
  rewrite firstn_app, firstn_all, PeanoNat.Nat.sub_diag. cbn [firstn]. rewrite app_nil_r.
  destruct p as [[[| |] n]|]; cbn [enc_pre app dec_pre]; rewrite !dec_opt_enc; reflexivity.
Qed.

Definition tok0 (a : Marker.atom) : option clause := dec_clause (Marker.a_value a).
Definition untok0 (n : str) (c : clause) : Marker.atom := Marker.mkAtom n Marker.MArb (enc_clause c) false.
Definition vn0 (n : str) : vname := if str_eqb n (of_string "python_full_version") then PFV else if str_eqb n (of_string "python_version") then PV else PRel.
Lemma untok0_name n c : Marker.a_name (untok0 n c) = n. Proof. reflexivity. Qed.
Lemma tok0_untok0 n c : tok0 (untok0 n c) = Some c. Proof. exact (dec_enc_clause c). Qed.

(* python_full_version >= 3.8  and  python_full_version >= 3.9 : the oracle merges them into the second atom; the two operands of a
   good environment are decided by clause_sem, so the theorem applies non-vacuously *)
Definition pfv_ge (l : list N) : Marker.atom := untok0 (of_string "python_full_version") (mkClause OpGe (relver 0 l)).
Example link_runs :
  vmerge_link tok0 untok0 vn0 true (pfv_ge [3; 8]%N) (pfv_ge [3; 9]%N) = Some (Marker.MAtom (pfv_ge [3; 9]%N))
  /\ vmerge_link tok0 untok0 vn0 false (pfv_ge [3; 8]%N) (pfv_ge [3; 9]%N) = Some (Marker.MAtom (pfv_ge [3; 8]%N))
  /\ exists a, vmerge_link tok0 untok0 vn0 true (untok0 (of_string "python_full_version") (mkClause OpGe (relver 0 [3; 8]%N)))
                 (untok0 (of_string "python_full_version") (mkClause OpLt (relver 0 [3; 8; 0]%N))) = Some a /\ a = Marker.MEmpty.
Proof. split; [vm_compute; reflexivity|]. split; [vm_compute; reflexivity|]. eexists. split; vm_compute; reflexivity. Qed.

(* an environment of the class: every version-valued variable is 3.9.1, version atoms decided by clause_sem *)
Definition env0 : Marker.menv :=
  Marker.mkMEnv (fun _ => []) [] (fun a => match tok0 a with Some c => clause_sem c (relver 0 [3; 9; 1]%N) | None => false end).
Example env0_good : good_env tok0 (fun _ _ => relver 0 [3; 9; 1]%N) env0.
Proof.
  intros a c _ T. split; [apply final_relver|]. unfold env0. cbn [Marker.vatom]. rewrite T. reflexivity.
Qed.

(* python_version > 3.7  and  python_full_version >= 3.8.5  merge to  python_full_version >= 3.8.5 (a new atom);
   python_version >= 3.8 or python_full_version >= 3.8.5 is the python_version atom *)
Definition pv_atom (o : sop) (l : list N) : Marker.atom := untok0 (of_string "python_version") (mkClause o (relver 0 l)).
Definition pfv_atom (o : sop) (l : list N) : Marker.atom := untok0 (of_string "python_full_version") (mkClause o (relver 0 l)).
Example link2_runs :
  vmerge_link2 tok0 untok0 vn0 true (pv_atom OpGt [3; 7]%N) (pfv_atom OpGe [3; 8; 5]%N) = Some (Marker.MAtom (pfv_atom OpGe [3; 8; 5]%N))
  /\ vmerge_link2 tok0 untok0 vn0 false (pfv_atom OpGe [3; 8; 5]%N) (pv_atom OpGe [3; 8]%N) = Some (Marker.MAtom (pv_atom OpGe [3; 8]%N))
  /\ vmerge_link2 tok0 untok0 vn0 true (pv_atom OpLt [3; 8]%N) (pfv_atom OpGe [3; 8; 5]%N) = Some Marker.MEmpty.
Proof. split; [vm_compute; reflexivity|]. split; vm_compute; reflexivity. Qed.
Example env0_good_pv : good_env_pv tok0 (fun _ n => if str_eqb n (of_string "python_version") then pvv 3 9 else pfv 3 9 1)
  (Marker.mkMEnv (fun _ => []) [] (fun a => match tok0 a with Some c => clause_sem c (if str_eqb (Marker.a_name a) (of_string "python_version") then pvv 3 9 else pfv 3 9 1) | None => false end)).
Proof.
  split.
  - intros a c _ T. split; [destruct (str_eqb _ _); apply final_relver|]. cbn [Marker.vatom]. rewrite T. reflexivity.
  - exists 3%N, 9%N, 1%N. split; reflexivity.
Qed.
