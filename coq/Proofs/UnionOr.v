(* UnionOr.v — UnionSpecifier.__or__ (generated merge loop with for/else/break and
   the fold over the other union) is exact on cuts and returns canonical values;
   likewise the `|` dispatcher with a RangeSpecifier right operand. *)
From Coq Require Import List Bool Orders OrdersFacts Lia.
From Verif Require Import PyRes Order Cuts Str SpecTypes GenSpec SpecSem RangeBridge RangeOr UnionBase.
Import ListNotations.

Module UnionOr (V : OrderedTypeFull').
  Module UB := UnionBase V.
  Export UB.
  Module RO := RangeOr V.

  (* RangeOr was instantiated separately; its statement is about convertible terms *)
  Lemma range_or_spec' a b :
    okr a -> okr b ->
    (exists r, range_or a (SRange b) = Ret (SRange r) /\ okr r
               /\ forall c, memr c r = memr c a || memr c b)
    \/ (range_or a (SRange b) = Ret (SUnion (mk_union [a; b] None)) /\ CO.lt (ub a) (lb b))
    \/ (range_or a (SRange b) = Ret (SUnion (mk_union [b; a] None)) /\ CO.lt (ub b) (lb a)).
  Proof. exact (RO.range_or_spec a b). Qed.

  Lemma bool3 (a b c d : bool) : a || (b || c) || d = a || c || (d || b).
  Proof. destruct a, b, c, d; reflexivity. Qed.

  Lemma loop_spec self xs : forall other acc,
    chain None acc -> okr other -> chain (hi None acc) xs -> above (hi None acc) (lb other) ->
    exists s, union_or_range_loop1 self xs other acc = Ret s /\ canon s
              /\ forall c, mem c s = mems c acc || mems c xs || memr c other.
  Proof.
    induction xs as [|x rest IH]; intros other acc Hacc Hoth Hxs Hab.
    - cbn [union_or_range_loop1].
      destruct (from_ranges_spec (acc ++ [other])) as (s & E & Cs & Ms).
      { apply chain_app. split; [exact Hacc|]. apply chain_cons. repeat split; try apply Hoth; exact Hab. }
      exists s. split; [exact E|]. split; [exact Cs|].
      intros c. rewrite Ms, mems_app. cbn. rewrite !orb_false_r. reflexivity.
    - cbn [union_or_range_loop1].
      apply chain_cons in Hxs as (Hax & Hox & Hrest).
      pose proof Hox as [Nx Wx]. pose proof Hoth as [No Wo]. unfold ne in Nx, No.
      rewrite can_combine_spec, allows_lower_spec. unfold pif, bind.
      match goal with |- context [if ?b then _ else _] => destruct b eqn:CC end.
      + (* combinable: other := other | x *)
        destruct (range_or_spec' other x Hoth Hox) as [(r & E & Or & Mr) | [[E Hlt] | [E Hlt]]].
        * rewrite E. cbn [as_range bind].
          destruct (IH r acc Hacc Or) as (s & Es & Cs & Ms).
          { eapply chain_weaken; [|exact Hrest].
            destruct (hi None acc); cbn [lo_le above] in *; [corder|exact I]. }
          { (* lb r is a member of r, hence of other or of x *)
            pose proof (memr_lb r (proj1 Or)) as Hm. rewrite Mr in Hm.
            apply orb_true_iff in Hm as [Hm|Hm]; apply memr_true in Hm as [Hm1 Hm2];
              destruct (hi None acc); cbn [above] in *; trivial; corder. }
          exists s. split; [exact Es|]. split; [exact Cs|].
          intros c. rewrite Ms, Mr, mems_cons.
          destruct (mems c acc), (mems c rest), (memr c other), (memr c x); reflexivity.
        * exfalso. revert CC. cbool; cbn; try discriminate; intros _; corder.
        * exfalso. revert CC. cbool; cbn; try discriminate; intros _; corder.
      + match goal with |- context [if ?b then _ else _] => destruct b eqn:AL end.
        * (* other is strictly lower than x and everything after it *)
          apply cltb_iff in AL.
          destruct (from_ranges_spec (acc ++ other :: x :: rest)) as (s & E & Cs & Ms).
          { apply chain_app. split; [exact Hacc|]. apply chain_cons. split; [exact Hab|]. split; [exact Hoth|].
            apply chain_cons. split; [|split; [exact Hox | exact Hrest]].
            cbn [above]. revert CC. cbool; cbn; try discriminate; intros _; corder. }
          exists s. split; [exact E|]. split; [exact Cs|].
          intros c. rewrite Ms, mems_app, !mems_cons.
          destruct (mems c acc), (memr c other), (memr c x), (mems c rest); reflexivity.
        * (* x is strictly lower than other: keep it *)
          assert (Hn : ~ CO.lt (lb other) (lb x)) by (rewrite <- cltb_iff; congruence).
          assert (Hgap : CO.lt (ub x) (lb other)).
          { revert CC. cbool; cbn; try discriminate; intros _; corder. }
          destruct (IH other (acc ++ [x])) as (s & Es & Cs & Ms).
          { apply chain_app. split; [exact Hacc|]. apply chain_cons. repeat split; try apply Hox; exact Hax. }
          { exact Hoth. }
          { rewrite hi_app. cbn [hi]. exact Hrest. }
          { rewrite hi_app. cbn [hi above]. exact Hgap. }
          exists s. split; [exact Es|]. split; [exact Cs|].
          intros c. rewrite Ms, mems_app, !mems_cons. cbn [mems existsb].
          destruct (mems c acc), (memr c other), (memr c x), (mems c rest); reflexivity.
  Qed.

  Lemma mems_lt_posinf c l : chain None l -> mems c l = true -> CO.lt c PosInf.
  Proof.
    intros _. induction l as [|r l IH]; [discriminate|].
    rewrite mems_cons, orb_true_iff. intros [H|H]; [|auto].
    apply memr_true in H as [_ H]. pose proof (le_posinf (ub r)). corder.
  Qed.

  Theorem union_or_range_spec u r :
    canon (SUnion u) -> okr r ->
    exists s, union_or_range u r = Ret s /\ canon s
              /\ forall c, mem c s = mems c (uranges u) || memr c r.
  Proof.
    intros [Hlen Hc] Hr. unfold union_or_range.
    rewrite is_any_spec by apply Hr. unfold pif, bind.
    destruct (ceqb (lb r) NegInf && ceqb (ub r) PosInf) eqn:E.
    - exists (SRange r). split; [reflexivity|]. split; [exact Hr|].
      intros c. cbn [mem].
      destruct (mems c (uranges u)) eqn:M; [|reflexivity]. cbn.
      apply mems_lt_posinf in M; [|exact Hc].
      apply andb_prop in E as [E1 E2]. apply ceqb_iff in E1, E2.
      apply memr_true. pose proof (neginf_le c). split; corder.
    - destruct (loop_spec u (uranges u) r []) as (s & Es & Cs & Ms); cbn; auto.
      exists s. split; [exact Es|]. split; [exact Cs|]. intros c. rewrite Ms. reflexivity.
  Qed.

  Lemma union_or_range_eq u r : union_or u (SRange r) = union_or_range u r.
  Proof. reflexivity. Qed.

  Lemma canon_pair a b : okr a -> okr b -> CO.lt (ub a) (lb b) -> canon (SUnion (mk_union [a; b] None)).
  Proof.
    intros Ha Hb Hlt. split; [cbn; lia|]. change (chain None [a; b]).
    apply chain_cons. split; [exact I|]. split; [exact Ha|].
    apply chain_cons. split; [exact Hlt|]. split; [exact Hb|exact I].
  Qed.

  (* a | r for every canonical left operand and a range on the right *)
  Theorem spec_or_range_spec a r :
    canon a -> okr r ->
    exists s, spec_or_range a r = Ret s /\ canon s /\ forall c, mem c s = mem c a || memr c r.
  Proof.
    intros Ca Hr. destruct a as [| |x|u|t|g]; try contradiction.
    - exists (SRange r). split; [reflexivity|]. split; [exact Hr|]. intros c; reflexivity.
    - exists SAny. split; [reflexivity|]. split; [exact I|]. intros c; reflexivity.
    - cbn in Ca. unfold spec_or_range, spec_or_gen, dispatch.
      destruct (range_or_spec' x r Ca Hr) as [(q & E & Oq & Mq) | [[E Hlt] | [E Hlt]]]; rewrite E.
      + exists (SRange q). split; [reflexivity|]. split; [exact Oq|]. exact Mq.
      + eexists. split; [reflexivity|]. split.
        * apply canon_pair; assumption.
        * intros c. cbn. rewrite orb_false_r. reflexivity.
      + eexists. split; [reflexivity|]. split.
        * apply canon_pair; assumption.
        * intros c. cbn. rewrite orb_false_r. apply orb_comm.
    - unfold spec_or_range, spec_or_gen, dispatch.
      destruct (union_or_range_spec u r Ca Hr) as (s & E & Cs & Ms). rewrite E.
      exists s. auto.
  Qed.

  Lemma fold_spec self other xs : forall result,
    canon result -> Forall okr xs ->
    exists s, union_or_loop1 self other xs result = Ret s /\ canon s
              /\ forall c, mem c s = mem c result || mems c xs.
  Proof.
    induction xs as [|x rest IH]; intros result Cr Hx.
    - exists result. cbn. split; [reflexivity|]. split; [exact Cr|]. intros; rewrite orb_false_r; reflexivity.
    - inversion Hx as [|? ? Hx1 Hx2]; subst. cbn [union_or_loop1].
      destruct (spec_or_range_spec result x Cr Hx1) as (s1 & E1 & C1 & M1). rewrite E1. cbn [bind].
      destruct (IH s1 C1 Hx2) as (s & E & Cs & Ms).
      exists s. split; [exact E|]. split; [exact Cs|].
      intros c. rewrite Ms, M1, mems_cons. rewrite orb_assoc. reflexivity.
  Qed.

  Lemma chain_Forall_okr lo l : chain lo l -> Forall okr l.
  Proof.
    revert lo; induction l as [|r l IH]; intros lo H; constructor.
    - apply chain_cons in H. apply H.
    - apply chain_cons in H. eapply IH. apply H.
  Qed.

  Theorem union_or_spec u b :
    canon (SUnion u) -> canon b -> (exists r, b = SRange r) \/ (exists u', b = SUnion u') ->
    exists s, union_or u b = Ret s /\ canon s /\ forall c, mem c s = mems c (uranges u) || mem c b.
  Proof.
    intros Cu Cb [[r ->] | [u' ->]].
    - rewrite union_or_range_eq. apply union_or_range_spec; assumption.
    - unfold union_or.
      destruct (fold_spec u u' (uranges u') (SUnion u) Cu) as (s & E & Cs & Ms).
      { eapply chain_Forall_okr. apply Cb. }
      exists s. split; [exact E|]. split; [exact Cs|]. exact Ms.
  Qed.
End UnionOr.
