(* SpecExpr.v — closure under the operators: every &,|,~ expression over canonical
   specifiers evaluates (with the generated operators) without raising to a canonical
   value whose members are the Boolean combination of the leaves' members; and two
   expressions that are equal as Boolean functions evaluate to `==`-equal objects. *)
From Coq Require Import List Bool Orders OrdersFacts Lia.
From Verif Require Import PyRes Order Cuts Str SpecTypes GenSpec SpecSem RangeBridge UnionBase SpecOps SpecEq.
Import ListNotations.

Inductive sexpr := SVar (n : nat) | SAnd (a b : sexpr) | SOr (a b : sexpr) | SNot (a : sexpr).

Fixpoint bdenote (env : nat -> bool) (e : sexpr) : bool :=
  match e with
  | SVar n => env n
  | SAnd a b => bdenote env a && bdenote env b
  | SOr a b => bdenote env a || bdenote env b
  | SNot a => negb (bdenote env a)
  end.

Module SpecExpr (V : OrderedTypeFull').
  Module SO := SpecOps V.
  Export SO.
  Module SE := SpecEq V.

  Fixpoint eval (env : nat -> spec) (e : sexpr) : pyres spec :=
    match e with
    | SVar n => Ret (env n)
    | SAnd a b => x <- eval env a ;; y <- eval env b ;; spec_and x y
    | SOr a b => x <- eval env a ;; y <- eval env b ;; spec_or x y
    | SNot a => x <- eval env a ;; spec_invert x
    end.

  Theorem eval_spec env e :
    (forall n, canon (env n)) ->
    exists r, eval env e = Ret r /\ canon r
              /\ forall c, SE.pos c -> mem c r = bdenote (fun n => mem c (env n)) e.
  Proof.
    intros Henv. induction e as [n|a IHa b IHb|a IHa b IHb|a IHa]; cbn [eval bdenote].
    - exists (env n). split; [reflexivity|]. split; [apply Henv|]. reflexivity.
    - destruct IHa as (x & Ex & Cx & Mx), IHb as (y & Ey & Cy & My). rewrite Ex, Ey. cbn [bind].
      destruct (spec_and_spec x y Cx Cy) as (r & Er & Cr & Mr).
      exists r. split; [exact Er|]. split; [exact Cr|]. intros c P. rewrite Mr, Mx, My by exact P. reflexivity.
    - destruct IHa as (x & Ex & Cx & Mx), IHb as (y & Ey & Cy & My). rewrite Ex, Ey. cbn [bind].
      destruct (spec_or_spec x y Cx Cy) as (r & Er & Cr & Mr).
      exists r. split; [exact Er|]. split; [exact Cr|]. intros c P. rewrite Mr, Mx, My by exact P. reflexivity.
    - destruct IHa as (x & Ex & Cx & Mx). rewrite Ex. cbn [bind].
      destruct (spec_invert_spec x Cx) as (r & Er & Cr & Mr).
      exists r. split; [exact Er|]. split; [exact Cr|]. intros c P. rewrite Mr, Mx by exact P. reflexivity.
  Qed.

  (* generated `==` on two convertible instantiations *)
  Lemma spec_eq_spec' a b :
    canon a -> canon b -> exists r, spec_eq a b = Ret r /\ (r = true <-> SE.sem_eq a b).
  Proof. exact (SE.spec_eq_spec a b). Qed.

  (* a Boolean identity between two expressions becomes `==` on the returned objects *)
  Theorem law env lhs rhs :
    (forall n, canon (env n)) ->
    (forall benv, bdenote benv lhs = bdenote benv rhs) ->
    exists x y, eval env lhs = Ret x /\ eval env rhs = Ret y /\ canon x /\ canon y /\ spec_eq x y = Ret true.
  Proof.
    intros Henv Hb.
    destruct (eval_spec env lhs Henv) as (x & Ex & Cx & Mx).
    destruct (eval_spec env rhs Henv) as (y & Ey & Cy & My).
    exists x, y. repeat (split; [assumption|]).
    destruct (spec_eq_spec' x y Cx Cy) as (r & Er & Hr).
    rewrite Er. f_equal. apply Hr. intros c P. rewrite Mx, My by exact P. apply Hb.
  Qed.
End SpecExpr.
