(* RangeInv.v — RangeSpecifier.__invert__ (generated) is the exact complement *)
From Coq Require Import List Bool Orders OrdersFacts.
From Verif Require Import PyRes Order Cuts Str SpecTypes GenSpec SpecSem RangeBridge.
Import ListNotations.

Module RangeInv (V : OrderedTypeFull').
  Module RB := RangeBridge V.
  Export RB.

  (* ~range: the complement, as Empty, one range or a two-element union *)
  Lemma inv_lo_ub x im s : ub (mkRangeRaw (A:=V.t) None (Some x) false (negb im) s) = C x (if im then Bef else Aft).
  Proof. destruct im; reflexivity. Qed.
  Lemma inv_hi_lb x iM s : lb (mkRangeRaw (A:=V.t) (Some x) None (negb iM) false s) = C x (if iM then Aft else Bef).
  Proof. destruct iM; reflexivity. Qed.
  Lemma lb_raw m M im iM s :
    lb (mkRangeRaw (A:=V.t) m M im iM s) = match m with None => NegInf | Some v => C v (if im then Bef else Aft) end.
  Proof. reflexivity. Qed.
  Lemma ub_raw m M im iM s :
    ub (mkRangeRaw (A:=V.t) m M im iM s) = match M with None => PosInf | Some v => C v (if iM then Aft else Bef) end.
  Proof. reflexivity. Qed.
  Lemma if_negb_side (b : bool) : (if negb b then Aft else Bef) = (if b then Bef else Aft).
  Proof. destruct b; reflexivity. Qed.
  Lemma if_negb_side' (b : bool) : (if negb b then Bef else Aft) = (if b then Aft else Bef).
  Proof. destruct b; reflexivity. Qed.

  Ltac inf_cases c :=
    pose proof (neginf_le c); pose proof (le_posinf c);
    destruct c as [|? ?|];
    repeat match goal with
           | |- context [C ?v ?sd] =>
               lazymatch goal with
               | _ : CO.lt (NegInf : cut) (C v sd) |- _ => fail
               | _ => pose proof (neginf_lt v sd); pose proof (lt_posinf v sd)
               end
           end;
    cbool; try reflexivity; exfalso;
    try corder; try (eapply not_lt_neginf; eassumption); try (eapply not_posinf_lt; eassumption).

  Theorem range_invert_spec a :
    okr a ->
    exists s, range_invert a = Ret s /\ canon s /\ forall c, CO.lt c PosInf -> mem c s = negb (memr c a).
  Proof.
    intros [Na [W1 W2]]. unfold ne in Na.
    destruct a as [[x|] [x'|] im iM sa]; unfold range_invert; cbn -[mk_range] in *.
    - rewrite !mk_range_ok by (split; cbn; congruence). cbn -[lb ub].
      eexists. split; [reflexivity|].
      split.
      + cbn -[lb ub]. split; [auto|]. unfold canon_list, chain, okr, ne, wfr.
        rewrite !lb_raw, !ub_raw, if_negb_side, if_negb_side'.
        split; [exact I|]. split; [split; [apply neginf_lt | split; cbn; congruence]|].
        split; [exact Na|]. split; [|exact I]. split; [apply lt_posinf | split; cbn; congruence].
      + intros c Hc. cbn -[lb ub memr]. rewrite orb_false_r. unfold memr.
        rewrite !lb_raw, !ub_raw, if_negb_side, if_negb_side'.
        inf_cases c.
    - rewrite (W2 eq_refl). rewrite !mk_range_ok by (split; cbn; congruence). cbn -[lb ub].
      eexists. split; [reflexivity|].
      split.
      + cbn -[lb ub]. unfold okr, ne, wfr. rewrite !lb_raw, !ub_raw.
        split; [apply neginf_lt | split; cbn; congruence].
      + intros c Hc. cbn -[lb ub memr]. unfold memr. rewrite !lb_raw, !ub_raw, if_negb_side.
        inf_cases c.
    - rewrite (W1 eq_refl). rewrite !mk_range_ok by (split; cbn; congruence). cbn -[lb ub].
      eexists. split; [reflexivity|].
      split.
      + cbn -[lb ub]. unfold okr, ne, wfr. rewrite !lb_raw, !ub_raw.
        split; [apply lt_posinf | split; cbn; congruence].
      + intros c Hc. cbn -[lb ub memr]. unfold memr. rewrite !lb_raw, !ub_raw, if_negb_side'.
        inf_cases c.
    - eexists. split; [reflexivity|]. split; [exact I|].
      intros c Hc. cbn. unfold memr, lb, ub; cbn. destruct c; try reflexivity. exfalso. apply CO.lt_iff in Hc. discriminate.
  Qed.
End RangeInv.
