(* UnionBase.v — list-level facts about chains of ranges (ascending, disjoint,
   non-touching) and UnionSpecifier._from_ranges (generated). *)
From Coq Require Import List Bool Orders OrdersFacts Lia.
From Verif Require Import PyRes Order Cuts Str SpecTypes GenSpec SpecSem RangeBridge.
Import ListNotations.

Module UnionBase (V : OrderedTypeFull').
  Module RB := RangeBridge V.
  Export RB.

  (* upper end of a chain: ub of the last element, or the given lower limit *)
  Fixpoint hi (lo : option cut) (l : list range) : option cut :=
    match l with
    | [] => lo
    | r :: rest => hi (Some (ub r)) rest
    end.

  Definition above (lo : option cut) (c : cut) : Prop :=
    match lo with None => True | Some x => CO.lt x c end.
  Definition lo_le (lo lo' : option cut) : Prop :=
    match lo, lo' with
    | None, _ => True
    | Some _, None => False
    | Some x, Some y => CO.le x y
    end.

  Lemma chain_cons lo r rest : chain lo (r :: rest) <-> above lo (lb r) /\ okr r /\ chain (Some (ub r)) rest.
  Proof. reflexivity. Qed.

  Lemma above_weaken lo lo' c : lo_le lo lo' -> above lo' c -> above lo c.
  Proof. destruct lo, lo'; cbn; intros; try tauto. corder. Qed.

  Lemma chain_weaken lo lo' l : lo_le lo lo' -> chain lo' l -> chain lo l.
  Proof.
    destruct l as [|r rest]; [trivial|]. rewrite !chain_cons. intros H [H1 H2].
    split; [eapply above_weaken; eauto | exact H2].
  Qed.

  Lemma chain_app lo l1 l2 : chain lo (l1 ++ l2) <-> chain lo l1 /\ chain (hi lo l1) l2.
  Proof.
    revert lo; induction l1 as [|r l1 IH]; intros lo; cbn [app hi].
    - cbn. tauto.
    - rewrite !chain_cons, IH. tauto.
  Qed.

  Lemma hi_app lo l1 l2 : hi lo (l1 ++ l2) = hi (hi lo l1) l2.
  Proof. revert lo; induction l1; intros; cbn; auto. Qed.

  Lemma mems_app c l1 l2 : mems c (l1 ++ l2) = mems c l1 || mems c l2.
  Proof. unfold mems. apply existsb_app. Qed.

  Lemma mems_cons c r l : mems c (r :: l) = memr c r || mems c l.
  Proof. reflexivity. Qed.

  Lemma memr_true c r : memr c r = true <-> CO.le (lb r) c /\ CO.lt c (ub r).
  Proof. unfold memr. rewrite andb_true_iff, cleb_iff, cltb_iff. tauto. Qed.

  Lemma memr_lb r : ne r -> memr (lb r) r = true.
  Proof. intros H. apply memr_true. split; [corder | exact H]. Qed.

  (* every member of a chain above lo lies above lo *)
  Lemma chain_mems_above lo l c : chain lo l -> mems c l = true -> above lo c.
  Proof.
    revert lo; induction l as [|r l IH]; intros lo; [discriminate|].
    rewrite chain_cons, mems_cons, orb_true_iff. intros (Ha & [Hn _] & Hc) [H|H].
    - apply memr_true in H as [H1 H2]. destruct lo; cbn [above] in *; [corder|trivial].
    - specialize (IH _ Hc H). cbn [above] in IH. unfold ne in Hn. destruct lo; cbn [above] in *; [corder|trivial].
  Qed.

  (* hi only ever moves up along a chain *)
  Lemma hi_ge lo l : chain lo l -> lo_le lo (hi lo l).
  Proof.
    revert lo; induction l as [|r l IH]; intros lo H; cbn.
    - destruct lo; cbn [lo_le]; [corder|trivial].
    - apply chain_cons in H as (Ha & [Hn _] & Hc). specialize (IH _ Hc).
      destruct lo as [x|]; [|exact I]. cbn [above] in *. unfold ne in Hn.
      destruct (hi (Some (ub r)) l); cbn [lo_le] in *; [corder|contradiction].
  Qed.

  Theorem from_ranges_spec l :
    canon_list l ->
    exists s, union_from_ranges l = Ret s /\ canon s /\ forall c, mem c s = mems c l.
  Proof.
    intros H. unfold union_from_ranges.
    destruct l as [|r [|r' l]]; cbn -[mems].
    - exists SEmpty. repeat split.
    - exists (SRange r). split; [reflexivity|]. split.
      + apply chain_cons in H. apply H.
      + intros c. cbn. rewrite orb_false_r. reflexivity.
    - eexists. split; [reflexivity|]. split.
      + cbn. split; [lia | exact H].
      + intros c. reflexivity.
  Qed.
End UnionBase.
