(* Proofs/MarkerNodup.v — the value list of every grouped ==/!= atom holds no value twice (what OrderedSet's constructor
   establishes), carried through the normaliser: instance of the hereditary invariant of Proofs/MarkerInv.v with the
   leaf condition gv := nodupb.  This discharges the side condition nodup_vals of the hash theorem (Props/C13h.v) for
   the results of &, |, MultiMarker.of and MarkerUnion.of on operands that satisfy it (atoms do trivially). *)
From Coq Require Import List Bool NArith Arith Lia Permutation.
From Verif Require Import PyRes Str Marker MarkerBase MarkerHash MarkerOpen MarkerInv.
Import ListNotations.

Definition tT (_ : str) : bool := true.
Definition cT (_ : list marker) : bool := true.

Lemma mem_str_snoc y t x : mem_str y (t ++ [x]) = mem_str y t || str_eqb y x.
Proof. induction t as [|z t IH]; cbn [app mem_str]; [rewrite orb_false_r; reflexivity|]. rewrite IH, orb_assoc. reflexivity. Qed.

Lemma nodupb_snoc acc x : nodupb acc = true -> mem_str x acc = false -> nodupb (acc ++ [x]) = true.
Proof.
  induction acc as [|y t IH]; cbn [app nodupb mem_str]; intros N M; [reflexivity|].
  apply andb_prop in N as [N1 N2]. apply orb_false_elim in M as [M1 M2].
  rewrite (IH N2 M2), mem_str_snoc, andb_true_r. apply negb_true_iff in N1. rewrite N1. cbn [orb].
  destruct (str_eqb_spec y x) as [->|]; [rewrite str_eqb_refl in M1; discriminate | reflexivity].
Qed.

Lemma dedup_nodupb l : forall acc, nodupb acc = true -> nodupb (dedup l acc) = true.
Proof.
  induction l as [|x l IH]; intros acc N; cbn [dedup]; [exact N|].
  destruct (mem_str x acc) eqn:M; [exact (IH acc N) | exact (IH _ (nodupb_snoc acc x N M))].
Qed.
Lemma oset_nodupb l : nodupb (oset l) = true.
Proof. exact (dedup_nodupb l [] eq_refl). Qed.

Lemma W_nodup : forall m, W tT cT cT nodupb m = nodup_vals m.
Proof.
  (* the two fixpoints are convertible: their bodies agree up to reduction of the trivial conjuncts *)
  intros m. reflexivity.
Qed.
Lemma W_nodup_list l : forallb (W tT cT cT nodupb) l = forallb nodup_vals l.
Proof. induction l as [|x t IH]; [reflexivity|]. cbn [forallb]. rewrite W_nodup, IH. reflexivity. Qed.

Section NodupOps.
  Variable vmerge : bool -> atom -> atom -> option marker.
  Variable vcontains : atom -> str -> bool.
  Variable perm : list marker -> list marker.
  (* a merged version atom is an atom, Any or Empty in the code (checked on every row: vmerge_leaf); all that is needed here *)
  Hypothesis vmerge_nodup : forall k a b r, vmerge k a b = Some r -> nodup_vals r = true.
  Hypothesis perm_perm : forall l, Permutation (perm l) l.

  Lemma vmerge_W k a b r : vmerge k a b = Some r -> tT (a_name a) = true -> tT (a_name b) = true -> W tT cT cT nodupb r = true.
  Proof. intros E _ _. rewrite W_nodup. exact (vmerge_nodup k a b r E). Qed.

  Lemma level_nodup n : inv_callees tT cT cT nodupb (level vmerge vcontains perm n).
  Proof. exact (level_inv tT cT cT nodupb (fun _ _ => eq_refl) (fun _ _ => eq_refl) oset_nodupb vmerge vcontains perm vmerge_W perm_perm n). Qed.

  Theorem mand_nodup fuel a b r : mand vmerge vcontains perm fuel a b = Ret r -> nodup_vals a = true -> nodup_vals b = true -> nodup_vals r = true.
  Proof. rewrite <- !W_nodup. destruct (level_nodup fuel) as (H & _). exact (H a b r). Qed.
  Theorem mor_nodup fuel a b r : mor vmerge vcontains perm fuel a b = Ret r -> nodup_vals a = true -> nodup_vals b = true -> nodup_vals r = true.
  Proof. rewrite <- !W_nodup. destruct (level_nodup fuel) as (_ & H & _). exact (H a b r). Qed.
  Theorem multi_of_nodup fuel l r : multi_of vmerge vcontains perm fuel l = Ret r -> forallb nodup_vals l = true -> nodup_vals r = true.
  Proof. rewrite <- W_nodup, <- W_nodup_list. destruct (level_nodup fuel) as (_ & _ & H & _). exact (H l r). Qed.
  Theorem union_of_nodup fuel l r : union_of vmerge vcontains perm fuel l = Ret r -> forallb nodup_vals l = true -> nodup_vals r = true.
  Proof. rewrite <- W_nodup, <- W_nodup_list. destruct (level_nodup fuel) as (_ & _ & _ & H & _). exact (H l r). Qed.

  (* only() / exclude(): leaves are copied or replaced by Any, compounds are rebuilt by of() *)
  Lemma mapM_nodup {A} (g : A -> pyres marker) (P : A -> Prop) l : (forall x r, P x -> g x = Ret r -> nodup_vals r = true) ->
    (forall x, In x l -> P x) -> forall rs, mapM g l = Ret rs -> forallb nodup_vals rs = true.
  Proof.
    intros Hg. induction l as [|x l IH]; intros Hp rs H; cbn [mapM] in H; [injection H as <-; reflexivity|].
    destruct (g x) as [y| |] eqn:E; try discriminate. cbn [bind] in H. destruct (mapM g l) as [ys| |] eqn:Es; try discriminate. cbn [bind] in H.
    injection H as <-. cbn [forallb]. rewrite (Hg x y (Hp x (or_introl eq_refl)) E), (IH (fun z Hz => Hp z (or_intror Hz)) ys eq_refl). reflexivity.
  Qed.
  Lemma nodup_children l : forallb nodup_vals l = true -> forall x, In x l -> nodup_vals x = true.
  Proof. intros H. apply forallb_forall. exact H. Qed.

  Theorem monly_nodup names fuel : forall m r, monly vmerge vcontains perm fuel names m = Ret r -> nodup_vals m = true -> nodup_vals r = true.
  Proof.
    induction fuel as [|f IH]; intros m r H N; [discriminate|]. cbn [monly] in H.
    assert (Leaf : forall s, (if mem_str (single_name s) names then Ret s else Ret MAny) = Ret r -> nodup_vals s = true -> nodup_vals r = true).
    { intros s E Ns. destruct (mem_str (single_name s) names); injection E as <-; [exact Ns | reflexivity]. }
    destruct m as [| |a|n vs|n vs|l|l]; try (injection H as <-; exact N); try exact (Leaf _ H N).
    - destruct (mapM (monly vmerge vcontains perm f names) l) as [ms| |] eqn:Em; try discriminate. cbn [bind] in H.
      apply (multi_of_nodup f ms r H). apply (mapM_nodup _ (fun x => nodup_vals x = true) l (fun x y Nx E => IH x y E Nx) (nodup_children l N) ms Em).
    - destruct (mapM (monly vmerge vcontains perm f names) l) as [ms| |] eqn:Em; try discriminate. cbn [bind] in H.
      apply (union_of_nodup f ms r H). apply (mapM_nodup _ (fun x => nodup_vals x = true) l (fun x y Nx E => IH x y E Nx) (nodup_children l N) ms Em).
  Qed.

  Lemma mapM_opt_nodup (g : marker -> pyres (option marker)) l : (forall x o, In x l -> g x = Ret (Some o) -> nodup_vals o = true) ->
    forall new, mapM g l = Ret new -> forallb nodup_vals (flat_map (fun o => match o with Some x => [x] | None => [] end) new) = true.
  Proof.
    induction l as [|x l IH]; intros Hg new H; cbn [mapM] in H; [injection H as <-; reflexivity|].
    destruct (g x) as [y| |] eqn:E; try discriminate. cbn [bind] in H. destruct (mapM g l) as [ys| |] eqn:Es; try discriminate. cbn [bind] in H.
    injection H as <-. cbn [flat_map]. rewrite forallb_app, (IH (fun z o Hz => Hg z o (or_intror Hz)) ys eq_refl), andb_true_r.
    destruct y as [o|]; [|reflexivity]. cbn [forallb]. rewrite (Hg x o (or_introl eq_refl) E). reflexivity.
  Qed.

  Theorem mexclude_nodup name fuel : forall m r, mexclude vmerge vcontains perm fuel name m = Ret r -> nodup_vals m = true -> nodup_vals r = true.
  Proof.
    induction fuel as [|f IH]; intros m r H N; [discriminate|]. cbn [mexclude] in H.
    assert (Leaf : forall s, (if str_eqb (single_name s) name then Ret MAny else Ret s) = Ret r -> nodup_vals s = true -> nodup_vals r = true).
    { intros s E Ns. destruct (str_eqb (single_name s) name); injection E as <-; [reflexivity | exact Ns]. }
    destruct m as [| |a|n vs|n vs|l|l]; try (injection H as <-; exact N); try exact (Leaf _ H N).
    - match type of H with (bind (mapM ?g l) _ = _) => destruct (mapM g l) as [new| |] eqn:Em; try discriminate; cbn [bind] in H;
        apply (multi_of_nodup f _ r H); apply (mapM_opt_nodup g l); [|exact Em] end.
      intros x o Hx E. cbn beta in E. destruct (is_single x && str_eqb (single_name x) name); [discriminate|].
      destruct (mexclude vmerge vcontains perm f name x) as [y| |] eqn:Ex; try discriminate. cbn [bind] in E.
      destruct (is_empty y); [discriminate|]. injection E as <-. exact (IH x y Ex (nodup_children l N x Hx)).
    - match type of H with (bind (mapM ?g l) _ = _) => destruct (mapM g l) as [new| |] eqn:Em; try discriminate; cbn [bind] in H;
        pose proof (mapM_opt_nodup g l) as K end.
      assert (Kn : forallb nodup_vals (flat_map (fun o => match o with Some x => [x] | None => [] end) new) = true).
      { apply K; [|exact Em]. intros x o Hx E. cbn beta in E. destruct (is_single x && str_eqb (single_name x) name); [discriminate|].
        destruct (mexclude vmerge vcontains perm f name x) as [y| |] eqn:Ex; try discriminate. cbn [bind] in E.
        injection E as <-. exact (IH x y Ex (nodup_children l N x Hx)). }
      destruct (flat_map (fun o => match o with Some x => [x] | None => [] end) new) as [|m0 ms] eqn:Ef; [injection H as <-; reflexivity|].
      exact (union_of_nodup f (m0 :: ms) r H Kn).
  Qed.
End NodupOps.
