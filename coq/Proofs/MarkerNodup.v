(* Proofs/MarkerNodup.v — the value list of every grouped ==/!= atom holds no value twice (what OrderedSet's constructor
   establishes), carried through the normaliser: instance of the hereditary invariant of Proofs/MarkerInv.v with the
   leaf condition gv := nodupb.  This discharges the side condition nodup_vals of the hash theorem (Props/C13h.v) for
   the results of &, |, MultiMarker.of and MarkerUnion.of on operands that satisfy it (atoms do trivially). *)
From Coq Require Import List Bool NArith Arith Lia Permutation.
From Verif Require Import PyRes Str Marker MarkerBase MarkerHash MarkerOpen MarkerInv.
Import ListNotations.

Definition tT (_ : str) : bool := true.
Definition cT (_ : list marker) : bool := true.

Lemma mem_str_snoc y t x : mem_str y (t ++ [x]) = mem_str y t || str_eqb y x.
Proof. induction t as [|z t IH]; cbn [app mem_str]; [rewrite orb_false_r; reflexivity|]. rewrite IH, orb_assoc. reflexivity. Qed.

Lemma nodupb_snoc acc x : nodupb acc = true -> mem_str x acc = false -> nodupb (acc ++ [x]) = true.
Proof.
  induction acc as [|y t IH]; cbn [app nodupb mem_str]; intros N M; [reflexivity|].
  apply andb_prop in N as [N1 N2]. apply orb_false_elim in M as [M1 M2].
  rewrite (IH N2 M2), mem_str_snoc, andb_true_r. apply negb_true_iff in N1. rewrite N1. cbn [orb].
  destruct (str_eqb_spec y x) as [->|]; [rewrite str_eqb_refl in M1; discriminate | reflexivity].
Qed.

Lemma dedup_nodupb l : forall acc, nodupb acc = true -> nodupb (dedup l acc) = true.
Proof.
  induction l as [|x l IH]; intros acc N; cbn [dedup]; [exact N|].
  destruct (mem_str x acc) eqn:M; [exact (IH acc N) | exact (IH _ (nodupb_snoc acc x N M))].
Qed.
Lemma oset_nodupb l : nodupb (oset l) = true.
Proof. exact (dedup_nodupb l [] eq_refl). Qed.

Lemma W_nodup : forall m, W tT cT cT nodupb m = nodup_vals m.
Proof.
  (* the two fixpoints are convertible: their bodies agree up to reduction of the trivial conjuncts *)
  intros m. reflexivity.
Qed.
Lemma W_nodup_list l : forallb (W tT cT cT nodupb) l = forallb nodup_vals l.
Proof. induction l as [|x t IH]; [reflexivity|]. cbn [forallb]. rewrite W_nodup, IH. reflexivity. Qed.

Section NodupOps.
  Variable vmerge : bool -> atom -> atom -> option marker.
  Variable vcontains : atom -> str -> bool.
  Variable perm : list marker -> list marker.
  (* a merged version atom is an atom, Any or Empty in the code (checked on every row: vmerge_leaf); all that is needed here *)
  Hypothesis vmerge_nodup : forall k a b r, vmerge k a b = Some r -> nodup_vals r = true.
  Hypothesis perm_perm : forall l, Permutation (perm l) l.

  Lemma vmerge_W k a b r : vmerge k a b = Some r -> tT (a_name a) = true -> tT (a_name b) = true -> W tT cT cT nodupb r = true.
  Proof. intros E _ _. rewrite W_nodup. exact (vmerge_nodup k a b r E). Qed.

  Lemma level_nodup n : inv_callees tT cT cT nodupb (level vmerge vcontains perm n).
  Proof. exact (level_inv tT cT cT nodupb (fun _ _ => eq_refl) (fun _ _ => eq_refl) oset_nodupb vmerge vcontains perm vmerge_W perm_perm n). Qed.

  Theorem mand_nodup fuel a b r : mand vmerge vcontains perm fuel a b = Ret r -> nodup_vals a = true -> nodup_vals b = true -> nodup_vals r = true.
  Proof. rewrite <- !W_nodup. destruct (level_nodup fuel) as (H & _). exact (H a b r). Qed.
  Theorem mor_nodup fuel a b r : mor vmerge vcontains perm fuel a b = Ret r -> nodup_vals a = true -> nodup_vals b = true -> nodup_vals r = true.
  Proof. rewrite <- !W_nodup. destruct (level_nodup fuel) as (_ & H & _). exact (H a b r). Qed.
  Theorem multi_of_nodup fuel l r : multi_of vmerge vcontains perm fuel l = Ret r -> forallb nodup_vals l = true -> nodup_vals r = true.
  Proof. rewrite <- W_nodup, <- W_nodup_list. destruct (level_nodup fuel) as (_ & _ & H & _). exact (H l r). Qed.
  Theorem union_of_nodup fuel l r : union_of vmerge vcontains perm fuel l = Ret r -> forallb nodup_vals l = true -> nodup_vals r = true.
  Proof. rewrite <- W_nodup, <- W_nodup_list. destruct (level_nodup fuel) as (_ & _ & _ & H & _). exact (H l r). Qed.
End NodupOps.
