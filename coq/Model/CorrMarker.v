(* CorrMarker.v — correspondence glue for Model/Marker.v (stream S-mark): the harness
   passes operand structures, the table of version-atom merges observed on the
   implementation, a set-order selector and what the implementation returned. *)
From Coq Require Import List Bool NArith Arith String.
From Verif Require Import PyRes Str Marker.
Import ListNotations.

Definition vtable := list (bool * atom * atom * option marker).
Fixpoint vlookup (t : vtable) (kind : bool) (a b : atom) : option marker :=
  match t with
  | [] => Some (MAtom (mkAtom [] MArb [] false))       (* not observed on the implementation: guaranteed mismatch *)
  | (k, x, y, r) :: t' => if Bool.eqb k kind && atom_eqb x a && atom_eqb y b then r else vlookup t' kind a b
  end.
Definition perm_of (k : nat) (l : list marker) : list marker :=
  match k with O => l | 1%nat => rev l | 2%nat => match l with x :: y :: t => y :: x :: t | _ => l end | 3%nat => match rev l with x :: y :: t => y :: x :: t | _ => l end | _ => l end.

(* structural identity (finer than ==: value order of groups matters) *)
Fixpoint strs_same (a b : list str) : bool :=
  match a, b with [], [] => true | x :: a', y :: b' => str_eqb x y && strs_same a' b' | _, _ => false end.
Fixpoint marker_same (a b : marker) : bool :=
  match a, b with
  | MAny, MAny | MEmpty, MEmpty => true
  | MAtom x, MAtom y => atom_eqb x y
  | MEqU n v, MEqU n' v' | MNeM n v, MNeM n' v' => str_eqb n n' && strs_same v v'
  | MMulti l, MMulti l' | MUnion l, MUnion l' =>
      (fix go (l l' : list marker) : bool :=
         match l, l' with [], [] => true | x :: t, y :: t' => marker_same x y && go t t' | _, _ => false end) l l'
  | _, _ => false
  end.
(* identity up to the order of the children of compounds (and of the values of groups): the last resort when the iteration order of
   several Python sets in one operation is matched by none of the uniform selectors perm_of 0..3 *)
Fixpoint marker_psame (fuel : nat) (a b : marker) {struct fuel} : bool :=
  match fuel with
  | O => false
  | S f =>
      match a, b with
      | MAny, MAny | MEmpty, MEmpty => true
      | MAtom x, MAtom y => atom_eqb x y
      | MEqU n v, MEqU n' v' | MNeM n v, MNeM n' v' => str_eqb n n' && set_eqb v v'
      | MMulti l, MMulti l' | MUnion l, MUnion l' =>
          Nat.eqb (List.length l) (List.length l')
          && forallb (fun x => existsb (marker_psame f x) l') l && forallb (fun y => existsb (fun x => marker_psame f x y) l) l'
      | _, _ => false
      end
  end.
Definition mres_psame (a b : pyres marker) : bool :=
  match a, b with
  | Ret x, Ret y => marker_psame 40 x y
  | Raise e, Raise e' => exn_eqb e e'
  | _, _ => false
  end.
Definition mres_same (a b : pyres marker) : bool :=
  match a, b with
  | Ret x, Ret y => marker_same x y
  | Raise e, Raise e' => exn_eqb e e'
  | _, _ => false
  end.

(* packaging's parsed marker tree *)
Inductive ptree := PAtom (a : atom) | PList (items : list pitem)
with pitem := PAnd | POr | PSub (t : ptree).

Section Build.
  Variable vm : bool -> atom -> atom -> option marker.
  Variable pm : list marker -> list marker.
  Definition FUEL : nat := 64.
  Definition And := mand vm (fun _ _ => false) pm FUEL.
  Definition Or := mor vm (fun _ _ => false) pm FUEL.
  (* _build_markers *)
  Fixpoint build (fuel : nat) (t : ptree) {struct fuel} : pyres marker :=
    match fuel with
    | O => Raise Unfueled
    | S f =>
        match t with
        | PAtom a => Ret (MAtom a)
        | PList items =>
            groups <- (fix go (items : list pitem) (groups : list marker) {struct items} : pyres (list marker) :=
                         match items with
                         | [] => Ret groups
                         | POr :: rest => go rest (groups ++ [MAny])
                         | PAnd :: rest => go rest groups
                         | PSub s :: rest =>
                             m <- build f s ;;
                             match rev groups with
                             | last :: pre => r <- And last m ;; go rest (rev pre ++ [r])
                             | [] => Raise IndexError
                             end
                         end) items [MAny] ;;
            union_of vm (fun _ _ => false) pm FUEL groups
        end
    end.
End Build.

(* the iteration orders of the Python sets `our_markers - their_markers` observed on the implementation: the list in operand order
   (what the model computes) and the order in which the set was iterated.  An entry is used only when it is a rearrangement of the
   list it is looked up for; any other list is ordered by the uniform selector perm_of k. *)
Definition ptable := list (list marker * list marker).
Definition markers_same (l l' : list marker) : bool := marker_same (MMulti l) (MMulti l').
Definition is_rearrangement (l v : list marker) : bool :=
  Nat.eqb (List.length l) (List.length v)
  && forallb (fun x => existsb (marker_same x) v) l && forallb (fun y => existsb (marker_same y) l) v.
Fixpoint plookup (t : ptable) (l : list marker) : option (list marker) :=
  match t with
  | [] => None
  | (key, v) :: t' => if markers_same key l && is_rearrangement l v then Some v else plookup t' l
  end.
Definition perm_with (t : ptable) (k : nat) (l : list marker) : list marker :=
  match plookup t l with Some v => v | None => perm_of k l end.
Definition tables := (vtable * ptable)%type.

Inductive mcase :=
| MCAnd (t : tables) (k : nat) (a b : marker) (r : pyres marker)
| MCOr (t : tables) (k : nat) (a b : marker) (r : pyres marker)
| MCParse (t : tables) (k : nat) (p : ptree) (r : pyres marker)
| MCExclude (t : tables) (k : nat) (name : str) (a : marker) (r : pyres marker)
| MCOnly (t : tables) (k : nat) (names : list str) (a : marker) (r : pyres marker)
| MCEval (a : marker) (svars : list (str * str)) (ex : list str) (vt : list (atom * bool)) (r : bool).

Fixpoint assoc_str (l : list (str * str)) (k : str) : str :=
  match l with [] => [] | (x, v) :: l' => if str_eqb x k then v else assoc_str l' k end.
Fixpoint assoc_atom (l : list (atom * bool)) (a : atom) : bool :=
  match l with [] => false | (x, v) :: l' => if atom_eqb x a then v else assoc_atom l' a end.

Definition check_mcase (c : mcase) : bool :=
  let same := fun (k : nat) => if Nat.leb 4 k then mres_psame else mres_same in
  match c with
  | MCAnd t k a b r => same k (And (vlookup (fst t)) (perm_with (snd t) k) a b) r
  | MCOr t k a b r => same k (Or (vlookup (fst t)) (perm_with (snd t) k) a b) r
  | MCParse t k p r => same k (build (vlookup (fst t)) (perm_with (snd t) k) 32 p) r
  | MCExclude t k n a r => same k (mexclude (vlookup (fst t)) (fun _ _ => false) (perm_with (snd t) k) FUEL n a) r
  | MCOnly t k ns a r => same k (monly (vlookup (fst t)) (fun _ _ => false) (perm_with (snd t) k) FUEL ns a) r
  | MCEval a svars ex vt r => Bool.eqb (meval (mkMEnv (assoc_str svars) ex (assoc_atom vt)) a) r
  end.

Fixpoint mmismatches (i : N) (l : list mcase) : list N :=
  match l with
  | [] => []
  | c :: l' => if check_mcase c then mmismatches (N.succ i) l' else i :: mmismatches (N.succ i) l'
  end.
Definition run_mcases (l : list mcase) : N * list N := (N.of_nat (List.length l), mmismatches 0 l).
Definition A_ (n : str) (o : mop) (v : str) (r : bool) : atom := mkAtom n o v r.
