(* Model/MarkerHash.v — hash() of marker objects, as CPython 3.12 computes it for the classes of dep_logic.markers:

     AnyMarker / EmptyMarker        __hash__ = hash("any") / hash("empty")
     MarkerExpression               dataclass(unsafe_hash=True): hash((name, op, value, reversed))   (_specifier: hash=False)
     EqualityMarkerUnion /
     InequalityMultiMarker          dataclass: hash((name, values)); values is an OrderedSet whose __hash__ is
                                    collections.abc.Set._hash (order independent: XOR of scrambled element hashes)
     MultiMarker / MarkerUnion      dataclass: hash((markers,)), markers a tuple of markers

   tuple_hash is Objects/tupleobject.c (xxHash-style, 64 bit), set_hash is Lib/_collections_abc.py Set._hash, both
   written out over Z with the 64-bit wrap explicit.  The hash of a str (SipHash, keyed by PYTHONHASHSEED) is the
   parameter [hstr]; the hash of the operator string is the parameter [hop].  The theorems (Props/C13h.v) hold for
   every hstr/hop; the correspondence stream S-mhash instantiates them with the table of string hashes observed in the
   running interpreter and compares mhash with hash(m). *)
From Coq Require Import List Bool.
From Coq Require Export ZArith.
From Verif Require Import Str Marker.
Import ListNotations.
Open Scope Z_scope.

Definition M64 : Z := 18446744073709551615.          (* 2^64 - 1 = 2 * sys.maxsize + 1 *)
Definition MAXH : Z := 9223372036854775807.           (* sys.maxsize *)
Definition signed64 (h : Z) : Z := if h >? MAXH then h - (M64 + 1) else h.

Definition XP1 : Z := 11400714785074694791.
Definition XP2 : Z := 14029467366897019727.
Definition XP5 : Z := 2870177450012600261.
Definition rotl31 (x : Z) : Z := Z.land (Z.lor (Z.shiftl x 31) (Z.shiftr x 33)) M64.
Definition tuple_step (acc lane : Z) : Z :=
  Z.land (rotl31 (Z.land (acc + Z.land lane M64 * XP2) M64) * XP1) M64.
Definition tuple_hash (hs : list Z) : Z :=
  let acc := fold_left tuple_step hs XP5 in
  let acc := Z.land (acc + Z.lxor (Z.of_nat (List.length hs)) (Z.lxor XP5 3527539)) M64 in
  if acc =? M64 then 1546275796 else signed64 acc.

(* Set._hash *)
Definition set_scramble (hx : Z) : Z := (Z.lxor (Z.lxor hx (Z.shiftl hx 16)) 89869747) * 3644798167.
Definition set_step (h hx : Z) : Z := Z.land (Z.lxor h (set_scramble hx)) M64.
Definition set_finish (h : Z) : Z :=
  let h := Z.lxor h (Z.lxor (Z.shiftr h 11) (Z.shiftr h 25)) in
  let h := Z.land (h * 69069 + 907133923) M64 in
  let h := signed64 h in
  if h =? -1 then 590923713 else h.
Definition set_hash (hs : list Z) : Z :=
  set_finish (fold_left set_step hs (Z.land (1927868237 * (Z.of_nat (List.length hs) + 1)) M64)).

Section Hash.
  Variable hstr : str -> Z.
  Variable hop : mop -> Z.
  Definition any_name : str := [97; 110; 121]%N.                  (* "any" *)
  Definition empty_name : str := [101; 109; 112; 116; 121]%N.     (* "empty" *)
  Definition hbool (b : bool) : Z := if b then 1 else 0.
  Definition atom_hash (a : atom) : Z := tuple_hash [hstr (a_name a); hop (a_op a); hstr (a_value a); hbool (a_rev a)].
  Definition group_hash (n : str) (vs : list str) : Z := tuple_hash [hstr n; set_hash (map hstr vs)].
  Fixpoint mhash (m : marker) : Z :=
    match m with
    | MAny => hstr any_name
    | MEmpty => hstr empty_name
    | MAtom a => atom_hash a
    | MEqU n vs | MNeM n vs => group_hash n vs
    | MMulti l | MUnion l => tuple_hash [tuple_hash (map mhash l)]
    end.
End Hash.

(* an OrderedSet never holds a value twice *)
Fixpoint nodupb (l : list str) : bool := match l with [] => true | x :: t => negb (mem_str x t) && nodupb t end.
Fixpoint nodup_vals (m : marker) : bool :=
  match m with
  | MEqU _ vs | MNeM _ vs => nodupb vs
  | MMulti l | MUnion l => forallb nodup_vals l
  | _ => true
  end.

(* ---- correspondence (stream S-mhash): hash(m) observed in the interpreter vs mhash under the observed string hashes *)
Fixpoint hlookup (tbl : list (str * Z)) (s : str) : Z :=
  match tbl with [] => 0 | (k, v) :: t => if str_eqb k s then v else hlookup t s end.
Definition hop_of (ops : list Z) (o : mop) : Z :=
  nth (match o with MEq => 0 | MNe => 1 | MIn => 2 | MNotIn => 3 | MLt => 4 | MLe => 5 | MGt => 6 | MGe => 7 | MCompat => 8 | MArb => 9 end)%nat ops 0.
Inductive hcase := HCase (ops : list Z) (tbl : list (str * Z)) (m : marker) (h : Z)
                 | HEq (a b : marker) (eq : bool).          (* a == b as the interpreter answers it *)
Definition check_hcase (c : hcase) : bool :=
  match c with
  | HCase ops tbl m h => nodup_vals m && (mhash (hlookup tbl) (hop_of ops) m =? h)
  | HEq a b e => Bool.eqb (marker_eqb a b) e
  end.
Fixpoint hmismatches (i : N) (l : list hcase) : list N :=
  match l with
  | [] => []
  | c :: l' => if check_hcase c then hmismatches (N.succ i) l' else i :: hmismatches (N.succ i) l'
  end.
Definition run_hcases (l : list hcase) : N * list N := (N.of_nat (List.length l), hmismatches 0 l).
