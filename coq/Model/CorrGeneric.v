(* CorrGeneric.v — correspondence glue for Model/Generic.v (stream S-generic). *)
From Coq Require Import List Bool NArith Orders.
From Verif Require Import PyRes Order Str SpecTypes GenSpec Pep440 Generic Corr.
Import ListNotations.

Module GM := GenericModel Pep440.

Inductive gcase :=
| GAnd (a b : spec) (r : pyres spec)
| GOr (a b : spec) (r : pyres spec)
| GInv (a : generic) (r : pyres spec)
| GContains (a : spec) (s : str) (r : pyres bool)
| GMk (op : gop) (v : str) (ok : bool)
| GEqual (a b : generic) (r : bool).

Definition check_gcase (c : gcase) : bool :=
  match c with
  | GAnd a b r => res_same spec_same (GM.gspec_and a b) r
  | GOr a b r => res_same spec_same (GM.gspec_or a b) r
  | GInv a r => res_same spec_same (GM.generic_invert a) r
  | GContains a s r => res_same Bool.eqb (GM.contains_str a s) r
  | GMk op v ok => Bool.eqb (is_ret (GM.mk_generic op v)) ok
  | GEqual a b r => Bool.eqb (GM.generic_eqb a b) r
  end.

Fixpoint gmismatches (i : N) (l : list gcase) : list N :=
  match l with
  | [] => []
  | c :: l' => if check_gcase c then gmismatches (N.succ i) l' else i :: gmismatches (N.succ i) l'
  end.
Definition run_gcases (l : list gcase) : N * list N := (N.of_nat (length l), gmismatches 0 l).
Definition Gn (op : gop) (v : str) : spec := SGeneric (mkGenericRaw op v).
