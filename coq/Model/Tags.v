(* Tags.v — hand-written model of dep_logic/tags/tags.py: Implementation, EnvSpec.
   _evaluate_python (at string level: slicing, split, replace, lower, startswith,
   endswith), compatibility (product / max), parse_wheel_tags, compare.  The
   requires_python test uses the GENERATED `&` and is_empty (GenSpec instantiated with the
   PEP 440 order).  Tied to the code by the S-tags / S-wheel / S-cmp streams. No proofs here. *)
From Coq Require Import List Bool NArith Arith String DecimalString Lia.
From Verif Require Import PyRes Order Str SpecTypes GenSpec Pep440 Platform.
Import ListNotations.
Local Open Scope N_scope.

Module P := GenSpec Pep440.
Export P.

(* ---- str helpers ---- *)
Definition lower1 (c : N) : N := if (65 <=? c) && (c <=? 90) then c + 32 else c.
Definition lower (s : str) : str := map lower1 s.
Definition is_digit (c : N) : bool := (48 <=? c) && (c <=? 57).

(* s.split(sep, 1)[0] for a one-character separator *)
Fixpoint before_first (c : N) (s : str) : str :=
  match s with
  | [] => []
  | x :: s' => if x =? c then [] else x :: before_first c s'
  end.

(* s.replace(old, new): left to right, non-overlapping; old non-empty *)
Fixpoint replace_fuel (fuel : nat) (old new s : str) : str :=
  match fuel with
  | O => s
  | S f =>
      match s with
      | [] => []
      | x :: s' =>
          if starts_with old s then new ++ replace_fuel f old new (skipn (List.length old) s)
          else x :: replace_fuel f old new s'
      end
  end.
Definition replace (old new s : str) : str := replace_fuel (S (List.length s)) old new s.

Definition S_ (x : string) : str := of_string x.

(* ---- Implementation ---- *)
Inductive impl_name := Cpython | Pypy | Pyston.
Record implementation := mkImpl { i_name : impl_name; gil_disabled : bool }.
Definition impl_short (i : implementation) : str :=
  match i_name i with Cpython => S_ "cp" | Pypy => S_ "pp" | Pyston => S_ "pt" end.
(* Implementation.parse *)
Definition impl_parse (name : str) (gil : bool) : pyres implementation :=
  if gil && negb (str_eqb name (S_ "cpython")) then Raise UnsupportedImplementation
  else if str_eqb name (S_ "cpython") then Ret (mkImpl Cpython gil)
  else if str_eqb name (S_ "pypy") then Ret (mkImpl Pypy gil)
  else if str_eqb name (S_ "pyston") then Ret (mkImpl Pyston gil)
  else Raise UnsupportedImplementation.

Record envspec := mkEnv { requires_python : spec; e_platform : option platform; e_impl : option implementation }.

(* ---- the three specifier shapes _evaluate_python parses (the parser model proves /
        the S-parse stream checks that parse_version_specifier yields exactly these) ---- *)
Definition V2 (a b : N) : version := mkVer 0 [a; b] None None None.
Definition V3 (a b c : N) : version := mkVer 0 [a; b; c] None None None.
Definition R0 (m M : option version) (im iM : bool) : range := mkRangeRaw m M im iM None.
(* ">=X.Y" *)
Definition spec_ge (x y : N) : spec := SRange (R0 (Some (V2 x y)) None true false).
(* "==X.Y.*" = [X.Y.0, X.(Y+1).0) *)
Definition spec_minor_series (x y : N) : spec := SRange (R0 (Some (V3 x y 0)) (Some (V3 x (y + 1) 0)) true false).
(* "==X.*" = [X.0, (X+1).0) *)
Definition spec_major_series (x : N) : spec := SRange (R0 (Some (V2 x 0)) (Some (V2 (x + 1) 0)) true false).

(* python tag = impl(2 chars) ++ major(1 digit) ++ minor(decimal or empty), as the code slices it *)
Record pytag := mkPyTag { t_impl : str; t_major : N; t_minor : option N }.
Definition pytag_str (t : pytag) : str :=
  t_impl t ++ dec (t_major t) ++ match t_minor t with Some m => dec m | None => [] end.

Definition abi_impl_of (abi_tag : str) : str :=
  lower (replace (S_ "pyston") (S_ "pt") (replace (S_ "pypy") (S_ "pp") (before_first 95 abi_tag))).

Definition opt_impl_gil (e : envspec) : option bool := option_map gil_disabled (e_impl e).

(* EnvSpec._evaluate_python, for a python tag whose major is one digit and whose minor is a numeral or empty *)
Definition evaluate_python (e : envspec) (t : pytag) (abi_tag : str) : pyres (option (N * N * N)) :=
  let impl := t_impl t in
  let minor0 := match t_minor t with Some m => m | None => 0 end in
  if match e_impl e with
     | Some i => negb (str_eqb impl (impl_short i) || str_eqb impl (S_ "py"))
     | None => false
     end then Ret None
  else
    let abi_impl := abi_impl_of abi_tag in
    let allow_abi3 := str_eqb impl (S_ "cp") && match e_impl e with None => true | Some i => negb (gil_disabled i) end in
    if str_eqb abi_impl (S_ "abi3") then
      if negb allow_abi3 then Ret None
      else
        r <- spec_and (spec_ge (t_major t) minor0) (requires_python e) ;;
        emp <- spec_is_empty r ;;
        if emp then Ret None else Ret (Some (t_major t, minor0, 1))
    else
      let ptag := lower (pytag_str t) in
      if negb (str_eqb abi_impl (S_ "none"))
         && (negb (starts_with ptag abi_impl)
             || match skipn (List.length ptag) abi_impl with c :: _ => is_digit c | [] => false end
             || match opt_impl_gil e with
                | Some ft => negb (Bool.eqb (ends_with (S_ "t") abi_impl) ft)
                | None => false
                end)
      then Ret None
      else
        wheel_range <-
          match t_minor t with
          | Some m =>
              if str_eqb impl (S_ "py")
              then spec_and (spec_ge (t_major t) m) (spec_major_series (t_major t))   (* ">=X.Y,==X.*" *)
              else Ret (spec_minor_series (t_major t) m)
          | None => Ret (spec_major_series (t_major t))
          end ;;
        r <- spec_and wheel_range (requires_python e) ;;
        emp <- spec_is_empty r ;;
        if emp then Ret None
        else Ret (Some (t_major t, minor0, if str_eqb abi_impl (S_ "none") then 0 else 2)).

(* ---- compatibility: max over the product, then the best platform ---- *)
Definition triple_ltb (a b : N * N * N) : bool :=
  let '(a1, a2, a3) := a in let '(b1, b2, b3) := b in
  (a1 <? b1) || ((a1 =? b1) && ((a2 <? b2) || ((a2 =? b2) && (a3 <? b3)))).
Definition max_triple (l : list (N * N * N)) : option (N * N * N) :=
  fold_left (fun acc x => match acc with None => Some x | Some m => if triple_ltb m x then Some x else Some m end) l None.
Definition max_nat (l : list nat) : option nat :=
  fold_left (fun acc x => match acc with None => Some x | Some m => if Nat.ltb m x then Some x else Some m end) l None.

Fixpoint filter_some {A} (l : list (option A)) : list A :=
  match l with [] => [] | Some x :: l' => x :: filter_some l' | None :: l' => filter_some l' end.

(* platform score of a tag given as a string: index in the rendered list *)
Fixpoint index_str (t : str) (l : list str) : option nat :=
  match l with
  | [] => None
  | x :: l' => if str_eqb x t then Some O else option_map S (index_str t l')
  end.
(* _evaluate_platform; with no platform the code returns -1, which filter(None, ...) keeps: modelled as score 0 "accept" *)
Inductive pscore := PNone | PMinusOne | PScore (n : nat).
Definition evaluate_platform_str (e : envspec) (t : str) : pyres pscore :=
  match e_platform e with
  | None => Ret PMinusOne
  | Some p =>
      tags <- compatible_tags p ;;
      let all := map render tags ++ [S_ "any"] in
      Ret (match index_str t all with None => PNone | Some i => PScore (List.length all - i) end)
  end.

(* parse_wheel_tags *)
Definition dot : N := 46.
Definition dash : N := 45.
Definition parse_wheel_tags (filename : str) : pyres (list str * list str * list str) :=
  if negb (ends_with (S_ ".whl") filename) then Raise InvalidWheelFilename
  else
    let f := firstn (List.length filename - 4) filename in
    let dashes := count_occ_N dash f in
    if negb (Nat.eqb dashes 4 || Nat.eqb dashes 5) then Raise InvalidWheelFilename
    else
      match rev (split_on dash f) with
      | plat :: abi :: py :: _ => Ret (split_on dot py, split_on dot abi, split_on dot plat)
      | _ => Raise ValueError
      end.

(* ---- EnvSpec.compare ---- *)
Inductive env_compat := INCOMPATIBLE | LOWER_OR_EQUAL | HIGHER.

Definition os_eqb (a b : os) : bool :=
  match a, b with
  | Manylinux x y, Manylinux x' y' | Musllinux x y, Musllinux x' y' | Macos x y, Macos x' y' => (x =? x') && (y =? y')
  | Windows, Windows => true
  | _, _ => false
  end.
Definition same_os_class (a b : os) : bool :=
  match a, b with
  | Manylinux _ _, Manylinux _ _ | Musllinux _ _, Musllinux _ _ | Macos _ _, Macos _ _ | Windows, Windows => true
  | _, _ => false
  end.
Definition os_version (a : os) : option (N * N) :=
  match a with Manylinux x y | Musllinux x y | Macos x y => Some (x, y) | Windows => None end.
Definition platform_eqb (a b : platform) : bool := os_eqb (p_os a) (p_os b) && arch_eqb (p_arch a) (p_arch b).
Definition impl_name_eqb (a b : impl_name) : bool :=
  match a, b with Cpython, Cpython | Pypy, Pypy | Pyston, Pyston => true | _, _ => false end.
Definition impl_eqb (a b : implementation) : bool := impl_name_eqb (i_name a) (i_name b) && Bool.eqb (gil_disabled a) (gil_disabled b).
Definition opt_eqb {A} (f : A -> A -> bool) (a b : option A) : bool :=
  match a, b with Some x, Some y => f x y | None, None => true | _, _ => false end.
(* (a, b) <= (c, d) on tuples *)
Definition pair_leb (p q : N * N) : bool := (fst p <? fst q) || ((fst p =? fst q) && (snd p <=? snd q)).

Definition compare (self target : envspec) : pyres env_compat :=
  same <- spec_eq (requires_python self) (requires_python target) ;;
  if same && opt_eqb platform_eqb (e_platform self) (e_platform target) && opt_eqb impl_eqb (e_impl self) (e_impl target)
  then Ret LOWER_OR_EQUAL
  else
    r <- spec_and (requires_python self) (requires_python target) ;;
    emp <- spec_is_empty r ;;
    if emp then Ret INCOMPATIBLE
    else if match e_impl self, e_impl target with Some a, Some b => negb (impl_eqb a b) | _, _ => false end then Ret INCOMPATIBLE
    else match e_platform self, e_platform target with
         | Some ps, Some pt =>
             if negb (arch_eqb (p_arch ps) (p_arch pt)) then Ret INCOMPATIBLE
             else if negb (same_os_class (p_os ps) (p_os pt)) then Ret INCOMPATIBLE
             else match os_version (p_os ps), os_version (p_os pt) with
                  | Some vs, Some vt => if pair_leb vs vt then Ret LOWER_OR_EQUAL else Ret HIGHER
                  | _, _ => Ret LOWER_OR_EQUAL
                  end
         | _, _ => Ret LOWER_OR_EQUAL
         end.
