(* MarkerStr.v — hand-written model of the marker text layer at the level of LEXEMES:
   __str__ of every marker class (MarkerExpression incl. the literal-on-the-left spelling,
   EqualityMarkerUnion, InequalityMultiMarker, MultiMarker with its parenthesisation rule,
   MarkerUnion, AnyMarker, EmptyMarker) as a list of lexemes, and the PEP 508 marker grammar
   as packaging parses it (marker := atom (BOOLOP atom)*, atom := "(" marker ")" | item),
   producing the same flat tree (ptree) that packaging's Marker._markers holds and that
   _build_markers consumes.  Lexing itself (quotes, whitespace) is packaging's tokeniser: the
   S-mstr stream lexes str(m) and compares lexeme lists, and compares the model's parse with
   packaging's tree.  No proofs here. *)
From Coq Require Import List Bool NArith Arith.
From Verif Require Import PyRes Str Marker CorrMarker.
Import ListNotations.

Inductive lex := LLP | LRP | LAnd | LOr | LName (n : str) | LOp (o : mop) | LLit (v : str) | LEmptyTok.

(* utils.get_reflect_op *)
Definition reflect (o : mop) : mop :=
  match o with MLt => MGt | MLe => MGe | MGt => MLt | MGe => MLe | o => o end.

(* MarkerExpression.__str__ *)
Definition atom_lex (a : atom) : list lex :=
  if a_rev a then [LLit (a_value a); LOp (reflect (a_op a)); LName (a_name a)]
  else [LName (a_name a); LOp (a_op a); LLit (a_value a)].

Fixpoint join (sep : lex) (parts : list (list lex)) : list lex :=
  match parts with
  | [] => []
  | [p] => p
  | p :: rest => p ++ sep :: join sep rest
  end.

Fixpoint mstr (m : marker) : list lex :=
  match m with
  | MAny => []
  | MEmpty => [LEmptyTok]
  | MAtom a => atom_lex a
  | MEqU n vs => join LOr (map (fun v => [LName n; LOp MEq; LLit v]) vs)
  | MNeM n vs => join LAnd (map (fun v => [LName n; LOp MNe; LLit v]) vs)
  | MMulti l =>
      join LAnd ((fix go (l : list marker) : list (list lex) :=
                    match l with
                    | [] => []
                    | x :: t => (match x with
                                 | MAtom _ | MMulti _ => mstr x           (* isinstance(m, (MarkerExpression, MultiMarker)) *)
                                 | _ => LLP :: mstr x ++ [LRP]
                                 end) :: go t
                    end) l)
  | MUnion l => join LOr ((fix go (l : list marker) : list (list lex) := match l with [] => [] | x :: t => mstr x :: go t end) l)
  end.

(* the PEP 508 marker grammar over lexemes, as packaging._parser parses it *)
Fixpoint pmarker (fuel : nat) (ts : list lex) {struct fuel} : option (list pitem * list lex) :=
  match fuel with
  | O => None
  | S f =>
      match patom f ts with
      | Some (it, LAnd :: rest) =>
          match pmarker f rest with Some (its, r) => Some (PSub it :: PAnd :: its, r) | None => None end
      | Some (it, LOr :: rest) =>
          match pmarker f rest with Some (its, r) => Some (PSub it :: POr :: its, r) | None => None end
      | Some (it, rest) => Some ([PSub it], rest)
      | None => None
      end
  end
with patom (fuel : nat) (ts : list lex) {struct fuel} : option (ptree * list lex) :=
  match fuel with
  | O => None
  | S f =>
      match ts with
      | LLP :: rest => match pmarker f rest with Some (its, LRP :: r) => Some (PList its, r) | _ => None end
      | LName n :: LOp o :: LLit v :: rest => Some (PAtom (mkAtom n o v false), rest)
      | LLit v :: LOp o :: LName n :: rest => Some (PAtom (mkAtom n (reflect o) v true), rest)   (* _build_markers: literal on the left *)
      | _ => None
      end
  end.

(* parse_marker on the rendered text: "<empty>" and "" are special-cased before packaging's parser runs *)
Inductive parsed := PEmptyMarker | PAnyMarker | PTree (t : ptree) | PInvalid.
Definition parse_text (fuel : nat) (ts : list lex) : parsed :=
  match ts with
  | [LEmptyTok] => PEmptyMarker
  | [] => PAnyMarker
  | _ => match pmarker fuel ts with Some (its, []) => PTree (PList its) | _ => PInvalid end
  end.

(* ---- correspondence glue ---- *)
Definition lex_eqb (a b : lex) : bool :=
  match a, b with
  | LLP, LLP | LRP, LRP | LAnd, LAnd | LOr, LOr | LEmptyTok, LEmptyTok => true
  | LName x, LName y | LLit x, LLit y => str_eqb x y
  | LOp x, LOp y => mop_eqb x y
  | _, _ => false
  end.
Fixpoint lexs_eqb (a b : list lex) : bool :=
  match a, b with [], [] => true | x :: a', y :: b' => lex_eqb x y && lexs_eqb a' b' | _, _ => false end.
Fixpoint ptree_eqb (a b : ptree) : bool :=
  match a, b with
  | PAtom x, PAtom y => atom_eqb x y && Bool.eqb (a_rev x) (a_rev y)
  | PList x, PList y =>
      (fix go (x y : list pitem) : bool :=
         match x, y with
         | [], [] => true
         | PAnd :: x', PAnd :: y' | POr :: x', POr :: y' => go x' y'
         | PSub s :: x', PSub t :: y' => ptree_eqb s t && go x' y'
         | _, _ => false
         end) x y
  | _, _ => false
  end.
Inductive scase :=
| SStr (m : marker) (ts : list lex)           (* str(m), lexed *)
| SParse (ts : list lex) (t : option ptree).  (* packaging's Marker(text)._markers for the lexed text (None = rejected) *)
Definition check_scase (c : scase) : bool :=
  match c with
  | SStr m ts => lexs_eqb (mstr m) ts
  | SParse ts t =>
      match pmarker 400 ts, t with
      | Some (its, []), Some t' => ptree_eqb (PList its) t'
      | Some (_, _ :: _), None | None, None => true
      | _, _ => false
      end
  end.
Fixpoint smismatches (i : N) (l : list scase) : list N :=
  match l with
  | [] => []
  | c :: l' => if check_scase c then smismatches (N.succ i) l' else i :: smismatches (N.succ i) l'
  end.
Definition run_scases (l : list scase) : N * list N := (N.of_nat (List.length l), smismatches 0 l).
