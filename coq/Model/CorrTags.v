(* CorrTags.v — correspondence glue for Model/Tags.v (streams S-tags, S-wheel). *)
From Coq Require Import List Bool NArith.
From Verif Require Import PyRes Str SpecTypes GenSpec Pep440 Platform Tags PlatParse Corr.
Import ListNotations.

Inductive tcase :=
| TEval (rp : pspec version) (impl : option (N * bool)) (timpl : str) (major : N) (minor : option N) (abi : str) (r : option (N * N * N))
| TWheel (fn : str) (r : pyres (list str * list str * list str))
| TAbiImpl (abi : str) (r : str)
| TPyTag (timpl : str) (major : N) (minor : option N) (r : str)
| TPlatParse (s : str) (r : pyres platform)
| TPlatStr (p : platform) (r : str)
| TCompare (rpA : pspec version) (pA : option platform) (iA : option (N * bool)) (rpB : pspec version) (pB : option platform) (iB : option (N * bool)) (r : N).

Definition impl_of (x : N * bool) : implementation :=
  mkImpl (match fst x with 0%N => Cpython | 1%N => Pypy | _ => Pyston end) (snd x).

Fixpoint strs_eqb (a b : list str) : bool :=
  match a, b with
  | [], [] => true
  | x :: a', y :: b' => str_eqb x y && strs_eqb a' b'
  | _, _ => false
  end.

Definition triple_eqb (a b : N * N * N) : bool :=
  let '(a1, a2, a3) := a in let '(b1, b2, b3) := b in N.eqb a1 b1 && N.eqb a2 b2 && N.eqb a3 b3.

Definition check_tcase (c : tcase) : bool :=
  match c with
  | TEval rp impl timpl major minor abi r =>
      match evaluate_python (mkEnv rp None (option_map impl_of impl)) (mkPyTag timpl major minor) abi, r with
      | Ret (Some x), Some y => triple_eqb x y
      | Ret None, None => true
      | _, _ => false
      end
  | TWheel fn r =>
      match parse_wheel_tags fn, r with
      | Ret (a, b, c), Ret (a', b', c') => strs_eqb a a' && strs_eqb b b' && strs_eqb c c'
      | Raise e, Raise e' => exn_eqb e e'
      | _, _ => false
      end
  | TAbiImpl abi r => str_eqb (abi_impl_of abi) r
  | TPyTag timpl major minor r => str_eqb (pytag_str (mkPyTag timpl major minor)) r
  | TPlatParse s r =>
      match platform_parse s, r with
      | Ret p, Ret q => platform_eqb p q
      | Raise e, Raise e' => exn_eqb e e'
      | NotImpl, NotImpl => true
      | _, _ => false
      end
  | TPlatStr p r => str_eqb (platform_str p) r
  | TCompare rpA pA iA rpB pB iB r =>
      match compare (mkEnv rpA pA (option_map impl_of iA)) (mkEnv rpB pB (option_map impl_of iB)) with
      | Ret INCOMPATIBLE => N.eqb r 1
      | Ret LOWER_OR_EQUAL => N.eqb r 2
      | Ret HIGHER => N.eqb r 3
      | _ => false
      end
  end.

Fixpoint tmismatches (i : N) (l : list tcase) : list N :=
  match l with
  | [] => []
  | c :: l' => if check_tcase c then tmismatches (N.succ i) l' else i :: tmismatches (N.succ i) l'
  end.
Definition run_tcases (l : list tcase) : N * list N := (N.of_nat (length l), tmismatches 0 l).
