(* CorrParse.v — glue for the S-parse correspondence stream: Model/SpecParse.v against
   dep_logic.specifiers (parse / render / contains) and against packaging (clause semantics). *)
From Coq Require Import List Bool NArith ZArith.
From Verif Require Import PyRes Order Str SpecTypes GenSpec Pep440 Corr SpecParse.
Import ListNotations.

Definition sop_eqb (a b : sop) : bool :=
  match a, b with
  | OpGe, OpGe | OpGt, OpGt | OpLe, OpLe | OpLt, OpLt | OpEq, OpEq | OpNe, OpNe | OpCompat, OpCompat
  | OpEqStar, OpEqStar | OpNeStar, OpNeStar => true
  | _, _ => false
  end.
Definition clause_same (a b : clause) : bool := sop_eqb (c_op a) (c_op b) && version_same (c_ver a) (c_ver b).
(* as sets (a SpecifierSet is a frozenset of clauses) *)
Definition incl_b (a b : list clause) : bool := forallb (fun x => existsb (clause_same x) b) a.
Definition cset_same (a b : list clause) : bool := incl_b a b && incl_b b a.
Definition stext_same (a b : stext) : bool :=
  match a, b with
  | TEmpty, TEmpty => true
  | TAlts x, TAlts y => list_eqb cset_same x y
  | _, _ => false
  end.
(* identity including the remembered `simplified` clause *)
Definition range_same_s (a b : range) : bool := range_same a b && opt_eqb clause_same (rsimp a) (rsimp b).
Definition spec_same_s (a b : spec) : bool :=
  match a, b with
  | SRange x, SRange y => range_same_s x y
  | SUnion x, SUnion y => list_eqb range_same_s (uranges x) (uranges y) && opt_eqb clause_same (usimp x) (usimp y)
  | _, _ => spec_same a b
  end.

Inductive pcase :=
| PFrom (c : clause) (r : pyres spec)                 (* _from_pkg_specifier *)
| PSet (cs : list clause) (r : pyres spec)            (* from_specifierset, clauses in the set's iteration order *)
| PParse (t : stext) (r : pyres spec)                 (* parse_version_specifier *)
| PRender (s : spec) (t : pyres stext)                (* str(s), tokenised by packaging *)
| PContains (s : spec) (v : version) (b : pyres bool) (* v in s *)
| PSem (c : clause) (v : version) (b : bool)          (* packaging: Specifier(c).contains(v), v a final release *)
| PSimple (s : spec) (b : pyres bool).                (* s.is_simple() *)

Definition is_some {A} (o : option A) : bool := match o with Some _ => true | None => false end.
Definition check_pcase (c : pcase) : bool :=
  match c with
  | PFrom c r => res_same spec_same_s (from_pkg c) r
  | PSet cs r => res_same spec_same_s (from_specifierset cs) r
  | PParse t r => res_same spec_same_s (parse t) r
  | PRender s t => res_same stext_same (render s) t
  | PContains s v b => res_same Bool.eqb (spec_contains s v) b
  | PSem c v b => Bool.eqb (clause_sem c v) b
  | PSimple s b =>
      res_same Bool.eqb
        match s with
        | SRange r => o <- range_simplified r ;; Ret (is_some o)
        | SUnion u => o <- union_simplified u ;; Ret (is_some o)
        | _ => Ret false
        end b
  end.

Fixpoint pmismatches (i : N) (l : list pcase) : list N :=
  match l with
  | [] => []
  | c :: l' => if check_pcase c then pmismatches (N.succ i) l' else i :: pmismatches (N.succ i) l'
  end.
Definition run_pcases (l : list pcase) : N * list N := (N.of_nat (length l), pmismatches 0 l).

(* short constructors for the harness *)
Definition K_ (o : sop) (v : version) : clause := mkClause o v.
Definition RS_ (m M : option version) (im iM : bool) (s : option clause) : range := mkRangeRaw m M im iM s.
Definition US_ (l : list range) (s : option clause) : spec := SUnion (mkUnionRaw l s).
