(* Marker.v — hand-written model of dep_logic.markers (single.py, multi.py, union.py,
   any.py, empty.py) and of the marker part of utils.py: flatten_items, MultiMarker.of,
   MarkerUnion.of, union_simplify, intersect_simplify, cnf, dnf, intersection, union,
   the single-marker operators, only/exclude, evaluation.  One Gallina function per
   Python function.  The mutually recursive normaliser takes explicit fuel (termination
   is not proved; the Python code itself blows up on some inputs).

   Two parameters (Section variables, see DESIGN.md):
     vmerge  — the result of _merge_single_markers on two python_version /
               python_full_version / platform_release atoms (it goes through parsing,
               the specifier algebra, rendering and from_specifier; modelled separately).
               The correspondence instantiates it with the table of results observed on
               the implementation; the soundness theorem assumes it sound.
     perm    — iteration order of Python `set`s in union_simplify / intersect_simplify.
   No proofs here. *)
From Coq Require Import List Bool NArith Arith String Lia.
From Verif Require Import PyRes Str.
Import ListNotations.
Local Open Scope N_scope.

Inductive mop := MEq | MNe | MIn | MNotIn | MLt | MLe | MGt | MGe | MCompat | MArb.
Record atom := mkAtom { a_name : str; a_op : mop; a_value : str; a_rev : bool }.

Inductive marker :=
| MAny | MEmpty
| MAtom (a : atom)
| MEqU (name : str) (values : list str)       (* EqualityMarkerUnion: name == v1 or name == v2 ... *)
| MNeM (name : str) (values : list str)       (* InequalityMultiMarker: name != v1 and name != v2 ... *)
| MMulti (l : list marker)
| MUnion (l : list marker).

Definition mop_eqb (a b : mop) : bool :=
  match a, b with
  | MEq, MEq | MNe, MNe | MIn, MIn | MNotIn, MNotIn | MLt, MLt | MLe, MLe | MGt, MGt | MGe, MGe | MCompat, MCompat | MArb, MArb => true
  | _, _ => false
  end.
Definition atom_eqb (a b : atom) : bool :=
  str_eqb (a_name a) (a_name b) && mop_eqb (a_op a) (a_op b) && str_eqb (a_value a) (a_value b) && Bool.eqb (a_rev a) (a_rev b).

Fixpoint mem_str (x : str) (l : list str) : bool := match l with [] => false | y :: l' => str_eqb x y || mem_str x l' end.
(* OrderedSet.__eq__ is collections.abc.Set equality: len(self) == len(other) and self <= other.  An OrderedSet never
   holds duplicates, so for the values that occur this is mutual inclusion; the model checks both inclusions (the
   same Boolean on duplicate-free lists), which is what makes == a congruence for evaluation without a NoDup argument. *)
Definition set_eqb (a b : list str) : bool :=
  Nat.eqb (List.length a) (List.length b) && forallb (fun x => mem_str x b) a && forallb (fun x => mem_str x a) b.

(* Python == on markers *)
Fixpoint marker_eqb (a b : marker) : bool :=
  match a, b with
  | MAny, MAny | MEmpty, MEmpty => true
  | MAtom x, MAtom y => atom_eqb x y
  | MEqU n v, MEqU n' v' | MNeM n v, MNeM n' v' => str_eqb n n' && set_eqb v v'
  | MMulti l, MMulti l' | MUnion l, MUnion l' =>
      (fix go (l l' : list marker) : bool :=
         match l, l' with
         | [], [] => true
         | x :: t, y :: t' => marker_eqb x y && go t t'
         | _, _ => false
         end) l l'
  | _, _ => false
  end.
Fixpoint mem_marker (x : marker) (l : list marker) : bool := match l with [] => false | y :: l' => marker_eqb x y || mem_marker x l' end.
Fixpoint markers_eqb (l l' : list marker) : bool :=
  match l, l' with
  | [], [] => true
  | x :: t, y :: t' => marker_eqb x y && markers_eqb t t'
  | _, _ => false
  end.

Definition is_any (m : marker) : bool := match m with MAny => true | _ => false end.
Definition is_empty (m : marker) : bool := match m with MEmpty => true | _ => false end.
Definition is_single (m : marker) : bool := match m with MAtom _ | MEqU _ _ | MNeM _ _ => true | _ => false end.
Definition is_multi (m : marker) : bool := match m with MMulti _ => true | _ => false end.
Definition is_union (m : marker) : bool := match m with MUnion _ => true | _ => false end.
Definition single_name (m : marker) : str := match m with MAtom a => a_name a | MEqU n _ | MNeM n _ => n | _ => [] end.

(* OrderedSet construction / operators *)
Fixpoint dedup (l : list str) (acc : list str) : list str :=
  match l with [] => acc | x :: l' => if mem_str x acc then dedup l' acc else dedup l' (acc ++ [x]) end.
Definition oset (l : list str) : list str := dedup l [].
Definition oset_or (a b : list str) : list str := oset (a ++ b).                       (* Set.__or__: chain(self, other) *)
Definition oset_and (a b : list str) : list str := oset (filter (fun x => mem_str x a) b).   (* Set.__and__: (v for v in other if v in self) *)
Definition oset_sub (a b : list str) : list str := oset (filter (fun x => negb (mem_str x b)) a).

(* complexity: tuple sums *)
Fixpoint complexity (m : marker) : nat * nat :=
  match m with
  | MEqU _ v | MNeM _ v => (List.length v, 1%nat)
  | MMulti l | MUnion l =>
      (fix go (l : list marker) : nat * nat :=
         match l with [] => (0, 0)%nat | x :: t => let '(a, b) := complexity x in let '(c, d) := go t in (a + c, b + d)%nat end) l
  | _ => (1, 1)%nat
  end.
Definition pair_ltb (p q : nat * nat) : bool := Nat.ltb (fst p) (fst q) || (Nat.eqb (fst p) (fst q) && Nat.ltb (snd p) (snd q)).

(* ------------------------------------------------------------------ string-variable atoms *)
Definition str_names : list str :=
  map of_string ["os_name"; "sys_platform"; "platform_machine"; "platform_system"; "platform_version"; "platform_python_implementation";
                 "implementation_name"; "extra"; "extras"; "dependency_groups"]%string.
Definition version_like (n : str) : bool :=
  str_eqb n (of_string "python_version") || str_eqb n (of_string "python_full_version") || str_eqb n (of_string "platform_release")
  || str_eqb n (of_string "implementation_version").
(* _is_reversed_containment: '"lit" in name' / '"lit" not in name' *)
(* ... and '"lit" < name' / '"lit" > name' on a version-valued variable when the literal is a pre/post/dev release
   (Version(lit).is_prerelease or .is_postrelease; for the valid version texts in play: the text contains a letter) *)
Definition is_letter (c : N) : bool := ((65 <=? c) && (c <=? 90)) || ((97 <=? c) && (c <=? 122)).
Definition suffixed (s : str) : bool :=
  existsb is_letter (match s with c :: t => if (c =? 118) || (c =? 86) then t else s | [] => [] end).   (* a leading "v" / "V" is part of no segment *)
(* ... and '"lit" ~= name' (the compatible-release range is built from the environment value) and wildcard literals
   ('"3.8.*" == name': no candidate version at all) on a version-valued variable.
   Domain: operand texts in the spelling str(Version) produces (a leading "v", "1.0-1" for a post-release are the text layer). *)
Definition ends_star (s : str) : bool := match rev s with 42 :: 46 :: _ => true | _ => false end.
Definition rev_in (a : atom) : bool :=
  a_rev a && ((mop_eqb (a_op a) MIn || mop_eqb (a_op a) MNotIn)
              || ((mop_eqb (a_op a) MLt || mop_eqb (a_op a) MGt) && version_like (a_name a) && suffixed (a_value a))
              || (version_like (a_name a) && (mop_eqb (a_op a) MCompat || ends_star (a_value a)))).
Definition rev_in_m (m : marker) : bool := match m with MAtom a => rev_in a | _ => false end.
Definition pyver_pair (a b : str) : bool :=
  (str_eqb a (of_string "python_version") && str_eqb b (of_string "python_full_version"))
  || (str_eqb a (of_string "python_full_version") && str_eqb b (of_string "python_version")).

(* GenericSpecifier algebra on (op, value): result classes *)
Inductive gres := GR (op : mop) (v : str) | GREmpty | GRAny | GRNotImpl.
Definition op_order (o : mop) : nat := match o with MEq => 0 | MNe => 1 | MIn => 2 | MNotIn => 3 | _ => 4 end.
Definition gen_and (o1 : mop) (v1 : str) (o2 : mop) (v2 : str) : gres :=
  if mop_eqb o1 o2 && str_eqb v1 v2 then GR o1 v1 else
  let '(ta, va, tb, vb) := if Nat.ltb (op_order o2) (op_order o1) then (o2, v2, o1, v1) else (o1, v1, o2, v2) in
  match ta, tb with
  | MEq, MEq => GREmpty
  | MEq, MNe => if str_eqb va vb then GREmpty else GR ta va
  | MIn, MNotIn => if str_eqb va vb then GREmpty else GRNotImpl
  | MEq, MIn => if substr va vb then GR ta va else GREmpty
  | MNe, MNotIn => if substr va vb then GR tb vb else GRNotImpl
  | _, _ => GRNotImpl
  end.
Definition gen_or (o1 : mop) (v1 : str) (o2 : mop) (v2 : str) : gres :=
  if mop_eqb o1 o2 && str_eqb v1 v2 then GR o1 v1 else
  let '(ta, va, tb, vb) := if Nat.ltb (op_order o2) (op_order o1) then (o2, v2, o1, v1) else (o1, v1, o2, v2) in
  match ta, tb with
  | MEq, MNe => if str_eqb va vb then GRAny else GR tb vb
  | MNe, MNe => GRAny
  | MIn, MNotIn => if str_eqb va vb then GRAny else GRNotImpl
  | MNe, MIn => if substr va vb then GRAny else GRNotImpl
  | MNe, MNotIn => if substr va vb then GR ta va else GRAny
  | MEq, MIn => if substr va vb then GR tb vb else GRNotImpl
  | _, _ => GRNotImpl
  end.
(* `v in GenericSpecifier(op, value)` *)
Definition gen_contains (o : mop) (lit : str) (v : str) : bool :=
  match o with
  | MEq => str_eqb v lit | MNe => negb (str_eqb v lit)
  | MIn => substr v lit | MNotIn => negb (substr v lit)
  | MGt => str_ltb lit v | MGe => negb (str_ltb v lit) | MLt => str_ltb v lit | MLe => negb (str_ltb lit v)
  | _ => false
  end.

Section Normaliser.
  (* result of _merge_single_markers on two version-like atoms (kind: true = and / MultiMarker, false = or / MarkerUnion);
     None = "no merge" *)
  Variable vmerge : bool -> atom -> atom -> option marker.
  (* `v in other.specifier` for a version-like atom's specifier (only reachable for platform_release groups; kept abstract) *)
  Variable vcontains : atom -> str -> bool.
  (* iteration order of a Python set built from the given list *)
  Variable perm : list marker -> list marker.

  (* _merge_single_markers(marker1, marker2, merge_class) *)
  Definition merge_single (kind : bool) (m1 m2 : atom) : option marker :=
    if atom_eqb m1 m2 then Some (MAtom m1)       (* marker1 == marker2: a & a = a | a = a *)
    else if rev_in m1 || rev_in m2 then None          (* _is_reversed_containment: '"lit" in name' atoms are never merged *)
    else if pyver_pair (a_name m1) (a_name m2) then vmerge kind m1 m2
    else if negb (str_eqb (a_name m1) (a_name m2)) then None
    else if version_like (a_name m1) then vmerge kind m1 m2
    else if str_eqb (a_name m1) (of_string "extra") && negb (str_eqb (a_value m1) (a_value m2)) then None
    else
      match (if kind then gen_and else gen_or) (a_op m1) (a_value m1) (a_op m2) (a_value m2) with
      | GRNotImpl =>
          if mop_eqb (a_op m1) MEq && mop_eqb (a_op m2) MEq && negb kind then Some (MEqU (a_name m1) (oset [a_value m1; a_value m2]))
          else if mop_eqb (a_op m1) MNe && mop_eqb (a_op m2) MNe && kind then Some (MNeM (a_name m1) (oset [a_value m1; a_value m2]))
          else None
      | GREmpty => Some MEmpty   (* from_specifier(EmptySpecifier) = EmptyMarker; an empty specifier never == marker1.specifier *)
      | GRAny => Some MAny
      | GR o v =>
          (* result_specifier == marker1.specifier -> marker1 ; == marker2.specifier -> marker2 ; else from_specifier *)
          if mop_eqb o (a_op m1) && str_eqb v (a_value m1) then Some (MAtom m1)
          else if mop_eqb o (a_op m2) && str_eqb v (a_value m2) then Some (MAtom m2)
          else Some (MAtom (mkAtom (a_name m1) o v false))
      end.

  (* specifier membership used by the atom groups: `v in other.specifier` *)
  Definition atom_contains (a : atom) (v : str) : bool :=
    if version_like (a_name a) then vcontains a v else gen_contains (a_op a) (a_value a) v.

  (* replace(): collapse a group with < 2 values *)
  Definition equ_replace (n : str) (vs : list str) : marker :=
    match vs with [] => MEmpty | [v] => MAtom (mkAtom n MEq v false) | _ => MEqU n vs end.
  Definition nem_replace (n : str) (vs : list str) : marker :=
    match vs with [] => MAny | [v] => MAtom (mkAtom n MNe v false) | _ => MNeM n vs end.

  (* MultiMarker( *markers) / MarkerUnion( *markers): flatten_items, one level (constructors never nest the same class) *)
  Fixpoint flatten (same : marker -> option (list marker)) (items : list marker) (acc : list marker) : list marker :=
    match items with
    | [] => acc
    | it :: rest =>
        match same it with
        | Some sub =>
            let acc' := fold_left (fun ac s => if mem_marker s ac then ac else ac ++ [s]) sub acc in
            flatten same rest acc'
        | None => if mem_marker it acc then flatten same rest acc else flatten same rest (acc ++ [it])
        end
    end.
  Definition sub_multi (m : marker) : option (list marker) := match m with MMulti l => Some l | _ => None end.
  Definition sub_union (m : marker) : option (list marker) := match m with MUnion l => Some l | _ => None end.
  Definition mk_multi (l : list marker) : marker := MMulti (flatten sub_multi l []).
  Definition mk_union (l : list marker) : marker := MUnion (flatten sub_union l []).

  (* ---- single-marker operators (no recursion) ---- *)
  Definition atom_and (a b : atom) : marker :=
    match merge_single true a b with Some r => r | None => mk_multi [MAtom a; MAtom b] end.
  Definition atom_or (a b : atom) : marker :=
    match merge_single false a b with Some r => r | None => mk_union [MAtom a; MAtom b] end.

  (* EqualityMarkerUnion.__and__ / __or__ ; result NotImpl is modelled by None *)
  Definition equ_and (n : str) (vs : list str) (other : marker) : option marker :=
    if negb (is_single other) then None
    else if negb (str_eqb n (single_name other)) || rev_in_m other then Some (mk_multi [MEqU n vs; other])
    else match other with
         | MAtom a => Some (equ_replace n (oset (filter (atom_contains a) vs)))
         | MEqU _ vs' => Some (equ_replace n (oset_and vs vs'))
         | _ => None
         end.
  Definition equ_or (n : str) (vs : list str) (other : marker) : option marker :=
    if negb (is_single other) then None
    else if negb (str_eqb n (single_name other)) || rev_in_m other then Some (mk_union [MEqU n vs; other])
    else match other with
         | MAtom a =>
             match a_op a with
             | MEq => if mem_str (a_value a) vs then Some (MEqU n vs) else Some (MEqU n (oset_or vs [a_value a]))
             | MNe => if mem_str (a_value a) vs then Some MAny else Some other
             | _ => if forallb (atom_contains a) vs then Some other else Some (mk_union [MEqU n vs; other])
             end
         | MEqU _ vs' => Some (MEqU n (oset_or vs vs'))
         | _ => None
         end.
  (* InequalityMultiMarker.__and__ / __or__ *)
  Definition nem_and (n : str) (vs : list str) (other : marker) : option marker :=
    if negb (is_single other) then None
    else if negb (str_eqb n (single_name other)) || rev_in_m other then Some (mk_multi [MNeM n vs; other])
    else match other with
         | MAtom a =>
             match a_op a with
             | MEq => if mem_str (a_value a) vs then Some MEmpty else Some other
             | MNe => if mem_str (a_value a) vs then Some (MNeM n vs) else Some (MNeM n (oset_or vs [a_value a]))
             | _ => if negb (existsb (atom_contains a) vs) then Some other else Some (mk_multi [MNeM n vs; other])
             end
         | MEqU n' vs' => Some (equ_replace n' (oset_sub vs' vs))
         | MNeM _ vs' => Some (MNeM n (oset_or vs vs'))
         | _ => None
         end.
  Definition nem_or (n : str) (vs : list str) (other : marker) : option marker :=
    if negb (is_single other) then None
    else if negb (str_eqb n (single_name other)) || rev_in_m other then Some (mk_union [MNeM n vs; other])
    else match other with
         | MAtom a => Some (nem_replace n (oset (filter (fun v => negb (atom_contains a v)) vs)))
         | MEqU _ vs' => Some (nem_replace n (oset_sub vs vs'))
         | MNeM _ vs' => Some (nem_replace n (oset_and vs vs'))
         | _ => None
         end.

  (* left method of a single marker; None = NotImplemented *)
  Definition single_and_l (a b : marker) : option marker :=
    match a with
    | MAtom x => match b with MAtom y => Some (atom_and x y) | _ => None end
    | MEqU n vs => equ_and n vs b
    | MNeM n vs => nem_and n vs b
    | _ => None
    end.
  Definition single_or_l (a b : marker) : option marker :=
    match a with
    | MAtom x => match b with MAtom y => Some (atom_or x y) | _ => None end
    | MEqU n vs => equ_or n vs b
    | MNeM n vs => nem_or n vs b
    | _ => None
    end.
  (* reflected methods exist for EqU / NeM (aliases of the direct ones), not for MarkerExpression *)
  Definition single_and_r (b a : marker) : option marker :=
    match b with MEqU n vs => equ_and n vs a | MNeM n vs => nem_and n vs a | _ => None end.
  Definition single_or_r (b a : marker) : option marker :=
    match b with MEqU n vs => equ_or n vs a | MNeM n vs => nem_or n vs a | _ => None end.
  Definition same_cls (a b : marker) : bool :=
    match a, b with
    | MAny, MAny | MEmpty, MEmpty | MAtom _, MAtom _ | MEqU _ _, MEqU _ _ | MNeM _ _, MNeM _ _ | MMulti _, MMulti _ | MUnion _, MUnion _ => true
    | _, _ => false
    end.

  (* n-ary cartesian product, rightmost fastest (itertools.product) *)
  Fixpoint nprod (ls : list (list marker)) : list (list marker) :=
    match ls with
    | [] => [[]]
    | l :: rest => flat_map (fun x => map (fun t => x :: t) (nprod rest)) l
    end.

  Definition set_of (l : list marker) : list marker := flatten (fun _ => None) l [].      (* dedup by == *)
  Definition subset (a b : list marker) : bool := forallb (fun x => mem_marker x b) a.

  (* ---- the body of MultiMarker.of / MarkerUnion.of, generic in the class-specific pieces ---- *)
  Section OfBody.
    Variable absorbing : marker -> bool.     (* Multi.of: is_empty (=> return EmptyMarker) ; Union.of: is_any *)
    Variable neutral : marker -> bool.       (* Multi.of: is_any (skipped)                 ; Union.of: is_empty *)
    Variable absorb_m neutral_m : marker.    (* Multi.of: MEmpty, MAny                     ; Union.of: MAny, MEmpty *)
    Variable sub : marker -> option (list marker).   (* children of a marker of the class being built *)
    Variable mk : list marker -> marker.
    Variable other_cls : marker -> bool.     (* Multi.of: is_union ; Union.of: is_multi *)
    Variable op : marker -> marker -> pyres marker.            (* mark & marker / mark | marker *)
    Variable simp : marker -> marker -> pyres (option marker). (* intersect_simplify / union_simplify *)

    (* for i, mark in enumerate(new_markers): None = early return of the absorbing marker;
       Some (Some l) = replaced and break; Some None = not merged *)
    Fixpoint of_scan (cur : marker) (pre post : list marker) {struct post} : pyres (option (option (list marker))) :=
      match post with
      | [] => Ret (Some None)
      | mark :: post' =>
          if is_single mark then
            nm <- op mark cur ;;
            if absorbing nm then Ret None
            else if is_single nm then Ret (Some (Some (pre ++ nm :: post')))
            else of_scan cur (pre ++ [mark]) post'
          else if other_cls mark then
            s <- simp mark cur ;;
            match s with
            | Some x => Ret (Some (Some (pre ++ x :: post')))
            | None => of_scan cur (pre ++ [mark]) post'
            end
          else of_scan cur (pre ++ [mark]) post'
      end.
    (* one pass of `for marker in old_markers` *)
    Fixpoint of_pass (old : list marker) (new : list marker) {struct old} : pyres (option (list marker)) :=
      match old with
      | [] => Ret (Some new)
      | cur :: rest =>
          if mem_marker cur new then of_pass rest new
          else if neutral cur then of_pass rest new
          else
            r <- of_scan cur [] new ;;
            match r with
            | None => Ret None
            | Some (Some new') => of_pass rest (flatten sub new' [])
            | Some None => of_pass rest (new ++ [cur])
            end
      end.
    (* while old_markers != new_markers *)
    Fixpoint of_loop (k : nat) (old new : list marker) {struct k} : pyres (option (list marker)) :=
      match k with
      | O => Raise Unfueled
      | S k' =>
          if markers_eqb old new then Ret (Some new)
          else r <- of_pass new [] ;;
               match r with
               | None => Ret None
               | Some new' => of_loop k' new new'
               end
      end.
    Definition of_body (k : nat) (markers : list marker) : pyres marker :=
      r <- of_loop k [] (flatten sub markers []) ;;
      match r with
      | None => Ret absorb_m
      | Some new =>
          if existsb absorbing new then Ret absorb_m
          else match new with
               | [] => Ret neutral_m
               | [x] => Ret x
               | _ => Ret (mk new)
               end
      end.
  End OfBody.

  (* ---- the mutually recursive normaliser, on fuel ---- *)
  Fixpoint mand (fuel : nat) (a b : marker) {struct fuel} : pyres marker :=
    match fuel with
    | O => Raise Unfueled
    | S f =>
        (* CPython dispatch: a.__and__(b), then b.__rand__(a) *)
        match a with
        | MAny => Ret b
        | MEmpty => Ret MEmpty
        | MMulti _ | MUnion _ => dnf f (mk_multi [a; b])              (* intersection(self, other) *)
        | _ =>
            match single_and_l a b with
            | Some r => Ret r
            | None =>
                if same_cls a b then Raise TypeError
                else match b with
                     | MAny => Ret a                                     (* AnyMarker.__rand__ = __and__: returns other *)
                     | MEmpty => Ret MEmpty
                     | MMulti _ | MUnion _ => dnf f (mk_multi [b; a])    (* __rand__ = __and__: intersection(self=b, other=a) *)
                     | _ => match single_and_r b a with Some r => Ret r | None => Raise TypeError end
                     end
            end
        end
    end
  with mor (fuel : nat) (a b : marker) {struct fuel} : pyres marker :=
    match fuel with
    | O => Raise Unfueled
    | S f =>
        match a with
        | MAny => Ret MAny
        | MEmpty => Ret b
        | MMulti _ | MUnion _ => munion f [a; b]
        | _ =>
            match single_or_l a b with
            | Some r => Ret r
            | None =>
                if same_cls a b then Raise TypeError
                else match b with
                     | MAny => Ret MAny
                     | MEmpty => Ret a
                     | MMulti _ | MUnion _ => munion f [b; a]
                     | _ => match single_or_r b a with Some r => Ret r | None => Raise TypeError end
                     end
            end
        end
    end
  (* MultiMarker.of( *markers) *)
  with multi_of (fuel : nat) (markers : list marker) {struct fuel} : pyres marker :=
    match fuel with
    | O => Raise Unfueled
    | S f => of_body is_empty is_any MEmpty MAny sub_multi mk_multi is_union (mand f) (intersect_simplify f) (S f) markers
    end
  (* MarkerUnion.of( *markers) *)
  with union_of (fuel : nat) (markers : list marker) {struct fuel} : pyres marker :=
    match fuel with
    | O => Raise Unfueled
    | S f => of_body is_any is_empty MAny MEmpty sub_union mk_union is_multi (mor f) (union_simplify f) (S f) markers
    end
  (* MultiMarker.union_simplify(self, other) : None = Python None *)
  with union_simplify (fuel : nat) (self other : marker) {struct fuel} : pyres (option marker) :=
    match fuel with
    | O => Raise Unfueled
    | S f =>
        match self with
        | MMulti ours =>
            if mem_marker other ours then Ret (Some other)
            else match other with
                 | MMulti theirs =>
                     let our := set_of ours in let their := set_of theirs in
                     if subset our their then Ret (Some self)
                     else if subset their our then Ret (Some other)
                     else
                       let shared := filter (fun x => mem_marker x their) our in
                       match shared with
                       | [] => Ret None
                       | _ =>
                           let unique := perm (filter (fun x => negb (mem_marker x their)) our) in
                           let other_unique := perm (filter (fun x => negb (mem_marker x our)) their) in
                           uu <- mor f (mk_multi unique) (mk_multi other_unique) ;;
                           if is_single uu || is_any uu then
                             let common := filter (fun m => mem_marker m shared) ours in
                             r <- mand f uu (mk_multi common) ;; Ret (Some r)
                           else Ret None
                       end
                 | _ => Ret None
                 end
        | _ => Raise AttributeError
        end
    end
  (* MarkerUnion.intersect_simplify(self, other) *)
  with intersect_simplify (fuel : nat) (self other : marker) {struct fuel} : pyres (option marker) :=
    match fuel with
    | O => Raise Unfueled
    | S f =>
        match self with
        | MUnion ours =>
            if mem_marker other ours then Ret (Some other)
            else match other with
                 | MUnion theirs =>
                     let our := set_of ours in let their := set_of theirs in
                     if subset our their then Ret (Some self)
                     else if subset their our then Ret (Some other)
                     else
                       let shared := filter (fun x => mem_marker x their) our in
                       match shared with
                       | [] => Ret None
                       | _ =>
                           let unique := perm (filter (fun x => negb (mem_marker x their)) our) in
                           let other_unique := perm (filter (fun x => negb (mem_marker x our)) their) in
                           ui <- mand f (mk_union unique) (mk_union other_unique) ;;
                           if is_single ui || is_empty ui then
                             let common := filter (fun m => mem_marker m shared) ours in
                             r <- mor f ui (mk_union common) ;; Ret (Some r)
                           else Ret None
                       end
                 | _ => Ret None
                 end
        | _ => Raise AttributeError
        end
    end
  with cnf (fuel : nat) (m : marker) {struct fuel} : pyres marker :=
    match fuel with
    | O => Raise Unfueled
    | S f =>
        match m with
        | MUnion l =>
            cs <- mapM (cnf f) l ;;
            let lists := map (fun c => match c with MMulti x => x | _ => [c] end) cs in
            us <- mapM (union_of f) (nprod lists) ;;
            multi_of f us
        | MMulti l => cs <- mapM (cnf f) l ;; multi_of f cs
        | _ => Ret m
        end
    end
  with dnf (fuel : nat) (m : marker) {struct fuel} : pyres marker :=
    match fuel with
    | O => Raise Unfueled
    | S f =>
        match m with
        | MMulti l =>
            ds <- mapM (dnf f) l ;;
            let lists := map (fun d => match d with MUnion x => x | _ => [d] end) ds in
            ms <- mapM (multi_of f) (nprod lists) ;;
            union_of f ms
        | MUnion l => ds <- mapM (dnf f) l ;; union_of f ds
        | _ => Ret m
        end
    end
  (* utils.union( *markers) *)
  with munion (fuel : nat) (markers : list marker) {struct fuel} : pyres marker :=
    match fuel with
    | O => Raise Unfueled
    | S f =>
        let raw := mk_union (filter (fun m => negb (is_empty m)) markers) in
        (* while isinstance(unnormalized, (MultiMarker, MarkerUnion)) and len(markers) == 1: unwrap *)
        let unwrap :=
          (fix unwrap (k : nat) (m : marker) : marker :=
             match k with
             | O => m
             | S k' => match m with MMulti [x] | MUnion [x] => unwrap k' x | _ => m end
             end) in
        let unnormalized := unwrap (S f) raw in
        conj <- cnf f unnormalized ;;
        if negb (is_multi conj) then Ret conj
        else
          disj <- dnf f conj ;;
          if negb (is_union disj) then Ret disj
          else
            (* min(disjunction, conjunction, unnormalized, key=complexity): first minimal *)
            let best := if pair_ltb (complexity conj) (complexity disj) then conj else disj in
            Ret (if pair_ltb (complexity unnormalized) (complexity best) then unnormalized else best)
    end.

  Definition intersection (fuel : nat) (ms : list marker) : pyres marker := dnf fuel (mk_multi ms).

  (* ---- only / exclude ---- *)
  Fixpoint mexclude (fuel : nat) (name : str) (m : marker) {struct fuel} : pyres marker :=
    match fuel with
    | O => Raise Unfueled
    | S f =>
        match m with
        | MAtom _ | MEqU _ _ | MNeM _ _ => if str_eqb (single_name m) name then Ret MAny else Ret m
        | MMulti l =>
            new <- mapM (fun x => if is_single x && str_eqb (single_name x) name then Ret None
                                  else r <- mexclude f name x ;; Ret (if is_empty r then None else Some r)) l ;;
            multi_of f (flat_map (fun o => match o with Some x => [x] | None => [] end) new)
        | MUnion l =>
            new <- mapM (fun x => if is_single x && str_eqb (single_name x) name then Ret None
                                  else r <- mexclude f name x ;; Ret (Some r)) l ;;
            match flat_map (fun o => match o with Some x => [x] | None => [] end) new with
            | [] => Ret MAny
            | ms => union_of f ms
            end
        | _ => Ret m
        end
    end.
  Fixpoint monly (fuel : nat) (names : list str) (m : marker) {struct fuel} : pyres marker :=
    match fuel with
    | O => Raise Unfueled
    | S f =>
        match m with
        | MAtom _ | MEqU _ _ | MNeM _ _ => if mem_str (single_name m) names then Ret m else Ret MAny
        | MMulti l => ms <- mapM (monly f names) l ;; multi_of f ms
        | MUnion l => ms <- mapM (monly f names) l ;; union_of f ms
        | _ => Ret m
        end
    end.
End Normaliser.

(* ---- evaluation: an environment gives string variables a value, `extra` a set of names,
        and decides version-like atoms (python_version & co.: packaging's Specifier.contains) ---- *)
Record menv := mkMEnv { sv : str -> str; extras : list str; vatom : atom -> bool }.
Definition atom_eval (e : menv) (a : atom) : bool :=
  if version_like (a_name a) then vatom e a
  else if str_eqb (a_name a) (of_string "extra") then
    match a_op a with MEq => mem_str (a_value a) (extras e) | MNe => negb (mem_str (a_value a) (extras e)) | _ => false end
  else if a_rev a then
    (* "lit" op name: operands swapped back, with the reflected operator already stored *)
    match a_op a with
    | MIn => substr (a_value a) (sv e (a_name a))       (* "lit" in name *)
    | MNotIn => negb (substr (a_value a) (sv e (a_name a)))
    | o => gen_contains o (a_value a) (sv e (a_name a))
    end
  else gen_contains (a_op a) (a_value a) (sv e (a_name a)).
Fixpoint meval (e : menv) (m : marker) : bool :=
  match m with
  | MAny => true
  | MEmpty => false
  | MAtom a => atom_eval e a
  | MEqU n vs => mem_str (sv e n) vs
  | MNeM n vs => negb (mem_str (sv e n) vs)
  | MMulti l => forallb (meval e) l
  | MUnion l => existsb (meval e) l
  end.
