(* Bridge.v — hand-written model of the marker <-> specifier bridge for version-like atoms
   (markers/single.py: MarkerExpression._get_specifier for comparison / compatible-release /
   wildcard operators, MarkerExpression.from_specifier incl. the python_full_version zero
   padding, and the version branch of _evaluate = packaging's Specifier(op value).contains(env value))
   over TOKENISED atoms: (variable, operator, parsed Version).  For `in` / `not in` lists the specifier VIEW is modelled
   (in_view below); their evaluation is string containment (see the known finding pv-in-substring) and is not.
   Tied to the code by the S-bridge stream.  No proofs here. *)
From Coq Require Import List Bool NArith Arith.
From Verif Require Import PyRes Order Str SpecTypes GenSpec Pep440 Corr SpecParse.
Import ListNotations.
Local Open Scope N_scope.

Inductive vname := PV | PFV | PRel.

(* _get_specifier: parse_version_specifier(f"{op}{value}") *)
Definition get_specifier (c : clause) : pyres spec := parse (TAlts [[c]]).

(* _evaluate for a version-valued variable: Specifier(f"{op}{rhs}").contains(lhs) *)
Definition atom_sem (c : clause) (v : version) : bool := clause_sem c v.

(* a literal-on-the-left atom  "lit" op name  (stored with the reflected operator, reversed = True): _evaluate builds the
   specifier from the operator AS WRITTEN and the environment value, and tests the literal: Specifier(f"{op_written}{env}").contains(lit).
   c is the stored clause (reflected operator, literal); only meaningful for a FINAL literal (clause_sem models final candidates). *)
Definition reflect_sop (o : sop) : sop :=
  match o with OpLt => OpGt | OpLe => OpGe | OpGt => OpLt | OpGe => OpLe | o => o end.
(* a wildcard literal ("3.8.*" == name) is no candidate version: packaging answers False for == and for != alike *)
Definition atom_sem_rev (c : clause) (v : version) : bool :=
  match c_op c with
  | OpEqStar | OpNeStar => false
  | _ => clause_sem (mkClause (reflect_sop (c_op c)) v) (c_ver c)
  end.

(* the zero padding of from_specifier for python_full_version: the release segment is padded to X.Y.Z *)
Definition pad_release (v : version) : version :=
  mkVer (epoch v) (release v ++ repeat 0 (3 - List.length (release v))) (pre v) (post v) (dev v).
Definition pad_pfv (c : clause) : clause :=
  match c_op c with
  | OpCompat | OpEqStar | OpNeStar => c
  | _ => if Nat.ltb (List.length (release (c_ver c))) 3 then mkClause (c_op c) (pad_release (c_ver c)) else c
  end.

Inductive fsres := FAny | FEmpty | FNone | FAtom (c : clause).
(* MarkerExpression.from_specifier(name, specifier) *)
Definition from_specifier (name : vname) (s : spec) : pyres fsres :=
  isany <- spec_is_any s ;;
  if isany then Ret FAny else
  isemp <- spec_is_empty s ;;
  if isemp then Ret FEmpty else
  o <- match s with
       | SRange r => range_simplified r
       | SUnion u => union_simplified u
       | _ => Raise Unfueled
       end ;;
  match o with
  | None => Ret FNone
  | Some [] => Raise ValueError                 (* next(iter(())) - unreachable: the unbounded range is_any *)
  | Some (k :: _) => Ret (FAtom (match name with PFV => pad_pfv k | _ => k end))
  end.

(* _merge_single_markers(marker1, marker2, cls) for two atoms on the SAME version-like variable (kind: true = MultiMarker / &) *)
Inductive vmres := VMFirst | VMSecond | VMNone | VMAny | VMEmpty | VMAtom (c : clause).
Definition vmerge_same (kind : bool) (name : vname) (c1 c2 : clause) : pyres vmres :=
  s1 <- get_specifier c1 ;;
  s2 <- get_specifier c2 ;;
  rs <- (if kind then spec_and s1 s2 else spec_or s1 s2) ;;
  e1 <- spec_eq rs s1 ;;
  if e1 then Ret VMFirst else
  e2 <- spec_eq rs s2 ;;
  if e2 then Ret VMSecond else
  fr <- from_specifier name rs ;;
  Ret (match fr with FAny => VMAny | FEmpty => VMEmpty | FNone => VMNone | FAtom k => VMAtom k end).

(* _normalize_python_version_specifier(marker) for a comparison / ~= / wildcard atom on python_version whose operand is a plain
   release N(.N)* (no epoch, no pre/post/dev suffix: the code splits the operand TEXT at dots) *)
Fixpoint strip_to2 (fuel : nat) (r : list N) : list N :=
  match fuel with
  | O => r
  | S f => if Nat.ltb 2 (List.length r) && (last r 1 =? 0) then strip_to2 f (removelast r) else r
  end.
Definition normalize_pv (c : clause) : pyres spec :=
  let r0 := release (c_ver c) in
  match c_op c with
  | OpEqStar | OpNeStar => get_specifier c                               (* "*" in splitted *)
  | op =>
      let r := match op with OpCompat => r0 | _ => strip_to2 (List.length r0) r0 end in
      if Nat.ltb 2 (List.length r) then get_specifier c
      else
        let r2 := if Nat.eqb (List.length r) 1 then r ++ [0] else r in
        match op with
        | OpEq => get_specifier (mkClause OpEqStar (relver 0 r2))
        | OpNe => get_specifier (mkClause OpNeStar (relver 0 r2))
        | OpGt => get_specifier (mkClause OpGe (relver 0 (removelast r2 ++ [last r2 0 + 1])))
        | OpLe => get_specifier (mkClause OpLt (relver 0 (removelast r2 ++ [last r2 0 + 1])))
        | _ => get_specifier (mkClause op (relver 0 r2))
        end
  end.

(* _merge_python_version_single_markers: c_pv on python_version, c_full on python_full_version *)
Definition vmerge_pv (kind : bool) (c_pv c_full : clause) : pyres vmres :=
  ns <- normalize_pv c_pv ;;
  sf <- get_specifier c_full ;;
  rs <- (if kind then spec_and ns sf else spec_or ns sf) ;;
  e <- spec_eq rs ns ;;
  if e then Ret VMFirst                                                   (* the python_version atom is returned *)
  else
    fr <- from_specifier PFV rs ;;
    Ret (match fr with FAny => VMAny | FEmpty => VMEmpty | FNone => VMNone | FAtom k => VMAtom k end).

(* ---- correspondence glue ---- *)
From Verif Require Import CorrParse.
Definition fsres_same (a b : fsres) : bool :=
  match a, b with
  | FAny, FAny | FEmpty, FEmpty | FNone, FNone => true
  | FAtom x, FAtom y => clause_same x y
  | _, _ => false
  end.
Definition vmres_same (a b : vmres) : bool :=
  match a, b with
  | VMFirst, VMFirst | VMSecond, VMSecond | VMNone, VMNone | VMAny, VMAny | VMEmpty, VMEmpty => true
  | VMAtom x, VMAtom y => clause_same x y
  | _, _ => false
  end.
(* _get_specifier for `name in "<list>"` / `name not in "<list>"`: every member (a dotted release, tokenised as its segments)
   with fewer than three segments becomes a wildcard clause for python_version and is zero-padded otherwise -- by TWO zeros
   whatever its length, because `part_num := len(splitted) < 3` binds the Boolean; the clauses are joined by `||` (in, ==)
   or `,` (not in, !=) and parsed. *)
Definition in_item (name : vname) (neg : bool) (r : list N) : clause :=
  if Nat.ltb (List.length r) 3 then
    match name with
    | PV => mkClause (if neg then OpNeStar else OpEqStar) (relver 0 r)
    | _ => mkClause (if neg then OpNe else OpEq) (relver 0 (r ++ [0; 0]))
    end
  else mkClause (if neg then OpNe else OpEq) (relver 0 r).
Definition in_text (name : vname) (neg : bool) (items : list (list N)) : stext :=
  if neg then TAlts [map (in_item name true) items] else TAlts (map (fun r => [in_item name false r]) items).
Definition in_view (name : vname) (neg : bool) (items : list (list N)) : pyres spec := parse (in_text name neg items).

Inductive bcase :=
| BInView (name : vname) (neg : bool) (items : list (list N)) (r : pyres spec)   (* MarkerExpression(name, "in" / "not in", list).specifier *)
| BView (c : clause) (r : pyres spec)                     (* MarkerExpression(name, op, value).specifier *)
| BEval (c : clause) (v : version) (b : bool)             (* MarkerExpression(...).evaluate({name: v}) *)
| BEvalRev (c : clause) (v : version) (b : bool)          (* MarkerExpression(name, reflected op, lit, reversed=True).evaluate({name: v}) *)
| BBack (name : vname) (s : spec) (r : pyres fsres)       (* MarkerExpression.from_specifier(name, s) *)
| BMerge (kind : bool) (name : vname) (c1 c2 : clause) (r : pyres vmres)    (* _merge_single_markers on two atoms of one variable *)
| BMergePV (kind : bool) (c_pv c_full : clause) (r : pyres vmres)           (* ... on a python_version and a python_full_version atom *)
| BNormPV (c : clause) (r : pyres spec).                                    (* _normalize_python_version_specifier *)
Definition check_bcase (c : bcase) : bool :=
  match c with
  | BInView n neg items r => res_same spec_same_s (in_view n neg items) r
  | BView k r => res_same spec_same_s (get_specifier k) r
  | BEval k v b => Bool.eqb (atom_sem k v) b
  | BEvalRev k v b => Bool.eqb (atom_sem_rev k v) b
  | BBack n s r => res_same fsres_same (from_specifier n s) r
  | BMerge k n c1 c2 r => res_same vmres_same (vmerge_same k n c1 c2) r
  | BMergePV k c1 c2 r => res_same vmres_same (vmerge_pv k c1 c2) r
  | BNormPV c r => res_same spec_same_s (normalize_pv c) r
  end.
Fixpoint bmismatches (i : N) (l : list bcase) : list N :=
  match l with
  | [] => []
  | c :: l' => if check_bcase c then bmismatches (N.succ i) l' else i :: bmismatches (N.succ i) l'
  end.
Definition run_bcases (l : list bcase) : N * list N := (N.of_nat (List.length l), bmismatches 0 l).
