(* Corr.v — glue for the correspondence check of the specifier kernel: the harness
   writes a cases file (inputs + what the Python implementation returned), this file
   evaluates the GENERATED model on the same inputs inside Coq (vm_compute) and
   reports the indices of the cases on which model and implementation differ. *)
From Coq Require Import List Bool NArith ZArith Orders.
From Verif Require Import PyRes Order Cuts Str SpecTypes GenSpec Pep440.
Import ListNotations.

Module P := GenSpec Pep440.
Export P.

Definition prekind_eqb (a b : prekind) : bool :=
  match a, b with PA, PA | PB, PB | PRC, PRC => true | _, _ => false end.
Definition opt_eqb {A} (f : A -> A -> bool) (a b : option A) : bool :=
  match a, b with Some x, Some y => f x y | None, None => true | _, _ => false end.
Fixpoint list_eqb {A} (f : A -> A -> bool) (a b : list A) : bool :=
  match a, b with
  | [], [] => true
  | x :: a', y :: b' => f x y && list_eqb f a' b'
  | _, _ => false
  end.
(* field-by-field identity of versions (finer than the order's equivalence) *)
Definition version_same (a b : version) : bool :=
  N.eqb (epoch a) (epoch b) && list_eqb N.eqb (release a) (release b)
  && opt_eqb (fun x y => prekind_eqb (fst x) (fst y) && N.eqb (snd x) (snd y)) (pre a) (pre b)
  && opt_eqb N.eqb (post a) (post b) && opt_eqb N.eqb (dev a) (dev b).
Definition range_same (a b : range) : bool :=
  opt_eqb version_same (rmin a) (rmin b) && opt_eqb version_same (rmax a) (rmax b)
  && Bool.eqb (imin a) (imin b) && Bool.eqb (imax a) (imax b)
  && Bool.eqb (is_none (rsimp a)) (is_none (rsimp b)).
Definition gop_eqb (a b : gop) : bool :=
  match a, b with
  | GEq, GEq | GNe, GNe | GIn, GIn | GNotIn, GNotIn | GGt, GGt | GGe, GGe | GLt, GLt | GLe, GLe
  | GOther, GOther => true
  | _, _ => false
  end.
Definition spec_same (a b : spec) : bool :=
  match a, b with
  | SEmpty, SEmpty | SAny, SAny => true
  | SRange x, SRange y => range_same x y
  | SUnion x, SUnion y => list_eqb range_same (uranges x) (uranges y)
                          && Bool.eqb (is_none (usimp x)) (is_none (usimp y))
  | SArb x, SArb y => str_eqb x y
  | SGeneric x, SGeneric y => gop_eqb (g_op x) (g_op y) && str_eqb (g_value x) (g_value y)
  | _, _ => false
  end.
Definition res_same {A} (f : A -> A -> bool) (a b : pyres A) : bool :=
  match a, b with
  | Ret x, Ret y => f x y
  | NotImpl, NotImpl => true
  | Raise e, Raise e' => exn_eqb e e'
  | _, _ => false
  end.

(* one observation of the implementation *)
Inductive case :=
| CAnd (a b : spec) (r : pyres spec)
| COr (a b : spec) (r : pyres spec)
| CInv (a : spec) (r : pyres spec)
| CEq (a b : spec) (r : pyres bool)
| CIsEmpty (a : spec) (r : pyres bool)
| CIsAny (a : spec) (r : pyres bool)
| CHashEq (a b : spec) (r : bool)        (* hash(a) == hash(b) observed *)
| CVerCmp (a b : version) (lt eq hash_eq : bool)
| CRangeAllowsLower (a b : range) (r : pyres bool)
| CRangeAllowsHigher (a b : range) (r : pyres bool)
| CRangeStrictlyLower (a b : range) (r : pyres bool)
| CRangeAdjacent (a b : range) (r : pyres bool)
| CRangeSuperset (a b : range) (r : pyres bool)
| CRangeCanCombine (a b : range) (r : pyres bool)
| CMkRange (m M : option version) (im iM : bool) (ok : bool).

(* structural equality of hash keys (version keys compared by the order's key) *)
Fixpoint hk_eqb (a b : hk) : bool :=
  match a, b with
  | HNone, HNone => true
  | HBool x, HBool y => Bool.eqb x y
  | HStr x, HStr y => str_eqb x y
  | HVer x, HVer y => veqb x y
  | HOp x, HOp y => gop_eqb x y
  | HTuple x, HTuple y =>
      (fix go (x y : list hk) : bool :=
         match x, y with
         | [], [] => true
         | p :: x', q :: y' => hk_eqb p q && go x' y'
         | _, _ => false
         end) x y
  | _, _ => false
  end.

Definition check_case (c : case) : bool :=
  match c with
  | CAnd a b r => res_same spec_same (spec_and a b) r
  | COr a b r => res_same spec_same (spec_or a b) r
  | CInv a r => res_same spec_same (spec_invert a) r
  | CEq a b r => res_same Bool.eqb (spec_eq a b) r
  | CIsEmpty a r => res_same Bool.eqb (spec_is_empty a) r
  | CIsAny a r => res_same Bool.eqb (spec_is_any a) r
  | CHashEq a b r =>
      (* equal hash keys must give equal hashes; unequal keys are expected to differ *)
      Bool.eqb (hk_eqb (spec_hkey a) (spec_hkey b)) r
  | CVerCmp a b l e h =>
      Bool.eqb (vltb a b) l && Bool.eqb (veqb a b) e && Bool.eqb (veqb a b) h
  | CRangeAllowsLower a b r => res_same Bool.eqb (range_allows_lower a b) r
  | CRangeAllowsHigher a b r => res_same Bool.eqb (range_allows_higher a b) r
  | CRangeStrictlyLower a b r => res_same Bool.eqb (range_is_strictly_lower a b) r
  | CRangeAdjacent a b r => res_same Bool.eqb (range_is_adjacent_to a b) r
  | CRangeSuperset a b r => res_same Bool.eqb (range_is_superset a b) r
  | CRangeCanCombine a b r => res_same Bool.eqb (range_can_combine a b) r
  | CMkRange m M im iM ok => Bool.eqb (is_ret (mk_range m M im iM None)) ok
  end.

Fixpoint mismatches (i : N) (l : list case) : list N :=
  match l with
  | [] => []
  | c :: l' => if check_case c then mismatches (N.succ i) l' else i :: mismatches (N.succ i) l'
  end.
Definition run_cases (l : list case) : N * list N := (N.of_nat (length l), mismatches 0 l).

(* short constructors for the harness *)
Definition V_ (e : N) (r : list N) (pr : option (prekind * N)) (po dv : option N) : version := mkVer e r pr po dv.
Definition R_ (m M : option version) (im iM : bool) : range := mkRangeRaw m M im iM None.
Definition U_ (l : list range) : spec := SUnion (mkUnionRaw l None).
