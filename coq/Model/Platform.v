(* Platform.v — hand-written model of dep_logic/tags/platform.py: Arch, the Os classes
   the properties quantify over, Platform.compatible_tags, and EnvSpec._evaluate_platform,
   over STRUCTURED tags with a renderer to the tag strings.  Tied to the code by the
   S-plat stream, exhaustive over the configuration grid of C09.  No proofs here. *)
From Coq Require Import List Bool NArith Arith String DecimalString Lia.
From Verif Require Import PyRes Str.
Import ListNotations.
Local Open Scope N_scope.

Inductive arch := Aarch64 | Armv6L | Armv7L | Powerpc64Le | Powerpc64 | X86 | X86_64 | S390X | RISCV64 | LoongArch64.
Inductive os := Manylinux (major minor : N) | Musllinux (major minor : N) | Macos (major minor : N) | Windows.
Record platform := mkPlatform { p_os : os; p_arch : arch }.

Inductive legacy := L1 | L2010 | L2014.
Inductive macfmt := FArch (a : arch) | FIntel | FFat64 | FFat32 | FUniversal2 | FUniversal.
Inductive ptag :=
| TManylinux (major minor : N) (a : arch)
| TLegacy (l : legacy) (a : arch)
| TLinux (a : arch)
| TMusllinux (major minor : N) (a : arch)
| TMac (major minor : N) (f : macfmt)
| TWin32 | TWinAmd64 | TWinArm64
| TAny.

(* Arch.get_minimum_manylinux_minor *)
Definition min_manylinux_minor (a : arch) : option N :=
  match a with
  | Aarch64 | Armv7L | Powerpc64 | Powerpc64Le | S390X | RISCV64 => Some 17
  | X86 | X86_64 => Some 5
  | Armv6L | LoongArch64 => None
  end.

(* Arch.get_mac_binary_formats *)
Definition mac_binary_formats (a : arch) : list macfmt :=
  (match a with Aarch64 => [FArch Aarch64] | _ => [FArch a] end)
  ++ (match a with X86_64 => [FIntel; FFat64; FFat32] | _ => [] end)
  ++ (match a with X86_64 | Aarch64 => [FUniversal2] | _ => [] end)
  ++ (match a with X86_64 => [FUniversal] | _ => [] end).

(* hi, hi-1, ... : n elements *)
Fixpoint desc_n (n : nat) (hi : N) : list N :=
  match n with
  | O => []
  | S n' => hi :: desc_n n' (hi - 1)
  end.
(* Python range(hi, lo - 1, -1): hi down to lo inclusive; empty when hi < lo *)
Definition desc (hi lo : N) : list N :=
  if hi <? lo then [] else desc_n (S (N.to_nat (hi - lo))) hi.

Definition manylinux_block (major : N) (a : arch) (k : N) : list ptag :=
  TManylinux major k a
    :: (if k =? 12 then [TLegacy L2010 a] else [])
    ++ (if k =? 17 then [TLegacy L2014 a] else [])
    ++ (if k =? 5 then [TLegacy L1 a] else []).

Definition compatible_tags (p : platform) : pyres (list ptag) :=
  let a := p_arch p in
  match p_os p with
  | Manylinux major minor =>
      Ret ((match min_manylinux_minor a with
            | Some f => flat_map (manylinux_block major a) (desc minor f)
            | None => []
            end) ++ [TLinux a])
  | Musllinux major minor =>
      (* range(1, minor + 1): ascending *)
      Ret (TLinux a :: map (fun k => TMusllinux major k a) (rev (desc minor 1)))
  | Macos major minor =>
      match a with
      | X86_64 =>
          if major =? 10 then
            Ret (flat_map (fun m => map (TMac 10 m) (mac_binary_formats a)) (desc minor 4))
          else if 11 <=? major then
            Ret (flat_map (fun M => map (TMac M 0) (mac_binary_formats a)) (desc major 11)
                 ++ flat_map (fun m => map (TMac 10 m) (mac_binary_formats a)) (desc 16 4))
          else Raise PlatformError
      | Aarch64 =>
          Ret (flat_map (fun M => map (TMac M 0) (mac_binary_formats a)) (desc major 11)
               ++ map (fun m => TMac 10 m FUniversal2) (desc 16 4))
      | _ => Raise PlatformError
      end
  | Windows =>
      match a with
      | X86 => Ret [TWin32]
      | X86_64 => Ret [TWinAmd64]
      | Aarch64 => Ret [TWinArm64]
      | _ => Raise PlatformError
      end
  end.

Definition arch_eqb (a b : arch) : bool :=
  match a, b with
  | Aarch64, Aarch64 | Armv6L, Armv6L | Armv7L, Armv7L | Powerpc64Le, Powerpc64Le | Powerpc64, Powerpc64
  | X86, X86 | X86_64, X86_64 | S390X, S390X | RISCV64, RISCV64 | LoongArch64, LoongArch64 => true
  | _, _ => false
  end.
Definition legacy_eqb (a b : legacy) : bool :=
  match a, b with L1, L1 | L2010, L2010 | L2014, L2014 => true | _, _ => false end.
Definition macfmt_eqb (a b : macfmt) : bool :=
  match a, b with
  | FArch x, FArch y => arch_eqb x y
  | FIntel, FIntel | FFat64, FFat64 | FFat32, FFat32 | FUniversal2, FUniversal2 | FUniversal, FUniversal => true
  | _, _ => false
  end.
Definition ptag_eqb (a b : ptag) : bool :=
  match a, b with
  | TManylinux x y z, TManylinux x' y' z' => (x =? x') && (y =? y') && arch_eqb z z'
  | TLegacy l z, TLegacy l' z' => legacy_eqb l l' && arch_eqb z z'
  | TLinux z, TLinux z' => arch_eqb z z'
  | TMusllinux x y z, TMusllinux x' y' z' => (x =? x') && (y =? y') && arch_eqb z z'
  | TMac x y f, TMac x' y' f' => (x =? x') && (y =? y') && macfmt_eqb f f'
  | TWin32, TWin32 | TWinAmd64, TWinAmd64 | TWinArm64, TWinArm64 | TAny, TAny => true
  | _, _ => false
  end.

(* list.index *)
Fixpoint index_of (t : ptag) (l : list ptag) : option nat :=
  match l with
  | [] => None
  | x :: l' => if ptag_eqb x t then Some O else option_map S (index_of t l')
  end.

(* EnvSpec._evaluate_platform with a platform: len(tags + ["any"]) - index *)
Definition evaluate_platform (p : platform) (t : ptag) : pyres (option nat) :=
  tags <- compatible_tags p ;;
  let all := tags ++ [TAny] in
  Ret (match index_of t all with
       | None => None
       | Some i => Some (List.length all - i)%nat
       end).

(* ---- rendering to the tag strings (for the correspondence) ---- *)
Definition dec (n : N) : str := of_string (NilZero.string_of_uint (N.to_uint n)).
Definition arch_str (a : arch) : str :=
  of_string (match a with
             | Aarch64 => "aarch64" | Armv6L => "armv6l" | Armv7L => "armv7l" | Powerpc64Le => "ppc64le"
             | Powerpc64 => "ppc64" | X86 => "x86" | X86_64 => "x86_64" | S390X => "s390x" | RISCV64 => "riscv64"
             | LoongArch64 => "loongarch64"
             end)%string.
Definition fmt_str (f : macfmt) : str :=
  match f with
  | FArch Aarch64 => of_string "arm64"
  | FArch a => arch_str a
  | FIntel => of_string "intel" | FFat64 => of_string "fat64" | FFat32 => of_string "fat32"
  | FUniversal2 => of_string "universal2" | FUniversal => of_string "universal"
  end.
Definition us : str := of_string "_".
Definition render (t : ptag) : str :=
  match t with
  | TManylinux x y a => of_string "manylinux_" ++ dec x ++ us ++ dec y ++ us ++ arch_str a
  | TLegacy L1 a => of_string "manylinux1_" ++ arch_str a
  | TLegacy L2010 a => of_string "manylinux2010_" ++ arch_str a
  | TLegacy L2014 a => of_string "manylinux2014_" ++ arch_str a
  | TLinux a => of_string "linux_" ++ arch_str a
  | TMusllinux x y a => of_string "musllinux_" ++ dec x ++ us ++ dec y ++ us ++ arch_str a
  | TMac x y f => of_string "macosx_" ++ dec x ++ us ++ dec y ++ us ++ fmt_str f
  | TWin32 => of_string "win32" | TWinAmd64 => of_string "win_amd64" | TWinArm64 => of_string "win_arm64"
  | TAny => of_string "any"
  end.
