(* SpecParse.v — hand-written model of dep_logic/specifiers/__init__.py (_prefix_bounds,
   _from_pkg_specifier, from_specifierset, parse_version_specifier), of the rendering side
   (RangeSpecifier._simplified_form / __str__, UnionSpecifier._simplified_form / __str__,
   utils.pad_zeros / first_different_index) and of contains() (= packaging on the rendered
   text), at the level of STRUCTURED clauses: a clause is (operator, parsed Version); the
   text layer (packaging's tokeniser, str(Version), Version(text)) is packaging's and is
   observed, not modelled: the S-parse stream compares this model with the implementation
   on texts, parsing the implementation's rendered strings back into clauses.
   `&` and `|` are the GENERATED operators.  ArbitrarySpecifier (`===`) is outside this model.
   No proofs here. *)
From Coq Require Import List Bool NArith Arith.
From Verif Require Import PyRes Order Str SpecTypes GenSpec Pep440 Corr.
Import ListNotations.
Local Open Scope N_scope.

Definition relver (e : N) (r : list N) : version := mkVer e r None None None.

(* _prefix_bounds(version, drop) *)
Definition prefix_bounds (v : version) (drop : nat) : pyres (version * version) :=
  let rel := firstn (List.length (release v) - drop) (release v) in
  match rev rel with
  | [] => Raise IndexError                      (* release[-1] of an empty list *)
  | lastseg :: before_rev =>
      Ret (relver (epoch v) (rel ++ [0]), relver (epoch v) (rev before_rev ++ [lastseg + 1; 0]))
  end.

Definition any_range : range := mkRangeRaw None None false false None.

(* _from_pkg_specifier; for OpEqStar / OpNeStar the clause's version is Version(text[:-2]) *)
Definition from_pkg (c : clause) : pyres spec :=
  let v := c_ver c in
  match c_op c with
  | OpGe => r <- mk_range (Some v) None true false (Some c) ;; Ret (SRange r)
  | OpGt => r <- mk_range (Some v) None false false (Some c) ;; Ret (SRange r)
  | OpLe => r <- mk_range None (Some v) false true (Some c) ;; Ret (SRange r)
  | OpLt => r <- mk_range None (Some v) false false (Some c) ;; Ret (SRange r)
  | OpEq => r <- mk_range (Some v) (Some v) true true (Some c) ;; Ret (SRange r)
  | OpEqStar =>
      b <- prefix_bounds v 0 ;;
      r <- mk_range (Some (fst b)) (Some (snd b)) true false (Some c) ;; Ret (SRange r)
  | OpCompat =>
      b <- prefix_bounds v 1 ;;
      r <- mk_range (Some v) (Some (snd b)) true false (Some c) ;; Ret (SRange r)
  | OpNe =>
      l <- mk_range None (Some v) false false None ;;
      r <- mk_range (Some v) None false false None ;;
      Ret (SUnion (mk_union [l; r] (Some c)))
  | OpNeStar =>
      b <- prefix_bounds v 0 ;;
      l <- mk_range None (Some (fst b)) false false None ;;
      r <- mk_range (Some (snd b)) None true false None ;;
      Ret (SUnion (mk_union [l; r] (Some c)))
  end.

(* from_specifierset: functools.reduce(operator.and_, map(_from_pkg_specifier, spec), RangeSpecifier());
   the clauses come in the iteration order of the SpecifierSet *)
Fixpoint and_fold (acc : spec) (cs : list clause) : pyres spec :=
  match cs with
  | [] => Ret acc
  | c :: rest => s <- from_pkg c ;; acc' <- spec_and acc s ;; and_fold acc' rest
  end.
Definition from_specifierset (cs : list clause) : pyres spec := and_fold (SRange any_range) cs.

(* what a specifier text is, once packaging has tokenised it *)
Inductive stext :=
| TEmpty                                  (* "<empty>" *)
| TAlts (alts : list (list clause)).      (* a1 || a2 || ... ; one alternative = one comma-separated set *)

(* parse_version_specifier: reduce(operator.or_, map(parse, spec.split("||"))) *)
Fixpoint or_fold (acc : spec) (alts : list (list clause)) : pyres spec :=
  match alts with
  | [] => Ret acc
  | a :: rest => s <- from_specifierset a ;; acc' <- spec_or acc s ;; or_fold acc' rest
  end.
Definition parse (t : stext) : pyres spec :=
  match t with
  | TEmpty => Ret SEmpty
  | TAlts [] => Raise ValueError                 (* str.split never returns an empty list *)
  | TAlts (a :: rest) => s <- from_specifierset a ;; or_fold s rest
  end.

(* ---- utils.pad_zeros / first_different_index ---- *)
Definition pad_zeros (parts : list N) (to_length : nat) : list N :=
  if Nat.leb to_length (List.length parts) then parts else parts ++ repeat 0 (to_length - List.length parts).
(* for index, (a, b) in enumerate(zip(l1, l2)): if a != b: return index;  return index + 1 *)
Fixpoint first_diff_from (i : nat) (a b : list N) : nat :=
  match a, b with
  | x :: a', y :: b' => if x =? y then first_diff_from (S i) a' b' else i
  | _, _ => i
  end.
Definition first_different_index (a b : list N) : nat :=
  match a, b with
  | _ :: _, _ :: _ => first_diff_from 0 a b
  | _, _ => 1%nat                                 (* empty zip: index stays 0, returns index + 1 *)
  end.

Definition is_prerelease (v : version) : bool := negb (is_none (pre v)) || negb (is_none (dev v)).
Definition is_postrelease (v : version) : bool := negb (is_none (post v)).
Definition nth0 (l : list N) (i : nat) : N := nth i l 0.

(* the `~=` test of RangeSpecifier._simplified_form on min and max (both present, min != max, [min, max) ) *)
Definition tilde_ok (m M : version) : bool :=
  let min_stable0 := epoch m :: release m in
  let max_stable0 := epoch M :: release M in
  let max_length := Nat.max (List.length min_stable0) (List.length max_stable0) in
  let min_stable := pad_zeros min_stable0 max_length in
  let max_stable := pad_zeros max_stable0 max_length in
  let fd := first_different_index min_stable max_stable in
  if Nat.leb (List.length min_stable - 1) fd || Nat.eqb fd 0 then false      (* all equal, or only the last one differs, or the epochs differ *)
  else if negb (nth0 max_stable fd - nth0 min_stable fd =? 1) || (nth0 max_stable fd <? nth0 min_stable fd) then false
  else all_zero (skipn (S fd) max_stable) && negb (is_prerelease M) && Nat.eqb (List.length (release m)) (S fd).

(* RangeSpecifier._simplified_form: None = not simple; Some l = the clauses of the text ("" = []) *)
Definition range_simplified (r : range) : pyres (option (list clause)) :=
  match rsimp r with
  | Some c => Ret (Some [c])
  | None =>
      match rmin r, rmax r with
      | None, None => Ret (Some [])
      | None, Some M => Ret (Some [mkClause (if imax r then OpLe else OpLt) M])
      | Some m, None => Ret (Some [mkClause (if imin r then OpGe else OpGt) m])
      | Some m, Some M =>
          if veqb m M then Ret (Some [mkClause OpEq m])
          else if negb (imin r) || imax r then Ret None
          else if tilde_ok m M then Ret (Some [mkClause OpCompat m]) else Ret None
      end
  end.

(* the clauses of SpecifierSet(str(range)) *)
Definition range_clauses (r : range) : pyres (list clause) :=
  s <- range_simplified r ;;
  match s with
  | Some l => Ret l
  | None =>
      match rmin r, rmax r with
      | Some m, Some M => Ret [mkClause (if imin r then OpGe else OpGt) m; mkClause (if imax r then OpLe else OpLt) M]
      | _, _ => Raise TypeError                 (* unreachable: one-sided ranges are always simple *)
      end
  end.

(* the `!=X.*` test of UnionSpecifier._simplified_form on left.max and right.min: the prefix X, if any *)
Definition nestar_prefix (lM rm : version) : pyres (option version) :=
  if is_prerelease lM || is_prerelease rm || is_postrelease lM || is_postrelease rm then Ret None
  else
    let left_stable0 := epoch lM :: release lM in
    let right_stable0 := epoch rm :: release rm in
    let max_length := Nat.max (List.length left_stable0) (List.length right_stable0) in
    let left_stable := pad_zeros left_stable0 max_length in
    let right_stable := pad_zeros right_stable0 max_length in
    let fd := first_different_index left_stable right_stable in
    if Nat.ltb 0 fd && Nat.leb (List.length right_stable) fd then Raise IndexError      (* right_stable[first_different] *)
    else if Nat.ltb 0 fd && (nth0 right_stable fd - nth0 left_stable fd =? 1) && negb (nth0 right_stable fd <? nth0 left_stable fd)
            && all_zero (skipn (S fd) left_stable ++ skipn (S fd) right_stable)
            && negb (Nat.eqb (List.length (skipn (S fd) left_stable ++ skipn (S fd) right_stable)) 0)
    then Ret (Some (relver (epoch lM) (firstn fd (tl left_stable))))
    else Ret None.

(* UnionSpecifier._simplified_form *)
Definition union_simplified (u : union) : pyres (option (list clause)) :=
  match usimp u with
  | Some c => Ret (Some [c])
  | None =>
      match uranges u with
      | [lft; rgt] =>
          if is_none (rmin lft) && is_none (rmax rgt) && ver_eq_o (rmax lft) (rmin rgt) && negb (is_none (rmax lft))
          then match rmax lft with Some M => Ret (Some [mkClause OpNe M]) | None => Raise AttributeError end
          else
            match rmin lft, rmax rgt, rmax lft, rmin rgt with
            | None, None, Some lM, Some rm =>
                if negb (imax lft) && imin rgt then
                  o <- nestar_prefix lM rm ;;
                  Ret (match o with Some p => Some [mkClause OpNeStar p] | None => None end)
                else Ret None
            | _, _, _, _ => Ret None
            end
      | _ :: _ :: _ :: _ => Ret None
      | _ => Raise ValueError                     (* left, right, *rest = self.ranges with fewer than two ranges *)
      end
  end.

(* str(s), as the structured text a later parse sees *)
Fixpoint mapM_ {A B} (f : A -> pyres B) (l : list A) : pyres (list B) :=
  match l with [] => Ret [] | x :: xs => y <- f x ;; ys <- mapM_ f xs ;; Ret (y :: ys) end.
Definition render (s : spec) : pyres stext :=
  match s with
  | SEmpty => Ret TEmpty
  | SAny => Ret (TAlts [[]])
  | SRange r => l <- range_clauses r ;; Ret (TAlts [l])
  | SUnion u =>
      o <- union_simplified u ;;
      match o with
      | Some l => Ret (TAlts [l])
      | None => ls <- mapM_ range_clauses (uranges u) ;; Ret (TAlts ls)
      end
  | SArb _ | SGeneric _ => Raise Unfueled         (* outside this model *)
  end.

(* ---- packaging: Specifier(op, V).contains(v) for a FINAL release v (no pre/post/dev/local), the
        candidates C04 quantifies over; for those the pre-/post-release exclusion rules are vacuous ---- *)
Definition pad_to (l : list N) (n : nat) : list N := l ++ repeat 0 (n - List.length l).
Definition list_N_eqb := list_eqb N.eqb.
Definition prefix_match (p v : version) : bool :=
  (epoch p =? epoch v) && list_N_eqb (firstn (List.length (release p)) (pad_to (release v) (List.length (release p)))) (release p).
Definition clause_sem (c : clause) (v : version) : bool :=
  let V := c_ver c in
  match c_op c with
  | OpGe => vleb V v
  | OpGt => vltb V v
  | OpLe => vleb v V
  | OpLt => vltb v V
  | OpEq => veqb V v
  | OpNe => negb (veqb V v)
  | OpEqStar => prefix_match V v
  | OpNeStar => negb (prefix_match V v)
  | OpCompat => vleb V v && prefix_match (relver (epoch V) (removelast (release V))) v
  end.
Definition set_sem (cs : list clause) (v : version) : bool := forallb (fun c => clause_sem c v) cs.

(* contains(): RangeSpecifier.contains = SpecifierSet(str(self)).contains; UnionSpecifier.contains = any(range.contains) *)
Definition spec_contains (s : spec) (v : version) : pyres bool :=
  match s with
  | SEmpty => Ret false
  | SAny => Ret true
  | SRange r => l <- range_clauses r ;; Ret (set_sem l v)
  | SUnion u => ls <- mapM_ range_clauses (uranges u) ;; Ret (existsb (fun l => set_sem l v) ls)
  | SArb _ | SGeneric _ => Raise Unfueled
  end.
