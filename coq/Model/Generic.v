(* Generic.v — hand-written model of dep_logic/specifiers/generic.py (GenericSpecifier:
   the specifier view of string-valued marker atoms).  Function for function; tied to
   the code by the exhaustive S-generic correspondence stream.  No proofs here. *)
From Coq Require Import List Bool Arith NArith Orders.
From Verif Require Import PyRes Order Str SpecTypes GenSpec Pep440.
Import ListNotations.

Module GenericModel (V : OrderedTypeFull').
  Module G := GenSpec V.
  Export G.

  (* __post_init__: `if self.op not in self._op_map: raise InvalidSpecifier` *)
  Definition mk_generic (op : gop) (value : str) : pyres generic :=
    match op with
    | GOther => Raise InvalidSpecifier
    | _ => Ret (mkGenericRaw op value)
    end.

  (* op_order.get(x.op, len(op_order)) *)
  Definition op_order (o : gop) : nat :=
    match o with GEq => 0 | GNe => 1 | GIn => 2 | GNotIn => 3 | _ => 4 end.

  Definition gop_eqb (a b : gop) : bool :=
    match a, b with
    | GEq, GEq | GNe, GNe | GIn, GIn | GNotIn, GNotIn | GGt, GGt | GGe, GGe | GLt, GLt | GLe, GLe
    | GOther, GOther => true
    | _, _ => false
    end.
  (* dataclass __eq__ on (op, value) *)
  Definition generic_eqb (a b : generic) : bool := gop_eqb (g_op a) (g_op b) && str_eqb (g_value a) (g_value b).

  (* sorted((self, other), key=op_order): stable, ascending *)
  Definition sorted2 (a b : generic) : generic * generic :=
    if Nat.ltb (op_order (g_op b)) (op_order (g_op a)) then (b, a) else (a, b).

  (* _op_map[self.op](value, self.value) *)
  Definition generic_contains (g : generic) (value : str) : pyres bool :=
    match g_op g with
    | GEq => Ret (str_eqb value (g_value g))
    | GNe => Ret (negb (str_eqb value (g_value g)))
    | GIn => Ret (substr value (g_value g))
    | GNotIn => Ret (negb (substr value (g_value g)))
    | GGt => Ret (str_ltb (g_value g) value)
    | GGe => Ret (negb (str_ltb value (g_value g)))
    | GLt => Ret (str_ltb value (g_value g))
    | GLe => Ret (negb (str_ltb (g_value g) value))
    | GOther => Raise KeyError
    end.

  Definition generic_invert (g : generic) : pyres spec :=
    let op := match g_op g with
              | GEq => Some GNe | GNe => Some GEq | GNotIn => Some GIn | GIn => Some GNotIn
              | GLt => Some GGe | GLe => Some GGt | GGt => Some GLe | GGe => Some GLt
              | GOther => None
              end in
    match op with
    | Some o => x <- mk_generic o (g_value g) ;; Ret (SGeneric x)
    | None => Raise KeyError
    end.

  Definition generic_and (self : generic) (other : spec) : pyres spec :=
    match other with
    | SGeneric o =>
        if generic_eqb self o then Ret (SGeneric self) else
        let '(this, that) := sorted2 self o in
        match g_op this, g_op that with
        | GEq, GEq => Ret SEmpty
        | GEq, GNe => if str_eqb (g_value this) (g_value that) then Ret SEmpty else Ret (SGeneric this)
        | GIn, GNotIn => if str_eqb (g_value this) (g_value that) then Ret SEmpty else Raise NotImplementedError
        | GEq, GIn => if substr (g_value this) (g_value that) then Ret (SGeneric this) else Ret SEmpty
        | GNe, GNotIn => if substr (g_value this) (g_value that) then Ret (SGeneric that) else Raise NotImplementedError
        | _, _ => Raise NotImplementedError
        end
    | _ => NotImpl
    end.

  Definition generic_or (self : generic) (other : spec) : pyres spec :=
    match other with
    | SGeneric o =>
        if generic_eqb self o then Ret (SGeneric self) else
        let '(this, that) := sorted2 self o in
        match g_op this, g_op that with
        | GEq, GNe => if str_eqb (g_value this) (g_value that) then Ret SAny else Ret (SGeneric that)
        | GNe, GNe => Ret SAny
        | GIn, GNotIn => if str_eqb (g_value this) (g_value that) then Ret SAny else Raise NotImplementedError
        | GNe, GIn => if substr (g_value this) (g_value that) then Ret SAny else Raise NotImplementedError
        | GNe, GNotIn => if substr (g_value this) (g_value that) then Ret (SGeneric this) else Ret SAny
        | GEq, GIn => if substr (g_value this) (g_value that) then Ret (SGeneric that) else Raise NotImplementedError
        | _, _ => Raise NotImplementedError
        end
    | _ => NotImpl
    end.

  (* `value in spec` for the specifier classes a string atom can produce; Empty/Any go
     through the GENERATED special.py methods *)
  Definition contains_str (s : spec) (value : str) : pyres bool :=
    match s with
    | SGeneric g => generic_contains g value
    | _ => spec_contains_str s value
    end.

  (* a & b / a | b with Generic operands: Generic defines no reflected methods;
     Empty/Any define both (generated) *)
  Definition gspec_and (a b : spec) : pyres spec :=
    dispatch same_class
      (fun a b => match a with SGeneric g => generic_and g b | SEmpty => empty_and b | SAny => any_and b | _ => NotImpl end)
      (fun b a => match b with SEmpty => empty_and a | SAny => any_and a | _ => NotImpl end) a b.
  Definition gspec_or (a b : spec) : pyres spec :=
    dispatch same_class
      (fun a b => match a with SGeneric g => generic_or g b | SEmpty => empty_or b | SAny => any_or b | _ => NotImpl end)
      (fun b a => match b with SEmpty => empty_or a | SAny => any_or a | _ => NotImpl end) a b.
End GenericModel.
