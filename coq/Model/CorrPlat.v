(* CorrPlat.v — correspondence glue for Model/Platform.v (stream S-plat). *)
From Coq Require Import List Bool NArith.
From Verif Require Import PyRes Str Platform.
Import ListNotations.

Inductive pcase :=
| PTags (p : platform) (r : pyres (list str))
| PScore (p : platform) (idx : nat) (r : option nat).   (* _evaluate_platform of the idx-th tag of tags ++ [any] *)

Fixpoint strs_eqb (a b : list str) : bool :=
  match a, b with
  | [], [] => true
  | x :: a', y :: b' => str_eqb x y && strs_eqb a' b'
  | _, _ => false
  end.

Definition check_pcase (c : pcase) : bool :=
  match c with
  | PTags p r =>
      match compatible_tags p, r with
      | Ret l, Ret l' => strs_eqb (map render l) l'
      | Raise e, Raise e' => exn_eqb e e'
      | _, _ => false
      end
  | PScore p idx r =>
      match compatible_tags p with
      | Ret l =>
          match nth_error (l ++ [TAny]) idx with
          | Some t => match evaluate_platform p t, r with
                      | Ret (Some x), Some y => Nat.eqb x y
                      | Ret None, None => true
                      | _, _ => false
                      end
          | None => false
          end
      | _ => false
      end
  end.

Fixpoint pmismatches (i : N) (l : list pcase) : list N :=
  match l with
  | [] => []
  | c :: l' => if check_pcase c then pmismatches (N.succ i) l' else i :: pmismatches (N.succ i) l'
  end.
Definition run_pcases (l : list pcase) : N * list N := (N.of_nat (length l), pmismatches 0 l).
