(* PlatParse.v — hand-written model of Platform.parse / Platform.__str__ / Arch.parse
   (dep_logic/tags/platform.py) at string level, including the regular expression
     (manylinux|macos|musllinux)_(\d+?)_(\d+?)_([a-z0-9_]+)$   used with .match
   for ASCII input.  Operating systems outside the modelled families (freebsd, ...,
   Generic) yield NotImpl here and are skipped by the correspondence.  No proofs here. *)
From Coq Require Import List Bool NArith Arith String DecimalString DecimalN Lia.
From Verif Require Import PyRes Str Platform Tags.
Import ListNotations.
Local Open Scope N_scope.

(* int(s) for a non-empty string of ASCII digits *)
Fixpoint to_string (s : str) : string :=
  match s with
  | [] => EmptyString
  | c :: s' => String (Ascii.ascii_of_N c) (to_string s')
  end.
Definition all_digits (s : str) : bool := negb (match s with [] => true | _ => false end) && forallb is_digit s.
Definition parse_dec (s : str) : option N :=
  if all_digits s then option_map N.of_uint (NilZero.uint_of_string (to_string s)) else None.

(* Arch.parse *)
Definition all_archs := [Aarch64; Armv6L; Armv7L; Powerpc64Le; Powerpc64; X86; X86_64; S390X; RISCV64; LoongArch64].
Definition arch_parse (s : str) : pyres arch :=
  if str_eqb s (S_ "i386") || str_eqb s (S_ "i686") then Ret X86
  else if str_eqb s (S_ "amd64") then Ret X86_64
  else if str_eqb s (S_ "arm64") then Ret Aarch64
  else match find (fun a => str_eqb (arch_str a) s) all_archs with
       | Some a => Ret a
       | None => Raise ValueError
       end.

(* s.split("_", 1): (before, after) if an underscore occurs *)
Fixpoint split_first (c : N) (s : str) : option (str * str) :=
  match s with
  | [] => None
  | x :: s' => if x =? c then Some ([], s')
               else match split_first c s' with Some (a, b) => Some (x :: a, b) | None => None end
  end.

Definition arch_char (c : N) : bool := ((97 <=? c) && (c <=? 122)) || is_digit c || (c =? 95).

Inductive oskind := KManylinux | KMacos | KMusllinux.
(* the regular expression, anchored at the start (re.match) and at the end ($) *)
Definition match_versioned (s : str) : option (oskind * str * str * str) :=
  let try_ (name : string) (k : oskind) :=
    if starts_with (S_ name ++ [95]) s then
      let rest := skipn (List.length (S_ name) + 1) s in
      match split_first 95 rest with
      | Some (maj, r1) =>
          match split_first 95 r1 with
          | Some (mino, ar) =>
              if all_digits maj && all_digits mino && negb (match ar with [] => true | _ => false end) && forallb arch_char ar
              then Some (k, maj, mino, ar) else None
          | None => None
          end
      | None => None
      end
    else None in
  match try_ "manylinux"%string KManylinux with
  | Some r => Some r
  | None => match try_ "macos"%string KMacos with
            | Some r => Some r
            | None => try_ "musllinux"%string KMusllinux
            end
  end.

Definition platform_parse (s : str) : pyres platform :=
  if str_eqb s (S_ "linux") then Ret (mkPlatform (Manylinux 2 17) X86_64)
  else if str_eqb s (S_ "windows") then Ret (mkPlatform Windows X86_64)
  else if str_eqb s (S_ "macos") then Ret (mkPlatform (Macos 14 0) Aarch64)
  else if str_eqb s (S_ "alpine") then Ret (mkPlatform (Musllinux 1 2) X86_64)
  else if starts_with (S_ "windows_") s then
    a <- arch_parse (skipn 8 s) ;; Ret (mkPlatform Windows a)
  else if str_eqb s (S_ "macos_arm64") then Ret (mkPlatform (Macos 14 0) Aarch64)
  else if str_eqb s (S_ "macos_x86_64") then Ret (mkPlatform (Macos 14 0) X86_64)
  else match match_versioned s with
       | Some (k, maj, mino, ar) =>
           match parse_dec maj, parse_dec mino with
           | Some M, Some m =>
               a <- arch_parse ar ;;
               Ret (mkPlatform (match k with KManylinux => Manylinux M m | KMacos => Macos M m | KMusllinux => Musllinux M m end) a)
           | _, _ => Raise ValueError
           end
       | None => NotImpl     (* other operating systems: outside the model *)
       end.

(* Platform.__str__ *)
Definition os_str (o : os) : str :=
  match o with
  | Manylinux M m => S_ "manylinux_" ++ dec M ++ [95] ++ dec m
  | Musllinux M m => S_ "musllinux_" ++ dec M ++ [95] ++ dec m
  | Macos M m => S_ "macos_" ++ dec M ++ [95] ++ dec m
  | Windows => S_ "windows"
  end.
Definition platform_str (p : platform) : str :=
  match p_os p, p_arch p with
  | Windows, X86_64 => S_ "windows_amd64"
  | (Macos _ _ | Windows), Aarch64 => os_str (p_os p) ++ S_ "_arm64"
  | o, a => os_str o ++ [95] ++ arch_str a
  end.
