#!/usr/bin/env python3
"""py2coq.py — fail-closed translator from the Python source of
dep_logic.specifiers.{range,union,special} to Gallina (coq/Gen/GenSpec.v).

The translator reads the *current* files under <repo>/src/dep_logic/specifiers,
so the theorems proved over its output are re-checked against what the code says
now.  Anything outside the supported subset raises Unsupported with file:line:
nothing is guessed.  The Python semantics it implements (operator dispatch,
short-circuit and/or, dataclass construction through __post_init__, for/else,
iterator remainder, walrus) is part of the trusted base and is validated on every
run by the S-gen correspondence stream.

Output conventions
  * every method becomes  <class>_<name> ; a body that can raise / return
    NotImplemented has type `pyres T`, a body that cannot has plain type `T`
  * `spec` is the sum of all specifier classes; a parameter annotated `Any` has
    type `spec` and `isinstance` becomes a `match`
"""
from __future__ import annotations

import ast
import re
import sys
from pathlib import Path


class Unsupported(Exception):
    def __init__(self, node, why, fname="?"):
        line = getattr(node, "lineno", "?")
        super().__init__(f"{fname}:{line}: unsupported construct: {why}")


# ----------------------------------------------------------------------------
# static tables: Python classes / fields -> Gallina

CLASSES = {
    "RangeSpecifier": dict(ty="range", ctor="SRange", prefix="range"),
    "UnionSpecifier": dict(ty="union", ctor="SUnion", prefix="union"),
    "EmptySpecifier": dict(ty="unit_empty", ctor="SEmpty", prefix="empty"),
    "AnySpecifier": dict(ty="unit_any", ctor="SAny", prefix="any"),
}
# classes that exist in the `spec` sum but are not translated here
OTHER_SPEC_CLASSES = {"ArbitrarySpecifier": "SArb", "GenericSpecifier": "SGeneric"}
ABSTRACT_BASES = {"BaseSpecifier"}  # isinstance(x, BaseSpecifier) is True for every spec
VERSION_BASES = {"VersionSpecifier"}

FIELDS = {
    "range": {
        "min": ("rmin", "optver"),
        "max": ("rmax", "optver"),
        "include_min": ("imin", "bool"),
        "include_max": ("imax", "bool"),
        "simplified": ("rsimp", "optclause"),
    },
    "union": {
        "ranges": ("uranges", "list range"),
        "simplified": ("usimp", "optclause"),
    },
}

COQ_TY = {
    "pair range range": "(range * range)",
    "bool": "bool",
    "nat": "nat",
    "optver": "option V.t",
    "optclause": "option clause",
    "range": "range",
    "union": "union",
    "spec": "spec",
    "list range": "list range",
    "list spec": "list spec",
    "pair range range": "(range * range)",
    "unit_empty": "unit",
    "unit_any": "unit",
    "NoneType": "unit",
    "str": "str",
}

RESERVED = {"range": "range_", "min": "min_", "max": "max_", "type": "type_", "union": "union_",
            "list": "list_", "fix": "fix_", "end": "end_", "in": "in_", "at": "at_", "as": "as_"}


def cname(n):
    return RESERVED.get(n, n)


class Fn:
    """a translated method: name, params [(pyname, ty)], ret ty, purity"""

    def __init__(self, coqname, params, ret, pure, static=False):
        self.coqname, self.params, self.ret, self.pure, self.static = coqname, params, ret, pure, static


class Prepass(ast.NodeTransformer):
    """behaviour-preserving desugaring done before translation:
       `return a if c else b`      ->  if c: return a / else: return b
       `x, y = u, v` (u, v names that are not assigned by the statement)  ->  x = u; y = v"""

    def visit_Return(self, node):
        self.generic_visit(node)
        if isinstance(node.value, ast.IfExp):
            e = node.value
            new = ast.If(test=e.test, body=[self.visit_Return(ast.Return(value=e.body))], orelse=[self.visit_Return(ast.Return(value=e.orelse))])
            return ast.copy_location(new, node)
        return node

    def visit_Assign(self, node):
        self.generic_visit(node)
        if len(node.targets) == 1 and isinstance(node.targets[0], ast.Tuple) and isinstance(node.value, ast.Tuple) \
                and len(node.targets[0].elts) == len(node.value.elts) \
                and all(isinstance(t, ast.Name) for t in node.targets[0].elts) and all(isinstance(v, ast.Name) for v in node.value.elts):
            tnames = {t.id for t in node.targets[0].elts}
            if len(tnames) == len(node.targets[0].elts) and not (tnames & {v.id for v in node.value.elts}):
                return [ast.copy_location(ast.Assign(targets=[ast.Name(id=t.id, ctx=ast.Store())], value=v), node)
                        for t, v in zip(node.targets[0].elts, node.value.elts)]
        return node


_PREPASS = {}


def prepass(fn):
    """memoised per source node: loop functions are shared between the two translations of one method by node identity"""
    import copy
    if id(fn) not in _PREPASS:
        new = Prepass().visit(copy.deepcopy(fn))
        ast.fix_missing_locations(new)
        _PREPASS[id(fn)] = (fn, new)
    return _PREPASS[id(fn)][1]


class Translator:
    def __init__(self, fname):
        self.fname = fname
        self.methods = {}  # (ty, pyname) -> Fn
        self.out = []
        self.fresh = 0
        self.has_rmethod = {}  # (prefix, '__rand__'/'__ror__') -> target method name

    # ------------------------------------------------------------ utilities
    def bad(self, node, why):
        raise Unsupported(node, why, self.fname)

    def gensym(self, base="t"):
        self.fresh += 1
        return f"{base}{self.fresh}_"

    def lift(self, term, pure):
        return f"(Ret {term})" if pure else term

    def coerce(self, term, ty, pure, want, node):
        """coerce a value of static type ty to static type want"""
        if ty == want:
            return term, pure
        if want == "spec":
            if ty == "range":
                return (f"(SRange {term})", True) if pure else (f"(bind {term} (fun r_ => Ret (SRange r_)))", False)
            if ty == "union":
                return (f"(SUnion {term})", True) if pure else (f"(bind {term} (fun u_ => Ret (SUnion u_)))", False)
            if ty == "unit_empty":
                return "SEmpty", True
            if ty == "unit_any":
                return "SAny", True
        if want == "range" and ty == "spec":
            if pure:
                return f"(as_range {term})", False
            return f"(bind {term} as_range)", False
        if want == "list range" and ty == "list spec":
            if pure:
                return f"(mapM as_range {term})", False
            return f"(bind {term} (mapM as_range))", False
        if want == "list spec" and ty == "list range":
            if pure:
                return f"(map SRange {term})", True
        self.bad(node, f"cannot coerce {ty} to {want}")

    # --------------------------------------------------------- annotations
    def ann_type(self, ann, node):
        if ann is None:
            self.bad(node, "missing annotation")
        s = ast.unparse(ann)
        s = s.replace("typing.", "")
        s = re.sub(r"\bt\.", "", s)
        s = s.strip("'\"")          # string annotations
        table = {
            "bool": "bool",
            "Any": "spec",
            "object": "spec",
            "BaseSpecifier": "spec",
            "VersionSpecifier": "spec",
            "RangeSpecifier": "range",
            "UnionSpecifier": "union",
            "RangeSpecifier | EmptySpecifier": "spec",
            "Sequence[RangeSpecifier]": "list range",
            "list[RangeSpecifier]": "list range",
            "List[RangeSpecifier]": "list range",
            "tuple[RangeSpecifier, ...]": "list range",
            "Tuple[RangeSpecifier, ...]": "list range",
            "Iterable[RangeSpecifier]": "list range",
            "Self": None,
            "None": "NoneType",
            "str": "str",
        }
        if s not in table or table[s] is None:
            self.bad(node, f"annotation {s!r}")
        return table[s]

    # ----------------------------------------------------------- expressions
    def ex(self, e, env):
        """-> (term, ty, pure)"""
        if isinstance(e, ast.Constant):
            if e.value is True:
                return "true", "bool", True
            if e.value is False:
                return "false", "bool", True
            if e.value is None:
                return "None", "NoneLit", True
            if isinstance(e.value, int):
                return str(e.value), "nat", True
            self.bad(e, f"constant {e.value!r}")
        if isinstance(e, ast.Name):
            if e.id in env:
                n, ty = env[e.id]
                return n, ty, True
            if e.id == "NotImplemented":
                return "NotImpl", "NotImplemented", False
            self.bad(e, f"unknown name {e.id}")
        if isinstance(e, ast.Attribute):
            base, bty, bp = self.ex(e.value, env)
            if bty in FIELDS and e.attr in FIELDS[bty]:
                f, fty = FIELDS[bty][e.attr]
                if bp:
                    return f"({f} {base})", fty, True
                v = self.gensym("o")
                return f"(bind {base} (fun {v} => Ret ({f} {v})))", fty, False
            self.bad(e, f"attribute .{e.attr} on {bty}")
        if isinstance(e, ast.UnaryOp) and isinstance(e.op, ast.Not):
            t, ty, p = self.ex(e.operand, env)
            if ty != "bool":
                self.bad(e, "not on non-bool")
            return (f"(negb {t})", "bool", True) if p else (f"(pnot {t})", "bool", False)
        if isinstance(e, ast.BoolOp):
            parts = [self.ex(v, env) for v in e.values]
            for (t, ty, p), v in zip(parts, e.values):
                if ty != "bool":
                    self.bad(v, f"and/or operand of type {ty}")
            allpure = all(p for _, _, p in parts)
            isand = isinstance(e.op, ast.And)
            # right-nested so that evaluation order/short-circuit is Python's
            t, _, _ = parts[-1]
            acc = t if allpure else self.lift(parts[-1][0], parts[-1][2])
            for t, _, p in reversed(parts[:-1]):
                if allpure:
                    acc = f"({t} && {acc})" if isand else f"({t} || {acc})"
                else:
                    acc = f"({'pand' if isand else 'por'} {self.lift(t, p)} {acc})"
            return acc, "bool", allpure
        if isinstance(e, ast.Compare):
            return self.compare(e, env)
        if isinstance(e, ast.Call):
            return self.call(e, env)
        if isinstance(e, ast.BinOp) and isinstance(e.op, (ast.BitAnd, ast.BitOr)):
            return self.binop(e, env)
        if isinstance(e, ast.Subscript):
            return self.subscript(e, env)
        if isinstance(e, (ast.Tuple, ast.List)):
            return self.display(e, env)
        if isinstance(e, ast.ListComp):
            return self.listcomp(e, env)
        self.bad(e, ast.dump(e)[:80])

    def display(self, e, env):
        items = []
        for el in e.elts:
            if isinstance(el, ast.Starred):
                t, ty, p = self.ex(el.value, env)
                if ty != "list range" or not p:
                    self.bad(el, "starred element must be a pure list of ranges")
                items.append(("star", t))
            else:
                t, ty, p = self.ex(el, env)
                if ty != "range" or not p:
                    self.bad(el, f"list/tuple element of type {ty} (only pure ranges)")
                items.append(("one", t))
        if not items:
            return "[]", "list range", True
        acc = "[]"
        for kind, t in reversed(items):
            if kind == "star":
                acc = t if acc == "[]" else f"({t} ++ {acc})"
            else:
                acc = f"({t} :: {acc})"
        return acc, "list range", True

    def compare(self, e, env):
        if len(e.ops) != 1:
            self.bad(e, "chained comparison")
        op, l, r = e.ops[0], e.left, e.comparators[0]
        # X is None / X is not None
        if isinstance(op, (ast.Is, ast.IsNot)) and isinstance(r, ast.Constant) and r.value is None:
            t, ty, p = self.ex(l, env)
            if ty not in ("optver", "optclause"):
                self.bad(e, f"`is None` on {ty}")
            core = f"(is_none {t})" if isinstance(op, ast.Is) else f"(negb (is_none {t}))"
            if p:
                return core, "bool", True
            v = self.gensym("o")
            inner = f"(is_none {v})" if isinstance(op, ast.Is) else f"(negb (is_none {v}))"
            return f"(bind {t} (fun {v} => Ret {inner}))", "bool", False
        # False in (a, b)
        if isinstance(op, ast.In) and isinstance(l, ast.Constant) and l.value is False and isinstance(r, ast.Tuple):
            parts = [self.ex(x, env) for x in r.elts]
            if not all(ty == "bool" and p for _, ty, p in parts):
                self.bad(e, "False in (...) needs pure bools")
            return "(" + " || ".join(f"negb {t}" for t, _, _ in parts) + ")", "bool", True
        # [a, b].count(True) == 1
        if (isinstance(op, ast.Eq) and isinstance(l, ast.Call) and isinstance(l.func, ast.Attribute)
                and l.func.attr == "count" and isinstance(l.func.value, ast.List)
                and len(l.func.value.elts) == 2 and len(l.args) == 1
                and isinstance(l.args[0], ast.Constant) and l.args[0].value is True
                and isinstance(r, ast.Constant) and r.value == 1):
            a, b = (self.ex(x, env) for x in l.func.value.elts)
            if not (a[1] == b[1] == "bool" and a[2] and b[2]):
                self.bad(e, "count(True) on non-pure bools")
            return f"(xorb {a[0]} {b[0]})", "bool", True
        lt, lty, lp = self.ex(l, env)
        rt, rty, rp = self.ex(r, env)
        if lty == rty == "optver":
            if not (lp and rp):
                self.bad(e, "impure version operands")
            if isinstance(op, ast.Lt):
                return f"(ver_lt_o {lt} {rt})", "bool", False
            if isinstance(op, ast.Gt):
                return f"(ver_gt_o {lt} {rt})", "bool", False
            if isinstance(op, ast.Eq):
                return f"(ver_eq_o {lt} {rt})", "bool", True
            if isinstance(op, ast.NotEq):
                return f"(negb (ver_eq_o {lt} {rt}))", "bool", True
        if lty == rty == "nat" and lp and rp:
            if isinstance(op, ast.Eq):
                return f"(Nat.eqb {lt} {rt})", "bool", True
        self.bad(e, f"comparison {type(op).__name__} on {lty},{rty}")

    def subscript(self, e, env):
        t, ty, p = self.ex(e.value, env)
        if ty != "list range" or not p:
            self.bad(e, f"subscript on {ty}")
        s = e.slice
        if isinstance(s, ast.Constant) and s.value == 0:
            return f"(nth_range {t} 0)", "range", False
        if isinstance(s, ast.UnaryOp) and isinstance(s.op, ast.USub) and isinstance(s.operand, ast.Constant) and s.operand.value == 1:
            return f"(last_range {t})", "range", False
        if isinstance(s, ast.Slice) and s.upper is None and s.step is None and isinstance(s.lower, ast.Constant) and s.lower.value == 1:
            return f"(tl {t})", "list range", True
        self.bad(e, "subscript form")

    def binop(self, e, env):
        which = "and" if isinstance(e.op, ast.BitAnd) else "or"
        lt, lty, lp = self.ex(e.left, env)
        rt, rty, rp = self.ex(e.right, env)
        if not (lp and rp):
            self.bad(e, "impure operands of & / |")
        if lty == "range" and rty == "range":
            fn = self.methods[("range", f"__{which}__")]
            return f"({fn.coqname} {lt} (SRange {rt}))", "spec", fn.pure
        if lty in ("spec", "union") and rty == "range":
            # right operand statically a RangeSpecifier: partial dispatch defined earlier
            ls, _ = self.coerce(lt, lty, True, "spec", e)
            return f"(spec_{which}_range {ls} {rt})", "spec", False
        self.bad(e, f"operator {which} on {lty},{rty}")

    def call(self, e, env):
        f = e.func
        # tuple(x) / list(x) / iter(x) / t.cast(T, x)
        if isinstance(f, ast.Name) and f.id in ("tuple", "list", "iter") and len(e.args) == 1 and not e.keywords:
            return self.ex(e.args[0], env)
        if isinstance(f, ast.Attribute) and f.attr == "cast" and len(e.args) == 2:
            want = self.ann_type(e.args[0], e)
            t, ty, p = self.ex(e.args[1], env)
            t2, p2 = self.coerce(t, ty, p, want, e)
            return t2, want, p2
        if isinstance(f, ast.Name) and f.id == "len" and len(e.args) == 1:
            t, ty, p = self.ex(e.args[0], env)
            if not ty.startswith("list") or not p:
                self.bad(e, "len of non-list")
            return f"(length {t})", "nat", True
        if isinstance(f, ast.Name) and f.id == "zip" and len(e.args) == 2:
            a, aty, ap = self.ex(e.args[0], env)
            b, bty, bp = self.ex(e.args[1], env)
            if not (aty == bty == "list range" and ap and bp):
                self.bad(e, "zip of non range lists")
            return f"(combine {a} {b})", "list pair range range", True
        if isinstance(f, ast.Name) and f.id == "isinstance" and len(e.args) == 2:
            return self.isinstance_expr(e, env)
        # constructors
        ctor = None
        if isinstance(f, ast.Name) and f.id in CLASSES:
            ctor = f.id
        if (isinstance(f, ast.Call) and isinstance(f.func, ast.Name) and f.func.id == "type"
                and len(f.args) == 1 and isinstance(f.args[0], ast.Name) and f.args[0].id == "self"):
            ctor = env["__class__"][0]
        if ctor is not None:
            return self.construct(ctor, e, env)
        # method calls x.m(args)
        if isinstance(f, ast.Attribute):
            bt, bty, bp = self.ex(f.value, env)
            if not bp:
                self.bad(e, "method call on impure receiver")
            key = (bty, f.attr)
            if key not in self.methods and key in getattr(self, "available", {}) and key not in self.in_progress:
                # a method of a translated class that is defined later in the fixed emission order: translate it now
                # (its Definition lands before the caller's); recursion stays unsupported
                clsname_, node_, fname_ = self.available[key]
                saved = (self.cur_fn, self._loop_count, self.vartypes, self.fname)
                self.fname = fname_
                self.method(clsname_, node_)
                self.cur_fn, self._loop_count, self.vartypes, self.fname = saved
            if key not in self.methods:
                self.bad(e, f"call to untranslated method {bty}.{f.attr}")
            fn = self.methods[key]
            if e.keywords or len(e.args) != len(fn.params):
                self.bad(e, "call arity / keywords")
            args, binds = [], []
            for a, (_, pty) in zip(e.args, fn.params):
                t, ty, p = self.ex(a, env)
                t, p = self.coerce(t, ty, p, pty, a)
                if not p:
                    v = self.gensym("a")
                    binds.append((v, t))
                    t = v
                args.append(t)
            recv = [] if (bty.startswith("unit_") or fn.static) else [bt]
            term = f"({fn.coqname} {' '.join(recv + args)})" if recv + args else fn.coqname
            pure = fn.pure and not binds
            if binds:
                term = self.lift(term, fn.pure)
                for v, t in reversed(binds):
                    term = f"(bind {t} (fun {v} => {term}))"
            return term, fn.ret, pure
        self.bad(e, "call " + ast.unparse(e)[:60])

    def isinstance_expr(self, e, env):
        """isinstance used as a boolean (not as the test of an `if` that narrows)"""
        x, cls = e.args
        t, ty, p = self.ex(x, env)
        if not isinstance(cls, ast.Name):
            self.bad(e, "isinstance class")
        if ty != "spec":
            self.bad(e, f"isinstance on static type {ty}")
        if cls.id == "EmptySpecifier":
            core = "is_SEmpty"
        elif cls.id in ("AnySpecifier", "RangeSpecifier", "UnionSpecifier"):
            core = {"AnySpecifier": "is_SAny", "RangeSpecifier": "is_SRange", "UnionSpecifier": "is_SUnion"}[cls.id]
        else:
            self.bad(e, f"boolean isinstance against {cls.id}")
        if p:
            return f"({core} {t})", "bool", True
        v = self.gensym("o")
        return f"(bind {t} (fun {v} => Ret ({core} {v})))", "bool", False

    def construct(self, clsname, e, env):
        info = CLASSES[clsname]
        if info["ty"] == "unit_empty":
            if e.args or e.keywords:
                self.bad(e, "EmptySpecifier with args")
            return "SEmpty", "spec", True
        if info["ty"] == "unit_any":
            if e.args or e.keywords:
                self.bad(e, "AnySpecifier with args")
            return "SAny", "spec", True
        fields = self.dataclass_fields[clsname]  # [(name, ty, default_term or None)]
        vals = {}
        for (fname, fty, _), a in zip(fields, e.args):
            vals[fname] = a
        for kw in e.keywords:
            if kw.arg is None or kw.arg in vals:
                self.bad(e, "keyword")
            vals[kw.arg] = kw.value
        args, binds = [], []
        for fname, fty, default in fields:
            if fname in vals:
                t, ty, p = self.ex(vals[fname], env)
                if ty == "NoneLit":
                    ty = fty
                t, p = self.coerce(t, ty, p, fty, vals[fname])
                if not p:
                    v = self.gensym("a")
                    binds.append((v, t))
                    t = v
                args.append(t)
            else:
                if default is None:
                    self.bad(e, f"missing field {fname}")
                args.append(default)
        unknown = set(vals) - {f for f, _, _ in fields}
        if unknown:
            self.bad(e, f"unknown fields {unknown}")
        mk = self.ctor_fn[clsname]
        term = f"({mk.coqname} {' '.join(args)})"
        pure = mk.pure and not binds
        if binds:
            term = self.lift(term, mk.pure)
            for v, t in reversed(binds):
                term = f"(bind {t} (fun {v} => {term}))"
        return term, info["ty"], pure

    def listcomp(self, e, env):
        # [ELT for (a, b) in itertools.product(X, Y) if not isinstance(ELT := a & b, EmptySpecifier)]
        if len(e.generators) != 1:
            self.bad(e, "comprehension generators")
        g = e.generators[0]
        it = g.iter
        if not (isinstance(it, ast.Call) and isinstance(it.func, ast.Attribute) and it.func.attr == "product"
                and len(it.args) == 2 and isinstance(g.target, ast.Tuple) and len(g.target.elts) == 2
                and all(isinstance(x, ast.Name) for x in g.target.elts) and len(g.ifs) == 1 and not g.is_async):
            self.bad(e, "comprehension shape")
        xt, xty, xp = self.ex(it.args[0], env)
        yt, yty, yp = self.ex(it.args[1], env)
        if not (xty == yty == "list range" and xp and yp):
            self.bad(e, "product of non range lists")
        a, b = (cname(x.id) for x in g.target.elts)
        env2 = dict(env)
        env2[g.target.elts[0].id] = (a, "range")
        env2[g.target.elts[1].id] = (b, "range")
        cond = g.ifs[0]
        # hoist the walrus
        walrus = [n for n in ast.walk(cond) if isinstance(n, ast.NamedExpr)]
        if len(walrus) != 1:
            self.bad(e, "comprehension filter must contain exactly one walrus")
        w = walrus[0]
        wt, wty, wp = self.ex(w.value, env2)
        wname = cname(w.target.id)
        env3 = dict(env2)
        env3[w.target.id] = (wname, wty)
        cond2 = _replace_node(cond, w, ast.Name(id=w.target.id, ctx=ast.Load()))
        ct, cty, cp = self.ex(cond2, env3)
        et, ety, ep = self.ex(e.elt, env3)
        if cty != "bool" or not cp or not ep:
            self.bad(e, "comprehension filter/element")
        body = f"Ret (if {ct} then Some {et} else None)"
        body = f"(bind {self.lift(wt, wp)} (fun {wname} => {body}))"
        term = f"(filter_mapM (fun '({a}, {b}) => {body}) (list_prod {xt} {yt}))"
        return term, f"list {ety}", False

    # ------------------------------------------------------------ statements
    def block(self, stmts, env, k, ret_ty, loopctx=None):
        """translate a statement list.  k(env) gives the term for what follows the block
        (None: falling off the end of the function).  Returns a term of type
        `pyres <ret_ty>` (always lifted; purity is recovered by try_pure)."""
        if not stmts:
            if k is None:
                if ret_ty == "NoneType":
                    return "(Ret tt)"
                raise Unsupported(ast.Pass(), "function may fall off its end", self.fname)
            return k(env)
        s, rest = stmts[0], stmts[1:]
        cont = lambda env2: self.block(rest, env2, k, ret_ty, loopctx)
        if isinstance(s, ast.Expr) and isinstance(s.value, ast.Constant) and isinstance(s.value.value, str):
            return cont(env)  # docstring
        if isinstance(s, (ast.ImportFrom, ast.Import)):
            return cont(env)
        if isinstance(s, ast.Return):
            if s.value is None:
                self.bad(s, "bare return")
            t, ty, p = self.ex(s.value, env)
            if ty == "NotImplemented":
                return "NotImpl"
            t, p = self.coerce(t, ty, p, ret_ty, s)
            return self.lift(t, p)
        if isinstance(s, ast.Raise):
            exc = s.exc
            name = exc.func.id if isinstance(exc, ast.Call) and isinstance(exc.func, ast.Name) else (
                exc.id if isinstance(exc, ast.Name) else None)
            if name not in ("InvalidSpecifier", "ValueError", "NotImplementedError", "TypeError"):
                self.bad(s, f"raise {name}")
            return f"(Raise {name})"
        if isinstance(s, ast.If):
            return self.if_stmt(s, env, cont, ret_ty, loopctx)
        if isinstance(s, (ast.Assign, ast.AnnAssign)):
            if isinstance(s, ast.Assign):
                if len(s.targets) != 1:
                    self.bad(s, "multiple targets")
                target, value = s.targets[0], s.value
            else:
                target, value = s.target, s.value
                if value is None:
                    self.bad(s, "annotation without value")
            if not isinstance(target, ast.Name):
                self.bad(s, "assignment target")
            return self.assign(target.id, value, env, cont, s)
        if isinstance(s, ast.Expr) and isinstance(s.value, ast.Call) and isinstance(s.value.func, ast.Attribute) \
                and s.value.func.attr in ("append", "extend") and isinstance(s.value.func.value, ast.Name):
            lst = s.value.func.value.id
            if lst not in env or not env[lst][1].startswith("list"):
                self.bad(s, "append/extend on non-list")
            ln, lty = env[lst]
            elty = lty[5:]
            t, ty, p = self.ex(s.value.args[0], env)
            if s.value.func.attr == "append":
                t, p = self.coerce(t, ty, p, elty, s)
                new = lambda v: f"({ln} ++ [{v}])"
            else:
                t, p = self.coerce(t, ty, p, lty, s)
                new = lambda v: f"({ln} ++ {v})"
            nn = self.gensym(cname(lst))
            env2 = dict(env)
            env2[lst] = (nn, lty)
            if p:
                return f"(let {nn} := {new(t)} in {cont(env2)})"
            v = self.gensym("v")
            return f"(bind {t} (fun {v} => let {nn} := {new(v)} in {cont(env2)}))"
        if isinstance(s, ast.For):
            return self.for_stmt(s, env, cont, ret_ty)
        if isinstance(s, ast.Break):
            if loopctx is None:
                self.bad(s, "break outside loop")
            return loopctx["brk"](env)
        if isinstance(s, ast.Continue):
            if loopctx is None:
                self.bad(s, "continue outside loop")
            return loopctx["cont"](env)
        self.bad(s, type(s).__name__)

    def assign(self, name, value, env, cont, node):
        t, ty, p = self.ex(value, env)
        if ty == "NoneLit":
            self.bad(node, "assigning None to a local")
        want = self.vartypes.get(name, ty)
        t, p = self.coerce(t, ty, p, want, node)
        nn = self.gensym(cname(name))
        env2 = dict(env)
        env2[name] = (nn, want)
        if p:
            return f"(let {nn} := {t} in {cont(env2)})"
        return f"(bind {t} (fun {nn} => {cont(env2)}))"

    def if_stmt(self, s, env, cont, ret_ty, loopctx):
        test = s.test
        # hoist a leading walrus:  if (x := E) ...:   ->  x = E; if x ...:
        walrus = [n for n in ast.walk(test) if isinstance(n, ast.NamedExpr)]
        if walrus:
            if len(walrus) != 1 or not _leftmost(test, walrus[0]):
                self.bad(s, "walrus not in leftmost-evaluated position")
            w = walrus[0]
            test2 = _replace_node(test, w, ast.Name(id=w.target.id, ctx=ast.Load()))
            s2 = ast.If(test=test2, body=s.body, orelse=s.orelse)
            ast.copy_location(s2, s)
            return self.assign(w.target.id, w.value, env,
                               lambda env2: self.if_stmt(s2, env2, cont, ret_ty, loopctx), s)
        # narrowing isinstance tests on a spec-typed name
        neg = False
        core = test
        if isinstance(core, ast.UnaryOp) and isinstance(core.op, ast.Not):
            neg, core = True, core.operand
        if (isinstance(core, ast.Call) and isinstance(core.func, ast.Name) and core.func.id == "isinstance"
                and isinstance(core.args[0], ast.Name) and core.args[0].id in env
                and env[core.args[0].id][1] in ("range", "union") and isinstance(core.args[1], ast.Name)
                and core.args[1].id in CLASSES):
            # statically decided (used for the specialised copy of a method)
            truth = CLASSES[core.args[1].id]["ty"] == env[core.args[0].id][1]
            if neg:
                truth = not truth
            return self.block(s.body if truth else s.orelse, env, cont, ret_ty, loopctx)
        if (isinstance(core, ast.Call) and isinstance(core.func, ast.Name) and core.func.id == "isinstance"
                and isinstance(core.args[0], ast.Name) and core.args[0].id in env
                and env[core.args[0].id][1] == "spec"):
            var = core.args[0].id
            vn, _ = env[var]
            cls = core.args[1]
            if not isinstance(cls, ast.Name):
                self.bad(s, "isinstance with tuple")
            yes_body, no_body = (s.orelse, s.body) if neg else (s.body, s.orelse)
            if cls.id in ABSTRACT_BASES:
                # every member of `spec` is a BaseSpecifier
                return self.block(yes_body, env, cont, ret_ty, loopctx)
            if cls.id in CLASSES:
                info = CLASSES[cls.id]
                if info["ty"].startswith("unit_"):
                    pat, env_yes = info["ctor"], env
                else:
                    nn = self.gensym(cname(var))
                    pat = f"{info['ctor']} {nn}"
                    env_yes = dict(env)
                    env_yes[var] = (nn, info["ty"])
                yes = self.block(yes_body, env_yes, cont, ret_ty, loopctx)
                no = self.block(no_body, env, cont, ret_ty, loopctx)
                return f"(match {vn} with {pat} => {yes} | _ => {no} end)"
            self.bad(s, f"isinstance against {cls.id}")
        t, ty, p = self.ex(test, env)
        if ty != "bool":
            self.bad(s, f"if on {ty}")
        yes = self.block(s.body, env, cont, ret_ty, loopctx)
        no = self.block(s.orelse, env, cont, ret_ty, loopctx)
        if p:
            return f"(if {t} then {yes} else {no})"
        return f"(pif {t} {yes} {no})"

    def for_stmt(self, s, env, cont, ret_ty):
        """`for` over a list, lambda-lifted into a named top-level Fixpoint.
        Parameters: every variable in scope (constant ones first), then the list
        (structural argument), then the loop-carried variables.  The code after the
        loop (and the else-block) is inlined at the loop's exits."""
        if getattr(self, "_in_loop", False):
            self.bad(s, "nested for loops")
        it = s.iter
        iter_name = None
        if isinstance(it, ast.Name) and it.id in env and env[it.id][1].startswith("list"):
            iter_name = it.id  # `for x in ranges` where ranges = iter(...)
        lt, lty, lp = self.ex(it, env)
        if not lty.startswith("list ") or not lp:
            self.bad(s, f"for over {lty}")
        elty = lty[5:]
        carried = []
        for n in ast.walk(ast.Module(body=s.body, type_ignores=[])):
            nm = None
            if isinstance(n, ast.Assign) and isinstance(n.targets[0], ast.Name):
                nm = n.targets[0].id
            if isinstance(n, ast.Call) and isinstance(n.func, ast.Attribute) and n.func.attr in ("append", "extend") \
                    and isinstance(n.func.value, ast.Name):
                nm = n.func.value.id
            if nm and nm in env and nm not in carried:
                carried.append(nm)
        scope = [v for v in env if v != "__class__" and not env[v][1].startswith("unit_") and v != iter_name]
        consts = [v for v in scope if v not in carried]
        key = (id(s), tuple((v, env[v][1]) for v in scope), iter_name)
        cache = self.__dict__.setdefault("_loop_cache", {})
        if key not in cache:
            self._loop_count = getattr(self, "_loop_count", 0) + 1
            fname = f"{self.cur_fn}_loop{self._loop_count}"
            saved_fresh, self.fresh = self.fresh, 0
            self._in_loop = True
            try:
                pname = {v: f"{cname(v)}_p" for v in scope}
                env_c = {"__class__": env["__class__"]}
                for v in env:
                    if v != "__class__" and env[v][1].startswith("unit_"):
                        env_c[v] = env[v]
                for v in scope:
                    env_c[v] = (pname[v], env[v][1])
                xs, rest, x = "xs", "rest", "x"
                env_in = dict(env_c)
                if iter_name:
                    env_in[iter_name] = (rest, lty)
                if isinstance(s.target, ast.Name):
                    env_in[s.target.id] = (x, elty)
                    pat = x
                elif isinstance(s.target, ast.Tuple) and elty.startswith("pair ") and len(s.target.elts) == 2 \
                        and all(isinstance(t, ast.Name) for t in s.target.elts):
                    a, b = (cname(t.id) + "_x" for t in s.target.elts)
                    env_in[s.target.elts[0].id] = (a, "range")
                    env_in[s.target.elts[1].id] = (b, "range")
                    pat = f"({a}, {b})"
                else:
                    self.bad(s, "for target")

                def call_loop(e2, lst):
                    args = [pname[v] for v in consts] + [lst] + [e2[c][0] for c in carried]
                    return f"({fname} {' '.join(args)})"

                def after_env(e2):
                    out = dict(env_c)
                    for c in carried:
                        out[c] = e2[c]
                    return out

                loopctx = {"cont": lambda e2: call_loop(e2, rest), "brk": lambda e2: cont(after_env(e2))}
                body = self.block(s.body, env_in, loopctx["cont"], ret_ty, loopctx)
                done = self.block(s.orelse, dict(env_c), lambda e2: cont(after_env(e2)), ret_ty, None)
                sig = " ".join(f"({pname[v]} : {COQ_TY[env[v][1]]})" for v in consts)
                sig += f" ({xs} : list {COQ_TY[elty]})"
                sig += "".join(f" ({pname[v]} : {COQ_TY[env[v][1]]})" for v in carried)
                self.out.append(
                    f"Fixpoint {fname} {sig} {{struct {xs}}} : pyres {COQ_TY[ret_ty]} :=\n"
                    f"  match {xs} with\n  | [] => {done}\n  | {pat} :: {rest} => {body}\n  end.\n")
                cache[key] = (fname, consts, carried)
            finally:
                self._in_loop = False
                self.fresh = saved_fresh
        fname, consts, carried = cache[key]
        args = [env[v][0] for v in consts] + [lt] + [env[c][0] for c in carried]
        return f"({fname} {' '.join(args)})"

    # ------------------------------------------------------- variable types
    def infer_vartypes(self, fn, env0):
        """types of locals = join of the types of everything assigned to them"""
        vt = {}
        for _ in range(3):
            changed = False
            for n in ast.walk(fn):
                pairs = []
                if isinstance(n, ast.For) and isinstance(n.target, ast.Name):
                    env = dict(env0)
                    for k, v in vt.items():
                        env[k] = (cname(k), v)
                    try:
                        _, ity, _ = self.ex(n.iter, env)
                    except Unsupported:
                        ity = ""
                    if ity.startswith("list ") and vt.get(n.target.id) != ity[5:]:
                        vt[n.target.id] = ity[5:]
                        changed = True
                if isinstance(n, ast.Assign) and isinstance(n.targets[0], ast.Name):
                    pairs.append((n.targets[0].id, n.value))
                if isinstance(n, ast.AnnAssign) and isinstance(n.target, ast.Name) and n.value is not None:
                    pairs.append((n.target.id, n.value))
                for name, value in pairs:
                    env = dict(env0)
                    for k, v in vt.items():
                        env[k] = (cname(k), v)
                    # loop variables, walrus targets: give best-effort types
                    try:
                        saved = self.vartypes
                        self.vartypes = vt
                        _, ty, _ = self.ex(value, _LooseEnv(env, self))
                        self.vartypes = saved
                    except Unsupported:
                        self.vartypes = saved
                        continue
                    if isinstance(n, ast.AnnAssign) and ty == "list range" and ast.unparse(n.annotation).startswith("list["):
                        pass
                    old = vt.get(name)
                    new = _join(old, ty)
                    if new != old:
                        vt[name] = new
                        changed = True
            if not changed:
                break
        return vt

    # ------------------------------------------------------------- methods
    def method(self, clsname, fn, assume=None, suffix=""):
        info = CLASSES[clsname]
        selfty = info["ty"]
        if not suffix and (selfty, fn.name) in self.methods:
            return self.methods[(selfty, fn.name)]   # already emitted on demand
        if not hasattr(self, "in_progress"):
            self.in_progress = set()
        if not suffix:
            self.in_progress.add((selfty, fn.name))
        try:
            return self._method(clsname, fn, assume, suffix)
        finally:
            if not suffix:
                self.in_progress.discard((selfty, fn.name))

    def _method(self, clsname, fn, assume=None, suffix=""):
        info = CLASSES[clsname]
        selfty = info["ty"]
        fn = prepass(fn)
        env = {"__class__": (clsname, "class")}
        params = []
        args = fn.args
        is_static = any(isinstance(d, ast.Name) and d.id == "staticmethod" for d in fn.decorator_list)
        plist = list(args.args)
        if not is_static:
            if not plist or plist[0].arg != "self":
                self.bad(fn, "first parameter is not self")
            plist = plist[1:]
            env["self"] = ("self", selfty)
        if args.vararg or args.kwarg or args.kwonlyargs or args.defaults:
            self.bad(fn, "parameter kinds")
        for a in plist:
            ty = self.ann_type(a.annotation, a)
            if assume and a.arg in assume:
                ty = assume[a.arg]
            env[a.arg] = (cname(a.arg), ty)
            params.append((a.arg, ty))
        ret_ty = self.ann_type(fn.returns, fn)
        self.cur_fn = f"{info['prefix']}_{fn.name.strip('_')}{suffix}"
        self._loop_count = 0
        self.vartypes = {}
        self.vartypes = self.infer_vartypes(fn, env)
        body_stmts = fn.body
        term = self.block(body_stmts, env, None, ret_ty)
        coqname = f"{info['prefix']}_{fn.name.strip('_')}{suffix}"
        sig = []
        if not is_static and not selfty.startswith("unit_"):
            sig.append(f"(self : {COQ_TY[selfty]})")
        for a, ty in params:
            sig.append(f"({cname(a)} : {COQ_TY[ty]})")
        self.out.append(f"Definition {coqname} {' '.join(sig)} : pyres {COQ_TY[ret_ty]} :=\n  {term}.\n")
        f = Fn(coqname, params, ret_ty, False, static=is_static)
        if not suffix:
            self.methods[(selfty, fn.name)] = f
        return f

    def dataclass(self, clsname, cls):
        """fields with defaults, raw constructor through __post_init__"""
        info = CLASSES[clsname]
        fields = []
        for st in cls.body:
            if isinstance(st, ast.AnnAssign) and isinstance(st.target, ast.Name):
                name = st.target.id
                if name not in FIELDS[info["ty"]]:
                    self.bad(st, f"new dataclass field {name}")
                fty = FIELDS[info["ty"]][name][1]
                default = None
                if st.value is not None:
                    v = st.value
                    if isinstance(v, ast.Constant) and v.value is None:
                        default = "None"
                    elif isinstance(v, ast.Constant) and v.value is False:
                        default = "false"
                    elif isinstance(v, ast.Constant) and v.value is True:
                        default = "true"
                    elif isinstance(v, ast.Call) and isinstance(v.func, ast.Name) and v.func.id == "field":
                        kws = {k.arg: k.value for k in v.keywords}
                        d = kws.get("default")
                        if not (isinstance(d, ast.Constant) and d.value is None):
                            self.bad(st, "field() default")
                        default = "None"
                    else:
                        self.bad(st, "field default")
                fields.append((name, fty, default))
        want = list(FIELDS[info["ty"]].keys())
        if [f for f, _, _ in fields] != want:
            self.bad(cls, f"dataclass fields changed: {[f for f, _, _ in fields]} != {want}")
        self.dataclass_fields[clsname] = fields
        # compare / hash flags (used by GenEq)
        flags = {}
        for st in cls.body:
            if isinstance(st, ast.AnnAssign) and isinstance(st.value, ast.Call) and getattr(st.value.func, "id", "") == "field":
                kws = {k.arg: k.value for k in st.value.keywords}
                flags[st.target.id] = {
                    "compare": not (isinstance(kws.get("compare"), ast.Constant) and kws["compare"].value is False),
                    "hash": kws["hash"].value if isinstance(kws.get("hash"), ast.Constant) else None,
                }
        self.field_flags[clsname] = flags
        deco = [d for d in cls.decorator_list if isinstance(d, ast.Call) and getattr(d.func, "id", "") == "dataclass"]
        if len(deco) != 1:
            self.bad(cls, "expected exactly one @dataclass(...) decorator")
        dkw = {k.arg: (k.value.value if isinstance(k.value, ast.Constant) else None) for k in deco[0].keywords if k.arg}
        if dkw.get("eq", True) is not True or dkw.get("order", False):
            self.bad(cls, "dataclass eq/order flags")
        self.dc_flags[clsname] = dkw


class _LooseEnv(dict):
    """environment used only by type inference: unknown names get type spec-less failure"""

    def __init__(self, env, tr):
        super().__init__(env)


def _join(a, b):
    if a is None or a == b:
        return b
    s = {a, b}
    if s <= {"range", "union", "spec", "unit_empty", "unit_any"}:
        return "spec"
    if s == {"list range", "list spec"}:
        return "list spec"
    return a


def _replace_node(root, old, new):
    class R(ast.NodeTransformer):
        def visit(self, node):
            if node is old:
                return new
            return super().visit(node)

    import copy
    # identity-preserving replace: copy tree except we need `old` identity; so transform in place on a shallow rebuilt tree
    return R().visit(_clone_keep(root, old))


def _clone_keep(node, keep):
    """deep-copy an AST but keep the identity of `keep` so that it can be found"""
    if node is keep:
        return node
    if isinstance(node, ast.AST):
        new = type(node)()
        for f in node._fields:
            if hasattr(node, f):
                setattr(new, f, _clone_keep(getattr(node, f), keep))
        for a in ("lineno", "col_offset", "end_lineno", "end_col_offset"):
            if hasattr(node, a):
                setattr(new, a, getattr(node, a))
        return new
    if isinstance(node, list):
        return [_clone_keep(x, keep) for x in node]
    return node


def _leftmost(test, w):
    """is node w evaluated unconditionally and first in `test`?"""
    n = test
    while True:
        if n is w:
            return True
        if isinstance(n, ast.UnaryOp):
            n = n.operand
        elif isinstance(n, ast.BoolOp):
            n = n.values[0]
        elif isinstance(n, ast.Compare):
            n = n.left
        elif isinstance(n, ast.Attribute):
            n = n.value
        elif isinstance(n, ast.Call) and n.args and isinstance(n.func, ast.Name):
            n = n.args[0]
        elif isinstance(n, ast.Subscript):
            n = n.value
        else:
            return False


# ----------------------------------------------------------------------------
HEADER = """(* GENERATED by translator/py2coq.py from {src} — do not edit.
   Regenerated on every check run from the current working tree of the repository. *)
From Coq Require Import List Bool Arith NArith Orders.
From Verif Require Import PyRes Order Str SpecTypes.
Import ListNotations.

Module GenSpec (V : OrderedTypeFull').
  Module T := SpecTypes V.
  Export T.
"""


def find_class(mod, name, fname):
    for n in mod.body:
        if isinstance(n, ast.ClassDef) and n.name == name:
            return n
    raise Unsupported(mod, f"class {name} not found", fname)


def class_methods(cls):
    return {n.name: n for n in cls.body if isinstance(n, ast.FunctionDef)}


def class_aliases(cls):
    out = {}
    for n in cls.body:
        if isinstance(n, ast.Assign) and len(n.targets) == 1 and isinstance(n.targets[0], ast.Name) \
                and isinstance(n.value, ast.Name):
            out[n.targets[0].id] = n.value.id
    return out


def translate(repo: Path) -> str:
    base = repo / "src" / "dep_logic" / "specifiers"
    srcs = {n: (base / f"{n}.py") for n in ("range", "union", "special")}
    mods = {n: ast.parse(p.read_text(), filename=str(p)) for n, p in srcs.items()}
    out = [HEADER.format(src="src/dep_logic/specifiers/{range,union,special}.py")]

    tr = Translator(str(srcs["range"]))
    tr.dataclass_fields, tr.field_flags, tr.dc_flags, tr.ctor_fn = {}, {}, {}, {}

    # ---------------- special.py (Empty / Any): every method
    sp = mods["special"]
    tr.fname = str(srcs["special"])
    special_info = {}
    for clsname in ("EmptySpecifier", "AnySpecifier"):
        cls = find_class(sp, clsname, tr.fname)
        if [ast.unparse(b) for b in cls.bases] != ["BaseSpecifier"]:
            tr.bad(cls, "base classes changed")
        meths, aliases = class_methods(cls), class_aliases(cls)
        special_info[clsname] = (meths, aliases)
    # defined later (after range/union) because AnySpecifier.__eq__ calls other.is_any()

    # ---------------- range.py
    tr.fname = str(srcs["range"])
    rcls = find_class(mods["range"], "RangeSpecifier", tr.fname)
    tr.dataclass("RangeSpecifier", rcls)
    rm, ra = class_methods(rcls), class_aliases(rcls)
    # constructor = raw record through __post_init__
    fields = tr.dataclass_fields["RangeSpecifier"]
    pi = rm.get("__post_init__")
    sig = " ".join(f"({cname(f)} : {COQ_TY[ty]})" for f, ty, _ in fields)
    raw = "mkRangeRaw " + " ".join(cname(f) for f, _, _ in fields)
    if pi is None:
        tr.out.append(f"Definition mk_range {sig} : pyres range := Ret ({raw}).\n")
    else:
        tr.vartypes = {}
        env = {"self": ("self", "range"), "__class__": ("RangeSpecifier", "class")}
        body = tr.block(pi.body, env, None, "NoneType")
        tr.out.append(f"Definition mk_range {sig} : pyres range :=\n  let self := {raw} in\n"
                      f"  bind {body} (fun _ => Ret self).\n")
    tr.ctor_fn["RangeSpecifier"] = Fn("mk_range", [(f, ty) for f, ty, _ in fields], "range", False)
    # union is a plain dataclass without __post_init__
    tr.fname = str(srcs["union"])
    ucls = find_class(mods["union"], "UnionSpecifier", tr.fname)
    tr.dataclass("UnionSpecifier", ucls)
    um, ua = class_methods(ucls), class_aliases(ucls)
    if "__post_init__" in um or "__init__" in um or "__new__" in um:
        tr.bad(ucls, "UnionSpecifier grew a constructor hook")
    tr.out.append("Definition mk_union (ranges : list range) (simplified : option clause) : union :=\n"
                  "  mkUnionRaw ranges simplified.\n")
    tr.ctor_fn["UnionSpecifier"] = Fn("mk_union", [("ranges", "list range"), ("simplified", "optclause")], "union", True)

    # methods that may be translated on demand when an earlier method calls them
    tr.in_progress = set()
    tr.available = {}
    for name in ("is_any", "allows_lower", "allows_higher", "is_strictly_lower", "is_adjacent_to", "__lt__",
                 "is_superset", "is_subset", "can_combine"):
        if name in rm:
            tr.available[("range", name)] = ("RangeSpecifier", rm[name], str(srcs["range"]))
    if "_from_ranges" in um:
        tr.available[("union", "_from_ranges")] = ("UnionSpecifier", um["_from_ranges"], str(srcs["union"]))
    tr.fname = str(srcs["range"])
    for name in ("__invert__", "is_any", "allows_lower", "allows_higher", "is_strictly_lower",
                 "is_adjacent_to", "__lt__", "is_superset", "is_subset", "can_combine", "__and__", "__or__"):
        if name not in rm:
            tr.bad(rcls, f"RangeSpecifier.{name} missing")
        tr.method("RangeSpecifier", rm[name])
    for forbidden in ("__rand__", "__ror__", "__eq__", "__hash__", "is_empty"):
        if forbidden in rm or forbidden in ra:
            tr.bad(rcls, f"RangeSpecifier now defines {forbidden}")

    # ---------------- union.py, part 1: methods that do not need the dispatcher
    tr.fname = str(srcs["union"])
    for name in ("_from_ranges", "__invert__", "__and__"):
        if name not in um:
            tr.bad(ucls, f"UnionSpecifier.{name} missing")
        tr.method("UnionSpecifier", um[name])
    for forbidden in ("__eq__", "__hash__", "is_empty", "is_any"):
        if forbidden in um or forbidden in ua:
            tr.bad(ucls, f"UnionSpecifier now defines {forbidden}")
    if ua.get("__rand__") != "__and__" or ua.get("__ror__") != "__or__":
        tr.bad(ucls, "UnionSpecifier reflected-operator aliases changed")

    # ---------------- special.py methods
    tr.fname = str(srcs["special"])
    for clsname in ("EmptySpecifier", "AnySpecifier"):
        meths, aliases = special_info[clsname]
        for name in ("__invert__", "__and__", "__or__"):
            if name not in meths:
                tr.bad(sp, f"{clsname}.{name} missing")
            tr.method(clsname, meths[name])
        if aliases.get("__rand__") != "__and__" or aliases.get("__ror__") != "__or__":
            tr.bad(sp, f"{clsname} reflected-operator aliases changed")
    out.extend(tr.out)
    tr.out = []

    # ---------------- dispatch tables (CPython binary-operator protocol)
    def table(which, union_fn):
        return (
            f"  match a with\n"
            f"  | SEmpty => empty_{which} b\n"
            f"  | SAny => any_{which} b\n"
            f"  | SRange r => range_{which} r b\n"
            f"  | SUnion u => {union_fn} u b\n"
            f"  | SArb _ | SGeneric _ => NotImpl\n"
            f"  end")

    def rtable(which, union_fn):
        # reflected method of the RIGHT operand b, applied to the left operand a
        return (
            f"  match b with\n"
            f"  | SEmpty => empty_{which} a\n"
            f"  | SAny => any_{which} a\n"
            f"  | SRange _ => NotImpl\n"
            f"  | SUnion u => {union_fn} u a\n"
            f"  | SArb _ | SGeneric _ => NotImpl\n"
            f"  end")

    for which in ("and", "or"):
        out.append(
            f"(* a {'&' if which == 'and' else '|'} b  restricted to Empty/Any/Range/Union operands: left method, then the right\n"
            f"   operand's reflected method (Range defines none), TypeError if both decline. *)\n"
            f"Definition spec_{which}_gen (union_m : union -> spec -> pyres spec) (a b : spec) : pyres spec :=\n"
            f"  dispatch same_class\n"
            f"    (fun a b =>\n{table(which, 'union_m')})\n"
            f"    (fun b a =>\n{rtable(which, 'union_m')})\n"
            f"    a b.\n")

    # Union.__or__ specialised to a RangeSpecifier operand, then the partial dispatcher, then the full method
    tr.fname = str(srcs["union"])
    if "__or__" not in um:
        tr.bad(ucls, "UnionSpecifier.__or__ missing")
    f_or_r = tr.method("UnionSpecifier", um["__or__"], assume={"other": "range"}, suffix="_range")
    out.extend(tr.out)
    tr.out = []
    out.append(
        "Definition spec_or_range (a : spec) (r : range) : pyres spec :=\n"
        "  spec_or_gen (fun u o => match o with SRange r' => union_or_range u r' | _ => NotImpl end) a (SRange r).\n")
    tr.method("UnionSpecifier", um["__or__"])
    out.extend(tr.out)
    tr.out = []
    out.append("Definition spec_and : spec -> spec -> pyres spec := spec_and_gen union_and.\n")
    out.append("Definition spec_or : spec -> spec -> pyres spec := spec_or_gen union_or.\n")
    out.append(
        "Definition spec_invert (a : spec) : pyres spec :=\n"
        "  match a with\n"
        "  | SEmpty => empty_invert\n  | SAny => any_invert\n"
        "  | SRange r => range_invert r\n  | SUnion u => union_invert u\n"
        "  | SArb _ => Raise ValueError\n  | SGeneric _ => NotImpl\n  end.\n")

    # ---------------- is_empty / is_any: class override or the BaseSpecifier default
    bp = base / "base.py"
    bmod = ast.parse(bp.read_text(), filename=str(bp))
    tr.fname = str(bp)
    bcls = find_class(bmod, "BaseSpecifier", tr.fname)
    vcls = find_class(bmod, "VersionSpecifier", tr.fname)
    if [ast.unparse(b) for b in vcls.bases] != ["BaseSpecifier"]:
        tr.bad(vcls, "VersionSpecifier bases changed")
    bm, vm = class_methods(bcls), class_methods(vcls)
    for name in ("is_empty", "is_any"):
        if name in vm:
            tr.bad(vcls, f"VersionSpecifier now defines {name}")
        fn = bm.get(name)
        if fn is None or len(fn.body) != 1 or not isinstance(fn.body[0], ast.Return) \
                or not isinstance(fn.body[0].value, ast.Constant) or fn.body[0].value.value is not False:
            tr.bad(bcls, f"BaseSpecifier.{name} is no longer `return False`")
    if [ast.unparse(b) for b in rcls.bases] != ["VersionSpecifier"] or [ast.unparse(b) for b in ucls.bases] != ["VersionSpecifier"]:
        tr.bad(rcls, "Range/Union base classes changed")
    per_class = {"EmptySpecifier": special_info["EmptySpecifier"][0], "AnySpecifier": special_info["AnySpecifier"][0],
                 "RangeSpecifier": rm, "UnionSpecifier": um}
    srcfile = {"EmptySpecifier": "special", "AnySpecifier": "special", "RangeSpecifier": "range", "UnionSpecifier": "union"}
    for name in ("is_empty", "is_any"):
        arms = {}
        for clsname, meths in per_class.items():
            info = CLASSES[clsname]
            if name in meths:
                key = (info["ty"], name)
                if key not in tr.methods:
                    tr.fname = str(srcs[srcfile[clsname]])
                    tr.method(clsname, meths[name])
                fn = tr.methods[key]
                arms[clsname] = fn.coqname + ("" if info["ty"].startswith("unit_") else " x")
            else:
                arms[clsname] = "Ret false"
        out.extend(tr.out)
        tr.out = []
        out.append(
            f"Definition spec_{name} (s : spec) : pyres bool :=\n  match s with\n"
            f"  | SEmpty => {arms['EmptySpecifier']}\n  | SAny => {arms['AnySpecifier']}\n"
            f"  | SRange x => {arms['RangeSpecifier']}\n  | SUnion x => {arms['UnionSpecifier']}\n"
            f"  | SArb _ | SGeneric _ => Ret false\n  end.\n")
        tr.methods[("spec", name)] = Fn(f"spec_{name}", [], "bool", False)

    # ---------------- __eq__ : hand-written for Empty/Any, dataclass-generated for Range/Union
    tr.fname = str(srcs["special"])
    for clsname in ("EmptySpecifier", "AnySpecifier"):
        meths, _ = special_info[clsname]
        for name in ("__eq__", "__contains__"):
            if name not in meths:
                tr.bad(sp, f"{clsname}.{name} missing")
            tr.method(clsname, meths[name])
        st = meths.get("__str__")
        if st is None or len(st.body) != 1 or not isinstance(st.body[0], ast.Return) or not isinstance(st.body[0].value, ast.Constant):
            tr.bad(sp, f"{clsname}.__str__ is not a constant")
        h = meths.get("__hash__")
        hret = [n for n in (h.body if h else []) if not (isinstance(n, ast.Expr) and isinstance(n.value, ast.Constant))]
        if len(hret) != 1 or not isinstance(hret[0], ast.Return) or not isinstance(hret[0].value, ast.Call) \
                or getattr(hret[0].value.func, "id", "") != "hash" or len(hret[0].value.args) != 1:
            tr.bad(sp, f"{clsname}.__hash__ is not `return hash(<expr>)`")
        harg = hret[0].value.args[0]
        if ast.unparse(harg) == "str(self)":
            hkey = "HStr [" + "; ".join(str(ord(c)) for c in st.body[0].value.value) + "]%N"
        elif isinstance(harg, ast.Tuple) and all(isinstance(e, ast.Constant) and (e.value is None or isinstance(e.value, bool)) for e in harg.elts):
            hkey = "HTuple [" + "; ".join("HNone" if e.value is None else f"HBool {str(e.value).lower()}" for e in harg.elts) + "]"
        else:
            tr.bad(sp, f"{clsname}.__hash__ argument {ast.unparse(harg)!r}")
        special_info[clsname] += (hkey,)
    out.extend(tr.out)
    tr.out = []

    def eq_fields(clsname):
        fl = tr.field_flags[clsname]
        return [f for f, _, _ in tr.dataclass_fields[clsname] if fl.get(f, {"compare": True})["compare"]]

    def hash_fields(clsname):
        fl = tr.field_flags[clsname]
        res = []
        for f, _, _ in tr.dataclass_fields[clsname]:
            d = fl.get(f, {"compare": True, "hash": None})
            h = d["hash"] if d["hash"] is not None else d["compare"]
            if h:
                res.append(f)
        return res

    for clsname in ("RangeSpecifier", "UnionSpecifier"):
        if tr.dc_flags[clsname].get("unsafe_hash") is not True or tr.dc_flags[clsname].get("frozen") is not True:
            tr.bad(rcls, f"{clsname} dataclass flags (frozen/unsafe_hash) changed")
    cmp_term = {"min": "ver_eq_o (rmin a) (rmin b)", "max": "ver_eq_o (rmax a) (rmax b)",
                "include_min": "Bool.eqb (imin a) (imin b)", "include_max": "Bool.eqb (imax a) (imax b)",
                "simplified": "optclause_eqb (rsimp a) (rsimp b)"}
    rf = eq_fields("RangeSpecifier")
    out.append("(* dataclass-generated __eq__: tuple comparison of the compare=True fields *)\n"
               "Definition range_eqb (a b : range) : bool :=\n  " + " && ".join(cmp_term[f] for f in rf) + ".\n")
    out.append("Fixpoint ranges_eqb (l l' : list range) : bool :=\n  match l, l' with\n  | [], [] => true\n"
               "  | x :: xs, y :: ys => range_eqb x y && ranges_eqb xs ys\n  | _, _ => false\n  end.\n")
    ucmp = {"ranges": "ranges_eqb (uranges a) (uranges b)", "simplified": "optclause_eqb (usimp a) (usimp b)"}
    uf = eq_fields("UnionSpecifier")
    out.append("Definition union_eqb (a b : union) : bool :=\n  " + " && ".join(ucmp[f] for f in uf) + ".\n")
    out.append("Definition range_eq (self : range) (other : spec) : pyres bool :=\n"
               "  match other with SRange o => Ret (range_eqb self o) | _ => NotImpl end.\n")
    out.append("Definition union_eq (self : union) (other : spec) : pyres bool :=\n"
               "  match other with SUnion o => Ret (union_eqb self o) | _ => NotImpl end.\n")
    out.append(
        "(* a == b: a.__eq__(b), then the reflected b.__eq__(a), then identity (False for distinct objects) *)\n"
        "Definition spec_eq_m (a b : spec) : pyres bool :=\n  match a with\n"
        "  | SEmpty => empty_eq b\n  | SAny => any_eq b\n  | SRange r => range_eq r b\n  | SUnion u => union_eq u b\n"
        "  | SArb _ | SGeneric _ => NotImpl\n  end.\n"
        "Definition spec_eq (a b : spec) : pyres bool :=\n"
        "  match spec_eq_m a b with\n  | NotImpl => match spec_eq_m b a with NotImpl => Ret false | r => r end\n  | r => r\n  end.\n")
    # hash keys
    hterm = {"min": "hk_optver (rmin a)", "max": "hk_optver (rmax a)", "include_min": "HBool (imin a)",
             "include_max": "HBool (imax a)", "simplified": "HNone"}
    out.append("(* hash(x) is a function of hkey x: dataclass unsafe_hash = hash of the tuple of hash-flagged fields *)\n"
               "Definition range_hkey (a : range) : hk := HTuple [" + "; ".join(hterm[f] for f in hash_fields("RangeSpecifier")) + "].\n")
    uh = {"ranges": "HTuple (map range_hkey (uranges a))", "simplified": "HNone"}
    out.append("Definition union_hkey (a : union) : hk := HTuple [" + "; ".join(uh[f] for f in hash_fields("UnionSpecifier")) + "].\n")

    def strlit(s):
        return "[" + "; ".join(str(ord(c)) for c in s) + "]%N"

    out.append("Definition spec_hkey (s : spec) : hk :=\n  match s with\n"
               f"  | SEmpty => {special_info['EmptySpecifier'][2]}\n"
               f"  | SAny => {special_info['AnySpecifier'][2]}\n"
               "  | SRange r => range_hkey r\n  | SUnion u => union_hkey u\n"
               "  | SArb t => HTuple [HStr t]\n  | SGeneric g => HTuple [HOp (g_op g); HStr (g_value g)]\n  end.\n")
    out.append("Definition spec_contains_str (s : spec) (value : str) : pyres bool :=\n  match s with\n"
               "  | SEmpty => empty_contains value\n  | SAny => any_contains value\n  | _ => NotImpl\n  end.\n")
    out.append("End GenSpec.\n")
    return "\n".join(out)


def main():
    repo = Path(sys.argv[1] if len(sys.argv) > 1 else "/repo")
    dest = Path(sys.argv[2] if len(sys.argv) > 2 else "/verif/coq/Gen/GenSpec.v")
    try:
        text = translate(repo)
    except Unsupported as e:
        print(f"TRANSLATION-FAILED {e}")
        return 2
    except SyntaxError as e:
        print(f"TRANSLATION-FAILED syntax error: {e}")
        return 2
    old = dest.read_text() if dest.exists() else None
    if old != text:
        dest.parent.mkdir(parents=True, exist_ok=True)
        dest.write_text(text)
        print(f"wrote {dest} ({len(text)} bytes)")
    else:
        print(f"unchanged {dest}")
    return 0


if __name__ == "__main__":
    sys.exit(main())
