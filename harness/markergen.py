"""markergen.py — generators of well-defined PEP 508 marker texts, separating
environment grids, and structural helpers for the marker properties."""
from __future__ import annotations

import itertools
import random

STR_VARS = ["os_name", "sys_platform", "platform_machine", "platform_system", "implementation_name", "platform_version"]
STR_POOL = {
    "os_name": ["nt", "posix", "java", ""],
    "sys_platform": ["linux", "linux2", "win32", "darwin", "win"],
    "platform_machine": ["x86_64", "aarch64", "arm64", "x86", "AMD64"],
    "platform_system": ["Linux", "Windows", "Darwin"],
    "implementation_name": ["cpython", "pypy"],
    # a STRING variable whose values look like versions: "1.0" and "1.0.0" are different strings (they were once compared as versions)
    "platform_version": ["1.0", "1.0.0", "10.0.19041", "#1 SMP"],
}
EXTRAS = ["foo", "bar", "Foo_Bar", "baz"]
PV = ["2.7", "3.6", "3.7", "3.8", "3.9", "3.10", "3.11", "3"]
PFV = ["3.6", "3.7.0", "3.7.1", "3.8", "3.8.10", "3.10.0", "3.11.2", "2.7.18"]
# operands with a pre/post/dev suffix (valid PEP 440; pre-release interpreters report e.g. 3.13.0a1)
PFV_SUFFIX = ["3.9a1", "3.9.0rc1", "3.10.0b2", "3.8.post1", "3.9.dev0", "3.11a3", "3.7.0.post2"]
REL = ["5.4.0", "5.10", "6", "4.19.1"]
CMP = ["==", "!=", "<", "<=", ">", ">=", "~="]


def q(s):
    return '"' + s + '"'


def atom(rng: random.Random, reversed_ok=True) -> str:
    k = rng.random()
    if k < 0.34:
        var = rng.choice(STR_VARS)
        pool = STR_POOL[var]
        op = rng.choice(["==", "!=", "==", "!=", "in", "not in"])
        if op in ("in", "not in"):
            lit = " ".join(rng.sample(pool, min(len(pool), rng.choice([1, 2, 3]))))
        else:
            lit = rng.choice(pool)
        if reversed_ok and op in ("==", "!=") and rng.random() < 0.15:
            return f"{q(lit)} {op} {var}"
        if reversed_ok and op in ("in", "not in") and rng.random() < 0.3:
            # literal on the left: a substring test on the environment value
            frag = rng.choice(pool) or "x"
            frag = frag[: rng.choice([2, 3, len(frag)])]
            return f"{q(frag)} {op} {var}"
        return f"{var} {op} {q(lit)}"
    if k < 0.62:
        op = rng.choice(CMP + ["in", "not in"])
        if op in ("in", "not in"):
            lit = ", ".join(rng.sample(PV[:-1], rng.choice([1, 2, 3])))
            return f"python_version {op} {q(lit)}"
        lit = rng.choice(PV)
        if rng.random() < 0.12:
            # trailing ".0" segments change nothing for python_version (it is always X.Y): "3.8.0" compares like "3.8"
            lit = rng.choice(["3.8.0", "2.7.0", "3.10.0", "3.9.0.0"])
        if op == "~=" and "." not in lit:
            lit = "3.8"
        if op in ("==", "!=") and rng.random() < 0.2:
            lit = rng.choice(["3.*", "2.*"])
        return _cmp("python_version", op, lit, rng, reversed_ok)
    if k < 0.82:
        op = rng.choice(CMP)
        lit = rng.choice(PFV)
        if op in ("==", "!=") and rng.random() < 0.25:
            lit = rng.choice(["3.7.*", "3.*", "3.10.*"])
        elif rng.random() < 0.15:
            lit = rng.choice(PFV_SUFFIX)
        return _cmp("python_full_version", op, lit, rng, reversed_ok)
    if k < 0.87:
        op = rng.choice(["<", "<=", ">", ">=", "==", "!=", "<", ">=", "~="])
        if op in ("==", "!=", "~=") and rng.random() < 0.35:
            # compatible-release and wildcard atoms on the other version-valued variables
            var = rng.choice(["platform_release", "implementation_version"])
            lit = rng.choice(["5.4", "5.10.1", "7.3"]) if op == "~=" else rng.choice(["5.*", "5.4.*", "7.3.*"])
            return _cmp(var, op, lit, rng, reversed_ok)
        if op == "~=":
            op = "=="
        if rng.random() < 0.4:
            # a version-valued variable that is not one of the python_version pair (PyPy reports e.g. 7.3.11)
            return _cmp("implementation_version", op, rng.choice(["3.8", "3.9", "3.8.0", "7.3.1", "7.3.10"]), rng, reversed_ok)
        return _cmp("platform_release", op, rng.choice(REL), rng, reversed_ok)
    op = rng.choice(["==", "!="])
    return f"extra {op} {q(rng.choice(EXTRAS))}"


REFLECT = {"<": ">", "<=": ">=", ">": "<", ">=": "<=", "==": "==", "!=": "!=", "~=": "~="}


def _cmp(var, op, lit, rng, reversed_ok):
    if op == "~=" and var not in ("python_version", "python_full_version"):
        reversed_ok = False   # "lit" ~= name builds ~=<environment value>: undefined (for packaging too) when that value has one segment ("6")
    if reversed_ok and rng.random() < (0.2 if (op != "~=" and "*" not in lit) else 0.12):
        # "lit" ~= name and wildcard literals on the left are valid PEP 508 too (and are not the mirror image of the atom with the variable first)
        return f"{q(lit)} {REFLECT[op]} {var}"
    return f"{var} {op} {q(lit)}"


def marker_text(rng: random.Random, depth: int = 2, same_var_bias=0.35) -> str:
    """random and/or tree; biased towards repeating a variable so merges happen"""
    def tree(d):
        if d == 0 or rng.random() < 0.3:
            return atom(rng)
        n = rng.choice([2, 2, 3])
        op = rng.choice([" and ", " or "])
        parts = [tree(d - 1) for _ in range(n)]
        if rng.random() < same_var_bias:
            # reuse the variable of the first atom in a sibling
            first = parts[0]
            for v in STR_VARS + ["python_version", "python_full_version", "extra"]:
                if v in first and "(" not in first:
                    rng2 = random.Random(rng.random())
                    for _ in range(20):
                        a = atom(rng2)
                        if v in a.split(" ")[0] or a.endswith(v):
                            parts[-1] = a
                            break
                    break
        return "(" + op.join(parts) + ")"
    t = tree(depth)
    return t[1:-1] if t.startswith("(") and t.endswith(")") and _balanced(t[1:-1]) else t


def _balanced(s):
    d = 0
    for ch in s:
        if ch == "(":
            d += 1
        elif ch == ")":
            d -= 1
            if d < 0:
                return False
    return d == 0


# ----------------------------------------------------------------------------- environments
def env_grid(texts, rng: random.Random, limit=48):
    """environments that separate the literals occurring in the given marker texts"""
    import re
    lits = set(re.findall(r'"([^"]*)"', " ".join(texts)))
    pv_candidates = set()
    for l in lits:
        for part in re.split(r"[ ,]+", l):
            m = re.match(r"(\d+)(?:\.(\d+))?(?:\.(\d+))?", part)
            if m:
                X, Y, Z = int(m.group(1)), int(m.group(2) or 0), int(m.group(3) or 0)
                for (x, y, z) in [(X, Y, Z), (X, Y, Z + 1), (X, Y, max(Z - 1, 0)), (X, Y + 1, 0), (X, max(Y - 1, 0), 9), (X + 1, 0, 0)]:
                    pv_candidates.add((x, y, z))
    pv_candidates |= {(3, 8, 1), (2, 7, 18), (3, 12, 0)}
    all_candidates = sorted(pv_candidates)
    pv_candidates = sorted(v for v in pv_candidates if 2 <= v[0] <= 4)
    envs = []
    extras_mentioned = [e for e in EXTRAS if e in lits]
    extra_sets = [set()] + [set(c) for r in (1, 2) for c in itertools.combinations(extras_mentioned, r)]
    for _ in range(limit):
        x, y, z = rng.choice(pv_candidates)
        full = f"{x}.{y}.{z}"
        if rng.random() < 0.08:
            # a pre-release interpreter (3.13.0a1, 3.9.0rc1): a valid version; PEP 440's exclusion rules then apply to the CANDIDATE
            full = f"{x}.{y}.{z}" + rng.choice(["a1", "b2", "rc1"])
        env = {"python_full_version": full, "python_version": f"{x}.{y}",
               "platform_release": rng.choice(REL + ["5.4.1", "6.1.0"]),
               "platform_version": "#1 SMP", "implementation_version": "%d.%d.%d" % rng.choice(all_candidates),
               "platform_python_implementation": "CPython"}
        for v in STR_VARS:
            pool = list(STR_POOL[v])
            cand = [l for l in lits if l in pool] or pool
            env[v] = rng.choice(cand + pool[:2] + ["zzz"])
        env["extra"] = rng.choice(extra_sets)
        envs.append(env)
    # environments with a final interpreter first: the oracles stop at the first failing environment, and a failure on a final
    # interpreter must never be hidden behind (and classed as) one on a pre-release interpreter
    import re as _re
    envs.sort(key=lambda e: bool(_re.search(r"(a|b|rc|dev|post)\d*$", str(e.get("python_full_version", "")))))
    return envs


def pkg_env(env, extra_name=""):
    e = dict(env)
    e["extra"] = extra_name
    return e


# ----------------------------------------------------------------------------- structure
def kind(m) -> str:
    return type(m).__name__


def dump(m):
    k = kind(m)
    if k == "MarkerExpression":
        return ("atom", m.name, m.op, m.value, bool(m.reversed))
    if k in ("EqualityMarkerUnion", "InequalityMultiMarker"):
        return (k, m.name, tuple(m.values))
    if k in ("MultiMarker", "MarkerUnion"):
        return (k, tuple(dump(c) for c in m.markers))
    return (k,)


def variables(m) -> set:
    k = kind(m)
    if k in ("MarkerExpression", "EqualityMarkerUnion", "InequalityMultiMarker"):
        return {m.name}
    if k in ("MultiMarker", "MarkerUnion"):
        out = set()
        for c in m.markers:
            out |= variables(c)
        return out
    return set()


def nf_problems(m, top=True):
    """every way in which m departs from the normal form of C15 (empty list: m is in normal form).  A grouped ==/!= atom needs at least one
    value (with none it would be the empty / universal marker without saying so); the property puts no other constraint on its size."""
    k = kind(m)
    if k in ("AnyMarker", "EmptyMarker"):
        return [] if top else [f"{k} nested inside a compound"]
    if k == "MarkerExpression":
        return []
    if k in ("EqualityMarkerUnion", "InequalityMultiMarker"):
        n = len(list(m.values))
        return [] if n >= 1 else [f"{k} atom group with {n} value(s)"]
    if k in ("MultiMarker", "MarkerUnion"):
        out = []
        cs = list(m.markers)
        if len(cs) < 2:
            out.append(f"{k} with {len(cs)} child(ren)")
        for i, c in enumerate(cs):
            if kind(c) == k:
                out.append(f"{k} directly inside {k}")
            if any(c == d for d in cs[:i]):
                out.append(f"{k} with duplicate children")
            out.extend(nf_problems(c, top=False))
        return list(dict.fromkeys(out))
    return [f"unexpected class {k}"]


def nf_problem(m, top=True):
    """None if m is in the normal form of C15, else the first description"""
    ps = nf_problems(m, top)
    return ps[0] if ps else None
