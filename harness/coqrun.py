"""coqrun.py — regenerate the model from the repository, build proof cones, and
evaluate correspondence cases inside Coq (vm_compute)."""
from __future__ import annotations

import os
import re
import shutil
import subprocess
import sys
import time
from pathlib import Path

VERIF = Path(__file__).resolve().parent.parent
COQ = VERIF / "coq"
BUILD = VERIF / "_build"
REPO = Path(os.environ.get("VERIF_REPO", "/repo"))
NCPU = os.cpu_count() or 8

FORBIDDEN = re.compile(
    r"\b(Admitted|admit|Axiom|Axioms|Parameter|Parameters|Conjecture|Conjectures|Hypothesis|Hypotheses|Variable|Variables|Context)\b|Unset Guard|Unset Positivity|Unset Universe|bypass_check|type-in-type|impredicative-set|Admit Obligations|native_compute")
MODULE_TYPE_FILES = set()   # no module types of our own: the functors take the standard library's OrderedTypeFull'
SECTION_LOCAL = {"Hypothesis", "Hypotheses", "Variable", "Variables", "Context"}


def _clean(out: str) -> str:
    return "\n".join(l for l in out.splitlines() if "conda.cli.condarc" not in l and "WARNING conda" not in l)


def regen() -> tuple[bool, str]:
    """run the translator on the current working tree of the repository"""
    (COQ / "Gen").mkdir(exist_ok=True)
    p = subprocess.run([sys.executable, str(VERIF / "translator" / "py2coq.py"), str(REPO), str(COQ / "Gen" / "GenSpec.v")],
                       capture_output=True, text=True, timeout=120)
    out = _clean(p.stdout + p.stderr)
    if p.returncode != 0:
        # fail closed: remove the stale generated file so nothing can be proved about old code
        try:
            (COQ / "Gen" / "GenSpec.v").unlink()
        except FileNotFoundError:
            pass
        for f in (COQ / "Gen").glob("GenSpec.vo"):
            f.unlink()
        return False, out.strip()
    return True, out.strip()


def coqproject() -> None:
    subprocess.run(["sh", str(COQ / "gen_coqproject.sh")], check=True, timeout=120)


def build(targets: list[str], timeout: int = 900) -> tuple[bool, str, float]:
    """full .vo build (never -vos) of the given targets and their dependency cone"""
    coqproject()
    t0 = time.time()
    cmd = ["timeout", str(timeout), "make", "-C", str(COQ), f"-j{NCPU}", "-k"] + targets
    p = subprocess.run(cmd, capture_output=True, text=True)
    out = _clean(p.stdout + "\n" + p.stderr)
    return p.returncode == 0, out, time.time() - t0


def read_assumptions(pid: str) -> tuple[bool, list, str]:
    """the Print Assumptions output that the Props file redirected to coq/<pid>.assumptions.out
    when it was last compiled (by this run's make, or by an earlier make on identical sources)"""
    out_f = COQ / f"{pid}.assumptions.out"
    vo = COQ / "Props" / f"{pid}.vo"
    if not out_f.exists() or not vo.exists():
        return False, [], "no assumptions file"
    if vo.stat().st_mtime - out_f.stat().st_mtime > 120 or out_f.stat().st_mtime - vo.stat().st_mtime > 120:
        return False, [], "assumptions file is not from the compilation that produced the .vo"
    txt = out_f.read_text()
    if txt.startswith("Closed under the global context"):
        return True, "closed", txt
    axioms = [l.strip() for l in txt.splitlines()[1:] if l.strip()]
    return True, axioms, txt


def scan_forbidden() -> list[str]:
    hits = []
    for f in sorted(COQ.rglob("*.v")):
        if "_build" in f.parts:
            continue
        txt = f.read_text()
        # strip comments (non-nested is enough for our sources; nested handled by loop)
        prev = None
        while prev != txt:
            prev = txt
            txt = re.sub(r"\(\*[^*]*(?:\*(?!\))[^*]*)*\*\)", " ", txt)
        stack = []   # 'S' for an open Section, 'M' for an open Module / Module Type
        for i, line in enumerate(txt.splitlines(), 1):
            st = line.strip()
            if re.match(r"Section\s+\w+\s*\.", st):
                stack.append("S")
            elif re.match(r"Module\s+(Type\s+)?\w+[^=]*\.\s*$", st) and ":=" not in st:
                stack.append("M")
            elif re.match(r"End\s+\w+\s*\.", st) and stack:
                stack.pop()
            m = FORBIDDEN.search(line)
            if m:
                # Variable / Hypothesis / Context inside a Section are discharged at End and declare nothing;
                # in a Module Type they are functor parameters (only `Parameter`, which is flagged separately below)
                if m.group(0) in SECTION_LOCAL and "S" in stack:
                    continue
                # `Parameter` inside a Module Type is the signature of a functor argument (Order.v), instantiated in Pep440.v
                if m.group(0) in ("Parameter", "Parameters", "Axiom") and stack and stack[-1] == "M" and f.name in MODULE_TYPE_FILES:
                    continue
                hits.append(f"{f.relative_to(COQ)}:{i}: {line.strip()[:100]}")
    return hits


CASE_HEADER = """From Coq Require Import List Bool NArith.
From Verif Require Import PyRes Str SpecTypes Pep440 {mod}.
Import ListNotations.
Open Scope N_scope.
Definition cs : list {casety} := [
{body}
].
Eval vm_compute in ({runner} cs).
"""


def eval_cases(terms: list[str], tag: str, mod: str = "Corr", casety: str = "case", runner: str = "run_cases",
               shard: int = 400, timeout: int = 600) -> tuple[int, list[int], list[str]]:
    """evaluate the cases inside Coq; returns (evaluated, mismatching global indices, errors)"""
    d = BUILD / "cases" / tag
    if d.exists():
        shutil.rmtree(d)
    d.mkdir(parents=True)
    files = []
    for k in range(0, len(terms), shard):
        chunk = terms[k:k + shard]
        f = d / f"cases_{k // shard:05d}.v"
        f.write_text(CASE_HEADER.format(mod=mod, casety=casety, runner=runner, body=";\n".join(chunk)))
        files.append((k, f))
    if not files:
        return 0, [], []
    script = d / "run.sh"
    script.write_text("#!/bin/sh\ncd \"$(dirname \"$1\")\" && timeout %d coqc -noglob -Q %s Verif -w -cast-in-pattern \"$1\" > \"$1.out\" 2>&1\n" % (timeout, COQ))
    script.chmod(0o755)
    p = subprocess.run(["xargs", "-P", str(NCPU), "-n", "1", str(script)], input="\n".join(str(f) for _, f in files),
                       text=True, capture_output=True)
    # keep the case sources and outputs (replay), drop compiled artefacts
    for junk in list(d.glob("*.vo")) + list(d.glob("*.vok")) + list(d.glob("*.vos")) + list(d.glob("*.glob")) + list(d.glob(".*.aux")):
        try:
            junk.unlink()
        except OSError:
            pass
    total, bad, errors = 0, [], []
    for k, f in files:
        out = _clean(Path(str(f) + ".out").read_text())
        m = re.search(r"=\s*\(\s*(\d+)\s*,\s*\[([^\]]*)\]", out.replace("\n", " "))
        if not m:
            errors.append(f"{f.name}: {out.strip()[:400]}")
            continue
        total += int(m.group(1))
        idx = [int(x) for x in re.findall(r"\d+", m.group(2))]
        bad.extend(k + i for i in idx)
    return total, bad, errors


# ---------------------------------------------------------------- rendering helpers
def cbool(b: bool) -> str:
    return "true" if b else "false"


def cstr(s: str) -> str:
    return "[" + "; ".join(str(ord(c)) for c in s) + "]"


def copt(x, f) -> str:
    return "None" if x is None else f"(Some {f(x)})"
