"""props_generic.py — C19: string-atom specifier algebra (generic.py)."""
from __future__ import annotations

import itertools

import coqrun
import specgen as sg
from framework import BASE_TRUST, Ctx
from props_spec import proof_step

OPS = ["==", "!=", "in", "not in", ">", ">=", "<", "<="]
STR_OPS = OPS[:4]
# literal pool closed under the relations the case table inspects:
# equal, substring, superstring, overlapping-not-nested, disjoint, empty string
POOL = ["", "a", "ab", "abc", "b", "bc", "c", "ca", "linux", "linux2", "win32", "win", "n32"]
CANDIDATES = POOL + ["abcd", "x", "nux", "in32", "linux2x"]


def gspec(op, v):
    return f"(Gn {sg.GOPS[op]} {coqrun.cstr(v)})"


def py_contains(op, lit, cand):
    return {"==": cand == lit, "!=": cand != lit, "in": cand in lit, "not in": cand not in lit,
            ">": cand > lit, ">=": cand >= lit, "<": cand < lit, "<=": cand <= lit}[op]


def run_c19(ctx: Ctx):
    from dep_logic.specifiers import GenericSpecifier, EmptySpecifier, AnySpecifier
    ctx.trusted_base = [b for b in BASE_TRUST if "packaging" not in b] + [
        "Model/Generic.v is a hand-written model of generic.py (function for function); the tie is the S-generic stream, "
        "which is exhaustive over 8 operators x a literal pool closed under the relations the case table inspects"]
    proof_step(ctx, "Props/C19.v", ["C19_and", "C19_or", "C19_inv", "C19_dispatch"], extra_targets=["Model/CorrGeneric.v"])
    atoms = [(op, v) for op in OPS for v in POOL]
    terms, meta = [], []
    objs = {a: GenericSpecifier(*a) for a in atoms}
    # constructor
    for op in OPS + ["~=", "===", "", "is"]:
        try:
            GenericSpecifier(op, "a")
            ok = True
        except Exception:  # noqa: BLE001
            ok = False
        terms.append(f"GMk {sg.GOPS.get(op, 'GOther')} {coqrun.cstr('a')} {coqrun.cbool(ok)}"); meta.append(("mk", op))
    pairs = list(itertools.product(atoms, atoms))
    if ctx.tier == "quick":
        # all operator pairs, all literal pairs for the four string operators; a slice for ordering operators
        pairs = [p for p in pairs if (p[0][0] in STR_OPS and p[1][0] in STR_OPS) or (hash((p, ctx.seed)) % 7 == 0)]
    for a, b in pairs:
        x, y = objs[a], objs[b]
        terms.append(f"GAnd {gspec(*a)} {gspec(*b)} {sg.cres(lambda: x & y, sg.cspec)}"); meta.append(("and", a, b))
        terms.append(f"GOr {gspec(*a)} {gspec(*b)} {sg.cres(lambda: x | y, sg.cspec)}"); meta.append(("or", a, b))
        terms.append(f"GEqual (mkGenericRaw {sg.GOPS[a[0]]} {coqrun.cstr(a[1])}) (mkGenericRaw {sg.GOPS[b[0]]} {coqrun.cstr(b[1])}) {coqrun.cbool(x == y)}")
        meta.append(("eq", a, b))
    for a in atoms:
        x = objs[a]
        terms.append(f"GInv (mkGenericRaw {sg.GOPS[a[0]]} {coqrun.cstr(a[1])}) {sg.cres(lambda: ~x, sg.cspec)}"); meta.append(("inv", a))
        for c in CANDIDATES:
            terms.append(f"GContains {gspec(*a)} {coqrun.cstr(c)} {sg.cres(lambda: c in x, coqrun.cbool)}"); meta.append(("contains", a, c))
        for other, cs in ((EmptySpecifier(), "SEmpty"), (AnySpecifier(), "SAny")):
            terms.append(f"GAnd {gspec(*a)} {cs} {sg.cres(lambda: x & other, sg.cspec)}"); meta.append(("and", a, cs))
            terms.append(f"GOr {cs} {gspec(*a)} {sg.cres(lambda: other | x, sg.cspec)}"); meta.append(("or", cs, a))
    for c in CANDIDATES:
        terms.append(f"GContains SEmpty {coqrun.cstr(c)} {sg.cres(lambda: c in EmptySpecifier(), coqrun.cbool)}"); meta.append(("contains", "empty", c))
        terms.append(f"GContains SAny {coqrun.cstr(c)} {sg.cres(lambda: c in AnySpecifier(), coqrun.cbool)}"); meta.append(("contains", "any", c))
    if not any(b["kind"] == "translation" for b in ctx.broken):
        total, bad, errs = coqrun.eval_cases(terms, "C19-sgeneric", mod="CorrGeneric Corr", casety="gcase", runner="run_gcases")
        ctx.count("S-generic", total)
        if errs:
            ctx.broke("correspondence", "S-generic (evaluation failed)", "\n".join(errs[:3]))
        if bad:
            ctx.broke("correspondence", "S-generic: Model/Generic.v vs generic.py / special.py",
                      f"{len(bad)} of {total} cases differ; first: {meta[bad[0]]}: {terms[bad[0]][:300]}")
    ctx.sample({"stream": "S-generic", "case": str(meta[len(meta) // 3])})
    # ---- direct oracle: the property itself on the implementation, all candidates
    for a, b in itertools.product([(op, v) for op in STR_OPS for v in POOL], repeat=2):
        x, y = objs[a], objs[b]
        rel = ("eq" if a[1] == b[1] else "sub" if a[1] in b[1] else "sup" if b[1] in a[1] else "other")
        ctx.count("oracle-C19", 2, nontrivial_key=(a[0], b[0], rel, a[1] == "", b[1] == ""))
        for opname, f, comb in (("and", lambda: x & y, lambda p, q: p and q), ("or", lambda: x | y, lambda p, q: p or q)):
            try:
                r = f()
            except NotImplementedError:
                continue
            except Exception as e:  # noqa: BLE001
                ctx.finding(f"{opname}|{a}|{b}", f"{opname} raised {type(e).__name__} (only NotImplementedError is allowed)",
                            {"a": a, "b": b}, "a specifier or NotImplementedError", repr(e))
                continue
            for c in CANDIDATES:
                exp = comb(py_contains(a[0], a[1], c), py_contains(b[0], b[1], c))
                try:
                    got = c in r
                except Exception as e:  # noqa: BLE001
                    got = repr(e)
                if got != exp:
                    ctx.finding(f"{opname}|{a}|{b}", f"a {'&' if opname == 'and' else '|'} b is not exact on strings",
                                {"a": a, "b": b, "candidate": c}, exp, {"result": repr(r), "member": got})
                    break
    for a in [(op, v) for op in STR_OPS for v in POOL]:
        ctx.count("oracle-C19", 1, nontrivial_key=("inv", a[0], a[1] == ""))
        try:
            r = ~objs[a]
            for c in CANDIDATES:
                if (c in r) != (not py_contains(a[0], a[1], c)):
                    ctx.finding(f"inv|{a}", "~a is not the complement", {"a": a, "candidate": c}, not py_contains(a[0], a[1], c), c in r)
                    break
        except Exception as e:  # noqa: BLE001
            ctx.finding(f"inv|{a}", f"~a raised {type(e).__name__}", {"a": a}, "a specifier", repr(e))
    ctx.coverage["rule"] = ("all ordered pairs of (operator, literal) over 4 string operators (8 in the correspondence) and a 13-literal "
                            "pool closed under equal/substring/superstring/overlap/disjoint/empty, against 18 candidate strings; "
                            "distinct = (operator pair, literal relation, emptiness)")
    ctx.coverage["exhaustive"] = True
