"""sparse.py — the S-parse correspondence stream: Model/SpecParse.v against
dep_logic.specifiers (_from_pkg_specifier, from_specifierset, parse_version_specifier, str(), contains, is_simple)
and against packaging (Specifier.contains on final releases).  Texts are tokenised by packaging
(Specifier / SpecifierSet): the model works on structured clauses."""
from __future__ import annotations

import random

from packaging.specifiers import Specifier, SpecifierSet
from packaging.version import Version

import coqrun
import props_parse as pp
from framework import Ctx
from specgen import EXN, cres, cver

SOP = {">=": "OpGe", ">": "OpGt", "<=": "OpLe", "<": "OpLt", "==": "OpEq", "!=": "OpNe", "~=": "OpCompat"}


class Unmodelled(ValueError):
    pass


def cclause(sp: Specifier) -> str:
    op, ver = sp.operator, sp.version
    if op == "===" or "+" in ver:
        raise Unmodelled(str(sp))
    if ver.endswith(".*"):
        return f"(K_ {'OpEqStar' if op == '==' else 'OpNeStar'} {cver(Version(ver[:-2]))})"
    return f"(K_ {SOP[op]} {cver(Version(ver))})"


def cclauses(ss) -> str:
    return "[" + "; ".join(cclause(s) for s in ss) + "]"


def csimp(text) -> str:
    if text is None:
        return "None"
    parts = list(SpecifierSet(text))
    if len(parts) != 1:
        raise Unmodelled(text)
    return f"(Some {cclause(parts[0])})"


def crange_s(r) -> str:
    return f"(RS_ {coqrun.copt(r.min, cver)} {coqrun.copt(r.max, cver)} {coqrun.cbool(r.include_min)} {coqrun.cbool(r.include_max)} {csimp(r.simplified)})"


def cspec_s(s) -> str:
    n = type(s).__name__
    if n == "EmptySpecifier":
        return "SEmpty"
    if n == "AnySpecifier":
        return "SAny"
    if n == "RangeSpecifier":
        return f"(SRange {crange_s(s)})"
    if n == "UnionSpecifier":
        return "(US_ [" + "; ".join(crange_s(r) for r in s.ranges) + f"] {csimp(s.simplified)})"
    raise Unmodelled(n)


def ctext(text: str) -> str:
    if text == "<empty>":
        return "TEmpty"
    return "(TAlts [" + "; ".join(cclauses(SpecifierSet(p)) for p in text.split("||")) + "])"


def _res(thunk, render):
    try:
        x = thunk()
    except Exception as e:  # noqa: BLE001
        n = type(e).__name__
        return f"(Raise {n})" if n in EXN else "(Raise Unfueled)"
    try:
        return f"(Ret {render(x)})"     # Unmodelled propagates: the case is skipped
    except Unmodelled:
        raise
    except Exception:  # noqa: BLE001   the implementation's text is not tokenisable by packaging: a guaranteed mismatch
        return "(Raise Unfueled)"


def finals_around(s, rng):
    out = list(pp.FINALS[:12])
    for r in getattr(s, "ranges", None) or ([s] if type(s).__name__ == "RangeSpecifier" else []):
        for v in (r.min, r.max):
            if v is not None:
                rel = list(v.release)
                for rr in (rel, rel + [0], rel + [1], rel[:-1] + [rel[-1] + 1], rel[:-1] or [0], (rel[:-1] + [max(rel[-1] - 1, 0), 9])):
                    out.append(Version(f"{v.epoch}!" + ".".join(map(str, rr))))
    rng.shuffle(out)
    return out[:14]


def stream_sparse(ctx: Ctx, n: int):
    from dep_logic.specifiers import _from_pkg_specifier, from_specifierset, parse_version_specifier
    rng = random.Random(ctx.seed + 313)
    cases = []   # (term, description)
    skipped = 0

    def add(kind, mk, desc):
        nonlocal skipped
        try:
            cases.append((mk(), f"{kind}: {desc}"))
        except Unmodelled:
            skipped += 1

    # -- single clauses: _from_pkg_specifier and packaging's semantics on final releases
    clause_texts = ["~=1.2", "~=1.2.3", "~=1.2.post1", "~=1.2.dev1", "~=1!2.0", "~=1.0a1", "==1.*", "==1.0.*", "==1!2.*", "!=1.5.*", "!=1.*", "!=0.*", "==0.*", "==1.0", "!=1.0",
                    ">=1.0.post1", "<2.0.dev1", ">1.0a1", "<=1.0rc1", "==1.0.0.0", "!=1.0.post2", "~=1.0.0", "~=0.0", "==10.20.*", "~=3.9", "~=3.9.0", ">=3", "<4", "==3.10.*"]
    clause_texts += [pp.clause(rng) for _ in range(n)]
    seen = set()
    for t in clause_texts:
        if t in seen or "+" in t:
            continue
        seen.add(t)
        try:
            sp = Specifier(t)
        except Exception:  # noqa: BLE001
            continue
        add("from_pkg", lambda sp=sp: f"PFrom {cclause(sp)} {_res(lambda: _from_pkg_specifier(sp), cspec_s)}", t)
        base = Version(sp.version[:-2] if sp.version.endswith(".*") else sp.version)
        rel = list(base.release)
        cands = {Version(f"{base.epoch}!" + ".".join(map(str, r))) for r in
                 (rel, rel + [0], rel + [1], rel[:-1] + [rel[-1] + 1], rel[:-1] or [0], rel[:-1] + [max(rel[-1] - 1, 0), 7], rel[:-2] + [rel[-2] + 1] if len(rel) > 1 else rel, rel[:1])}
        cands |= {Version("0"), Version("1!0"), Version(str(rng.choice(pp.FINALS)))}
        for v in sorted(cands):
            add("packaging", lambda sp=sp, v=v: f"PSem {cclause(sp)} {cver(v)} {coqrun.cbool(sp.contains(v))}", f"Specifier({t!r}).contains({v})")
    # -- sets and || alternatives: from_specifierset / parse_version_specifier
    set_texts = [">=1.2,<2.0", ">=1.0,!=1.5", "~=1.2,!=1.2.3", "==1.*,>=1.5", ">=2,<1", "<1,>=1", ">=1,<=1", "!=1.0,!=2.0", "!=1.*,!=2.*", ">=1.0,<2||>=3", "<1||>=2||==1.5", "", "<empty>",
                 "~=1.2||~=2.3", "<1.0||>=1.0", "<1.0||>1.0", "==1.0||==1.0.0", ">=1!1.0,<1!2", "!=1.5.*,>=1.0", "<2||>=2.1.0"]
    set_texts += [pp.spec_text(rng) for _ in range(n // 2)]
    set_texts += ["||".join(pp.spec_text(rng) for _ in range(rng.choice([2, 2, 3]))) for _ in range(n // 3)]
    for t in set_texts:
        if "+" in t or "===" in t:
            continue
        try:
            if t != "<empty>":
                for p in t.split("||"):
                    SpecifierSet(p)
        except Exception:  # noqa: BLE001
            continue
        if "||" not in t and t != "<empty>":
            ss = SpecifierSet(t)
            add("from_specifierset", lambda ss=ss: f"PSet {cclauses(ss)} {_res(lambda: from_specifierset(ss), cspec_s)}", t)
        add("parse", lambda t=t: f"PParse {ctext(t)} {_res(lambda: parse_version_specifier(t), cspec_s)}", t)
    # -- reachable specifiers: str(), is_simple(), contains
    for desc, s, leaves, _ in pp.reachable(ctx, n // 2, salt=317):
        if any("===" in x or "+" in x for x in leaves):
            continue
        add("render", lambda s=s: f"PRender {cspec_s(s)} {_res(lambda: str(s), ctext)}", desc)
        if hasattr(s, "is_simple") and type(s).__name__ in ("RangeSpecifier", "UnionSpecifier"):
            add("is_simple", lambda s=s: f"PSimple {cspec_s(s)} {_res(lambda: s.is_simple(), coqrun.cbool)}", desc)
        for v in finals_around(s, rng)[:6]:
            add("contains", lambda s=s, v=v: f"PContains {cspec_s(s)} {cver(v)} {_res(lambda: v in s, coqrun.cbool)}", f"{v} in {desc}")
    ctx.coverage["streams"]["S-parse-unmodelled-skipped"] = skipped
    terms = [c[0] for c in cases]
    total, bad, errs = coqrun.eval_cases(terms, f"{ctx.prop}-sparse", mod="Corr SpecParse CorrParse", casety="pcase", runner="run_pcases", shard=400, timeout=300)
    ctx.count("S-parse", total)
    kinds = {}
    for _, d in cases:
        k = d.split(":")[0]
        kinds[k] = kinds.get(k, 0) + 1
    ctx.coverage["streams"]["S-parse-kinds"] = kinds
    if errs:
        ctx.broke("correspondence", "S-parse (evaluation failed)", "\n".join(errs[:3]))
        return
    if bad:
        i = bad[0]
        ctx.broke("correspondence", "S-parse: Model/SpecParse.v vs dep_logic.specifiers / packaging",
                  f"{len(bad)} of {len(cases)} cases differ; first: {cases[i][1]} :: {cases[i][0][:900]}; kinds: " +
                  ", ".join(sorted({cases[j][1].split(':')[0] for j in bad})))
    if cases:
        ctx.sample({"stream": "S-parse", "case": cases[len(cases) // 2][1]})
    return [cases[j] for j in bad]
