#!/usr/bin/env python3
"""writes /verif/MANIFEST.json from the table below (kept next to the runners so the claimed level always matches what the check does)"""
import json
from pathlib import Path

V = Path(__file__).resolve().parent.parent
TB_PROOF = ("trusted: Coq 8.16.1 kernel (no axioms: Print Assumptions = closed under the global context, recorded in evidence); the "
            "Python->Gallina translator translator/py2coq.py, validated on every run by the S-gen correspondence stream evaluated inside Coq; "
            "Base/Pep440.v as the model of packaging's Version order (stream S-ver, run by the check of C01); the harness")
TB_ORACLE = ("no theorem yet for this property: the check is a seeded, grammar-based search for a failing input on the real code with an independent "
             "reference (packaging where the property names it); assumes the reference and the generator's coverage")

P = {
 "C01": ("proof", "Theorems C01_and/or/inv/closure/versions over an abstract total order (instantiated with the PEP 440 key order) about the Gallina "
         "definitions REGENERATED from range.py/union.py/special.py on every run; closure theorem covers every &,|,~ expression over canonical values. "
         "Quick: rebuild cone + S-gen/S-ver correspondence (vm_compute in Coq) + structural-membership oracle on ~2400 pairs; thorough: all 467^2 pairs.",
         TB_PROOF, "machine-checked proof in Coq over a model regenerated from source + correspondence", "5"),
 "C05": ("proof", "C05_closed/unique/empty/any/post_init over the regenerated model: results canonical; generated == (dataclass eq, Any/Empty __eq__, reflected "
         "dispatch) holds iff the two values have the same members, is_empty / is_any are exact - where MEMBERS ARE POSITIONS (cuts) of the version order, i.e. the order read as if it were dense. Read over versions (C05_versions) one direction of each "
         "statement remains: equal results admit the same versions, an empty intersection has no common version, a universal union admits every version; the converses need density, and the public PEP 440 order is not dense: C05_gap_refuted "
         "proves that no version lies between 1.0 and 1.0.post0.dev0 although (>1.0) & (<1.0.post0.dev0) is a non-empty range - the recorded finding adjacent-gap, which the oracle exhibits on the code (is_empty / == / is_any on 8 adjacent pairs). "
         "Same tie and oracle as C01 plus canonical-shape checks.", TB_PROOF,
         "machine-checked proof in Coq over a model regenerated from source + correspondence", "5"),
 "C14": ("proof", "13 laws + complement as `==` of the returned objects, each an instance of the closure/uniqueness theorems over the regenerated model "
         "(specifier part: proof). Marker part: equivalence of both sides on environment grids by the direct oracle only (marker normaliser model pending).",
         TB_PROOF + "; marker part: " + TB_ORACLE, "machine-checked proof in Coq (specifiers) + differential oracle (markers)", "5"),
 "C13": ("proof", "Specifier part: C13_refl/sym/trans/total/hash/congr over the regenerated model (generated dataclass ==, Any/Empty __eq__, reflected dispatch, generated hash keys incl. "
         "the two spellings of the universal set): == is an equivalence on canonical values, equal objects have equal hash keys, and equal operands give equal results for every operator and side. "
         "Marker part: C13m_refl/sym/trans (marker == is an equivalence; grouped ==/!= atoms compare their values as sets), C13m_same_meaning, C13m_interchangeable (==-equal operands give & / | results with the same meaning, either side) over Model/Marker.v; "
         "Marker hashes (Props/C13h.v over Model/MarkerHash.v = CPython 3.12's tuple hash, collections.abc.Set._hash and the dataclass hash of every marker class, written out over Z with the 64-bit wrap explicit; the string hash is a parameter, so every PYTHONHASHSEED): "
         "C13h_hash (==-equal markers whose grouped value lists hold no value twice have equal hashes), C13h_set_order (Set._hash is independent of iteration order), C13h_reach_nodup / C13h_hash_reachable (the side condition holds of everything built from atoms by &, |, MultiMarker.of, MarkerUnion.of, only(), exclude(), "
         "so ==-equal results of the algebra hash alike), C13h_dup_refuted (the side condition is needed). Objects differing only in attached caches: direct oracle only.",
         TB_PROOF + "; hash() of specifiers is modelled as a function of the generated hash key (S-gen compares key equality with observed hash equality); marker part: Props/C13m.v over the hand model Model/Marker.v (tied by S-mark); marker hashes: Model/MarkerHash.v is a hand transcription of CPython's tuple hash and Set._hash, "
         "tied by the stream S-mhash (mhash under the string hashes observed in the running interpreter = hash(m); marker_eqb = ==; the no-duplicate side condition on every observed marker); hypothesis of C13h_reach_nodup: a merged version atom satisfies the side condition (it is an atom, Any or Empty: checked on every row)",
         "machine-checked proof in Coq (specifiers over the regenerated model; marker == and marker hashes over hand models tied by correspondence evaluated inside Coq) + differential oracle", "5"),
 "C09": ("proof", "C09_manylinux/musl/mac_x86/mac_arm64/win/score for ALL target versions by induction over the descending ranges (not only the grid), C09_order_grid as a computed sweep over the "
         "property's whole grid, C09_mac_arm64_10_refuted as the machine-checked witness of the recorded finding; Model/Platform.v is tied to platform.py by the S-plat stream, which is EXHAUSTIVE over the "
         "property's configuration grid, and the direct oracle compares every list with an independent rule oracle and with packaging.tags (probes stubbed).",
         "trusted: Coq kernel (closed under the global context; vm_compute for the finite sweep); the hand model is tied to the code by the exhaustive correspondence; packaging.tags as the order reference",
         "machine-checked proof in Coq over a hand model + correspondence exhaustive on the property's domain", "5"),
 "C08": ("proof", "Theorem C08 over Model/Tags.v: _evaluate_python returns Some (X, Y|0, rank) exactly when the implementation/ABI side conditions hold AND some position admitted by requires_python "
         "lies in the wheel's loadable interval (cpXY: the X.Y series, abi3: >= X.Y, pyXY: >= X.Y within major X, pyX: the X series), None otherwise; for every canonical requires_python and ALL minors. Positions, not versions: a requires_python whose bounds are adjacent "
         "versions (>3.9,<3.9.post0.dev0) is a non-empty range without a member and accepts cp39 wheels - recorded finding adjacent-gap (cf. C05_gap_refuted), exhibited by the oracle. "
         "The emptiness test is the GENERATED `&`/is_empty, and the proof uses C01/C05 exactness. Tie: S-tags stream (model vs _evaluate_python over the tag universe x requires_python x implementation grid).",
         TB_PROOF + "; Model/Tags.v is hand-written (string slicing / replace / lower / startswith) and tied by the S-tags stream",
         "machine-checked proof in Coq over a hand model on top of the regenerated algebra + correspondence", "5"),
 "C16": ("proof", "C16_python (widening requires_python - inclusion of POSITIONS, which implies inclusion of versions but is not implied by it on adjacent-version gaps: recorded finding adjacent-gap - keeps every accepted python/ABI pair, from C08), C16_plat (a newer release of the same OS family and architecture accepts every tag, from the C09 "
         "membership characterisations, for all versions), and for the model of EnvSpec.compare: reflexive, INCOMPATIBLE symmetric, never HIGHER both ways, total, and whenever compare answers HIGHER (C16_cmp_higher_nested) or LOWER_OR_EQUAL (C16_cmp_loe: through the same-spec test, the version test or the version-less OS class) for two specs with supported platforms the platform tag sets are nested accordingly. "
         "Ties: S-cmp (compare model vs EnvSpec.compare on 1500/20000 spec pairs), S-tags, S-plat (exhaustive grid).",
         TB_PROOF + "; Model/Tags.v and Model/Platform.v are hand-written and tied by the S-cmp / S-tags / S-plat streams; nesting is stated for manylinux major 2, musllinux major 1, macOS (x86_64: 10.x with minor<=16 or >=11; arm64), Windows",
         "machine-checked proof in Coq over hand models on top of the regenerated algebra + correspondence", "5"),
 "C18": ("proof", "C18_wheel: for ALL names (any name/version/build without '-', any non-empty tag lists without '-' and '.') parse_wheel_tags returns exactly the three tag lists; C18_ext/C18_parts: wrong extension or "
         "dash count raises InvalidWheelFilename; C18_plat_rt_versioned: Platform.parse(str(p)) = p for manylinux/musllinux/macos with ANY X_Y and any architecture (decimal print/parse round trip from the stdlib lemmas), "
         "C18_plat_rt_windows, C18_alias (the nine names). Ties: S-wheel (incl. random dash-joined near misses) and S-platparse (documented families with multi-digit versions, aliases, near-miss names); the direct oracle compares "
         "tag sets with packaging.utils.parse_wheel_filename.",
         "trusted: Coq kernel (closed under the global context); hand models Model/Tags.v (parse_wheel_tags) and Model/PlatParse.v (regex, Arch.parse, __str__) tied by correspondence; CPython re/str modelled for ASCII",
         "machine-checked proof in Coq over hand models + correspondence", "5"),
 "C19": ("proof", "C19_and/or/inv/dispatch for ALL strings over Model/Generic.v (hand model of generic.py, tied by the S-generic stream: exhaustive for == != in not in over a "
         "literal pool closed under the relations the case table inspects; pairs with an ordering operator are a 1/7 slice in the quick tier, all in the thorough tier); Empty/Any membership is the regenerated special.py.",
         "trusted: Coq kernel (closed under the global context); the hand model is tied to generic.py only by the correspondence stream (exhaustive over the literal pool for the four string operators); translator for special.py",
         "machine-checked proof in Coq over a hand model + correspondence exhaustive over the literal pool", "5"),
}
ORACLE_ONLY = {
 "C02": "soundness of marker & and | : truth tables of results vs operands on separating environment grids",
 "C03": "parse_marker(text).evaluate(env) vs packaging Marker(text).evaluate(env) on generated texts and environments",
 "C04": "membership vs the Boolean combination of packaging's SpecifierSet(leaf).contains on final releases; additionally re-checks the C01 proof cone and S-gen (the statement relies on algebra exactness)",
 "C06": "str() never raises and parse(str(s)) == s over parsed specifiers and &,|,~ trees",
 "C07": "str(m) accepted by parse_marker and packaging, re-parsed marker evaluates identically; <empty>/'' specials",
 "C10": "rendered text and truth table of a probe after a random history vs the same probe run first in a fresh interpreter",
 "C11": "specifier view of python_version/python_full_version atoms and from_specifier round trip vs packaging over an interpreter grid; python_version atoms (in / not in lists included) merged with python_full_version atoms vs the combination of the two atoms on consistent interpreters",
 "C12": "only()/exclude()/without_extras(): leaked variables, implication, identity on environment grids",
 "C15": "normal-form checker on every result of parse/&/|/only/exclude",
 "C17": "parser acceptance vs packaging's SpecifierSet per ||-alternative (=== clauses with free-text operands and local versions included); only InvalidSpecifier may be raised; from_specifierset never raises",
}

TB_MARKER = ("trusted: Coq kernel (the property file is closed under the global context); Model/Marker.v is hand-written and tied to dep_logic.markers by the S-mark stream (structural comparison of parse/&/|/only/exclude results, "
             "evaluate on environments; the iteration order of every Python set involved is recorded on the code and given to the model). Shape of the theorems: partial correctness (`f ... = Ret r -> ...`: fuel exhaustion and the "
             "exceptions of the code are outside), for well-defined operands (wf: `extra` atoms use == / != only, atoms on string variables use == != in not in - the operators GenericSpecifier accepts -, grouped ==/!= atoms sit on string variables; preserved by every operation, it is part of each conclusion), in every environment of a "
             "class `good` that is a PARAMETER: the merge of two version-like atoms is a parameter too, assumed sound on `good` (vmerge_sound). That hypothesis is (a) discharged inside Coq for the oracle built from the bridge model "
             "(C11_link / C11_link_pv / C11_linked_normaliser in Props/C11.v: good = environments that decide version atoms as packaging's Specifier.contains does on a final interpreter; the oracle declines on the recorded finding tilde-max-post), and (b) checked on every row "
             "the implementation produced (S-vmerge-rows, final-version environments; pre-release interpreters, in-lists and long python_version operands are the recorded findings nonfinal-env / pv-in-substring / pv-long-operand). "
             "Set iteration order and fuel are universally quantified")
TB_PARSE = ("trusted: Coq kernel (closed under the global context); Model/SpecParse.v is hand-written over tokenised clauses and tied to the code by the S-parse stream; the GENERATED algebra is tied by S-gen; the text layer "
            "(packaging's tokeniser, str(Version)) and packaging's Specifier.contains on final releases (clause_sem) are modelled/observed, not verified; === is outside the model")
P.update({
 "C02": ("proof", "Theorems C02_and / C02_or (the result of & / | evaluates as the conjunction / disjunction of the operands in every environment of the class `good`, see trusted base), C02_empty_any, C02_parse (_build_markers preserves the Boolean structure of the parsed text) and "
         "C02_normaliser (MultiMarker.of, MarkerUnion.of, union_simplify, intersect_simplify, cnf, dnf, union are all meaning preserving) over Model/Marker.v, for every fuel, every set iteration order and every sound merge of version-like atoms. "
         "Quick: rebuild the cone, S-mark correspondence (~700 cases evaluated inside Coq), S-vmerge-rows (the merge hypothesis on the rows the code produced), direct truth-table oracle on ~1000 operand pairs.",
         TB_MARKER, "machine-checked proof in Coq over a hand model + correspondence + hypothesis check on the implementation", "5"),
 "C04": ("proof", "C04_clause (every operator's translation into ranges has exactly packaging's members among final releases: comparison, ==V, !=V, ==X.*, !=X.*, ~=), C04_leaf and C04_closure (for EVERY &,|,~ expression over parsed texts, "
         "contains() of the result - which the code computes by packaging on the RENDERED text - equals the Boolean combination of packaging's answers on the leaves), using C01 exactness of the generated algebra, provenance of `simplified` "
         "(SpecProv) and soundness of the rendering heuristics. Exclusion tilde_safe = known finding tilde-max-post, with C04_tilde_refuted as machine-checked witness. Quick: cone + S-parse (~4400 cases) + S-gen + packaging oracle on ~1200 expressions.",
         TB_PARSE, "machine-checked proof in Coq over a hand model on top of the regenerated algebra + correspondence", "5"),
 "C06": ("proof", "C06_reachable: for EVERY value reachable from the parser through &,|,~ (any bound shapes: epochs, release lengths, trailing zeros, pre/post/dev) str() succeeds and parse(str(s)) == s with the generated ==; C06_tilde / C06_nestar: whenever the "
         "~=X.Y / !=X.* shortening is chosen the bounds are exactly the ones the clause denotes. Exclusion tilde_safe = known finding tilde-max-post (C06_tilde_refuted). Quick: cone + S-parse (str() of reachable values tokenised and compared) + round-trip oracle.",
         TB_PARSE, "machine-checked proof in Coq over a hand model on top of the regenerated algebra + correspondence", "5"),
 "C17": ("proof", "C17_clause / C17_set / C17_parse: once packaging has tokenised a text, _from_pkg_specifier, from_specifierset and parse_version_specifier return a canonical value for EVERY clause list (any epoch, any number of release segments, pre/post/dev "
         "operands of ~= and wildcards) - no exception of the library's own. Which strings are accepted, and the translation of packaging's InvalidSpecifier, are the text layer: decided by the direct oracle against SpecifierSet (1500/30000 texts incl. near misses).",
         TB_PARSE, "machine-checked proof in Coq over a hand model + correspondence; acceptance of raw strings by differential oracle against packaging", "5"),
})
P.update({
 "C03": ("proof", "C03_parse: for EVERY parsed marker tree, the marker _build_markers returns (through &, MarkerUnion.of, cnf/dnf, union_simplify ...) evaluates in every environment exactly as packaging's own fold over the tree "
         "(pkg_eval = packaging.markers._evaluate_markers, verbatim), provided atoms evaluate alike. Atom evaluation is the model parameter atom_eval: string variables, extras and reversed operands are modelled and compared by MCEval "
         "correspondence cases; version-like atoms are a table of the environment. Atom-level and end-to-end agreement with packaging's Marker.evaluate is what the direct oracle checks (~780 texts x environments per quick run). "
         "So: proof for the rewriting done while parsing; differential oracle for the atom evaluator against packaging.",
         TB_MARKER + "; packaging.markers as the reference of the oracle", "machine-checked proof in Coq over a hand model + correspondence + differential oracle against packaging for atom evaluation", "5"),
 "C12": ("proof", "Proved over Model/Marker.v (all fuels / set orders / merge oracles): C12_only_vars - m.only(names) mentions no variable outside names; C12_exclude_vars - m.exclude(name) (and without_extras()) never mentions name; both at any "
         "nesting depth and for any input, by an invariant carried through all nine mutually recursive functions of the normaliser (hypothesis: a merged version atom mentions only the variables of the atoms merged - checked on every row the code produces); "
         "C12_only_implied / C12_only_identity: m.only(names) is implied by m in every environment and equals m in meaning when m mentions only those names. C12_exclude_identity: m.exclude(name) leaves the meaning unchanged when m does not mention name, for markers without a contradictory conjunct or an empty disjunction "
         "(`alive`: what the normal form gives; without it the statement is false in the model as in the code, because MultiMarker.exclude drops a conjunct whose exclusion is <empty>) - the direct oracle checks the identity on every generated marker. Quick: cone + S-mark (only/exclude results compared structurally) + oracle on ~250 markers x subsets x environment grids.",
         TB_MARKER, "machine-checked proof in Coq (variable containment, implication and identity for only(), identity for exclude() on alive markers) + correspondence + property oracle", "5"),
})
P["C14"] = ("proof", "Specifier part: 13 laws + complement as `==` of the returned objects, each an instance of the closure/uniqueness theorems over the regenerated model. Marker part: C14m_closure / C14m_law over Model/Marker.v: every &,| expression "
            "over markers evaluates as the Boolean combination of its leaves, so both sides of ANY Boolean identity (all the lattice laws the property names) yield markers with the same meaning in every environment (equivalence, as the property asks; "
            "not structural equality). Ties: S-gen (specifiers), S-mark (markers); direct oracles on both parts.",
            TB_PROOF + "; " + TB_MARKER, "machine-checked proof in Coq (specifiers over the regenerated model; markers over a hand model) + correspondence", "5")
P["C11"] = ("proof", "C11_in_view / C11_in_view_pv: the specifier view of `in` / `not in` lists admits exactly the final versions that satisfy one of / all of the member clauses; for python_version with X.Y members exactly the interpreters X.Y[.Z] whose X.Y is (is not) a member (evaluation of such atoms is string containment: finding pv-in-substring, oracle); C11_view: for EVERY comparison / ~= / wildcard atom on a version variable (any operand shape: release length, epoch, pre/post/dev suffix) `value in marker.specifier` equals the atom's evaluation on every final interpreter version; "
            "C11_back: from_specifier(name, s) returns AnyMarker / EmptyMarker only for the universal / empty set and otherwise None or an atom that evaluates true exactly on the final versions s admits, for every canonical s with genuine remembered clauses; "
            "C11_padding: zero padding the release segment (python_full_version) changes no comparison; C11_reversed: literal-on-the-left atoms with a final literal evaluate like the mirrored atom; C11_merge: _merge_single_markers on two atoms of one version-like variable returns something that evaluates as their conjunction / disjunction "
            "(side condition: the merged specifier is tilde_safe, i.e. outside the recorded finding tilde-max-post; the same side condition is on C11_back); C11_link / C11_linked_ops / C11_link_pv / C11_linked_normaliser: for ANY tokeniser/printer pair that round-trips, the merging oracle built from this model satisfies the hypothesis vmerge_sound of the marker theorems (C02 ...), "
            "so & and | computed with it mean the conjunction / disjunction of their operands on every environment that decides version atoms as packaging does on a final interpreter (link_runs / env0_good: the oracle merges, the class is inhabited); C11_normalize / C11_merge_pv: the same for the python_version / python_full_version pair on every consistent interpreter (python_version = X.Y, "
            "python_full_version = X.Y.Z), for python_version operands with at most two meaningful segments (the rest is the recorded finding pv-long-operand). Atom evaluation = packaging's Specifier.contains = clause_sem (model; compared with evaluate() and packaging by S-bridge / S-parse). "
            "Outside the theorems: `in`/`not in` lists (string containment: known finding pv-in-substring) - direct oracle only.",
            TB_PARSE + "; Model/Bridge.v hand-written over tokenised atoms, tied by the S-bridge stream", "machine-checked proof in Coq over hand models + correspondence; in/not-in lists by differential oracle", "5")
P["C07"] = ("proof", "C07_parses: for every renderable marker (rnd: non-empty compounds and ==/!= groups, no <empty>/universal child - what C15 claims of results; that every result IS renderable is the part of C15 that is not proved: it is checked on every result by the normal-form oracle of C15 and by this property's own oracle) the rendering - every class's __str__, MultiMarker's parenthesisation rule, the "
            "literal-on-the-left spelling - is accepted by the PEP 508 grammar and parses to the expected item tree; C07_meaning: that tree, evaluated as packaging evaluates it, means exactly m; C07_reparse: so the marker rebuilt from str(m) evaluates "
            "identically in every environment; C07_specials: <empty> / '' are the renderings of the empty / universal marker, are special-cased by the parser, and <empty> never occurs inside a larger rendering. Lexeme level: lexing itself is packaging's. "
            "Ties: S-mstr (lexed str(m) vs model; model's parser vs packaging's tree), S-mark; direct oracle re-parses with parse_marker and packaging's Marker and compares truth tables.",
            TB_MARKER + "; Model/MarkerStr.v hand-written, tied by the S-mstr stream; lexing is packaging's", "machine-checked proof in Coq over hand models + correspondence + differential oracle", "5")
P["C15"] = ("proof", "PARTIAL. Proved over Model/Marker.v for every fuel, set order and merge oracle returning atoms: C15_reachable (with C15_and, C15_or, C15_multi_of_shaped, C15_union_of_shaped, C15_only, C15_exclude) - every marker reachable from atoms, "
            "the universal and the empty marker through &, |, MultiMarker.of / MarkerUnion.of (what parse_marker folds with), only() and exclude()/without_extras() is well shaped at EVERY depth: the children of each conjunction / disjunction are pairwise "
            "distinct and none of them is a compound of the same kind (invariant carried through all nine mutually recursive functions of the normaliser, the of() loops and flatten_items: Proofs/MarkerInv.v). C15_multi_of / C15_union_of - "
            "MultiMarker.of / MarkerUnion.of return the absorbing marker, the neutral marker, the single marker left (singleton unwrapped) or a compound built from at least two pairwise distinct, non-absorbing processed markers; C15_one_child_refuted "
            "reproduces the recorded finding on the model. NOT proved: no universal/empty child, and at least two children on the paths that do not end in of() (union()'s raw candidate, union_simplify / intersect_simplify - where the property is violated "
            "on the unchanged tree: known finding). Those are decided by the normal-form checker of the direct oracle (every result of parse/&/|/only/exclude, call-site attribution) and by the S-mark correspondence, which compares result SHAPES with the model.",
            TB_MARKER, "machine-checked proof in Coq (hereditary shape invariant of all reachable markers; shape of of() results) + structural correspondence + normal-form oracle", "5")
P["C10"] = ("proof", "PARTIAL (meaning, not text). C10_reach_sound: every callee family reachable by cold computation, further normaliser steps and cache hits of cnf/dnf with a ==-equal argument is meaning preserving (step_sound: one step of the "
            "normaliser is sound for ANY sound callees; == is a congruence for evaluation and well-formedness); C10_meaning / C10_history_independent: a & b and a | b computed under ANY history mean the conjunction / disjunction of their operands, so a warm "
            "and a cold run agree in every environment. NOT proved, and false on the unchanged tree (known finding value-order-text-only): history independence of the rendered text - decided by the direct oracle, which compares text and truth table of "
            "the probe after a random history with the same probe run first in a fresh interpreter.",
            TB_MARKER + "; Model/MarkerOpen.v generated from Model/Marker.v (level_S by reflexivity); memoisation modelled as the inductive family `reach`", "machine-checked proof in Coq (semantic transparency of memoisation) + differential oracle warm vs fresh interpreter (text)", "5")
for k in ("C02", "C04", "C06", "C17", "C03", "C12", "C11", "C07", "C15", "C10"):
    ORACLE_ONLY.pop(k, None)
checks = []
for pid in sorted(set(P) | set(ORACLE_ONLY)):
    if pid in P:
        cat, text, note, tech, ref = P[pid]
    else:
        cat, text, note, tech, ref = ("other", "NOT YET A PROOF. " + ORACLE_ONLY[pid] + ". The Coq model/theorem for this property (DESIGN.md section 5) is not finished; "
                                      "until it is, the property is decided only by this differential oracle, and the evidence says level 'other'.",
                                      TB_ORACLE, "differential / property oracle on the implementation (proof pending)", "5")
    checks.append({"property_id": pid, "quick_cmd": f"./check {pid} --tier quick", "thorough_cmd": f"./check {pid} --tier thorough",
                   "evidence_file": f"/verif/evidence/{pid}.json", "replay_cmd_template": f"./check {pid} --replay {{path}}", "engine": "check",
                   "level_claimed": {"category": cat, "text": text, "design_ref": f"DESIGN.md section {ref}, {pid}"}, "level_note": note, "technique": tech})
m = {"version": 1, "setup_cmd": "./check --setup",
     "hooks": {"guard": "DEP_LOGIC_VERIF", "enable": "no hooks are installed: the checks import /repo/src as it is (PYTHONPATH=/repo/src, PYTHONHASHSEED=0)",
               "baseline_off_cmd": "cd /repo && env -u DEP_LOGIC_VERIF /venv/bin/python -m pytest -ra -q -p no:cacheprovider --timeout=900 --continue-on-collection-errors",
               "source_commits": [], "add_only": True},
     "engines": [{"name": "check", "path": "/verif/check", "serves_properties": sorted(set(P) | set(ORACLE_ONLY)),
                  "kind_free_text": "Python driver: regenerates the Gallina model from /repo (translator/py2coq.py), rebuilds the Coq proof cone (coq_makefile/make, full .vo), evaluates correspondence cases inside Coq with vm_compute, runs direct oracles on the implementation, writes evidence and replays"}],
     "checks": checks, "not_applicable": [],
     "notes": "Fixes to /repo are separate 'fix:' commits (see known_findings.json 'fixed'); genuine defects that could not be repaired without editing pinned tests are 'known' findings."}
(V / "MANIFEST.json").write_text(json.dumps(m, indent=1))
print("wrote MANIFEST.json with", len(checks), "checks")
