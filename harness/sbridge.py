"""sbridge.py — the S-bridge correspondence stream: Model/Bridge.v against
MarkerExpression.specifier / .evaluate / .from_specifier for version-like atoms."""
from __future__ import annotations

import random

from packaging.specifiers import Specifier
from packaging.version import Version

import coqrun
import sparse
from framework import Ctx
from specgen import cver

VN = {"python_version": "PV", "python_full_version": "PFV", "platform_release": "PRel"}
OPS = ["==", "!=", "<", "<=", ">", ">=", "~="]


def atom_clause(op, lit):
    return sparse.cclause(Specifier(f"{op}{lit}"))


def stream_sbridge(ctx: Ctx):
    from dep_logic.markers.single import MarkerExpression
    from dep_logic.markers.any import AnyMarker
    from dep_logic.markers.empty import EmptyMarker
    from dep_logic.specifiers import parse_version_specifier
    rng = random.Random(ctx.seed + 911)
    lits = {"python_version": ["3", "3.6", "3.7", "3.10", "2.7"],
            "python_full_version": ["3.6", "3.7", "3.7.0", "3.7.1", "3.10.2", "3", "3.9a1", "3.7.0rc1", "3.8.post1", "3.9.dev0", "1!3.8"],
            "platform_release": ["5.4.0", "5.10", "6", "4.19.1"]}
    interps = [(x, y, z) for x in (2, 3, 4) for y in (0, 5, 6, 7, 8, 9, 10, 11) for z in (0, 1, 2, 10)]
    cases = []
    for name, ls in lits.items():
        for op in OPS:
            for lit in ls + (["3.*", "3.7.*"] if op in ("==", "!=") and name != "platform_release" else []):
                if op == "~=" and "." not in lit.split("!")[-1]:
                    continue
                if "*" in lit and op not in ("==", "!="):
                    continue
                try:
                    k = atom_clause(op, lit)
                except Exception:  # noqa: BLE001
                    continue
                m = MarkerExpression(name, op, lit)
                cases.append((f"BView {k} {sparse._res(lambda m=m: m.specifier, sparse.cspec_s)}", f"view: {m}"))
                for i in rng.sample(interps, 10):
                    val = "%d.%d.%d" % i if name != "python_version" else "%d.%d" % i[:2]
                    try:
                        b = m.evaluate({name: val})
                    except Exception:  # noqa: BLE001
                        continue
                    cases.append((f"BEval {k} {cver(Version(val))} {coqrun.cbool(b)}", f"eval: {m} at {val}"))
                    # the same atom written with the literal on the left (final literals only: see C11_reversed)
                    # (theorem C11_reversed: final literals and the six comparison operators; the model function also covers "lit" ~= name and wildcard literals)
                    if "*" in lit or not (Version(lit).is_prerelease or Version(lit).is_postrelease):
                        mr = MarkerExpression(name, op, lit, True)
                        try:
                            br = mr.evaluate({name: val})
                        except Exception:  # noqa: BLE001
                            continue
                        cases.append((f"BEvalRev {k} {cver(Version(val))} {coqrun.cbool(br)}", f"eval-rev: {mr} at {val}"))
    # the specifier view of `name in "<list>"` / `name not in "<list>"` (BInView): members with one to four release segments
    in_lists = [["3.6", "3.7"], ["2.7"], ["3.6", "3.10", "3.11"], ["3.9"], ["3"], ["3", "2.7"], ["3.8.1"], ["3.7", "3.8.2", "3"], ["3.8.0.1", "3.9"], ["3.6", "3.6"], ["3.10", "3.1"]]
    for _ in range(12):
        in_lists.append([".".join(str(rng.choice([0, 1, 2, 3, 7, 8, 10])) for _ in range(rng.choice([1, 2, 2, 2, 3, 4]))) for _ in range(rng.choice([1, 2, 3, 4]))])
    for name in list(VN) + ["implementation_version"]:      # the code treats implementation_version like platform_release (PRel)
        for op in ("in", "not in"):
            for items in in_lists:
                for sep in (", ", ","):
                    m = MarkerExpression(name, op, sep.join(items))
                    its = "[" + "; ".join("[" + "; ".join(x for x in it.split(".")) + "]" for it in items) + "]"
                    cases.append((f"BInView {VN.get(name, 'PRel')} {coqrun.cbool(op == 'not in')} {its} {sparse._res(lambda m=m: m.specifier, sparse.cspec_s)}", f"in-view: {m}"))
    specs = []
    for op in OPS:
        for lit in ["3", "3.6", "3.7.1", "3.10", "3.9a1", "3.7.0rc1", "3.8.post1", "3.9.dev0", "3b2", "1!3"]:
            if op == "~=" and "." not in lit.split("!")[-1]:
                continue
            specs.append(op + lit)
    specs += ["==3.*", "!=3.*", "==3.7.*", "!=3.7.*", "<3.0||>=4.0", "<3.7||>=3.8", "<3.7.0||>=3.7.1", ">=3.6,<4.0", ">=3.7,<3.8", ">=3.7,<3.8.0", "<empty>", "", ">=3.6,<3.6", "<3||>3", ">=3.6,!=3.6"]
    for t in specs:
        try:
            s = parse_version_specifier(t)
            cs = sparse.cspec_s(s)
        except Exception:  # noqa: BLE001
            continue
        for name in ("python_version", "python_full_version"):
            def rnd(m):
                if m is None:
                    return "FNone"
                if isinstance(m, AnyMarker):
                    return "FAny"
                if isinstance(m, EmptyMarker):
                    return "FEmpty"
                return f"(FAtom {atom_clause(m.op, m.value)})"
            cases.append((f"BBack {VN[name]} {cs} {sparse._res(lambda s=s, name=name: MarkerExpression.from_specifier(name, s), rnd)}", f"back: from_specifier({name}, {t!r})"))
    # -- _merge_single_markers on two atoms of ONE version-like variable (cache bypassed)
    from dep_logic.markers import single as S
    from dep_logic.markers.multi import MultiMarker
    from dep_logic.markers.union import MarkerUnion
    merge = getattr(S._merge_single_markers, "__wrapped__", S._merge_single_markers)
    for name, ls in lits.items():
        atoms = []
        for op in OPS:
            for lit in ls[:7] + (["3.*"] if op in ("==", "!=") and name != "platform_release" else []):
                if op == "~=" and "." not in lit.split("!")[-1]:
                    continue
                if "*" in lit and op not in ("==", "!="):
                    continue
                try:
                    atoms.append((MarkerExpression(name, op, lit), atom_clause(op, lit)))
                except Exception:  # noqa: BLE001
                    continue
        pairs = [(a, b) for a in atoms for b in atoms]
        rng.shuffle(pairs)
        for (m1, k1), (m2, k2) in pairs[:160]:
            for kind, cls in ((True, MultiMarker), (False, MarkerUnion)):
                def rnd(r, m1=m1, m2=m2):
                    if r is None:
                        return "VMNone"
                    if r is m1:
                        return "VMFirst"
                    if r is m2:
                        return "VMSecond"
                    if isinstance(r, AnyMarker):
                        return "VMAny"
                    if isinstance(r, EmptyMarker):
                        return "VMEmpty"
                    return f"(VMAtom {atom_clause(r.op, r.value)})"
                cases.append((f"BMerge {coqrun.cbool(kind)} {VN[name]} {k1} {k2} {sparse._res(lambda: merge(m1, m2, cls), rnd)}",
                              f"merge: {m1} {'&' if kind else '|'} {m2}"))
    # -- the python_version / python_full_version pair branch: _normalize_python_version_specifier and _merge_python_version_single_markers
    pv_atoms = []
    for op in OPS:
        for lit in ["3", "3.6", "3.7", "3.10", "2.7", "3.8.0", "3.8.0.0", "3.8.1", "3.0", "3.0.0"] + (["3.*", "3.8.*"] if op in ("==", "!=") else []):
            if op == "~=" and "." not in lit:
                continue
            if "*" in lit and op not in ("==", "!="):
                continue
            try:
                pv_atoms.append((MarkerExpression("python_version", op, lit), atom_clause(op, lit)))
            except Exception:  # noqa: BLE001
                continue
    for m, k in pv_atoms:
        cases.append((f"BNormPV {k} {sparse._res(lambda m=m: S._normalize_python_version_specifier(m), sparse.cspec_s)}", f"normalize: {m}"))
    full_atoms = []
    for op in OPS:
        for lit in ["3.6", "3.7.0", "3.7.1", "3.8", "3.10.2", "3", "3.9a1"] + (["3.7.*"] if op in ("==", "!=") else []):
            if op == "~=" and "." not in lit:
                continue
            if "*" in lit and op not in ("==", "!="):
                continue
            try:
                full_atoms.append((MarkerExpression("python_full_version", op, lit), atom_clause(op, lit)))
            except Exception:  # noqa: BLE001
                continue
    pairs = [(a, b) for a in pv_atoms for b in full_atoms]
    rng.shuffle(pairs)
    for (m1, k1), (m2, k2) in pairs[:250]:
        for kind, cls in ((True, MultiMarker), (False, MarkerUnion)):
            for swap in (False, True):
                a, b = (m2, m1) if swap else (m1, m2)

                def rnd(r, m1=m1):
                    if r is None:
                        return "VMNone"
                    if r is m1:
                        return "VMFirst"
                    if isinstance(r, AnyMarker):
                        return "VMAny"
                    if isinstance(r, EmptyMarker):
                        return "VMEmpty"
                    if r.name != "python_full_version":
                        return "VMSecond"       # never expected: a guaranteed mismatch
                    return f"(VMAtom {atom_clause(r.op, r.value)})"
                cases.append((f"BMergePV {coqrun.cbool(kind)} {k1} {k2} {sparse._res(lambda a=a, b=b: merge(a, b, cls), rnd)}",
                              f"merge-pv: {a} {'&' if kind else '|'} {b}"))
    terms = [c[0] for c in cases]
    total, bad, errs = coqrun.eval_cases(terms, f"{ctx.prop}-sbridge", mod="Corr SpecParse CorrParse Bridge", casety="bcase", runner="run_bcases", shard=400, timeout=300)
    ctx.count("S-bridge", total)
    if errs:
        ctx.broke("correspondence", "S-bridge (evaluation failed)", "\n".join(errs[:3]))
        return
    if bad:
        i = bad[0]
        ctx.broke("correspondence", "S-bridge: Model/Bridge.v vs MarkerExpression.specifier / evaluate / from_specifier",
                  f"{len(bad)} of {len(cases)} cases differ; first: {cases[i][1]} :: {cases[i][0][:700]}; kinds: " + ", ".join(sorted({cases[j][1].split(':')[0] for j in bad})))
    ctx.sample({"stream": "S-bridge", "case": cases[len(cases) // 2][1]})
