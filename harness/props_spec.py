"""props_spec.py — checks for the version-specifier kernel: C01, C05, C14 (specifier
part), C13 (specifier part).  Proofs are over the regenerated model; the S-gen /
S-ver streams validate the translator and the PEP 440 order model; the direct oracle
searches the implementation for a failing input."""
from __future__ import annotations

import itertools
import random

from packaging.version import Version

import coqrun
import specgen as sg
from framework import BASE_TRUST, Ctx


def show(s) -> str:
    n = type(s).__name__
    if n == "EmptySpecifier":
        return "<empty>"
    if n == "AnySpecifier":
        return "<any>"

    def r1(r):
        lo = "(-inf" if r.min is None else ("[" if r.include_min else "(") + str(r.min)
        hi = "+inf)" if r.max is None else str(r.max) + ("]" if r.include_max else ")")
        return f"{lo},{hi}"

    if n == "RangeSpecifier":
        return r1(s)
    if n == "UnionSpecifier":
        return " U ".join(r1(r) for r in s.ranges)
    return repr(s)


# ------------------------------------------------------------------------ proofs
def proof_step(ctx: Ctx, props_file: str, theorems: list[str], extra_targets=()):
    """regenerate the model from the current source, rebuild the property's cone,
    capture Print Assumptions"""
    ctx.checker_cmd = (f"python3 translator/py2coq.py /repo coq/Gen/GenSpec.v && make -C coq -j -k {props_file}o "
                       f"&& coqc -Q coq Verif coq/{props_file}   (Print Assumptions under every theorem)")
    ok, msg = coqrun.regen()
    ctx.notes.append(f"translator: {msg}")
    if not ok:
        ctx.broke("translation", "translator/py2coq.py (fail-closed)", msg)
        for t in theorems:
            ctx.obligations.append((t, "not-checked: model could not be regenerated from the current source"))
        return False
    targets = [props_file + "o"] + [t + "o" for t in extra_targets]
    ok, log, secs = coqrun.build(targets)
    ctx.notes.append(f"coq build of {targets}: {'ok' if ok else 'FAILED'} in {secs:.1f}s")
    if not ok:
        # name the file / lemma that failed
        import re
        m = re.search(r'File "\./([^"]+)", line (\d+)[^\n]*\n((?:.*\n){0,12})', log)
        where = f"{m.group(1)}:{m.group(2)}" if m else "unknown file"
        detail = (m.group(0) if m else log[-1500:])
        ctx.broke("proof", f"proof obligation in {where} (cone of {props_file})", detail)
        for t in theorems:
            ctx.obligations.append((t, f"not-checked: cone does not build ({where})"))
        return False
    pid = props_file.split("/")[-1][:-2]
    ok, block, out = coqrun.read_assumptions(pid)
    if not ok:
        # stale or missing: force a recompilation of the property file
        try:
            (coqrun.COQ / "Props" / f"{pid}.vo").unlink()
        except FileNotFoundError:
            pass
        coqrun.build([props_file + "o"])
        ok, block, out = coqrun.read_assumptions(pid)
    if not ok:
        ctx.broke("proof", f"{props_file}: Print Assumptions", out[-1500:])
        for t in theorems:
            ctx.obligations.append((t, "not-checked"))
        return False
    good = True
    if block == "closed":
        for t in theorems:
            ctx.obligations.append((t, "ok"))
        ctx.assumptions.append({"theorems": theorems, "assumptions": "Closed under the global context"})
    else:
        allowed = all(a.split(":")[0].strip() in ALLOWED_AXIOMS for a in block if ":" in a)
        ctx.assumptions.append({"theorems": theorems, "assumptions": block})
        for t in theorems:
            ctx.obligations.append((t, "ok" if allowed else "depends on a non-standard axiom"))
        good = allowed
    hits = coqrun.scan_forbidden()
    if hits:
        ctx.broke("proof", "forbidden declaration in the Coq development", "\n".join(hits[:20]))
        good = False
    return good


ALLOWED_AXIOMS = set()  # nothing is needed: every theorem is closed under the global context


# ------------------------------------------------------------------------ inputs
def spec_pairs(ctx: Ctx, n_pairs: int, exhaustive: bool):
    """(name, a, b) triples: canonical interval sets over 4 abstract points, each point
    set instantiated with several concrete PEP 440 shapes"""
    rng = random.Random(ctx.seed)
    out = []
    for name, pts in sg.POINT_SETS.items():
        points = [Version(p) for p in pts]
        universe = list(sg.enum_canonical(points, max_ranges=3))
        if exhaustive and name == "plain":
            pairs = itertools.product(universe, universe)
            for a, b in pairs:
                out.append((name, a, b))
        else:
            k = n_pairs // len(sg.POINT_SETS)
            for _ in range(k):
                a, b = rng.choice(universe), rng.choice(universe)
                if rng.random() < 0.3:
                    b = sg.respell(b)
                if rng.random() < 0.1:
                    a = sg.respell(a)
                out.append((name, a, b))
    return out


def corpus_pairs():
    """hand-kept and previously-minimised cases; always run first"""
    import json
    from pathlib import Path
    from dep_logic.specifiers import RangeSpecifier, UnionSpecifier, EmptySpecifier, AnySpecifier

    def mk(d):
        if d == "empty":
            return EmptySpecifier()
        if d == "any":
            return AnySpecifier()
        rs = []
        for lo, hi in d:
            kw = {}
            if lo:
                kw["min"], kw["include_min"] = Version(lo[1:]), lo[0] == "["
            if hi:
                kw["max"], kw["include_max"] = Version(hi[:-1]), hi[-1] == "]"
            rs.append(RangeSpecifier(**kw))
        return rs[0] if len(rs) == 1 else UnionSpecifier(tuple(rs))

    p = Path(__file__).resolve().parent.parent / "corpus" / "spec_pairs.json"
    out = []
    if p.exists():
        for a, b in json.loads(p.read_text()):
            out.append(("corpus", mk(a), mk(b)))
    return out


def classify(a, b) -> str:
    """coarse order-type class of a pair, used to count distinct non-trivial cases"""
    def k(s):
        n = type(s).__name__
        if n == "UnionSpecifier":
            return f"U{len(s.ranges)}"
        return n[0]
    return f"{k(a)}{k(b)}"


# ------------------------------------------------------------------------ S-ver
def stream_sver(ctx: Ctx, n: int):
    rng = random.Random(ctx.seed + 17)
    vs = []
    for pts in sg.POINT_SETS.values():
        vs += [Version(p) for p in pts]
    vs += [Version(x) for x in sg.RESPELL.values()]
    vs += [sg.random_version(rng) for _ in range(60)]
    vs += [Version(x) for x in ["0.dev0", "0", "0.0", "1.0.dev0", "1.0.dev1", "1.0a0.dev0", "1.0.post0.dev0", "1!0", "1.0rc1.post1.dev2"]]
    pairs = list(itertools.product(vs, vs))
    rng.shuffle(pairs)
    pairs = pairs[:n]
    terms = []
    for a, b in pairs:
        terms.append(f"CVerCmp {sg.cver(a)} {sg.cver(b)} {coqrun.cbool(a < b)} {coqrun.cbool(a == b)} {coqrun.cbool(hash(a) == hash(b))}")
    total, bad, errs = coqrun.eval_cases(terms, f"{ctx.prop}-sver")
    ctx.count("S-ver", total)
    if errs:
        ctx.broke("correspondence", "S-ver (evaluation failed)", "\n".join(errs[:3]))
    if bad:
        a, b = pairs[bad[0]]
        ctx.broke("correspondence", "S-ver: Base/Pep440.v order vs packaging.Version",
                  f"{len(bad)} disagreements, first: {a} vs {b}: packaging lt={a < b} eq={a == b} hash_eq={hash(a) == hash(b)}")
    ctx.sample({"stream": "S-ver", "case": [str(pairs[0][0]), str(pairs[0][1])]})


# ------------------------------------------------------------------------ S-gen
def stream_sgen(ctx: Ctx, pairs, with_predicates=True, with_hash=False):
    """the extracted... rather: the regenerated model evaluated inside Coq against the
    Python methods on the same operands, compared field by field"""
    terms, meta = [], []
    for name, a, b in pairs:
        ca, cb = sg.cspec(a), sg.cspec(b)
        terms.append(f"CAnd {ca} {cb} {sg.cres(lambda: a & b, sg.cspec)}"); meta.append(("and", a, b))
        terms.append(f"COr {ca} {cb} {sg.cres(lambda: a | b, sg.cspec)}"); meta.append(("or", a, b))
        terms.append(f"CInv {ca} {sg.cres(lambda: ~a, sg.cspec)}"); meta.append(("inv", a, None))
        terms.append(f"CEq {ca} {cb} {sg.cres(lambda: a == b, coqrun.cbool)}"); meta.append(("eq", a, b))
        terms.append(f"CIsEmpty {ca} {sg.cres(lambda: a.is_empty(), coqrun.cbool)}"); meta.append(("is_empty", a, None))
        terms.append(f"CIsAny {ca} {sg.cres(lambda: a.is_any(), coqrun.cbool)}"); meta.append(("is_any", a, None))
        if with_hash:
            try:
                terms.append(f"CHashEq {ca} {cb} {coqrun.cbool(hash(a) == hash(b))}"); meta.append(("hash-eq", a, b))
            except Exception:  # noqa: BLE001
                pass
        if with_predicates and type(a).__name__ == "RangeSpecifier" and type(b).__name__ == "RangeSpecifier":
            ra, rb = sg.crange(a), sg.crange(b)
            for cname, meth in (("CRangeAllowsLower", "allows_lower"), ("CRangeAllowsHigher", "allows_higher"),
                                ("CRangeStrictlyLower", "is_strictly_lower"), ("CRangeAdjacent", "is_adjacent_to"),
                                ("CRangeSuperset", "is_superset"), ("CRangeCanCombine", "can_combine")):
                terms.append(f"{cname} {ra} {rb} {sg.cres(lambda: getattr(a, meth)(b), coqrun.cbool)}")
                meta.append((meth, a, b))
    total, bad, errs = coqrun.eval_cases(terms, f"{ctx.prop}-sgen")
    ctx.count("S-gen", total)
    if errs:
        ctx.broke("correspondence", "S-gen (evaluation failed)", "\n".join(errs[:3]))
    if bad:
        op, a, b = meta[bad[0]]
        ctx.broke("correspondence", "S-gen: generated model vs Python methods",
                  f"{len(bad)} of {total} cases differ; first: {op} on a={show(a)}" + (f" b={show(b)}" if b is not None else "")
                  + f"; implementation term: {terms[bad[0]][:300]}")
    if meta:
        ctx.sample({"stream": "S-gen", "op": meta[0][0], "a": show(meta[0][1]), "b": show(meta[0][2]) if meta[0][2] is not None else None})


def stream_mkrange(ctx: Ctx):
    from dep_logic.specifiers import RangeSpecifier
    terms = []
    v = Version("1.0")
    for m in (None, v):
        for M in (None, v):
            for im in (False, True):
                for iM in (False, True):
                    try:
                        RangeSpecifier(min=m, max=M, include_min=im, include_max=iM)
                        ok = True
                    except Exception:  # noqa: BLE001
                        ok = False
                    terms.append(f"CMkRange {coqrun.copt(m, sg.cver)} {coqrun.copt(M, sg.cver)} {coqrun.cbool(im)} {coqrun.cbool(iM)} {coqrun.cbool(ok)}")
    total, bad, errs = coqrun.eval_cases(terms, f"{ctx.prop}-mkrange")
    ctx.count("S-gen/__post_init__", total)
    if bad or errs:
        ctx.broke("correspondence", "S-gen: RangeSpecifier.__post_init__", f"{bad} {errs[:1]}")


# ------------------------------------------------------------------------ oracles
def oracle_c01(ctx: Ctx, pairs):
    """structural membership of the results against the operands, at probes realising
    every cut position of the pair's point set"""
    probes_cache = {}
    for name, a, b in pairs:
        if name not in probes_cache:
            probes_cache[name] = sg.all_probes(name) if name in sg.POINT_SETS else None
        probes = probes_cache[name] or _probes_of(a, b)
        ctx.count("oracle-C01", 3, nontrivial_key=(name, classify(a, b), _coincidence(a, b)))
        for op, thunk, comb in (("and", lambda: a & b, lambda x, y: x and y), ("or", lambda: a | b, lambda x, y: x or y),
                                ("inv", lambda: ~a, lambda x, y: not x)):
            try:
                r = thunk()
                for v in probes:
                    exp = comb(sg.smem(v, a), sg.smem(v, b))
                    got = sg.smem(v, r)
                    if exp != got:
                        ctx.finding(f"{op}|{show(a)}|{show(b) if op != 'inv' else ''}",
                                    f"{'~a' if op == 'inv' else 'a ' + {'and': '&', 'or': '|'}[op] + ' b'} is not exact",
                                    {"op": op, "a": show(a), "b": show(b) if op != "inv" else None, "version": str(v)},
                                    expected=exp, observed={"result": show(r), "member": got})
                        break
            except Exception as e:  # noqa: BLE001
                ctx.finding(f"{op}|{show(a)}|{show(b) if op != 'inv' else ''}", f"operator {op} raised {type(e).__name__}",
                            {"op": op, "a": show(a), "b": show(b)}, expected="a specifier", observed=repr(e))


def _probes_of(a, b):
    """probes for operands not drawn from a fixed point set: every bound, and versions around it"""
    bounds = set()
    for s in (a, b):
        rs = getattr(s, "ranges", None) or ([s] if type(s).__name__ == "RangeSpecifier" else [])
        for r in rs:
            for v in (r.min, r.max):
                if v is not None:
                    bounds.add(v)
    out = set(bounds)
    for v in bounds:
        rel = list(v.release)
        out.add(Version(f"{v.epoch}!" + ".".join(map(str, rel + [0, 1]))))
        out.add(Version(f"{v.epoch}!" + ".".join(map(str, rel)) + ".post9999"))
        lo = [x for x in rel]
        if any(lo):
            for i in range(len(lo) - 1, -1, -1):
                if lo[i] > 0:
                    lo[i] -= 1
                    lo = lo[:i + 1] + [9999]
                    break
            out.add(Version(f"{v.epoch}!" + ".".join(map(str, lo))))
        out.add(Version(f"{v.epoch}!" + ".".join(map(str, rel)) + ".dev0"))
    out.add(Version("0.dev0"))
    out.add(Version("9999!0"))
    return sorted(out)


def _coincidence(a, b) -> str:
    """which bound coincidences occur between a and b (equal bound, same/different inclusivity)"""
    def cuts(s):
        rs = getattr(s, "ranges", None) or ([s] if type(s).__name__ == "RangeSpecifier" else [])
        out = []
        for r in rs:
            if r.min is not None:
                out.append((r.min, "lo", r.include_min))
            if r.max is not None:
                out.append((r.max, "hi", r.include_max))
        return out
    sig = set()
    for (v, k, i) in cuts(a):
        for (w, k2, j) in cuts(b):
            if v == w:
                sig.add(f"{k}{k2}{int(i)}{int(j)}")
    return ",".join(sorted(sig))


def oracle_c05(ctx: Ctx, pairs):
    for name, a, b in pairs:
        probes = sg.all_probes(name) if name in sg.POINT_SETS else _probes_of(a, b)
        ctx.count("oracle-C05", 1, nontrivial_key=(name, classify(a, b), _coincidence(a, b)))
        try:
            ra, ro, ri = a & b, a | b, ~a
        except Exception:  # noqa: BLE001  (reported by C01's oracle)
            continue
        for op, r in (("and", ra), ("or", ro), ("inv", ri)):
            bad = sg.canonical_shape(r)
            if bad:
                ctx.finding(f"shape|{op}|{show(a)}|{show(b)}", f"result of {op} is not canonical: {bad}",
                            {"op": op, "a": show(a), "b": show(b)}, expected="canonical shape", observed=show(r))
        # == exact (only meaningful on canonical operands: they are, by construction)
        same = all(sg.smem(v, a) == sg.smem(v, b) for v in probes)
        try:
            eq = (a == b)
        except Exception as e:  # noqa: BLE001
            eq = repr(e)
        if name in sg.POINT_SETS and eq != same:
            ctx.finding(f"eq|{show(a)}|{show(b)}", "== does not coincide with having the same members",
                        {"a": show(a), "b": show(b)}, expected=same, observed=eq)
        emp = not any(sg.smem(v, a) and sg.smem(v, b) for v in probes)
        if name in sg.POINT_SETS:
            try:
                got = ra.is_empty()
            except Exception as e:  # noqa: BLE001
                got = repr(e)
            if got != emp:
                ctx.finding(f"is_empty|{show(a)}|{show(b)}", "(a & b).is_empty() is not exact",
                            {"a": show(a), "b": show(b)}, expected=emp, observed=got)
            full = all(sg.smem(v, a) or sg.smem(v, b) for v in probes)
            try:
                got = ro.is_any()
            except Exception as e:  # noqa: BLE001
                got = repr(e)
            if got != full:
                ctx.finding(f"is_any|{show(a)}|{show(b)}", "(a | b).is_any() is not exact",
                            {"a": show(a), "b": show(b)}, expected=full, observed=got)


def oracle_c05_specials(ctx: Ctx):
    """the spellings of the universal and of the empty set (AnySpecifier from a complement, the unbounded RangeSpecifier from parsing
    or from a covering union, EmptySpecifier from parsing / an empty intersection / a complement): == must hold inside each group in
    both directions (with equal hashes), never across, and is_any() / is_empty() must agree"""
    from dep_logic.specifiers import parse_version_specifier as parse
    try:
        anys = {'~parse("<empty>")': ~parse("<empty>"), 'parse("")': parse(""), '<1.0 | >=1.0': parse("<1.0") | parse(">=1.0"),
                '~(<1 & >1)': ~(parse("<1") & parse(">1")), '<=2 | >1': parse("<=2") | parse(">1"), '~~parse("")': ~~parse("")}
        empties = {'parse("<empty>")': parse("<empty>"), '<1 & >1': parse("<1") & parse(">1"), '~parse("")': ~parse(""),
                   '~(<1.0 | >=1.0)': ~(parse("<1.0") | parse(">=1.0")), '>=2,<1': parse(">=2,<1")}
    except Exception as e:  # noqa: BLE001
        ctx.finding("specials-raise", f"building the universal / empty spellings raised {type(e).__name__}", {}, None, repr(e))
        return
    groups = (("universal", anys, True), ("empty", empties, False))
    for gname, grp, is_any in groups:
        for na, a in grp.items():
            ctx.count("oracle-C05-specials", 1, nontrivial_key=("special", gname, type(a).__name__))
            try:
                if a.is_any() is not is_any or a.is_empty() is is_any:
                    ctx.finding(f"special-flags|{gname}|{na}", "is_any() / is_empty() wrong on a spelling of the universal / empty set", {"a": na}, {"is_any": is_any}, {"is_any": a.is_any(), "is_empty": a.is_empty()})
            except Exception as e:  # noqa: BLE001
                ctx.finding(f"special-raise|{na}", f"is_any()/is_empty() raised {type(e).__name__}", {"a": na}, None, repr(e))
            for nb, b in grp.items():
                try:
                    if (a == b) is not True:      # (hash agreement is C13's claim and is checked there)
                        ctx.finding(f"special-eq|{gname}|{type(a).__name__}|{type(b).__name__}", "two spellings of the same set do not compare equal",
                                    {"a": na, "b": nb}, expected=True, observed={"eq": a == b})
                except Exception as e:  # noqa: BLE001
                    ctx.finding(f"special-raise|{na}|{nb}", f"== / hash raised {type(e).__name__}", {"a": na, "b": nb}, None, repr(e))
    for na, a in anys.items():
        for nb, b in empties.items():
            try:
                if (a == b) is not False or (b == a) is not False:
                    ctx.finding(f"special-eq|cross|{type(a).__name__}|{type(b).__name__}", "the universal and the empty set compare equal", {"a": na, "b": nb}, expected=False, observed=True)
            except Exception as e:  # noqa: BLE001
                ctx.finding(f"special-raise|{na}|{nb}", f"== raised {type(e).__name__}", {"a": na, "b": nb}, None, repr(e))


def oracle_c05_gaps(ctx: Ctx):
    """the public PEP 440 order is not dense: v and its immediate successor (v.post0.dev0 for a version without post/dev segment,
    v.post(N+1).dev0 after v.postN) have no version between them, so `>v` and `<succ` have no common member - read over versions,
    ==, is_empty() and is_any() must treat the gap as empty (recorded finding adjacent-gap)"""
    from packaging.version import Version
    from dep_logic.specifiers import parse_version_specifier as parse
    fam = [("1.0", "1.0.post0.dev0"), ("2.1", "2.1.post0.dev0"), ("1!3.0", "1!3.0.post0.dev0"), ("1.0a1", "1.0a1.post0.dev0"),
           ("1.0rc2", "1.0rc2.post0.dev0"), ("1.0.post3", "1.0.post4.dev0"), ("0", "0.post0.dev0"), ("3.9", "3.9.post0.dev0")]
    grid = [Version(x) for x in sg.GAP_GRID]
    for lo, hi in fam:
        vlo, vhi = Version(lo), Version(hi)
        between = [str(v) for v in grid if vlo < v < vhi]
        ctx.count("oracle-C05-gaps", 3, nontrivial_key=("gap", lo))
        if between:
            ctx.finding(f"gap-grid|{lo}", "the harness' successor table is wrong: a version lies in the supposed gap", {"lo": lo, "hi": hi}, [], between)
            continue
        try:
            a, b = parse(f">{lo}"), parse(f"<{hi}")
            if (a & b).is_empty() is not True:
                ctx.finding(f"adjacent-gap|is_empty|>{lo} & <{hi}", "(a & b).is_empty() is False although no version satisfies both (adjacent versions)",
                            {"a": f">{lo}", "b": f"<{hi}"}, expected=True, observed=False)
            if (parse(f">{lo}") == parse(f">={hi}")) is not True:
                ctx.finding(f"adjacent-gap|eq|>{lo} vs >={hi}", "two results admitting the same versions do not compare equal (adjacent versions)",
                            {"a": f">{lo}", "b": f">={hi}"}, expected=True, observed=False)
            if (parse(f"<={lo}") | parse(f">={hi}")).is_any() is not True:
                ctx.finding(f"adjacent-gap|is_any|<={lo} | >={hi}", "(a | b).is_any() is False although every version satisfies one of them (adjacent versions)",
                            {"a": f"<={lo}", "b": f">={hi}"}, expected=True, observed=False)
        except Exception as e:  # noqa: BLE001
            ctx.finding(f"gap-raise|{lo}", f"gap probe raised {type(e).__name__}", {"lo": lo, "hi": hi}, None, repr(e))


LAWS = [
    ("and-comm", lambda a, b, c: (a & b, b & a)),
    ("or-comm", lambda a, b, c: (a | b, b | a)),
    ("and-assoc", lambda a, b, c: ((a & b) & c, a & (b & c))),
    ("or-assoc", lambda a, b, c: ((a | b) | c, a | (b | c))),
    ("and-idem", lambda a, b, c: (a & a, a)),
    ("or-idem", lambda a, b, c: (a | a, a)),
    ("absorb-1", lambda a, b, c: (a & (a | b), a)),
    ("absorb-2", lambda a, b, c: (a | (a & b), a)),
    ("distr-1", lambda a, b, c: (a & (b | c), (a & b) | (a & c))),
    ("distr-2", lambda a, b, c: (a | (b & c), (a | b) & (a | c))),
    ("involution", lambda a, b, c: (~~a, a)),
    ("demorgan-1", lambda a, b, c: (~(a & b), ~a | ~b)),
    ("demorgan-2", lambda a, b, c: (~(a | b), ~a & ~b)),
]


def oracle_c14_spec(ctx: Ctx, triples):
    for name, a, b, c in triples:
        ctx.count("oracle-C14-spec", len(LAWS) + 2, nontrivial_key=(name, classify(a, b), classify(b, c)))
        for lname, f in LAWS:
            try:
                l, r = f(a, b, c)
                ok = (l == r) and (r == l)
            except Exception as e:  # noqa: BLE001
                ok, l, r = False, repr(e), None
            if not ok:
                ctx.finding(f"{lname}|{show(a)}|{show(b)}|{show(c)}", f"law {lname} fails as == of the returned objects",
                            {"law": lname, "a": show(a), "b": show(b), "c": show(c)},
                            expected="lhs == rhs", observed={"lhs": show(l) if r is not None else l, "rhs": show(r) if r is not None else None})
        try:
            e1, e2 = (a & ~a).is_empty(), (a | ~a).is_any()
        except Exception as e:  # noqa: BLE001
            e1 = e2 = repr(e)
        if e1 is not True or e2 is not True:
            ctx.finding(f"compl|{show(a)}", "a & ~a not empty or a | ~a not universal", {"a": show(a)},
                        expected=[True, True], observed=[e1, e2])


def triples_from(pairs, rng, n):
    specs = [(name, a) for name, a, _ in pairs] + [(name, b) for name, _, b in pairs]
    by = {}
    for name, s in specs:
        by.setdefault(name, []).append(s)
    out = []
    names = [k for k in by if k in sg.POINT_SETS]
    for _ in range(n):
        name = rng.choice(names)
        out.append((name, rng.choice(by[name]), rng.choice(by[name]), rng.choice(by[name])))
    return out


def oracle_c13_spec(ctx: Ctx, pairs):
    """equality is an equivalence compatible with hashing, and equal operands are interchangeable"""
    from dep_logic.specifiers import AnySpecifier, RangeSpecifier
    extra = [("plain", AnySpecifier(), RangeSpecifier()), ("plain", RangeSpecifier(), AnySpecifier())]
    rng = random.Random(ctx.seed + 5)
    for name, a, b in extra + pairs:
        ctx.count("oracle-C13-spec", 1, nontrivial_key=(name, classify(a, b), _coincidence(a, b)))
        try:
            if not (a == a):
                ctx.finding(f"refl|{show(a)}", "x == x is false", {"x": show(a)}, True, False)
            e1, e2 = (a == b), (b == a)
            if e1 != e2:
                ctx.finding(f"sym|{show(a)}|{show(b)}", "== is not symmetric", {"x": show(a), "y": show(b)}, e1, e2)
            if e1 and hash(a) != hash(b):
                ctx.finding(f"hash|{type(a).__name__}|{type(b).__name__}|{show(a)}", "x == y but hash(x) != hash(y)",
                            {"x": f"{type(a).__name__} {show(a)}", "y": f"{type(b).__name__} {show(b)}"}, "equal hashes",
                            [hash(a), hash(b)])
            if e1:
                # interchangeable as operands
                c = rng.choice(pairs)[1]
                for op, f in (("and", lambda x: c & x), ("or", lambda x: c | x), ("rand", lambda x: x & c), ("ror", lambda x: x | c)):
                    ra, rb = f(a), f(b)
                    # "the same meaning": the same members at probes realising every position between the bounds involved (not == of
                    # the returned objects, which would also demand C05's canonical shapes)
                    probes = _probes_of(a, c)
                    if any(sg.smem(v, ra) != sg.smem(v, rb) for v in probes):
                        ctx.finding(f"congr|{op}|{show(a)}|{show(c)}", "equal operands give results with different members",
                                    {"x": show(a), "y": show(b), "other": show(c), "op": op}, "the same members", [show(ra), show(rb)])
        except Exception as e:  # noqa: BLE001
            ctx.finding(f"raise|{show(a)}|{show(b)}", f"==/hash raised {type(e).__name__}", {"x": show(a), "y": show(b)}, None, repr(e))
    # transitivity on respelled triples
    for name, a, b in pairs[:400]:
        try:
            b2 = sg.respell(a)
            if (a == b2) and (b2 == b) and not (a == b):
                ctx.finding(f"trans|{show(a)}|{show(b)}", "== is not transitive", {"x": show(a), "y": show(b2), "z": show(b)}, True, False)
        except Exception:  # noqa: BLE001
            pass


# ------------------------------------------------------------------------ property runners
def sizes(ctx):
    return (2400, 400) if ctx.tier == "quick" else (40000, 6000)


def run_c01(ctx: Ctx):
    ctx.trusted_base = BASE_TRUST
    thms = ["C01_and", "C01_or", "C01_inv", "C01_closure", "C01_versions"]
    proof_step(ctx, "Props/C01.v", thms, extra_targets=["Model/Corr.v"])
    n, _ = sizes(ctx)
    pairs = corpus_pairs() + spec_pairs(ctx, n, exhaustive=(ctx.tier == "thorough"))
    if not any(b["kind"] == "translation" for b in ctx.broken):
        stream_sver(ctx, 1500 if ctx.tier == "quick" else 12000)
        stream_sgen(ctx, pairs)
        stream_mkrange(ctx)
    oracle_c01(ctx, pairs)
    ctx.coverage["rule"] = ("operand pairs = canonical interval sets (<=3 ranges) over 4 ordered points, 4 concrete PEP 440 "
                            "shapes per point set, 30% with the second operand respelled (1.0 vs 1.0.0); thorough tier enumerates "
                            "all 467^2 pairs of the plain point set; a case is non-trivial/distinct by (point set, operand classes, "
                            "set of coinciding bounds with their inclusivity)")
    ctx.coverage["exhaustive"] = ctx.tier == "thorough"


def run_c05(ctx: Ctx):
    ctx.trusted_base = BASE_TRUST
    thms = ["C05_closed", "C05_unique", "C05_empty", "C05_any", "C05_post_init", "C05_versions", "C05_gap_refuted"]
    proof_step(ctx, "Props/C05.v", thms, extra_targets=["Model/Corr.v"])
    n, _ = sizes(ctx)
    pairs = corpus_pairs() + spec_pairs(ctx, n, exhaustive=(ctx.tier == "thorough"))
    if not any(b["kind"] == "translation" for b in ctx.broken):
        stream_sgen(ctx, pairs, with_predicates=False)
    oracle_c05(ctx, pairs)
    oracle_c05_specials(ctx)
    oracle_c05_gaps(ctx)
    ctx.coverage["rule"] = "as C01; every result is checked for canonical shape, == / is_empty / is_any against membership at probes realising every cut position"
    ctx.coverage["exhaustive"] = ctx.tier == "thorough"


def run_c14_spec(ctx: Ctx):
    n, nt = sizes(ctx)
    pairs = corpus_pairs() + spec_pairs(ctx, n // 2, exhaustive=False)
    rng = random.Random(ctx.seed + 3)
    oracle_c14_spec(ctx, triples_from(pairs, rng, nt))
    return pairs


def run_c13_spec(ctx: Ctx):
    n, _ = sizes(ctx)
    pairs = corpus_pairs() + spec_pairs(ctx, n, exhaustive=False)
    oracle_c13_spec(ctx, pairs)
    return pairs
