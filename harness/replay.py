"""replay.py — ./check <Cxx> --replay <file>: show a recorded failing input and re-run it
against the implementation where the record carries enough to do so."""
from __future__ import annotations

import json


def run(prop: str, path: str) -> int:
    d = json.load(open(path))
    print(json.dumps(d, indent=1)[:4000])
    inp = d.get("input") or {}
    try:
        if "marker" in inp and "env" in inp:
            from dep_logic.markers import parse_marker
            from packaging.markers import Marker
            env = dict(inp["env"])
            m = parse_marker(inp["marker"])
            e2 = dict(env)
            if isinstance(e2.get("extra"), list):
                e2["extra"] = set(e2["extra"])
            print("re-run: dep_logic =", m.evaluate(e2), "| parsed as:", m)
            try:
                e3 = dict(env)
                if isinstance(e3.get("extra"), list):
                    e3["extra"] = (e3["extra"] or [""])[0]
                print("re-run: packaging =", Marker(inp["marker"]).evaluate(e3))
            except Exception as e:  # noqa: BLE001
                print("packaging:", repr(e))
        elif "a" in inp and "b" in inp and isinstance(inp["a"], str) and prop in ("C02", "C07", "C12", "C15", "C14"):
            from dep_logic.markers import parse_marker
            a, b = parse_marker(inp["a"]), parse_marker(inp["b"])
            print("re-run: a & b =", a & b)
            print("re-run: a | b =", a | b)
        elif "text" in inp and prop in ("C17", "C06"):
            from dep_logic.specifiers import parse_version_specifier
            try:
                r = parse_version_specifier(inp["text"])
                print("re-run: parsed", repr(r), "str:", str(r))
            except Exception as e:  # noqa: BLE001
                print("re-run: raised", repr(e))
        elif "platform" in inp:
            from dep_logic.tags import Platform
            print("re-run:", list(Platform.parse(inp["platform"]).compatible_tags)[:12])
        elif "filename" in inp:
            from dep_logic.tags.tags import parse_wheel_tags
            print("re-run:", parse_wheel_tags(inp["filename"]))
        elif "requires_python" in inp and "python_tag" in inp:
            from dep_logic.tags import EnvSpec
            im = inp.get("implementation")
            s = EnvSpec.from_spec(inp["requires_python"], None, im[0] if im else None, im[1] if im else False)
            print("re-run:", s._evaluate_python(inp["python_tag"], inp["abi_tag"]))
    except Exception as e:  # noqa: BLE001
        print("replay could not re-run the input:", repr(e))
    return 0
