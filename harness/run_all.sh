#!/bin/sh
# run every registered quick (or $1=thorough) check on the current tree, sequentially; summary on stdout
cd "$(dirname "$0")/.."
TIER=${1:-quick}
for p in C01 C02 C03 C04 C05 C06 C07 C08 C09 C10 C11 C12 C13 C14 C15 C16 C17 C18 C19; do
  out=$(./check $p --tier $TIER 2>&1); rc=$?
  echo "$p exit=$rc $(echo "$out" | grep -c '^VIOLATION') violation(s) | $(echo "$out" | tail -1 | cut -c1-140)"
  echo "$out" | grep '^VIOLATION' | head -3
done
