"""main.py — ./check entry point (see DESIGN.md section 2)."""
from __future__ import annotations

import argparse
import json
import os
import sys
import time

import coqrun
from framework import Ctx


def registry():
    import props_spec
    reg = {
        "C01": props_spec.run_c01,
        "C05": props_spec.run_c05,
    }
    try:
        import props_all
        reg.update(props_all.REGISTRY)
    except ImportError:
        pass
    return reg


def setup() -> int:
    t0 = time.time()
    ok, msg = coqrun.regen()
    print(f"translator: {msg}")
    if not ok:
        print("setup: translation failed (the checks will report this); building the hand-written part only")
    ok, log, secs = coqrun.build([], timeout=3000)
    print(f"coq build: {'ok' if ok else 'FAILED'} in {secs:.0f}s")
    if not ok:
        print(log[-3000:])
    print(f"setup done in {time.time() - t0:.0f}s")
    return 0 if ok else 1


def main() -> int:
    ap = argparse.ArgumentParser()
    ap.add_argument("prop", nargs="?")
    ap.add_argument("--setup", action="store_true")
    ap.add_argument("--tier", default=os.environ.get("VERIF_TIER", "quick"), choices=["quick", "thorough"])
    ap.add_argument("--replay")
    args = ap.parse_args()
    if args.setup:
        return setup()
    reg = registry()
    if args.prop not in reg:
        print(f"unknown property {args.prop}; known: {sorted(reg)}")
        return 2
    seed = int(os.environ.get("VERIF_SEED", "20261001"))
    if args.replay:
        import replay
        return replay.run(args.prop, args.replay)
    ctx = Ctx(args.prop, args.tier, seed)
    try:
        reg[args.prop](ctx)
    except Exception as e:  # noqa: BLE001 - a crash of the machinery must not look like success
        import traceback
        ctx.broke("harness", "check crashed", traceback.format_exc())
    return ctx.finish()


if __name__ == "__main__":
    code = main()
    sys.stdout.flush()
    os._exit(code)
