"""specgen.py — generators, structural dumpers and the structural-membership oracle
for version specifiers (streams S-gen / S-ver, direct oracles of C01/C05/C13/C14)."""
from __future__ import annotations

import itertools
import random

from packaging.version import Version

from coqrun import cbool, copt, cstr

# ----------------------------------------------------------------- rendering to Coq
PRE = {"a": "PA", "b": "PB", "rc": "PRC"}


def cver(v: Version) -> str:
    pre = "None" if v.pre is None else f"(Some ({PRE[v.pre[0]]}, {v.pre[1]}))"
    post = "None" if v.post is None else f"(Some {v.post})"
    dev = "None" if v.dev is None else f"(Some {v.dev})"
    rel = "[" + "; ".join(str(x) for x in v.release) + "]"
    return f"(V_ {v.epoch} {rel} {pre} {post} {dev})"


def crange(r) -> str:
    return f"(R_ {copt(r.min, cver)} {copt(r.max, cver)} {cbool(r.include_min)} {cbool(r.include_max)})"


def cspec(s) -> str:
    n = type(s).__name__
    if n == "EmptySpecifier":
        return "SEmpty"
    if n == "AnySpecifier":
        return "SAny"
    if n == "RangeSpecifier":
        return f"(SRange {crange(s)})"
    if n == "UnionSpecifier":
        return "(U_ [" + "; ".join(crange(r) for r in s.ranges) + "])"
    if n == "ArbitrarySpecifier":
        return f"(SArb {cstr(s.target)})"
    if n == "GenericSpecifier":
        return f"(SGeneric (mkGenericRaw {GOPS.get(s.op, 'GOther')} {cstr(s.value)}))"
    raise ValueError(f"unrenderable result {s!r} of class {n}")


GOPS = {"==": "GEq", "!=": "GNe", "in": "GIn", "not in": "GNotIn", ">": "GGt", ">=": "GGe", "<": "GLt", "<=": "GLe"}

EXN = {"TypeError", "ValueError", "InvalidSpecifier", "NotImplementedError", "AttributeError", "IndexError",
       "KeyError", "InvalidVersion", "AssertionError"}


def cres(thunk, render) -> str:
    """run thunk(); render `Ret x` or `Raise E`"""
    try:
        x = thunk()
    except Exception as e:  # noqa: BLE001
        n = type(e).__name__
        return f"(Raise {n})" if n in EXN else "(Raise Unfueled)"  # unknown class: guaranteed mismatch
    try:
        return f"(Ret {render(x)})"
    except ValueError:
        return "(Raise Unfueled)"


# ----------------------------------------------------------------- canonical specifier enumeration
def mk_range(lo, hi):
    """lo/hi are cut positions: None (infinite) or (version, side) with side in 'B','A'"""
    from dep_logic.specifiers import RangeSpecifier

    kw = {}
    if lo is not None:
        kw["min"] = lo[0]
        kw["include_min"] = lo[1] == "B"
    if hi is not None:
        kw["max"] = hi[0]
        kw["include_max"] = hi[1] == "A"
    return RangeSpecifier(**kw)


def cut_positions(points):
    pos = [None]
    for p in points:
        pos.append((p, "B"))
        pos.append((p, "A"))
    pos.append("INF")
    return pos


def enum_canonical(points, max_ranges=3, any_variants=True):
    """every canonical interval set whose bounds are cuts at the given ascending points"""
    from dep_logic.specifiers import AnySpecifier, EmptySpecifier, UnionSpecifier

    pos = cut_positions(points)
    n = len(pos)
    yield EmptySpecifier()
    for m in range(1, max_ranges + 1):
        for idx in itertools.combinations(range(n), 2 * m):
            ranges = []
            for k in range(m):
                lo, hi = pos[idx[2 * k]], pos[idx[2 * k + 1]]
                ranges.append(mk_range(None if lo is None else lo, None if hi == "INF" else hi))
            if m == 1:
                yield ranges[0]
            else:
                yield UnionSpecifier(tuple(ranges))
    if any_variants:
        yield AnySpecifier()


POINT_SETS = {
    "plain": ["1.0", "1.5", "2.0", "3.1"],
    "prepost": ["1.0.dev1", "1.0a1", "1.0", "1.0.post1"],
    "epoch_len": ["1", "1.0.1", "1.0.1.post2.dev3", "2!0.5"],
    "rc_dev": ["2.0b2.dev1", "2.0b2", "2.0rc1", "2.0.0.0"],
}
# alternative spellings of the same points (same key, different release length)
RESPELL = {"1.0": "1.0.0", "1.5": "1.5.0", "2.0": "2", "3.1": "3.1.0.0", "1": "1.0", "1.0.1": "1.0.1.0",
           "2!0.5": "2!0.5.0", "2.0.0.0": "2", "1.0a1": "1.0.0a1", "1.0.post1": "1.post1", "1.0.dev1": "1.dev1",
           "2.0rc1": "2rc1", "2.0b2": "2.0.0b2", "2.0b2.dev1": "2b2.dev1", "1.0.1.post2.dev3": "1.0.1.0.post2.dev3"}


def respell(spec):
    """same specifier with every bound written with a different number of release segments"""
    from dep_logic.specifiers import RangeSpecifier, UnionSpecifier

    def rv(v):
        return None if v is None else Version(RESPELL.get(str(v), str(v)))

    def rr(r):
        return RangeSpecifier(min=rv(r.min), max=rv(r.max), include_min=r.include_min, include_max=r.include_max)

    n = type(spec).__name__
    if n == "RangeSpecifier":
        return rr(spec)
    if n == "UnionSpecifier":
        return UnionSpecifier(tuple(rr(r) for r in spec.ranges))
    return spec


# ----------------------------------------------------------------- structural membership (the oracle)
def smem_range(v: Version, r) -> bool:
    if r.min is not None:
        if v < r.min or (v == r.min and not r.include_min):
            return False
    if r.max is not None:
        if v > r.max or (v == r.max and not r.include_max):
            return False
    return True


def smem(v: Version, s) -> bool:
    n = type(s).__name__
    if n == "EmptySpecifier":
        return False
    if n == "AnySpecifier":
        return True
    if n == "RangeSpecifier":
        return smem_range(v, s)
    if n == "UnionSpecifier":
        return any(smem_range(v, r) for r in s.ranges)
    raise ValueError(f"no structural membership for {n}")


def canonical_shape(s) -> str | None:
    """None if s is in canonical shape, else a description of what is wrong"""
    n = type(s).__name__
    if n in ("EmptySpecifier", "AnySpecifier"):
        return None

    def lb(r):
        return (0, None, 0) if r.min is None else (1, r.min, 0 if r.include_min else 1)

    def ub(r):
        return (2, None, 0) if r.max is None else (1, r.max, 1 if r.include_max else 0)

    def lt(a, b):
        if a[0] != b[0]:
            return a[0] < b[0]
        if a[0] != 1:
            return False
        return a[1] < b[1] or (a[1] == b[1] and a[2] < b[2])

    def ok_range(r):
        if r.min is None and r.include_min or r.max is None and r.include_max:
            return "include flag on an unbounded side"
        if not lt(lb(r), ub(r)):
            return "degenerate range"
        return None

    if n == "RangeSpecifier":
        return ok_range(s)
    if n == "UnionSpecifier":
        if len(s.ranges) < 2:
            return f"union with {len(s.ranges)} range(s)"
        for r in s.ranges:
            if type(r).__name__ != "RangeSpecifier":
                return "non-range member"
            e = ok_range(r)
            if e:
                return e
        for a, b in zip(s.ranges, s.ranges[1:]):
            if not lt(ub(a), lb(b)):
                return "members not ascending with a strict gap"
        return None
    return f"unexpected class {n}"


def probes_for(points):
    """versions that realise every cut position below +inf for the given points: one
    below all, each point, and one strictly between neighbours / above all"""
    between = {
        "plain": ["0.5", "1.2", "1.7", "2.5", "4.0"],
        "prepost": ["0.9", "1.0.dev5", "1.0a5", "1.0.post0", "1.0.post5"],
        "epoch_len": ["0.1", "1.0.0.5", "1.0.1.post1", "1!0", "2!7"],
        "rc_dev": ["1.9", "2.0b2.dev5", "2.0b7", "2.0rc4", "2.1"],
    }
    return between


def all_probes(name):
    pts = [Version(p) for p in POINT_SETS[name]]
    bt = [Version(p) for p in probes_for(None)[name]]
    out = [bt[0]]
    for p, b in zip(pts, bt[1:]):
        out += [p, b]
    # sanity: strictly ascending
    assert all(x < y for x, y in zip(out, out[1:])), (name, out)
    return out


def random_version(rng: random.Random) -> Version:
    rel = [rng.choice([0, 0, 1, 1, 2, 3, 10]) for _ in range(rng.choice([1, 2, 2, 3, 3, 4, 5]))]
    if rng.random() < 0.3:
        rel[-1] = 0
    s = ".".join(map(str, rel))
    if rng.random() < 0.15:
        s = f"{rng.choice([1, 2])}!" + s
    k = rng.random()
    if k < 0.2:
        s += rng.choice(["a", "b", "rc"]) + str(rng.choice([0, 1, 2]))
    if rng.random() < 0.2:
        s += f".post{rng.choice([0, 1, 2])}"
    if rng.random() < 0.2:
        s += f".dev{rng.choice([0, 1, 2])}"
    return Version(s)


def _gap_grid():
    """versions clustered around the bases used by the adjacent-gap probes, every suffix shape (sanity check of the successor table)"""
    out = []
    for base in ("1.0", "2.1", "1!3.0", "0", "3.9", "1.0.0.1", "1.0.1", "2.1.1", "1!3.0.1", "0.0.1", "3.9.1"):
        for suf in ("", ".dev0", ".dev1", "a0", "a1", "a1.dev0", "a1.post0", "a1.post0.dev0", "a1.post0.dev1", "a2", "b0", "rc0", "rc2", "rc2.dev0", "rc2.post0.dev0",
                    "rc2.post0.dev1", "rc2.post0", "rc3", ".post0.dev0", ".post0.dev1", ".post0", ".post1.dev0", ".post1", ".post3", ".post3.dev0", ".post4.dev0",
                    ".post4.dev1", ".post4", ".post3.dev9"):
            out.append(base + suf)
    return out


GAP_GRID = _gap_grid()
