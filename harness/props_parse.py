"""props_parse.py — direct oracles for C17 (parser acceptance), C06 (text round trip)
and C04 (membership vs packaging through the algebra)."""
from __future__ import annotations

import itertools
import random

from packaging.specifiers import InvalidSpecifier as PkgInvalid
from packaging.specifiers import SpecifierSet
from packaging.version import Version

from framework import Ctx
from props_spec import show

OPS = [">", ">=", "<", "<=", "==", "!=", "~="]


def rand_version_text(rng: random.Random, final_only=False, allow_v=True) -> str:
    n = rng.choice([1, 2, 2, 3, 3, 4, 5])
    rel = [str(rng.choice([0, 0, 1, 2, 3, 10, 21])) for _ in range(n)]
    if rng.random() < 0.25:
        rel[-1] = "0"
    s = ".".join(rel)
    if rng.random() < 0.08:
        s = "0" + s            # leading zero
    if rng.random() < 0.12:
        s = f"{rng.choice([1, 2])}!" + s
    if allow_v and rng.random() < 0.05:
        s = "v" + s
    if final_only:
        return s
    if rng.random() < 0.25:
        s += rng.choice(["", ".", "-", "_"]) + rng.choice(["a", "b", "rc", "c", "alpha", "beta", "pre", "preview", "RC", "A"]) + rng.choice(["", ".", "-"]) + rng.choice(["", "0", "1", "2"])
    if rng.random() < 0.2:
        s += rng.choice([".post", "-post", ".rev", ".r", "-", ".POST"]) + rng.choice(["0", "1", "3"])
    if rng.random() < 0.2:
        s += rng.choice([".dev", "-dev", "dev", ".DEV"]) + rng.choice(["", "0", "1"])
    return s


def clause(rng: random.Random) -> str:
    op = rng.choice(OPS)
    if op in ("==", "!=") and rng.random() < 0.35:
        v = rand_version_text(rng, final_only=True) + ".*"
    elif op == "~=":
        v = rand_version_text(rng)
        if "." not in v.split("!")[-1].lstrip("v"):
            v += ".1"
    else:
        v = rand_version_text(rng)
    sp = rng.choice(["", "", " "])
    return f"{op}{sp}{v}"


def spec_text(rng: random.Random) -> str:
    n = rng.choice([0, 1, 1, 1, 2, 2, 3])
    return rng.choice([",", ", ", " , "]).join(clause(rng) for _ in range(n))


NEAR_MISS = ["=1.0", "=>1.0", ">=1.0,", ">=", "1.0", "~=1", "==1.*.0", "==1.0.*.*", ">1.*", "~=1.0.*", ">=1.0 <2", ">=1.0;<2", "!==1.0", ">=1..0", ">=1.0a", "== *",
             ">=1.0+local", "~=1.0+x", ">=1.0.dev", "<=v", ">= 1.0 2.0", "<>1.0", "==1.0a1.*", ">=1!", "!1.0", "><1.0", ">=1.0||", "abc", ">=1.0 ||| <2", "<empty>,>=1"]


def oracle_c17(ctx: Ctx, n):
    from dep_logic.specifiers import InvalidSpecifier, from_specifierset, parse_version_specifier
    rng = random.Random(ctx.seed + 61)
    texts = [spec_text(rng) for _ in range(n)] + NEAR_MISS + ["", "<empty>", "===abc", "===1.0", ">=1.0||<0.5", "<empty>||>=1", "==1!2.*", "~=1!2.3", "~=v1.2", "~=1.2.c1",
                                                             "~=1.2.pre1", "~=1.2.rev1", ">=1.0||", "||", "||<2", " >=1.0 ", ">=1.0 || <0.5"]
    # arbitrary-equality clauses (free-text operands, incl. ones that look like wildcards / local versions), alone and inside comma sets;
    # `||` alternatives with a === member may raise ValueError (C04 says so) and stay outside the claim
    ARB = ["abc", "foo.*", "1.0", "1.0.*", "release-candidate.*", ".*", "2024.build.*", "1.0+local", "v1", "1!2.*", "*", "1.0a1.*", "x.y.z", "1.0.post1.*", "0"]
    for _ in range(max(20, n // 15)):
        a = "===" + rng.choice(["", " "]) + rng.choice(ARB)
        k = rng.random()
        texts.append(a if k < 0.4 else (f"{a},{clause(rng)}" if k < 0.6 else (f"{clause(rng)}, {a}" if k < 0.8 else f"{a},==={rng.choice(ARB)}")))
    texts += ["==1.0+local", "!=1.0+local.1", "==1.0+local,>=1", ">=1.0+local", "~=1.0+l", "==1.*+l"]
    # mutate some valid ones into near misses
    for t in list(texts[: n // 4]):
        if t:
            i = rng.randrange(len(t))
            texts.append(t[:i] + rng.choice(["*", "!", "=", " ", ".", "x", ""]) + t[i + 1:])
    for t in texts:
        parts = t.split("||") if "||" in t else [t]
        accepts = True
        for p in parts:
            if p == "<empty>" and "||" in t:
                continue
            if t == "<empty>":
                continue
            try:
                SpecifierSet(p)
            except PkgInvalid:
                accepts = False
        if "===" in t and "||" in t:
            continue   # an alternative with an arbitrary-equality member may raise ValueError (C04): outside the claim
        ctx.count("oracle-C17", 1, nontrivial_key=(accepts, t.count(","), "||" in t, "!" in t, "*" in t, "~=" in t, any(c.isalpha() for c in t)))
        try:
            r = parse_version_specifier(t)
            got = "ok"
        except InvalidSpecifier:
            got = "InvalidSpecifier"
        except Exception as e:  # noqa: BLE001
            got = type(e).__name__
        exp = "ok" if accepts else "InvalidSpecifier"
        if got != exp:
            ctx.finding(f"accept|{got}|{_shape(t)}|{t}", "parser acceptance differs from packaging's SpecifierSet (plus || and <empty>)", {"text": t}, exp, got)
        if accepts and "||" not in t and t != "<empty>":
            try:
                from_specifierset(SpecifierSet(t))
            except Exception as e:  # noqa: BLE001
                ctx.finding(f"fss|{type(e).__name__}|{t}", "from_specifierset raised on a SpecifierSet object", {"text": t}, "a specifier", repr(e))
    ctx.sample({"stream": "oracle-C17", "text": texts[3]})


def _shape(t):
    import re
    return re.sub(r"\d+", "N", t)[:40]


# ------------------------------------------------------------------------------ reachable specifiers
def reachable(ctx: Ctx, n, salt):
    """(description, specifier, leaves) for parsed specifiers and random &,|,~ trees over them"""
    from dep_logic.specifiers import parse_version_specifier
    rng = random.Random(ctx.seed + salt)
    leaves = []
    fixed = [">=1.2,<2.0", ">=1.2,<2.post1", "<1.1.post1||>=1.2.0", "<1.0||>=1.0.post1", ">=1!1.2,<1!2", "~=1.2", "==1.*", "!=1.5", "!=1.5.*", ">=1.0", "<2", "==2.0",
             ">=2.3,<2.4.0", ">=2,<3.0", ">=1.2.3,<1.3", ">=1.0a1,<2", ">=1.0,<2.0.dev1", ">1.0,<=2.0", "<1||>=2", "<1.0||>1.0", "<1.5||>=1.6", "<2.0||>=2.1.0", "<2||>=2.1.0",
             ">=1.2.post1,<2", "~=1.2.post1", ">=0,<1", "<1||>=1.1||<0.5", ">=1.0.0,<1.1", ">=3.6,<4", ">=3.6,<3.7", "<3.6.0||>=3.7", "", "<empty>", "!=1!2.*", "==1!2.*",
             # zero-numbered dev/post segments on the edges of a hole / of a ~=-shaped range (0 is falsy: guards written as `v.dev or v.post` miss them)
             "<1.2.0.dev0||>=1.3.0", "<1.2.0||>=1.3.0.dev0", "<1.2.0||>=1.3.0.post0", "<1.2.0.post0||>=1.3.0", "<1!1.2.0.dev0||>=1!1.3.0", "<1.2.0a0||>=1.3.0", "<1.2.0||>=1.3.0rc0",
             ">=1.2.dev0,<2.0", ">=1.2,<2.0.dev0", ">=1.2.post0,<2.0", ">=1.2a0,<2.0", ">=1.2,<2.0a0", ">=1.2,<2.0rc0", ">=3.8.0.dev0,<3.9.0"]
    # every inclusivity combination over three bounds: equal-bound coincidences are frequent
    bs = ["1.0", "1.5", "2.0"]
    for i, lo in enumerate(bs):
        fixed += [f">{lo}", f">={lo}", f"<{lo}", f"<={lo}"]
        for hi in bs[i + 1:]:
            fixed += [f"{a}{lo},{b}{hi}" for a in (">", ">=") for b in ("<", "<=")]
    for t in fixed:
        try:
            leaves.append((t, parse_version_specifier(t)))
        except Exception:  # noqa: BLE001
            pass
    n_fixed = len(leaves)
    for _ in range(n):
        t = spec_text(rng)
        if "+" in t:
            continue
        try:
            SpecifierSet(t)
            leaves.append((t, parse_version_specifier(t)))
        except Exception:  # noqa: BLE001
            continue
    for t, s in leaves:
        yield (f"parse({t!r})", s, [t], ("leaf", t))
    for _ in range(n):
        pool = leaves[:n_fixed] if rng.random() < 0.5 else leaves
        (ta, a), (tb, b) = rng.choice(pool), rng.choice(pool)
        k = rng.random()
        try:
            if k < 0.35:
                yield (f"({ta}) & ({tb})", a & b, [ta, tb], ("and", ("leaf", ta), ("leaf", tb)))
            elif k < 0.7:
                yield (f"({ta}) | ({tb})", a | b, [ta, tb], ("or", ("leaf", ta), ("leaf", tb)))
            elif k < 0.85:
                yield (f"~({ta})", ~a, [ta], ("not", ("leaf", ta)))
            else:
                (tc, c) = rng.choice(leaves)
                yield (f"(({ta}) | ({tb})) & ~({tc})", (a | b) & ~c, [ta, tb, tc], ("and", ("or", ("leaf", ta), ("leaf", tb)), ("not", ("leaf", tc))))
        except Exception as e:  # noqa: BLE001
            # C01's operands are built directly, never parsed: an operator that raises only on parsed operands (which carry their
            # `simplified` text) would be seen nowhere else.  `===` leaves may raise ValueError (C04 says so).
            if not (isinstance(e, ValueError) and any("===" in t for t in (ta, tb))):
                ctx.finding(f"op-raise|{type(e).__name__}|{ta}|{tb}", f"an operator on parsed specifiers raised {type(e).__name__}", {"a": ta, "b": tb}, "a specifier", repr(e))
            continue


def oracle_c06(ctx: Ctx, n):
    from dep_logic.specifiers import parse_version_specifier
    for desc, s, leaves, _ in reachable(ctx, n, salt=63):
        k = type(s).__name__
        ctx.count("oracle-C06", 1, nontrivial_key=(k, len(getattr(s, "ranges", ())), _bshape(s)))
        try:
            text = str(s)
        except Exception as e:  # noqa: BLE001
            ctx.finding(f"str-raise|{type(e).__name__}|{_bshape(s)}", f"str() raised {type(e).__name__}", {"specifier": desc, "value": show(s)}, "text", repr(e))
            continue
        try:
            back = parse_version_specifier(text)
        except Exception as e:  # noqa: BLE001
            ctx.finding(f"reparse|{_render_form(text)}|{_bshape(s)}", f"str(s) does not parse back ({type(e).__name__})", {"specifier": desc, "value": show(s), "text": text}, "parses", repr(e))
            continue
        if not (back == s):
            ctx.finding(f"roundtrip|{'tilde-max-post' if _tilde_max_post(s) else _render_form(text)}|{_bshape(s)}", "parse_version_specifier(str(s)) != s", {"specifier": desc, "value": show(s), "text": text}, show(s), show(back))
    ctx.sample({"stream": "oracle-C06", "case": desc, "text": text})


def _tilde_max_post(s) -> bool:
    """does some member range render as ~=... although its upper bound is a post-release? (the recorded rendering defect)"""
    rs = getattr(s, "ranges", None) or ([s] if type(s).__name__ == "RangeSpecifier" else [])
    for r in rs:
        try:
            if r.max is not None and r.max.is_postrelease and str(r).startswith("~="):
                return True
        except Exception:  # noqa: BLE001
            pass
    return False


def _render_form(text):
    for f in ("~=", "!=", "==", "||"):
        if f in text:
            return f + (".*" if text.endswith(".*") else "")
    return "range"


def _bshape(s):
    """shape class of the bounds: which of pre/post/dev/epoch/length-mismatch occur"""
    rs = getattr(s, "ranges", None) or ([s] if type(s).__name__ == "RangeSpecifier" else [])
    f = set()
    lens = set()
    for r in rs:
        for side, v in (("min", r.min), ("max", r.max)):
            if v is None:
                continue
            lens.add(len(v.release))
            if v.epoch:
                f.add("epoch")
            if v.pre is not None:
                f.add(f"{side}-pre")
            if v.post is not None:
                f.add(f"{side}-post")
            if v.dev is not None:
                f.add(f"{side}-dev")
    if len(lens) > 1:
        f.add("lens")
    return ",".join(sorted(f))


FINALS = [Version(x) for x in ["0", "0.5", "1", "1.0", "1.0.0", "1.1", "1.2", "1.2.0", "1.2.3", "1.3", "1.5", "1.5.1", "1.6", "1.9.9", "2", "2.0", "2.0.1", "2.1", "2.1.0", "2.3",
                               "2.3.9", "2.4", "3", "3.0", "3.5.9", "3.6", "3.6.0", "3.6.1", "3.7", "4", "10.0", "21.1", "1!0", "1!1.2", "1!2", "1!2.0", "1!2.1", "1!3", "2!0"]]


def oracle_c04(ctx: Ctx, n):
    rng = random.Random(ctx.seed + 67)

    def leaf_sets(t):
        if t == "<empty>":
            return None
        return [SpecifierSet(p) for p in t.split("||")]

    def ref(tree, v):
        k = tree[0]
        if k == "leaf":
            t = tree[1]
            if t == "<empty>":
                return False
            return any(SpecifierSet(p).contains(v, prereleases=True) for p in t.split("||"))
        if k == "and":
            return ref(tree[1], v) and ref(tree[2], v)
        if k == "or":
            return ref(tree[1], v) or ref(tree[2], v)
        return not ref(tree[1], v)

    for desc, s, leaves, tree in reachable(ctx, n, salt=69):
        if any("===" in t for t in leaves):
            continue
        extra = []
        for r in getattr(s, "ranges", None) or ([s] if type(s).__name__ == "RangeSpecifier" else []):
            for v in (r.min, r.max):
                if v is not None:
                    base = Version(f"{v.epoch}!" + ".".join(map(str, v.release)))
                    extra += [base, Version(str(base) + ".1"), Version(f"{v.epoch}!" + ".".join(map(str, list(v.release[:-1]) + [v.release[-1] + 1])))]
        ctx.count("oracle-C04", 1, nontrivial_key=(type(s).__name__, tree[0], _bshape(s)))
        for v in FINALS + extra:
            exp = ref(tree, v)
            try:
                got1 = v in s
                got2 = s.contains(v) if hasattr(s, "contains") else got1
            except Exception as e:  # noqa: BLE001
                ctx.finding(f"contains-raise|{type(e).__name__}|{_bshape(s)}", f"membership raised {type(e).__name__}", {"expr": desc, "version": str(v)}, exp, repr(e))
                break
            if got1 != exp or got2 != exp:
                ctx.finding(f"member|{'tilde-max-post' if _tilde_max_post(s) else _render_form(_safe_str(s))}|{_bshape(s)}|{tree[0]}", "`v in result` differs from the Boolean combination of packaging's answers on the leaves",
                            {"expr": desc, "version": str(v), "result": show(s), "rendered": _safe_str(s)}, exp, [got1, got2])
                break
    # === leaves: same equation or ValueError
    from dep_logic.specifiers import parse_version_specifier
    for a, b in itertools.product(["===1.0", "===abc", "===1.0.0"], [">=1.0", "<1", "==1.0", "", "<empty>", "!=1.0", "===1.0"]):
        for op in ("&", "|"):
            ctx.count("oracle-C04", 1, nontrivial_key=("arb", a, b, op))
            try:
                x, y = parse_version_specifier(a), parse_version_specifier(b)
                r = (x & y) if op == "&" else (x | y)
            except ValueError:
                continue
            except Exception as e:  # noqa: BLE001
                ctx.finding(f"arb-raise|{type(e).__name__}|{a}|{b}|{op}", "=== expression raised something other than ValueError", {"a": a, "b": b, "op": op}, "ValueError or a set", repr(e))
                continue
            for v in ["1.0", "1.0.0", "0.5", "2", "abc"]:
                def m(t):
                    if t == "<empty>":
                        return False
                    if t.startswith("==="):
                        return v == t[3:]
                    try:
                        return SpecifierSet(t).contains(v, prereleases=True)
                    except Exception:  # noqa: BLE001
                        return False
                exp = (m(a) and m(b)) if op == "&" else (m(a) or m(b))
                try:
                    got = r.contains(v) if hasattr(r, "contains") else (v in r)
                except Exception:  # noqa: BLE001
                    continue
                if v != "abc" and got != exp:
                    ctx.finding(f"arb|{a}|{b}|{op}", "=== expression returned a wrong set", {"a": a, "b": b, "op": op, "version": v}, exp, {"result": repr(r), "member": got})
                    break
    ctx.sample({"stream": "oracle-C04", "case": desc})


def _safe_str(s):
    try:
        return str(s)
    except Exception as e:  # noqa: BLE001
        return f"<str failed {type(e).__name__}>"
