"""framework.py — shared run context: findings, broken obligations, decision rule,
evidence and replay files (DESIGN.md section 2)."""
from __future__ import annotations

import hashlib
import json
import os
import re
import signal
import sys
import time
from pathlib import Path

VERIF = Path(__file__).resolve().parent.parent
# runs against a scratch copy of the repository (VERIF_REPO=<dir>, used to try seeded changes) must not overwrite the evidence of /repo
EVIDENCE = VERIF / ("evidence" if os.environ.get("VERIF_REPO", "/repo").rstrip("/") == "/repo" else "_scratch_evidence")
REPLAYS = VERIF / "replays"
KNOWN = VERIF / "known_findings.json"


class Timeout(Exception):
    pass


def _alarm(signum, frame):
    raise Timeout()


def with_timeout(seconds, thunk):
    """run thunk() under SIGALRM; raises Timeout"""
    old = signal.signal(signal.SIGALRM, _alarm)
    signal.setitimer(signal.ITIMER_REAL, seconds)
    try:
        return thunk()
    finally:
        signal.setitimer(signal.ITIMER_REAL, 0)
        signal.signal(signal.SIGALRM, old)


class Ctx:
    def __init__(self, prop: str, tier: str, seed: int):
        self.prop, self.tier, self.seed = prop, tier, seed
        self.t0 = time.time()
        self.findings = []      # concrete failing inputs of the property on the implementation
        self.broken = []        # proof obligations / correspondences that no longer check
        self.coverage = {"evaluations": 0, "distinct_nontrivial": 0, "samples": [], "streams": {}}
        self.obligations = []   # (name, status)
        self.assumptions = []
        self.notes = []
        self.level = "proof"
        self.trusted_base = []
        self.checker_cmd = ""
        self._distinct = set()

    # -- recording
    def finding(self, key: str, what: str, inp, expected=None, observed=None, how="direct oracle on the implementation"):
        """a concrete input on which the implementation violates the property"""
        for f in self.findings:
            if f["key"] == key:
                f["count"] += 1
                return
        self.findings.append({"key": key, "what": what, "input": inp, "expected": expected, "observed": observed,
                              "how_found": how, "count": 1})

    def broke(self, kind: str, name: str, detail: str):
        """a theorem / bridge lemma / translation / correspondence stream that no longer checks"""
        self.broken.append({"kind": kind, "name": name, "detail": detail[-3000:]})

    def count(self, stream: str, n: int = 1, nontrivial_key=None):
        self.coverage["evaluations"] += n
        self.coverage["streams"][stream] = self.coverage["streams"].get(stream, 0) + n
        if nontrivial_key is not None:
            self._distinct.add((stream, nontrivial_key))

    def sample(self, x, limit=6):
        if len(self.coverage["samples"]) < limit:
            self.coverage["samples"].append(x)

    # -- decision
    def finish(self) -> int:
        known = {"known": [], "fixed": []}
        if KNOWN.exists():
            known = json.loads(KNOWN.read_text())
        REPLAYS.mkdir(exist_ok=True)
        EVIDENCE.mkdir(exist_ok=True)
        for stale in REPLAYS.glob(f"{self.prop}-*.json"):   # replays describe this run only
            try:
                stale.unlink()
            except OSError:
                pass
        exit_code = 0
        lines = []
        unknown = []
        for f in self.findings:
            entry = None
            for k in known.get("known", []):
                if k["property"] == self.prop and re.search(k["match"], f["key"]):
                    entry = k
                    break
            if entry is not None:
                line = f"KNOWN-FINDING: property={self.prop} {entry['what']}"
                if line not in lines:
                    lines.append(line)
            else:
                unknown.append(f)
        for f in unknown[:5]:
            h = hashlib.sha1(f["key"].encode()).hexdigest()[:10]
            path = REPLAYS / f"{self.prop}-{h}.json"
            path.write_text(json.dumps({"property": self.prop, **f,
                                        "cmd": f"./check {self.prop} --replay {path}"}, indent=1, default=str))
            lines.append(f"VIOLATION property={self.prop} replay={path}")
            exit_code = 1
        if self.broken and not unknown:
            # property no longer shown to hold; the search found no failing input
            only_known = bool(self.findings)
            path = REPLAYS / f"{self.prop}-unproved.json"
            path.write_text(json.dumps({"property": self.prop, "no_longer_checks": self.broken,
                                        "search": "the direct oracle and the correspondence streams of this run found no "
                                                  "failing input" + (" other than the listed known findings" if only_known else ""),
                                        "coverage": self.coverage["streams"]}, indent=1, default=str))
            lines.append(f"VIOLATION property={self.prop} replay={path} no-failing-input-found")
            exit_code = 1
        elif self.broken and unknown:
            # attach what broke to the first replay for the reader
            pass
        self.coverage["distinct_nontrivial"] = len(self._distinct)
        obligations = len(self.obligations)
        discharged = sum(1 for _, st in self.obligations if st == "ok")
        cov = dict(self.coverage)
        cov.update({
            "obligations": obligations, "discharged": discharged,
            "obligation_list": [{"name": n, "status": s} for n, s in self.obligations],
            "checker_cmd": self.checker_cmd, "trusted_base": self.trusted_base,
            "print_assumptions": self.assumptions,
            "broken": self.broken, "notes": self.notes,
        })
        level = self.level
        if level == "proof" and (obligations == 0 or discharged != obligations):
            # never claim proof level on a run whose proofs did not all check
            level = "other"
            cov["explanation"] = (f"{discharged}/{obligations} proof obligations discharged in this run; "
                                  "reported as 'other' because the proof does not currently check")
        ev = {"property_id": self.prop, "tier": self.tier, "seed": self.seed, "level": level, "coverage": cov,
              "assumptions": self.trusted_base, "wall_s": round(time.time() - self.t0, 2),
              "violations": len(unknown) + (1 if (self.broken and not unknown) else 0),
              "unlisted_findings": [{"key": f["key"], "what": f["what"], "count": f["count"]} for f in unknown[:40]],
              "known_findings_seen": [f["key"] for f in self.findings if f not in unknown]}
        (EVIDENCE / f"{self.prop}.json").write_text(json.dumps(ev, indent=1, default=str))
        for l in lines:
            print(l)
        print(f"[{self.prop}] tier={self.tier} seed={self.seed} evaluations={cov['evaluations']} "
              f"obligations={discharged}/{obligations} findings={len(self.findings)} unknown={len(unknown)} "
              f"broken={len(self.broken)} wall={ev['wall_s']}s exit={exit_code}")
        return exit_code


BASE_TRUST = [
    "Coq 8.16.1 kernel (coqc, full .vo builds; vm_compute used for correspondence evaluation and Examples; no native_compute)",
    "axioms: none declared; Print Assumptions of every property theorem is captured in this evidence",
    "translator /verif/translator/py2coq.py (Python-ast -> Gallina; fail-closed; validated by the S-gen stream of this run)",
    "harness: generators, renderer of Python values to Coq terms, structural-membership oracle",
    "packaging (Version ordering/equality/hash) is modelled by Base/Pep440.v, validated by stream S-ver, not verified",
]
