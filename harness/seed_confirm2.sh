#!/bin/sh
# usage: seed_confirm2.sh <prop-id> <stored-name> ; confirms a round-2 seeded change in its scratch worktree /tmp/seedwt/<prop-id> and stores it under seeded/<stored-name>
set -u
PROP=$1; NAME=$2; WT=/tmp/seedwt/$PROP; OUT=/verif/seeded/$NAME
[ -f $WT/OUT/patch.diff ] || { echo "no patch in $WT/OUT"; exit 1; }
mkdir -p $OUT
cd $WT
git checkout -q -- src 2>/dev/null
export PYTHONPATH=$WT/src PYTHONHASHSEED=0
BASE_DEMO_RC=$(timeout 600 /venv/bin/python OUT/demo.py >/dev/null 2>&1; echo $?)
git apply OUT/patch.diff || { echo "patch does not apply"; exit 1; }
TESTS=$(timeout 900 /venv/bin/python -m pytest -q -p no:cacheprovider --timeout=900 2>&1 | tail -1)
FAILED=$(timeout 900 /venv/bin/python -m pytest -q -p no:cacheprovider --timeout=900 2>&1 | grep '^FAILED' | sort | tr '\n' ' ')
MUT_DEMO=$(timeout 600 /venv/bin/python OUT/demo.py 2>&1 | tail -2)
MUT_DEMO_RC=$(timeout 600 /venv/bin/python OUT/demo.py >/dev/null 2>&1; echo $?)
git checkout -q -- src
cp OUT/patch.diff OUT/demo.py $OUT/
/venv/bin/python - "$NAME" "$PROP" "$TESTS" "$FAILED" "$BASE_DEMO_RC" "$MUT_DEMO_RC" "$MUT_DEMO" "$WT/OUT/meta.json" <<'PY'
import json,sys
name,prop,tests,failed,brc,mrc,mdemo,agentmeta=sys.argv[1:9]
try:
    am=json.load(open(agentmeta))
except Exception:
    am={}
meta={"seed":name,"breaks_property":prop,"description":am.get("description",""),"needs_to_manifest":am.get("needs",""),"why_tests_miss":am.get("why_tests_miss",""),
 "tests_with_change":tests,"failed_tests_with_change":failed,
 "demo_exit_unmodified":int(brc),"demo_exit_with_change":int(mrc),"demo_output_with_change":mdemo,
 "confirmed": ("2477 passed" in tests and "2 failed" in tests and int(brc)==0 and int(mrc)!=0),
 "round": int(__import__("os").environ.get("SEED_ROUND","2")),
 "ran":"in the scratch worktree: demo.py on the unmodified tree; git apply patch.diff; full pytest; demo.py; git checkout"}
json.dump(meta,open(f"/verif/seeded/{name}/meta.json","w"),indent=1)
print(name, "confirmed" if meta["confirmed"] else "NOT CONFIRMED", tests, brc, mrc)
PY
