#!/bin/sh
# usage: seed_confirm.sh <seed-dir-name> <property-id> ; confirms a seeded change in its scratch worktree and stores it
set -u
NAME=$1; PROP=$2; WT=/tmp/seed/$NAME; OUT=/verif/seeded/$NAME
[ -f $WT/patch.diff ] || { echo "no patch in $WT"; exit 1; }
mkdir -p $OUT
cd $WT
git checkout -q -- src 2>/dev/null
export PYTHONPATH=$WT/src PYTHONHASHSEED=0
BASE_DEMO=$(timeout 600 /venv/bin/python demo.py 2>&1 | tail -3); BASE_RC=$?
BASE_DEMO_RC=$(timeout 600 /venv/bin/python demo.py >/dev/null 2>&1; echo $?)
git apply patch.diff || { echo "patch does not apply"; exit 1; }
TESTS=$(timeout 900 /venv/bin/python -m pytest -q -p no:cacheprovider --timeout=900 2>&1 | tail -1)
FAILED=$(timeout 900 /venv/bin/python -m pytest -q -p no:cacheprovider --timeout=900 2>&1 | grep '^FAILED' | sort | tr '\n' ' ')
MUT_DEMO=$(timeout 600 /venv/bin/python demo.py 2>&1 | tail -3)
MUT_DEMO_RC=$(timeout 600 /venv/bin/python demo.py >/dev/null 2>&1; echo $?)
git checkout -q -- src
cp patch.diff demo.py $OUT/
/venv/bin/python - "$NAME" "$PROP" "$TESTS" "$FAILED" "$BASE_DEMO_RC" "$MUT_DEMO_RC" "$MUT_DEMO" <<'PY'
import json,sys
name,prop,tests,failed,brc,mrc,mdemo=sys.argv[1:8]
meta={"seed":name,"breaks_property":prop,"tests_with_change":tests,"failed_tests_with_change":failed,
 "demo_exit_unmodified":int(brc),"demo_exit_with_change":int(mrc),"demo_output_with_change":mdemo,
 "confirmed": ("2477 passed" in tests and "2 failed" in tests and int(brc)==0 and int(mrc)!=0),
 "ran":"in the scratch worktree: demo.py on the unmodified tree; git apply patch.diff; full pytest; demo.py; git checkout"}
json.dump(meta,open(f"/verif/seeded/{name}/meta.json","w"),indent=1)
print(json.dumps(meta,indent=1))
PY
