"""props_all.py — registry of property runners."""
from __future__ import annotations

import random

import props_spec
import props_generic
from framework import BASE_TRUST, Ctx


def run_c14(ctx: Ctx):
    ctx.trusted_base = BASE_TRUST
    thms = ["C14_and_comm", "C14_or_comm", "C14_and_assoc", "C14_or_assoc", "C14_and_idem", "C14_or_idem", "C14_absorb_1",
            "C14_absorb_2", "C14_distr_1", "C14_distr_2", "C14_involution", "C14_demorgan_1", "C14_demorgan_2", "C14_complement"]
    props_spec.proof_step(ctx, "Props/C14.v", thms, extra_targets=["Model/Corr.v"])
    pairs = props_spec.run_c14_spec(ctx)
    if not any(b["kind"] == "translation" for b in ctx.broken):
        props_spec.stream_sgen(ctx, pairs[:600], with_predicates=False)
    try:
        import props_marker
        props_marker.oracle_c14_markers(ctx)
    except ImportError:
        ctx.notes.append("marker part of C14: oracle module not built yet")
    ctx.coverage["rule"] = ("triples of canonical interval sets (as C01) for 13 laws + complement as == of returned objects; "
                            "marker part: truth-table equivalence of both sides on an environment grid")


REGISTRY = {
    "C14": run_c14,
    "C19": props_generic.run_c19,
}


# ------------------------------------------------------------------ marker properties
import props_marker as pm

MARKER_TRUST = [
    "direct property oracle on the implementation (a search for a failing input, not a proof)",
    "packaging's Marker / SpecifierSet as the reference where the property names it",
    "per-case alarm of 4 s on the Python side: timed-out operations are counted, not compared",
]


def _n(ctx, quick, thorough):
    return quick if ctx.tier == "quick" else thorough


def marker_runner(oracle, quick, thorough, rule, explanation):
    def run(ctx: Ctx):
        ctx.level = "other"
        ctx.trusted_base = MARKER_TRUST
        ctx.coverage["explanation"] = explanation
        oracle(ctx, _n(ctx, quick, thorough))
        ctx.coverage["rule"] = rule
    return run


GEN_RULE = ("marker texts from a grammar over well-defined atoms (string variables with ==,!=,in,not in; python_version / "
            "python_full_version / platform_release with comparison, ~=, wildcards, in/not in lists; extra ==/!=; 15-20% literal-on-"
            "the-left), combined by and/or to depth <= 3 with a bias to repeat a variable; environments separate every literal "
            "occurring in the operands; distinct = (operation, operand classes, result class, shared variables)")
PENDING = ("the Coq model of the marker normaliser is not finished: this check currently decides the property only by the direct "
           "oracle on the implementation; see DESIGN.md section 5 for the theorem it will be replaced by")

REGISTRY.update({
    "C02": marker_runner(pm.oracle_c02, 500, 8000, GEN_RULE, PENDING),
    "C03": marker_runner(pm.oracle_c03, 700, 10000, GEN_RULE, PENDING),
    "C07": marker_runner(pm.oracle_c07, 300, 5000, GEN_RULE, PENDING),
    "C10": marker_runner(pm.oracle_c10, 250, 4000, "random histories of parse/&/| over key-equal spelling families followed by a probe; warm result vs result after cache_clear()", PENDING),
    "C11": marker_runner(lambda ctx, n: pm.oracle_c11(ctx), 0, 0, "every operator x operand length x variable atom, every simple specifier as from_specifier input, interpreters X.Y.Z on a grid around the operands", PENDING),
    "C12": marker_runner(pm.oracle_c12, 250, 4000, GEN_RULE, PENDING),
    "C15": marker_runner(pm.oracle_c15, 500, 8000, GEN_RULE, PENDING),
})
